import IoraModel.Common.Bytes
import IoraModel.Gen.HttpRetry
/-!
# Model of the retry loop and connection cache of `include/iora/network/http_client.hpp` (C17)

`performRequest` / `executeRequest` / `acquireConnection` / `dropConnection` / `responseRequestsClose` as a
step system over a *fault script*: for every attempt the environment (peer, kernel, transport, other threads)
answers each question the code asks — was the lease granted, was the cached connection still within the idle
time, did the connect succeed, did the mode switches succeed, did `sendSync` accept the request, and what did each
`receiveSync` + `frameResponse` iteration yield.  Quantifying over scripts quantifies over every failure point of
every attempt.

What the response-framing functions do with the bytes (`frameResponse` and below) is C15's model; here their
*outcome* per receive iteration is an input class (`RecvEv`).

Everything that classifies a failure — which exception type each exit throws, the order of the catch clauses, the
disjuncts of `retryEligible`, the budget comparison, the idempotent-method table, the conjuncts of `reusable` — is
read from `Gen/HttpRetry.lean`, which the translator regenerates from the working tree on every run.
-/
namespace Iora.HttpRetry
open Iora

/-! ## Exception classes -/

/-- dynamic type of an exception object that can leave `executeRequest` -/
inductive Exn where
  | framing      -- HttpFramingError
  | notSent      -- HttpRequestNotSentError
  | runtime      -- std::runtime_error itself
  | invalidArg   -- std::invalid_argument (parseUrl)
  | other        -- any other class derived from std::exception
  deriving DecidableEq, Repr, Inhabited

def Exn.name : Exn → String
  | .framing => "HttpFramingError"
  | .notSent => "HttpRequestNotSentError"
  | .runtime => "std::runtime_error"
  | .invalidArg => "std::invalid_argument"
  | .other => "std::exception"

/-- the exception object constructed by `throw T(...)` -/
def exnOfName (s : String) : Exn :=
  if s = "HttpFramingError" then .framing
  else if s = "HttpRequestNotSentError" then .notSent
  else if s = "std::runtime_error" then .runtime
  else if s = "std::invalid_argument" then .invalidArg
  else .other

/-- the part of the standard hierarchy that is used -/
def stdBases : List (String × String) :=
  [("std::runtime_error", "std::exception"), ("std::invalid_argument", "std::logic_error"),
   ("std::logic_error", "std::exception")]

/-- direct public base of a class: the two classes of http_client.hpp come from the source -/
def baseOf (c : String) : Option String := (Gen.HttpRetry.exnBases ++ stdBases).lookup c

/-- does a handler for `t` (or `dynamic_cast<const t*>`) match an object of class `c`? (`fuel` bounds the chain) -/
def isAName : Nat → String → String → Bool
  | 0, c, t => c == t
  | n + 1, c, t => c == t || (match baseOf c with
      | some b => isAName n b t
      | none => false)

def Exn.isA (e : Exn) (t : String) : Bool := isAName 6 e.name t

/-! ## `isIdempotentMethod` -/

/-- mirrors http_client.hpp::isIdempotentMethod — exact, case-sensitive comparison with each literal -/
def isIdempotent (m : String) : Bool := Gen.HttpRetry.idempotentMethods.contains m

/-! ## `responseRequestsClose` -/

def isOws (b : UInt8) : Bool := b = 32 || b = 9

/-- mirrors CaseInsensitiveCompare::asciiLower -/
def asciiLower (b : UInt8) : UInt8 := if 65 ≤ b ∧ b ≤ 90 then b + 32 else b

/-- `s.find(ch, pos)` -/
def findFrom (p : UInt8 → Bool) : Bytes → Nat → Option Nat
  | [], _ => none
  | x :: xs, 0 => if p x then some 0 else (findFrom p xs 0).map (· + 1)
  | _ :: xs, pos + 1 => (findFrom p xs pos).map (· + 1)

/-- `s.find_last_not_of(set, pos)`: last index `≤ pos` whose byte satisfies `p` -/
def findLastUpTo (p : UInt8 → Bool) (s : Bytes) (pos : Nat) : Option Nat :=
  go (s.take (pos + 1)) 0 none
where
  go : Bytes → Nat → Option Nat → Option Nat
    | [], _, acc => acc
    | x :: xs, i, acc => go xs (i + 1) (if p x then some i else acc)

def tokClose : Bytes := [99, 108, 111, 115, 101]
def tokKeepAlive : Bytes := [107, 101, 101, 112, 45, 97, 108, 105, 118, 101]

/-- the token of the list element `[pos, end_)`: `a = find_first_not_of(" \t", pos)`, `b = find_last_not_of(" \t", end_ - 1)`,
`substr(a, b - a + 1)` ASCII-lower-cased when `a < end_` and `b >= a` -/
def tokenAt (value : Bytes) (pos end_ : Nat) : Option Bytes :=
  let a := findFrom (fun b => !isOws b) value pos
  let b := findLastUpTo (fun b => !isOws b) value (if end_ = 0 then 0 else end_ - 1)
  match a, b with
  | some a, some b => if a < end_ ∧ b ≥ a then some (((value.drop a).take (b - a + 1)).map asciiLower) else none
  | _, _ => none

/-- the token loop of `responseRequestsClose`; returns `(sawClose, sawKeepAlive)`. `fuel` ≥ number of commas + 1. -/
def tokenLoop (value : Bytes) : Nat → Nat → Bool → Bool × Bool
  | 0, _, saw => (false, saw)
  | fuel + 1, pos, saw =>
    if pos > value.length then (false, saw) else
    let comma := findFrom (fun b => decide (b = 44)) value pos
    let end_ := match comma with
      | some c => c
      | none => value.length
    let tok := tokenAt value pos end_
    if tok = some tokClose then (true, saw) else
    let saw' := saw || tok = some tokKeepAlive
    match comma with
    | none => (false, saw')
    | some c => tokenLoop value fuel (c + 1) saw'

/-- mirrors http_client.hpp::responseRequestsClose (`conn` = value of the `Connection` field if present) -/
def responseRequestsClose (conn : Option Bytes) (version : Bytes) : Bool :=
  match conn with
  | some v =>
    let (close, keep) := tokenLoop v (v.length + 1) 0 false
    if close then true else if keep then false else version = [49, 46, 48]
  | none => version = [49, 46, 48]

/-! ## Environment answers (the fault script) -/

/-- what `frameResponse` extracted from a complete response, as far as the reuse decision needs it -/
structure RespInfo where
  status : Nat := 200
  conn : Option Bytes := none     -- `Connection` field value
  version : Bytes := [49, 46, 49]  -- "1.1"
  surplus : Bool := false          -- `forceEvict` set by frameResponse (bytes beyond the framed message)
  deriving DecidableEq, Repr, Inhabited

/-- outcome of one loop iteration: one `receiveSync`, then cap check + `frameResponse` when data arrived -/
inductive RecvEv where
  | more                              -- data; frameResponse: need more
  | complete (r : RespInfo)           -- data; frameResponse: complete (NoBody / Content-Length / chunked)
  | malformed                         -- data; frameResponse throws
  | capExceeded                       -- data; responseData.size() > effectiveCap
  | timeout                           -- TransportError::Timeout
  | overflow                          -- TransportError::BufferOverflow
  | shuttingDown                      -- TransportError::ShuttingDown
  | peerClosed (cd : Option RespInfo) -- TransportError::PeerClosed; `some r` iff headersDone ∧ mode = CloseDelimited
  | otherErr                          -- any other TransportError
  deriving DecidableEq, Repr

inductive LeaseAns where
  | granted | timedOut | closing
  deriving DecidableEq, Repr

inductive ConnAns where
  | ok | refused | timedOut
  deriving DecidableEq, Repr

/-- everything the environment decides during one `executeRequest` call -/
structure Attempt where
  https : Bool := false          -- NOT an answer of the environment: the scheme of the request's URL (the same for every attempt of
                                 -- a request); kept here so that one record holds everything acquireConnection looks at
  lease : LeaseAns := .granted
  cacheFresh : Bool := true      -- `now - lastUsed < connectionIdleTimeout` (asked only if an entry is cached)
  connect : ConnAns := .ok       -- asked only if a connection is opened
  setSync : Bool := true         -- setReadMode(sid, Sync)
  send : Bool := true            -- sendSync(...).isOk()
  recvs : List RecvEv := []      -- one per loop iteration; after the list the peer is silent (next receive times out)
  residue : Bool := false        -- residualDataPending(sid): the transport still holds received bytes that the framer was
                                 -- never handed (surplus behind a message that ended exactly on a read boundary), a peer
                                 -- close or an error; asked only for a connection that is otherwise reusable
  setAsync : Bool := true        -- setReadMode(sid, Async), asked only for a reusable connection
  deriving Repr

/-! ## Client state and observable events -/

abbrev Host := Nat   -- index of a `host:port` key
abbrev Sid := Nat    -- SessionId (the engine hands them out increasing; never reused)

structure Cfg where
  reuse : Bool := Gen.HttpRetry.reuseConnectionsDefault
  deriving Repr

structure Client where
  conns : List (Host × Sid) := []   -- `_connections`: host:port ↦ ConnectionEntry.id
  leased : List Host := []          -- `_leasedHosts`
  nextSid : Sid := 1                -- engine's `_nextSessionId`
  tls : List (Sid × Bool) := []     -- ConnectionEntry.tls of every session ever published (true = TlsMode::Client)
  deriving Repr, DecidableEq

/-- calls the requesting thread makes on the engine, plus lease bookkeeping -/
inductive Ev where
  | connect (h : Host) (sid : Sid)   -- engine->connect (inside connectSync)
  | send (sid : Sid)                 -- engine->send (inside sendSync): the request is handed to the transport
  | close (sid : Sid)                -- engine->close
  | acquire (h : Host)
  | release (h : Host)
  deriving DecidableEq, Repr

def eraseHost (h : Host) (l : List (Host × Sid)) : List (Host × Sid) := l.filter (fun p => p.1 ≠ h)

/-- mirrors http_client.hpp::dropConnection -/
def dropConnection (c : Client) (h : Host) (sid : Sid) : Client × List Ev :=
  ({ c with conns := if c.conns.lookup h = some sid then eraseHost h c.conns else c.conns }, [.close sid])

/-- steps (2)–(4) of acquireConnection: open a new connection with `connectSync`, publish it (with its TLS mode) on success -/
def connectNew (c : Client) (h : Host) (a : Attempt) : Client × Except Exn Sid × List Ev :=
  let sid := c.nextSid
  let c2 : Client := { c with nextSid := sid + 1 }
  match a.connect with
  | .ok => ({ c2 with conns := (h, sid) :: eraseHost h c2.conns, tls := (sid, a.https) :: c2.tls }, .ok sid, [.connect h sid])
  | .refused => (c2, .error (exnOfName Gen.HttpRetry.connectFailThrow), [.connect h sid])
  | .timedOut => (c2, .error (exnOfName Gen.HttpRetry.connectFailThrow), [.connect h sid, .close sid])

/-- the reuse test of step (1): `it->second.tls == tlsMode && now - lastUsed < connectionIdleTimeout` -/
def entryUsable (c : Client) (sid : Sid) (a : Attempt) : Bool :=
  (c.tls.lookup sid == some a.https) && a.cacheFresh

/-- mirrors http_client.hpp::acquireConnection -/
def acquireConnection (c : Client) (h : Host) (a : Attempt) : Client × Except Exn Sid × List Ev :=
  match c.conns.lookup h with
  | some sid =>
    if entryUsable c sid a then (c, .ok sid, [])               -- (1) reuse
    else                                                       -- other TLS mode or idle: close + evict, then reconnect
      let (c', r, ev) := connectNew { c with conns := eraseHost h c.conns } h a
      (c', r, .close sid :: ev)
  | none => connectNew c h a

/-- mirrors http_client.hpp::executeRequest, the `try` of the pre-send region: acquireConnection, then setReadMode(Sync) -/
def preSend (c : Client) (h : Host) (a : Attempt) : Client × Except Exn Sid × List Ev :=
  match acquireConnection c h a with
  | (c1, .error e, ev) => (c1, .error e, ev)
  | (c1, .ok sid, ev) =>
    if a.setSync then (c1, .ok sid, ev)
    else
      let (c2, ev2) := dropConnection c1 h sid
      (c2, .error (exnOfName Gen.HttpRetry.setSyncFailThrow), ev ++ ev2)

/-- the catch clauses of the pre-send region, tried in source order -/
def wrapPreSendGo (e : Exn) : List (String × String × String) → Exn
  | [] => e
  | (t, act, w) :: rest => if e.isA t then (if act = "wrap" then exnOfName w else e) else wrapPreSendGo e rest

def wrapPreSend (e : Exn) : Exn := wrapPreSendGo e Gen.HttpRetry.preSendCatch

/-- result of the receive loop -/
inductive RecvRes where
  | done (r : RespInfo) (forceEvict closeDelimited : Bool)
  | fail (e : Exn)
  deriving DecidableEq, Repr

/-- the branch of the receive chain taken for a TransportError code (codes without a branch of their own fall
through to the final `isErr()` branch) -/
def recvBranch (code : String) : Option (String × String) :=
  match Gen.HttpRetry.recvBranches.lookup code with
  | some x => some x
  | none => Gen.HttpRetry.recvBranches.lookup "other"

/-- effect of an error branch; `none` = no branch fires, the loop iterates again -/
def recvErr (code : String) (cd : Option RespInfo) : Option RecvRes :=
  match recvBranch code with
  | some (kind, t) =>
    if kind = "throw" then some (.fail (exnOfName t))
    else if kind = "closeDelimitedElse" then
      (match cd with
       | some r => some (.done r true true)
       | none => some (.fail (exnOfName t)))
    else none
  | none => none

/-- the exception a framing function throws -/
def framingExn : Exn :=
  match Gen.HttpRetry.framingFnThrows with
  | [t] => exnOfName t
  | _ => .other

def errCode : RecvEv → String
  | .timeout => "Timeout"
  | .overflow => "BufferOverflow"
  | .shuttingDown => "ShuttingDown"
  | .peerClosed _ => "PeerClosed"
  | _ => "Socket"

/-- mirrors http_client.hpp::executeRequest, the `while (!complete)` receive loop. Second component: number of `receiveSync` calls made. -/
def recvLoop : List RecvEv → Nat → RecvRes × Nat
  | [], n =>
    -- the peer is silent from here on: the next receiveSync times out
    (match recvErr "Timeout" none with
     | some r => (r, n + 1)
     | none => (.fail .other, n + 1))
  | ev :: rest, n =>
    match ev with
    | .more => recvLoop rest (n + 1)
    | .complete r => (.done r r.surplus false, n + 1)
    | .malformed => (.fail framingExn, n + 1)
    | .capExceeded => (.fail (exnOfName Gen.HttpRetry.capThrow), n + 1)
    | .peerClosed cd =>
      (match recvErr "PeerClosed" cd with
       | some r => (r, n + 1)
       | none => recvLoop rest (n + 1))
    | e =>
      (match recvErr (errCode e) none with
       | some r => (r, n + 1)
       | none => recvLoop rest (n + 1))

/-- one conjunct of `reusable` -/
def evalReuse (cfg : Cfg) (r : RespInfo) (forceEvict closeDelimited residue : Bool) (atom : String) : Bool :=
  if atom = "reuseConnections" then cfg.reuse
  else if atom = "notCloseSignalled" then !responseRequestsClose r.conn r.version
  else if atom = "notForceEvict" then !forceEvict
  else if atom = "notCloseDelimited" then !closeDelimited
  else if atom = "noResidue" then !residue
  else true

/-- `reusable`: the conjunction in source order (`residue` = answer of the residual-data probe, its last conjunct) -/
def reusable (cfg : Cfg) (r : RespInfo) (forceEvict closeDelimited residue : Bool) : Bool :=
  Gen.HttpRetry.reusableAtoms.all (evalReuse cfg r forceEvict closeDelimited residue)

/-- what one `executeRequest` call did -/
structure AttemptLog where
  result : Except Exn RespInfo
  reachedSend : Bool     -- sendSync was called: the request may be on the wire
  receives : Nat         -- number of receiveSync calls
  deriving Repr

/-- mirrors http_client.hpp::executeRequest, the part that runs while the lease is held (pre-send region, sendSync,
receive loop, reuse decision, eviction on every failure) -/
def underLease (cfg : Cfg) (c : Client) (h : Host) (a : Attempt) : Client × AttemptLog × List Ev :=
  match preSend c h a with
  | (c1, .error e, ev) => (c1, ⟨.error (wrapPreSend e), false, 0⟩, ev)
  | (c1, .ok sid, ev) =>
    if !a.send then
      let (c2, ev2) := dropConnection c1 h sid
      (c2, ⟨.error (exnOfName Gen.HttpRetry.sendFailThrow), true, 0⟩, ev ++ [.send sid] ++ ev2)
    else
      match recvLoop a.recvs 0 with
      | (.fail e, n) =>
        let (c2, ev2) := dropConnection c1 h sid
        (c2, ⟨.error e, true, n⟩, ev ++ [.send sid] ++ ev2)
      | (.done r fe cd, n) =>
        if reusable cfg r fe cd a.residue && a.setAsync then
          (c1, ⟨.ok r, true, n⟩, ev ++ [.send sid])
        else
          let (c2, ev2) := dropConnection c1 h sid
          (c2, ⟨.ok r, true, n⟩, ev ++ [.send sid] ++ ev2)

/-- mirrors http_client.hpp::executeRequest (`urlOk` = parseUrl accepts the URL; `h` = its host:port key) -/
def executeRequest (cfg : Cfg) (c : Client) (urlOk : Bool) (h : Host) (a : Attempt) : Client × AttemptLog × List Ev :=
  if !urlOk then (c, ⟨.error (exnOfName Gen.HttpRetry.urlFailThrow), false, 0⟩, [])
  else match a.lease with
    | .timedOut => (c, ⟨.error (exnOfName Gen.HttpRetry.leaseFailThrow), false, 0⟩, [])
    | .closing => (c, ⟨.error (exnOfName Gen.HttpRetry.leaseFailThrow), false, 0⟩, [])
    | .granted =>
      let c0 := { c with leased := h :: c.leased }
      let (c1, log, ev) := underLease cfg c0 h a
      ({ c1 with leased := c1.leased.erase h }, log, [.acquire h] ++ ev ++ [.release h])

/-! ## `performRequest` -/

inductive CatchAct where
  | rethrow | retry | uncaught
  deriving DecidableEq, Repr

/-- the first catch clause of performRequest (source order) whose type matches -/
def dispatchGo (e : Exn) : List String → List String → CatchAct
  | t :: ts, a :: as =>
    if e.isA t then (if a = "rethrow" then .rethrow else if a = "retry" then .retry else .uncaught)
    else dispatchGo e ts as
  | _, _ => .uncaught

def dispatch (e : Exn) : CatchAct := dispatchGo e Gen.HttpRetry.performCatchOrder Gen.HttpRetry.performCatchActions

def evalAtom (m : String) (e : Exn) (atom : String × String) : Bool :=
  if atom.1 = "idempotent" then isIdempotent m
  else if atom.1 = "isa" then e.isA atom.2
  else false

/-- `retryEligible` -/
def retryEligible (m : String) (e : Exn) : Bool := Gen.HttpRetry.retryEligibleAtoms.any (evalAtom m e)

/-- `attempt >= retries` (comparison operator from the source; `retries` is a signed int) -/
def budgetExhausted (attempt : Nat) (retries : Int) : Bool :=
  if Gen.HttpRetry.budgetCmp = ">=" then decide ((attempt : Int) ≥ retries) else decide ((attempt : Int) > retries)

structure Request where
  method : String
  urlOk : Bool := true
  host : Host := 0
  retries : Int := 0
  script : Nat → Attempt     -- the environment's answers for attempt 0, 1, 2, …

structure Run where
  client : Client
  result : Except Exn RespInfo
  evs : List Ev
  log : List AttemptLog      -- one entry per executeRequest call, in order
  fuelOut : Bool := false    -- the model's recursion bound was hit (theorem: never, when fuel ≥ budget + 2)

/-- mirrors http_client.hpp::performRequest, the `while (true)` loop; `attempt` is the C++ variable of the same name -/
def performLoop (cfg : Cfg) (rq : Request) : Nat → Nat → Client → Run
  | 0, _, c => { client := c, result := .error .other, evs := [], log := [], fuelOut := true }
  | fuel + 1, attempt, c =>
    let (c1, lg, ev) := executeRequest cfg c rq.urlOk rq.host (rq.script attempt)
    match lg.result with
    | .ok r => { client := c1, result := .ok r, evs := ev, log := [lg] }
    | .error e =>
      match dispatch e with
      | .rethrow => { client := c1, result := .error e, evs := ev, log := [lg] }
      | .uncaught => { client := c1, result := .error e, evs := ev, log := [lg] }
      | .retry =>
        if !retryEligible rq.method e then { client := c1, result := .error e, evs := ev, log := [lg] }
        else if budgetExhausted attempt rq.retries then { client := c1, result := .error e, evs := ev, log := [lg] }
        else
          let r := performLoop cfg rq fuel (attempt + 1) c1
          { r with evs := ev ++ r.evs, log := lg :: r.log }

/-- mirrors http_client.hpp::performRequest -/
def performRequest (cfg : Cfg) (c : Client) (rq : Request) : Run :=
  performLoop cfg rq (rq.retries.toNat + 2) 0 c

/-- a sequence of requests issued one after the other on one client (keep-alive sequences) -/
def runRequests (cfg : Cfg) : Client → List Request → Client × List Ev × List Run
  | c, [] => (c, [], [])
  | c, rq :: rqs =>
    let r := performRequest cfg c rq
    let (c', evs, rs) := runRequests cfg r.client rqs
    (c', r.evs ++ evs, r :: rs)

/-- back-off before retry number `attempt + 1`: `(1 << attempt) * base + jitter` ms, jitter ∈ [lo, hi] -/
def backoffExp (attempt : Nat) : Nat :=
  if Gen.HttpRetry.backoffShiftCap = 0 then attempt else min attempt Gen.HttpRetry.backoffShiftCap
def backoffLo (attempt : Nat) : Nat := 2 ^ backoffExp attempt * Gen.HttpRetry.backoffBaseMs + Gen.HttpRetry.jitterLo
def backoffHi (attempt : Nat) : Nat := 2 ^ backoffExp attempt * Gen.HttpRetry.backoffBaseMs + Gen.HttpRetry.jitterHi

/-! ## Public entry points (table from the source) -/

/-- the method a public entry point hands to `performRequest`, following delegations (`getAsync → get → performRequest("GET")`).
The translator guarantees for every row: exactly one request-issuing call, outside try/catch and loops, with the caller's
`retries` passed on unchanged — so a public call IS one `performRequest` with this method and the caller's budget. -/
def entryMethod : Nat → String → Option String
  | 0, _ => none
  | n + 1, fn =>
    match Gen.HttpRetry.entryPoints.find? (fun e => e.1 == fn) with
    | some (_, callee, m, _) => if callee = "performRequest" then some m else entryMethod n callee
    | none => none

/-- a call of the public function `fn` with budget `rq.retries` (`rq.method` is ignored: the entry point fixes the method) -/
def publicCall (cfg : Cfg) (c : Client) (fn : String) (rq : Request) : Option Run :=
  (entryMethod 4 fn).map fun m => performRequest cfg c { rq with method := m }

/-! ## Timed waits (R6) -/

structure Timeouts where
  request : Nat := Gen.HttpRetry.requestTimeoutMs
  connect : Nat := Gen.HttpRetry.connectTimeoutMs
  lease : Nat := Gen.HttpRetry.leaseAcquireTimeoutMs

/-- value of a time-out expression of the source (`Gen.timedWaits`), for a loopback peer -/
def evalWait (t : Timeouts) (expr : String) : Option Nat :=
  if expr = "requestTimeout" then some t.request
  else if expr = "leaseAcquireTimeout" then some t.lease
  else if expr = "localMinConnectTimeoutCap" then some (min t.connect Gen.HttpRetry.localConnectCapMs)
  else if expr = "zero" then some 0
  else none

/-- milliseconds the caller is prepared to wait in the timed wait `w` ∈ lease | connect | receive | probe -/
def waitMs (t : Timeouts) (w : String) : Option Nat := (Gen.HttpRetry.timedWaits.lookup w).bind (evalWait t)

/-- which timed wait of an attempt ends by its time-out, if any (specification of the attempt's silent phase) -/
def timedOutWait (c : Client) (urlOk : Bool) (h : Host) (a : Attempt) : Option String :=
  if !urlOk then none else
  match a.lease with
  | .timedOut => some "lease"
  | .closing => none
  | .granted =>
    let opens : Bool := match c.conns.lookup h with
      | some sid => !entryUsable c sid a
      | none => true
    if opens && a.connect = .timedOut then some "connect"
    else if opens && a.connect = .refused then none
    else if !a.setSync || !a.send then none
    else match a.recvs.dropWhile (fun e => match e with | .more => true | _ => false) with
      | [] => some "receive"
      | .timeout :: _ => some "receive"
      | _ => none


/-! ## Trace predicates used by the theorems (specification side, nothing here mirrors code) -/

def isSend : Ev → Bool
  | .send _ => true
  | _ => false

/-- session ids closed so far, after the events `evs` (starting from the set `cl`) -/
def closedAfter (cl : List Sid) : List Ev → List Sid
  | [] => cl
  | .close s :: es => closedAfter (s :: cl) es
  | _ :: es => closedAfter cl es

/-- no session id is connected or sent on after it has been closed (evicted) -/
def wellUsed (cl : List Sid) : List Ev → Prop
  | [] => True
  | .send s :: es => s ∉ cl ∧ wellUsed cl es
  | .connect _ s :: es => s ∉ cl ∧ wellUsed cl es
  | .close s :: es => wellUsed (s :: cl) es
  | _ :: es => wellUsed cl es

/-- cache invariant relative to the set `cl` of session ids closed so far -/
structure Inv (cl : List Sid) (c : Client) : Prop where
  keys : (c.conns.map (·.1)).Nodup            -- at most one cached connection per host:port
  sids : (c.conns.map (·.2)).Nodup            -- no session cached under two hosts
  live : ∀ p ∈ c.conns, p.2 ∉ cl ∧ p.2 < c.nextSid   -- a cached session was never closed
  old : ∀ s ∈ cl, s < c.nextSid

end Iora.HttpRetry
