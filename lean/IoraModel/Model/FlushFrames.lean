import IoraModel.Gen.TeardownSkel
/-!
# Model of the per-thread flush-frame stack across SEVERAL transports (C05, FC05a follow-up)

Mirrors `include/iora/network/transport_impl.hpp`: `Impl::FlushFrame` (an intrusive per-thread stack: a data callback of a
`setReadMode(Async)` flush may start a nested flush of another session — of the SAME or of ANOTHER transport),
`Impl::releaseOwnFlushes`, the flusher branch and the ordinary branch of `Transport::~Transport`, `~FlushFrame` / `~FlushGuard`
when a flush loop unwinds.  `Model/Teardown.lean` has one transport and therefore one frame per thread; this model is the
complement: ONE application thread, any number of transports (`impl : Nat`), arbitrary nesting of their flushes on the thread's
stack, the last reference of any transport dropped inside any callback.  Callers of other threads are the counter `others d`
(they can only leave: the entry fence).

One step = what the thread does next inside the innermost callback (`push d`: it calls `setReadMode(…, Async)` of transport `d`,
whose flush invokes its data callback; `release d`: it drops the last reference of `d`, `~Transport(d)` runs up to its wait;
`pop`: the innermost callback returns and its flush loop unwinds), the destructor's predicate check (`dtorWake`), or a caller of
another thread leaving (`otherLeave d`).

The walk of `releaseOwnFlushes` is TAKEN from the regenerated skeleton (`Gen.TeardownSkel.releaseWalkFilters`): a filter over
the whole stack (as written) or a take-while (test in the loop condition).  `stepW` has the walk as a parameter so that the
take-while variant can be refuted (`Props/C05.lean::takeWhile_walk_deadlocks`).

Environment contract (`ok`): no call on a transport whose last reference has been dropped (`this` is gone), and the last
reference is dropped once.
-/
namespace Iora.FlushFrames
open Iora.Gen

structure Frame where
  impl : Nat
  guard : Bool := true        -- its FlushGuard is alive: the flush is counted in `activeFlushes` of `impl`
  orphaned : Bool := false    -- `~Transport(impl)` ran inside this flush's callback: `~FlushFrame` deletes `Impl`
  deriving DecidableEq, Repr

inductive Ev
  | ret (impl : Nat) (ok : Bool)     -- a flush returned (`false`: it met the fence)
  | deleted (impl : Nat)             -- `~Impl`
  | dtorReturned (impl : Nat)        -- `~Transport` returned
  deriving DecidableEq, Repr

structure State where
  stack : List Frame := []                 -- the thread's FlushFrame stack, innermost first
  flushes : Nat → Nat := fun _ => 0        -- `Impl::activeFlushes` (this thread's flushes with a live guard)
  others : Nat → Nat := fun _ => 0         -- callers of other threads counted by the gate of each transport
  alive : Nat → Bool := fun _ => true      -- `Impl` not yet deleted
  fence : Nat → Bool := fun _ => false     -- `shuttingDown`
  released : Nat → Bool := fun _ => false  -- the last reference has been dropped (ghost)
  dtor : Option (Nat × Bool) := none       -- the thread is inside `~Transport(d)`, in `teardownWaitOut`; flag: the flusher branch was taken
  uaf : Bool := false                      -- `Impl` touched after its deletion
  log : List Ev := []

inductive Step
  | push (d : Nat)          -- `setReadMode(sid, Async)` of transport `d` from the innermost callback (or from outside any): frame + guard, callback invoked
  | release (d : Nat)       -- the innermost callback drops the last reference of `d`
  | dtorWake                -- `teardownCv` predicate check of the destructor
  | otherLeave (d : Nat)    -- a caller of another thread leaves transport `d`
  | pop                     -- the innermost callback returns; its flush loop unwinds (`~FlushFrame`, `~FlushGuard`)
  deriving Repr

/-- mirrors transport_impl.hpp::Transport::Impl::releaseOwnFlushes — which frames the walk visits AND matches, innermost first -/
def mask (filt : Bool) (d : Nat) : List Frame → List Bool
  | [] => []
  | f :: rest =>
    if f.impl = d then true :: mask filt d rest
    else if filt then false :: mask filt d rest      -- filter: skip the frame of another transport, go on
    else (f :: rest).map fun _ => false              -- take-while: the loop ends here

/-- `f->guard.reset()` for every matched frame -/
def resetGuards : List Bool → List Frame → List Frame
  | true :: m, f :: rest => { f with guard := false } :: resetGuards m rest
  | false :: m, f :: rest => f :: resetGuards m rest
  | _, l => l

/-- live guards among the matched frames (each `reset` decrements `activeFlushes`) -/
def liveMatched : List Bool → List Frame → Nat
  | true :: m, f :: rest => (if f.guard then 1 else 0) + liveMatched m rest
  | false :: m, _ :: rest => liveMatched m rest
  | _, _ => 0

/-- `outer->orphaned = true` for the LAST matched frame (`outer = f` is overwritten on every match) -/
def orphanLast : List Bool → List Frame → List Frame
  | true :: m, f :: rest => if m.any id then f :: orphanLast m rest else { f with orphaned := true } :: rest
  | false :: m, f :: rest => f :: orphanLast m rest
  | _, l => l

def upd (g : Nat → α) (d : Nat) (v : α) : Nat → α := fun x => if x = d then v else g x

def touch (s : State) (d : Nat) : State := if s.alive d then s else { s with uaf := true }

/-- mirrors transport_impl.hpp::Transport::~Transport — `releaseOwnFlushes()`, then (either branch) `performTeardown()` up to the wait -/
def doRelease (filt : Bool) (s : State) (d : Nat) : State :=
  match s.dtor with
  | some _ => s                       -- the thread is blocked in a destructor
  | none =>
    let s := touch s d
    let m := mask filt d s.stack
    { s with stack := resetGuards m s.stack, flushes := upd s.flushes d (s.flushes d - liveMatched m s.stack),
             released := upd s.released d true, fence := upd s.fence d true, dtor := some (d, m.any id) }

/-- mirrors transport_impl.hpp::Transport::Impl::teardownWaitOut (predicate) and the end of `~Transport`: the flusher branch leaves
`Impl` to the outermost own frame, the ordinary branch runs `~Impl` now -/
def doDtorWake (filt : Bool) (s : State) : State :=
  match s.dtor with
  | none => s
  | some (d, own) =>
    if s.flushes d == 0 && s.others d == 0 then
      if own then { s with stack := orphanLast (mask filt d s.stack) s.stack, dtor := none, log := s.log ++ [.dtorReturned d] }
      else { s with alive := upd s.alive d false, dtor := none, log := s.log ++ [.deleted d, .dtorReturned d] }
    else s

/-- mirrors transport_impl.hpp::Transport::setReadMode — entry fence, FlushGuard + FlushFrame, the data callback is invoked -/
def doPush (s : State) (d : Nat) : State :=
  match s.dtor with
  | some _ => s
  | none =>
    let s := touch s d
    if s.fence d then { s with log := s.log ++ [.ret d false] }
    else { s with stack := { impl := d } :: s.stack, flushes := upd s.flushes d (s.flushes d + 1) }

/-- mirrors transport_impl.hpp::Transport::setReadMode — the callback returns, the loop's next section (on `Impl`, through the local
pointer), `~FlushFrame` (pop; an orphaned frame deletes `Impl`) after `~FlushGuard` -/
def doPop (s : State) : State :=
  match s.dtor, s.stack with
  | none, f :: rest =>
    let s := touch s f.impl
    let s := { s with stack := rest, flushes := upd s.flushes f.impl (s.flushes f.impl - (if f.guard then 1 else 0)),
                      log := s.log ++ [.ret f.impl (!s.fence f.impl)] }
    if f.orphaned then { s with alive := upd s.alive f.impl false, log := s.log ++ [.deleted f.impl] } else s
  | _, _ => s

def stepW (filt : Bool) (s : State) : Step → State
  | .push d => doPush s d
  | .release d => doRelease filt s d
  | .dtorWake => doDtorWake filt s
  | .otherLeave d => { s with others := upd s.others d (s.others d - 1) }
  | .pop => doPop s

/-- the walk as written in the source -/
def walkFilters : Bool := TeardownSkel.releaseWalkFilters
def step (s : State) (st : Step) : State := stepW walkFilters s st

def runW (filt : Bool) (s : State) : List Step → State
  | [] => s
  | st :: rest => runW filt (stepW filt s st) rest
def run (s : State) (l : List Step) : State := runW walkFilters s l

/-- environment contract: no call on a transport whose last reference has been dropped; the last reference is dropped once -/
def ok (s : State) : Step → Bool
  | .push d => !s.released d
  | .release d => !s.released d
  | _ => true

def Disciplined : State → List Step → Prop
  | _, [] => True
  | s, st :: rest => ok s st = true ∧ Disciplined (step s st) rest

def disciplinedB : State → List Step → Bool
  | _, [] => true
  | s, st :: rest => ok s st && disciplinedB (step s st) rest

/-- initial state: no flush in progress, `others d` callers of other threads inside transport `d` -/
def mk (others : Nat → Nat) : State := { others := others }

end Iora.FlushFrames
