import IoraModel.Common.Bytes
import IoraModel.Gen.HttpRespond
/-
Byte-string vocabulary of the HTTP response path (C16): ASCII helpers, `std::getline` splitting, decimal rendering
(`std::to_string`, `operator<<(int)`), and `HttpHeaders` = `std::map<std::string, std::string, CaseInsensitiveCompare>`
(include/iora/parsers/http_message.hpp) as a key-ordered association list.
Core Lean only.
-/
namespace Iora.HttpRespond
open Iora

/-- a C++ narrow string literal as bytes (the literals used here are printable ASCII; the translator refuses others) -/
def ascii (s : String) : Bytes := s.toList.map (fun c => UInt8.ofNat c.toNat)

def CR : UInt8 := 13
def LF : UInt8 := 10
def crlf : Bytes := [13, 10]
def crlf2 : Bytes := [13, 10, 13, 10]

/-- `" \t"` of `find_first_not_of / find_last_not_of` -/
def isOWS (c : UInt8) : Bool := c == 32 || c == 9
def trimLeft (s : Bytes) : Bytes := s.dropWhile isOWS
def trimRight (s : Bytes) : Bytes := (s.reverse.dropWhile isOWS).reverse
/-- mirrors the `erase(0, find_first_not_of(" \t")); erase(find_last_not_of(" \t") + 1)` idiom -/
def trim (s : Bytes) : Bytes := trimRight (trimLeft s)

/-- `CaseInsensitiveCompare::asciiLower`, and `::tolower` in the "C" locale -/
def asciiLower (c : UInt8) : UInt8 := if 65 ≤ c.toNat ∧ c.toNat ≤ 90 then c + 32 else c
def lower (s : Bytes) : Bytes := s.map asciiLower

def isDigit (c : UInt8) : Bool := decide (48 ≤ c.toNat ∧ c.toNat ≤ 57)

/-- split at every `sep`: `n` separators give `n + 1` pieces -/
def splitOn (sep : UInt8) : Bytes → List Bytes
  | [] => [[]]
  | c :: cs =>
    if c == sep then [] :: splitOn sep cs
    else match splitOn sep cs with
      | [] => [[c]]
      | p :: ps => (c :: p) :: ps

def dropLastEmpty : List Bytes → List Bytes
  | [] => []
  | [p] => if p.isEmpty then [] else [p]
  | p :: ps => p :: dropLastEmpty ps

/-- the sequence of strings `while (std::getline(stream, line, sep))` yields: like `splitOn`, but a final empty piece
    (input empty, or ending in `sep`) is not delivered -/
def getlines (sep : UInt8) (s : Bytes) : List Bytes := dropLastEmpty (splitOn sep s)

/-- `s.find(sep)` split: text before the first `sep` and text after it -/
def splitFirst (sep : UInt8) : Bytes → Option (Bytes × Bytes)
  | [] => none
  | c :: cs =>
    if c == sep then some ([], cs)
    else match splitFirst sep cs with
      | none => none
      | some (a, b) => some (c :: a, b)

/-- `s.find(pat)` split for a multi-byte pattern: text before the first occurrence and text after it -/
def splitAtSub (pat : Bytes) : Bytes → Option (Bytes × Bytes)
  | [] => if pat.isEmpty then some ([], []) else none
  | c :: cs =>
    if pat.isPrefixOf (c :: cs) then some ([], (c :: cs).drop pat.length)
    else match splitAtSub pat cs with
      | none => none
      | some (a, b) => some (c :: a, b)

/-- decimal digits of `n`, most significant first, with explicit fuel (`fuel > n` always suffices) -/
def decF : Nat → Nat → Bytes
  | 0, _ => []
  | f + 1, n => if n < 10 then [b8 (48 + n)] else decF f (n / 10) ++ [b8 (48 + n % 10)]
/-- `std::to_string(std::size_t)` -/
def dec (n : Nat) : Bytes := decF (n + 1) n
/-- `ostream << int` -/
def decInt (i : Int) : Bytes := if i < 0 then 45 :: dec i.natAbs else dec i.natAbs

/-- value of a non-empty all-digit string -/
def parseDec (s : Bytes) : Option Nat :=
  if s.isEmpty || !s.all isDigit then none
  else some (s.foldl (fun a c => a * 10 + (c.toNat - 48)) 0)

/-! ### `HttpHeaders` -/

/-- order key of one byte under `CaseInsensitiveCompare`: the lambda compares `asciiLower(x) < asciiLower(y)` as
    (signed) `char`, so bytes >= 0x80 sort before ASCII -/
def ck (c : UInt8) : Nat :=
  let l := (asciiLower c).toNat
  if l < 128 then l + 128 else l - 128

/-- `CaseInsensitiveCompare::operator()` = `std::lexicographical_compare` with the element order above -/
def ciLess : Bytes → Bytes → Bool
  | _, [] => false
  | [], _ :: _ => true
  | a :: as, b :: bs => if ck a < ck b then true else if ck b < ck a then false else ciLess as bs

/-- equivalence of keys in the map: neither is less -/
def ciEq (a b : Bytes) : Bool := !ciLess a b && !ciLess b a

abbrev Headers := List (Bytes × Bytes)

/-- `headers.find(k)` -/
def hFind : Headers → Bytes → Option Bytes
  | [], _ => none
  | (k', v') :: t, k => if ciEq k' k then some v' else hFind t k

/-- `headers[k] = v` (an existing equivalent key keeps its spelling; a new key is inserted in order) -/
def hSet : Headers → Bytes → Bytes → Headers
  | [], k, v => [(k, v)]
  | (k', v') :: t, k, v =>
    if ciLess k k' then (k, v) :: (k', v') :: t
    else if ciLess k' k then (k', v') :: hSet t k v
    else (k', v) :: t

/-- `headers.erase(k)` -/
def hErase (h : Headers) (k : Bytes) : Headers := h.filter (fun e => !ciEq e.1 k)

end Iora.HttpRespond
