import IoraModel.Model.KvMap
import IoraModel.Gen.Kv
/-!
# KVStore on-disk format, replay and the file-system crash model (C11; shared with C12)

Mirrors `include/iora/storage/kvstore.hpp`: `writeLogEntry`, `writeHeader`, `writeKeyValue`, `crc32`, `load`.
Times are epoch milliseconds (`Int`).  `crc` is a parameter everywhere: no theorem needs anything about it.
-/
namespace Iora.Kv
open Iora

/-! ## limits and constants (instantiated from `Gen/Kv.lean`) -/

structure Lim where
  /-- `MAX_KEY_LENGTH`, `MAX_VALUE_LENGTH` (what `validateKeyValue` admits) -/
  maxKey : Nat
  maxVal : Nat
  /-- bounds applied by `load` to a record: key length, value length, `totalLen` range -/
  ldKey : Nat
  ldVal : Nat
  ldMin : Nat
  ldMax : Nat
  /-- `KVStoreConfig::magicNumber` -/
  magic : Nat
  /-- `kMaxPlausibleEpochMs` -/
  maxPlausible : Int
  /-- last whole millisecond a `system_clock::time_point` can hold -/
  tpMax : Int
  /-- capacity of the snapshot's entry-count field (`uint32_t count`): `compactLocked` refuses to write more entries -/
  snapCountMax : Nat
  /-- `kMinSnapshotEntryBytes`: `load` refuses a count the rest of the snapshot file cannot hold at this many bytes per entry -/
  snapMinEntry : Nat

/-- `NO_EXPIRY_SENTINEL` = INT64_MIN -/
def sentinel : Int := -9223372036854775808

def Lim.gen : Lim where
  maxKey := Gen.Kv.maxKeyLength
  maxVal := Gen.Kv.maxValueLength
  ldKey := Gen.Kv.loadKeyLenMax
  ldVal := Gen.Kv.loadValLenMax
  ldMin := Gen.Kv.loadTotalLenMin
  ldMax := Gen.Kv.loadTotalLenMax
  magic := Gen.Kv.magicDefault
  maxPlausible := Gen.Kv.maxPlausibleEpochMs
  tpMax := Gen.Kv.timePointMaxMs
  snapCountMax := Gen.Kv.snapCountFieldMax
  snapMinEntry := Gen.Kv.snapMinEntryBytes

/-- What the proofs need from the limits: everything the API admits is re-admitted by `load`. -/
structure Lim.OK (l : Lim) : Prop where
  key : l.maxKey ≤ l.ldKey
  val : l.maxVal ≤ l.ldVal
  min : l.ldMin ≤ 10
  /-- the largest record `writeLogEntry` can produce: op + keyLen + key + expiry + valLen + value + crc -/
  max : 1 + 4 + l.maxKey + 8 + 4 + l.maxVal + 4 ≤ l.ldMax
  u32 : l.ldMax < 2 ^ 32
  magic : l.magic < 2 ^ 32
  plaus : l.maxPlausible < 2 ^ 63
  plausPos : 1 ≤ l.maxPlausible
  /-- every plausible expiry is representable: `fromEpochMs` cannot overflow on a value `load` accepts -/
  rep : l.maxPlausible ≤ l.tpMax
  count : l.snapCountMax < 2 ^ 32
  /-- the plausibility divisor of `load` is positive and not larger than the smallest entry of either snapshot version
  (keyLen:4 + one key byte + valLen:4): a count `compactLocked` wrote is never refused -/
  minEntryPos : 1 ≤ l.snapMinEntry
  minEntry : l.snapMinEntry ≤ 4 + 1 + 4

/-- op letters `'S' 'D' 'E' 'X'` -/
def opS : UInt8 := 83
def opD : UInt8 := 68
def opE : UInt8 := 69
def opX : UInt8 := 88

/-- `isPlausibleEpochMs` -/
def plausible (l : Lim) (e : Int) : Bool := e != sentinel && decide (0 < e) && decide (e ≤ l.maxPlausible)

/-! ## int64 little-endian -/

/-- `appendRaw(buffer, &expiryMs, 8)` (two's complement) -/
def i64le (e : Int) : Bytes := le64 (e % 18446744073709551616).toNat
/-- `memcpy(&expiryMs, ptr, 8)` -/
def i64of (n : Nat) : Int := if n < 9223372036854775808 then (n : Int) else (n : Int) - 18446744073709551616

/-! ## `KVStore::crc32` (the instance the driver runs with) -/

def crcBit (c : UInt32) : UInt32 := if c &&& 1 = 1 then (c >>> 1) ^^^ 0xEDB88320 else c >>> 1
def crcByte (c : UInt32) (b : UInt8) : UInt32 :=
  let c := c ^^^ b.toUInt32
  crcBit (crcBit (crcBit (crcBit (crcBit (crcBit (crcBit (crcBit c)))))))
/-- mirrors `KVStore::crc32` (empty input ↦ 0) -/
def crc32 (d : Bytes) : UInt32 := if d.isEmpty then 0 else ~~~ (d.foldl crcByte 0xFFFFFFFF)

/-! ## log records -/

/-- one record of the append-only log, as produced by `writeLogEntry(op, key, value, expiryMs)` -/
inductive Rec
  | set (k : Key) (v : Val)               -- 'S'
  | setE (k : Key) (v : Val) (e : Int)    -- 'E'
  | exp (k : Key) (e : Int)               -- 'X' (`e = sentinel`: persist)
  | del (k : Key)                         -- 'D'
  deriving Repr, DecidableEq

def Rec.key : Rec → Key
  | .set k _ => k | .setE k _ _ => k | .exp k _ => k | .del k => k

/-- the `buffer` built by `writeLogEntry` (everything the CRC covers) -/
def Rec.body : Rec → Bytes
  | .set k v => opS :: (le32 k.length ++ k ++ (le32 v.length ++ v))
  | .setE k v e => opE :: (le32 k.length ++ k ++ (i64le e ++ (le32 v.length ++ v)))
  | .exp k e => opX :: (le32 k.length ++ k ++ i64le e)
  | .del k => opD :: (le32 k.length ++ k)

/-- mirrors `writeLogEntry`: `[totalLen:4][buffer][crc:4]`, `totalLen = buffer.size() + 4` -/
def encode (crc : Bytes → UInt32) (r : Rec) : Bytes :=
  le32 (r.body.length + 4) ++ (r.body ++ le32 (crc r.body).toNat)

/-- what `validateKeyValue` (+ the int64 range of an expiry) guarantees about a record written through the API -/
def Rec.WF (l : Lim) : Rec → Prop
  | .set k v => 1 ≤ k.length ∧ k.length ≤ l.maxKey ∧ v.length ≤ l.maxVal
  | .setE k v e => 1 ≤ k.length ∧ k.length ≤ l.maxKey ∧ v.length ≤ l.maxVal ∧ plausible l e = true
  | .exp k e => 1 ≤ k.length ∧ k.length ≤ l.maxKey ∧ (e = sentinel ∨ plausible l e = true)
  | .del k => 1 ≤ k.length ∧ k.length ≤ l.maxKey

/-! ## replayed state -/

/-- `_kv` and `_expiry` (expiry only; timers belong to the running store) -/
structure LState where
  kv : Map Val := []
  exp : Map Int := []
  deriving Repr

/-- the arms of the replay loop of `load` (after the F05 repair no arm looks at the clock) -/
def applyRec (l : Lim) (st : LState) : Rec → LState
  | .set k v => { kv := st.kv.put k v, exp := st.exp.erase k }
  | .setE k v e => { kv := st.kv.put k v, exp := st.exp.put k e }
  | .exp k e =>
    if !st.kv.has k then st                                   -- orphan 'X'
    else if e = sentinel then { st with exp := st.exp.erase k }
    else if plausible l e then { st with exp := st.exp.put k e }
    else st
  | .del k => { kv := st.kv.erase k, exp := st.exp.erase k }

/-- the 'S' arm: `[valLen:4][value]`, then at least the 4 CRC bytes -/
def parseS (l : Lim) (key : Key) (r3 : Bytes) : Option Rec :=
  if r3.length < 4 then none else
  let valLen := leNat (r3.take 4)
  let r4 := r3.drop 4
  if valLen > l.ldVal ∨ r4.length < valLen + 4 then none else
  some (.set key (r4.take valLen))

/-- the 'E' arm: `[expiryMs:8][valLen:4][value]`, then at least the 4 CRC bytes; an implausible expiry is corruption -/
def parseE (l : Lim) (key : Key) (r3 : Bytes) : Option Rec :=
  if r3.length < 12 then none else
  let e := i64of (leNat (r3.take 8))
  let r4 := r3.drop 8
  let valLen := leNat (r4.take 4)
  let r5 := r4.drop 4
  if valLen > l.ldVal ∨ r5.length < valLen + 4 then none else
  if !plausible l e then none else
  some (.setE key (r5.take valLen) e)

/-- the 'X' arm: `[expiryMs:8]`, then the 4 CRC bytes -/
def parseX (key : Key) (r3 : Bytes) : Option Rec :=
  if r3.length < 12 then none else
  some (.exp key (i64of (leNat (r3.take 8))))

/-- the field parser of the replay loop: op letter, key, then the arm of the op.  `buf` still ends with the CRC; every
bounds check is against the end of `buf`, exactly as `ptr + n > end` in the code. -/
def parseFields (l : Lim) (buf : Bytes) : Option Rec :=
  match buf with
  | [] => none
  | op :: r1 =>
    if op ≠ opS ∧ op ≠ opD ∧ op ≠ opE ∧ op ≠ opX then none else
    if r1.length < 4 then none else                                   -- ptr + 4 > end
    let keyLen := leNat (r1.take 4)
    let r2 := r1.drop 4
    if keyLen = 0 ∨ keyLen > l.ldKey ∨ r2.length < keyLen then none else
    let key := r2.take keyLen
    let r3 := r2.drop keyLen
    if op = opS then parseS l key r3
    else if op = opE then parseE l key r3
    else if op = opX then parseX key r3
    else some (.del key)

/-- mirrors the body of the replay loop from `validateLogEntry` on: `buf` is the `totalLen` bytes after the length
prefix (CRC included).  `none` = the record is skipped (`continue`). -/
def parseBuf (l : Lim) (crc : Bytes → UInt32) (buf : Bytes) : Option Rec :=
  let n := buf.length
  if n < 10 then none else                                            -- validateLogEntry
  if (crc (buf.take (n - 4))).toNat ≠ leNat (buf.drop (n - 4)) then none else   -- CRC over buffer[0 .. n-4)
  parseFields l buf

/-- mirrors `while (log.peek() != EOF) { … }` of `load`: returns the replayed state and `goodEnd`, the offset just
past the last record that was read completely (F03 repair). -/
def replayLoop (l : Lim) (crc : Bytes → UInt32) (d : Bytes) (st : LState) (off : Nat) : LState × Nat :=
  if h4 : d.length < 4 then (st, off)                 -- EOF, or the 4-byte read fails → break
  else
    let total := leNat (d.take 4)
    if total < l.ldMin ∨ total > l.ldMax then (st, off)       -- invalid length → break
    else
      let r := d.drop 4
      if r.length < total then (st, off)                      -- incomplete entry → break
      else
        let st' := match parseBuf l crc (r.take total) with
          | some rec => applyRec l st rec
          | none => st
        replayLoop l crc (r.drop total) st' (off + 4 + total)
termination_by d.length
decreasing_by simp only [List.length_drop]; omega

/-! ## snapshots -/

inductive LoadErr
  | badMagic | badVersion | badCount | countTooLarge | badKeyLen | badKey | badExpiry | badValLen | badValue
  deriving Repr, DecidableEq

/-- mirrors `writeKeyValue` -/
def snapEntry (x : Key × Val × Option Int) : Bytes :=
  le32 x.1.length ++ (x.1 ++ (i64le (x.2.2.getD sentinel) ++ (le32 x.2.1.length ++ x.2.1)))

/-- mirrors the snapshot part of `compactLocked`: header (magic, version 2), count, entries -/
def encodeSnap (l : Lim) (ents : List (Key × Val × Option Int)) : Bytes :=
  le32 l.magic ++ (le32 2 ++ (le32 ents.length ++ ents.flatMap snapEntry))

/-- the entry loop of the snapshot part of `load` (version 1: no expiry field) -/
def snapEntries (l : Lim) (ver : Nat) : Nat → Bytes → LState → Except LoadErr LState
  | 0, _, st => .ok st
  | n + 1, d, st =>
    match takeN 4 d with
    | none => .error .badKeyLen
    | some (kl, d1) =>
      let keyLen := leNat kl
      if keyLen = 0 ∨ keyLen > l.ldKey then .error .badKeyLen else
      match takeN keyLen d1 with
      | none => .error .badKey
      | some (key, d2) =>
        match (if ver = 2 then (takeN 8 d2).map (fun x => (i64of (leNat x.1), x.2)) else some (sentinel, d2)) with
        | none => .error .badExpiry
        | some (e, d3) =>
          match takeN 4 d3 with
          | none => .error .badValLen
          | some (vl, d4) =>
            let valLen := leNat vl
            if valLen > l.ldVal then .error .badValLen else
            match takeN valLen d4 with
            | none => .error .badValue
            | some (val, d5) =>
              let st' : LState :=
                if e = sentinel then { st with kv := st.kv.put key val }                      -- eternal key
                else if plausible l e then { kv := st.kv.put key val, exp := st.exp.put key e }
                else st                                                                       -- implausible: dropped
              snapEntries l ver n d5 st'

/-- the snapshot part of `load` -/
def loadSnap (l : Lim) (d : Bytes) : Except LoadErr LState :=
  match takeN 4 d with
  | none => .error .badMagic
  | some (m, d1) =>
    if leNat m ≠ l.magic then .error .badMagic else
    match takeN 4 d1 with
    | none => .error .badVersion
    | some (v, d2) =>
      let ver := leNat v
      if ver ≠ 1 ∧ ver ≠ 2 then .error .badVersion else
      match takeN 4 d2 with
      | none => .error .badCount
      | some (c, d3) =>
        let count := leNat c
        if count > d3.length / l.snapMinEntry then .error .countTooLarge else   -- bound derived from the file size (FC11d)
        snapEntries l ver count d3 {}

/-! ## expiry sweep -/

def expiredAt (exp : Map Int) (now : Int) (k : Key) : Bool :=
  match exp.get? k with
  | some e => decide (e ≤ now)
  | none => false

/-- `dropExpired` at the end of `load` (F05 repair): expiry is judged once, against the final replayed state -/
def sweep (now : Int) (st : LState) : LState :=
  { kv := st.kv.filter (fun x => !expiredAt st.exp now x.1)
    exp := st.exp.filter (fun x => !expiredAt st.exp now x.1) }

/-! ## files and crash images (DESIGN §6.5) -/

inductive F | snap | log | tmp
  deriving Repr, DecidableEq

/-- the store's directory: `<path>`, `<path>.log`, `<path>.tmp` -/
structure Fs where
  snap : Option Bytes := none
  log : Option Bytes := none
  tmp : Option Bytes := none
  deriving Repr, DecidableEq

def Fs.get (fs : Fs) : F → Option Bytes
  | .snap => fs.snap | .log => fs.log | .tmp => fs.tmp
def Fs.set (fs : Fs) (f : F) (d : Option Bytes) : Fs :=
  match f with
  | .snap => { fs with snap := d } | .log => { fs with log := d } | .tmp => { fs with tmp := d }

/-- what reaches the operating system -/
inductive FsOp
  | append (f : F) (bs : Bytes)     -- `write(2)` on an `O_APPEND|O_CREAT` descriptor
  | trunc (f : F) (n : Nat)         -- `open(O_TRUNC|O_CREAT)` (`n = 0`) / `truncate(2)`
  | rename (a b : F)                -- `rename(2)`, atomic
  deriving Repr, DecidableEq

def FsOp.apply (fs : Fs) : FsOp → Fs
  | .append f bs => fs.set f (some ((fs.get f).getD [] ++ bs))
  | .trunc f n => fs.set f (some (((fs.get f).getD []).take n))
  | .rename a b =>
    match fs.get a with
    | some d => (fs.set b (some d)).set a none
    | none => fs

def applyAll (fs : Fs) (ops : List FsOp) : Fs := ops.foldl FsOp.apply fs

/-- `img` is the directory a process crash can leave behind while `ops` are being issued on `fs`: any prefix of the
operations, the last one — if it is a write — cut at any byte (what reached the OS survives; `rename` atomic). -/
def IsCrashImage (fs : Fs) (ops : List FsOp) (img : Fs) : Prop :=
  ∃ pre post, ops = pre ++ post ∧
    (img = applyAll fs pre ∨
     ∃ f bs rest p q, post = .append f bs :: rest ∧ bs = p ++ q ∧ img = (FsOp.append f p).apply (applyAll fs pre))

/-- executable enumeration used by the driver: prefix `k` of the operations, then `cut` bytes of operation `k` -/
def crashImage (fs : Fs) (ops : List FsOp) (k cut : Nat) : Fs :=
  let base := applyAll fs (ops.take k)
  match ops.drop k with
  | .append f bs :: _ => (FsOp.append f (bs.take cut)).apply base
  | _ => base

/-! ## `load` -/

/-- the snapshot part of `load`: no snapshot file, no entries -/
def loadSnapOpt (l : Lim) : Option Bytes → Except LoadErr LState
  | some d => loadSnap l d
  | none => .ok {}

/-- mirrors `load()` followed by `openLogFile()`: snapshot, log replay, cut of the torn tail, one expiry sweep; returns
the in-memory state and the file operations performed (a missing log is created empty by `openLogFile`). -/
def openStore (l : Lim) (crc : Bytes → UInt32) (fs : Fs) (now : Int) : Except LoadErr (LState × List FsOp) :=
  match loadSnapOpt l fs.snap with
  | .error e => .error e
  | .ok st0 =>
    match fs.log with
    | none => .ok (sweep now st0, [.append .log []])
    | some lg =>
      let r := replayLoop l crc lg st0 0
      .ok (sweep now r.1, if r.2 < lg.length then [.trunc .log r.2] else [])

/-- what a reader sees of one key: value and expiry -/
def LState.look (st : LState) (k : Key) : Option (Val × Option Int) :=
  match st.kv.get? k with
  | some v => some (v, st.exp.get? k)
  | none => none

end Iora.Kv
