import IoraModel.Model.HttpServerFraming
/-
Connection-level model of `HttpServer` around the request framing (C15, extension round): what happens to ONE session
between `handleIncomingData` calls -
* the I/O thread's terminal closes (`rejectSession`, repair FC15b: the session is erased under `_sessionMutex` BEFORE the
  close is handed to the transport, because `Transport::close` only queues the close and the engine can still deliver reads
  that were already pending);
* the thread pool as an ORACLE: how many more `tryEnqueue` calls succeed (`slots`), and when a worker runs a queued
  `processHttpRequest` (`COp.work`); a refused request is answered `503` by the I/O thread itself, whose send completion closes
  the connection and erases the session while the extraction loop of that pass goes on over its local copy `dataStr`;
* when the engine's close callback lands (`COp.closed`: `_sessionInfo.erase(sid)`) - in particular after the close a worker
  asked for behind a parser-rejected request (the worker itself erases nothing);
* the request conversion of `processHttpRequest` that the handler can see besides path/headers/body: `req.params`.
-/
namespace Iora.Http.Srv
open Iora Iora.Http

/-! ### the extraction loop, yielding the extracted `requestData` strings themselves -/

/-- `drainLoop` before `dispatch` is applied: (extracted `requestData` in order, closed by the I/O thread?, remainder) -/
def drainRaw : Nat → Bytes → List Bytes × Bool × Bytes
  | 0, buf => ([], false, buf)
  | fuel + 1, buf =>
    match extractOne buf with
    | .needMore => ([], false, buf)
    | .close => ([], true, buf)
    | .request raw n =>
      if n = 0 then ([], false, buf)
      else
        let r := drainRaw fuel (buf.drop n)
        (raw :: r.1, r.2.1, r.2.2)

/-- one `handleIncomingData` call of the I/O thread: (session afterwards, extracted requests, closed by the I/O thread?) -/
def ioStep (s : Sess) (seg : Bytes) : Sess × List Bytes × Bool :=
  if !s.alive then (s, [], false)
  else if s.buffer.length + seg.length > Gen.Http.serverMaxBufferSize then ({ s with alive := false }, [], true)
  else
    let buf := s.buffer ++ seg
    let r := drainRaw (buf.length + 1) buf
    ({ buffer := r.2.2, alive := !r.2.1 }, r.1, r.2.1)

/-- feed a list of reads to the I/O thread alone (no worker ever erases the session, the pool accepts everything):
the extracted `requestData` strings and the final session -/
def srvFeedRaw : Sess → List Bytes → List Bytes × Sess
  | s, [] => ([], s)
  | s, seg :: ss =>
    let r1 := ioStep s seg
    let r := srvFeedRaw r1.1 ss
    (r1.2.1 ++ r.1, r.2)

/-! ### `req.params` (query string conversion in `processHttpRequest`) -/

/-- `req.params[key] = value` on an association list kept in first-insertion order (the C++ map is unordered; the
harness/driver print it sorted) -/
def paramSet : List (Bytes × Bytes) → Bytes → Bytes → List (Bytes × Bytes)
  | [], k, v => [(k, v)]
  | (k', v') :: t, k, v => if k' = k then (k', v) :: t else (k', v') :: paramSet t k v

/-- the `while (std::getline(queryStream, param, '&'))` loop: a parameter without `=` is skipped, the FIRST `=` splits -/
def paramLoop : List Bytes → List (Bytes × Bytes) → List (Bytes × Bytes)
  | [], acc => acc
  | p :: rest, acc =>
    match indexOf? (· == 61) p with
    | none => paramLoop rest acc
    | some eq => paramLoop rest (paramSet acc (p.take eq) (p.drop (eq + 1)))

/-- `req.params` as `processHttpRequest` fills it from the request target: everything after the FIRST `?`, cut at `&`
(no percent-decoding, no `+` handling; an empty piece - `a=1&&b=2`, trailing `&` - has no `=` and is skipped) -/
def queryParams (uri : Bytes) : List (Bytes × Bytes) :=
  match indexOf? (· == 63) uri with
  | none => []
  | some q => paramLoop (splitOn 38 (uri.drop (q + 1))) []

/-! ### one session: I/O thread, pool oracle, workers, close callback -/

structure Conn where
  sess : Sess := {}
  /-- requests `tryEnqueue` accepted and no worker has run yet (FIFO: the harness parks all workers but one) -/
  pending : List Bytes := []
  deriving DecidableEq, Repr

/-- what one step makes observable -/
inductive Out where
  | enqueued (raw : Bytes)        -- `tryEnqueue` accepted `processHttpRequest(sid, raw)`
  | refused (raw : Bytes)         -- `tryEnqueue` refused: the I/O thread answers 503; its completion closes + erases
  | ioClose                       -- `rejectSession(sid)` (limit exceeded / invalid length information / malformed chunks)
  | worker (e : Ev)               -- a worker ran `processHttpRequest`
  deriving DecidableEq, Repr

/-- hand the requests of one pass to the pool while `slots` more `tryEnqueue` calls succeed:
(outputs, accepted requests, slots left, was any refused?) -/
def route : List Bytes → Nat → List Out × List Bytes × Nat × Bool
  | [], k => ([], [], k, false)
  | raw :: t, 0 => let r := route t 0; (.refused raw :: r.1, r.2.1, 0, true)
  | raw :: t, k + 1 => let r := route t k; (.enqueued raw :: r.1, raw :: r.2.1, r.2.2.1, r.2.2.2)

/-- `handleIncomingData` with the pool as an oracle.  A refusal erases the session (the 503's send completion:
`_transport->close(session); _sessionInfo.erase(session)`), yet the `while (true)` loop of THIS call goes on extracting from
its local `dataStr`: what is extracted in the pass does not depend on the oracle, only where it goes. -/
def connData (c : Conn) (seg : Bytes) (slots : Nat) : Conn × List Out × Nat :=
  let r := ioStep c.sess seg
  let rt := route r.2.1 slots
  ({ sess := if rt.2.2.2 then { r.1 with alive := false } else r.1, pending := c.pending ++ rt.2.1 },
   rt.1 ++ (if r.2.2 then [.ioClose] else []), rt.2.2.1)

/-- a worker runs the oldest queued request (`processHttpRequest`).  A parser-rejected request is answered 4xx and the worker
asks the transport to close (`_transport->close(sid)` after the send) - it does NOT erase the session: until the engine's close
callback lands (`COp.closed`) the I/O thread keeps appending and framing what arrives, contiguously. -/
def connWork (c : Conn) : Conn × List Out :=
  match c.pending with
  | [] => (c, [])
  | raw :: t => ({ c with pending := t }, [.worker (dispatch raw)])

/-- the engine's close callback: `_sessionInfo.erase(sid)` -/
def connClosed (c : Conn) : Conn := { c with sess := { c.sess with alive := false } }

inductive COp where
  | data (seg : Bytes) (slots : Nat)
  | work
  | closed
  deriving DecidableEq, Repr

def cstep (c : Conn) : COp → Conn × List Out
  | .data seg slots => let r := connData c seg slots; (r.1, r.2.1)
  | .work => connWork c
  | .closed => (connClosed c, [])

def crun : Conn → List COp → List Out × Conn
  | c, [] => ([], c)
  | c, op :: ops =>
    let r1 := cstep c op
    let r := crun r1.1 ops
    (r1.2 ++ r.1, r.2)

/-- the reads of an operation sequence, in order -/
def segsOf : List COp → List Bytes
  | [] => []
  | .data seg _ :: ops => seg :: segsOf ops
  | _ :: ops => segsOf ops

/-- every request the I/O thread cut out of the stream (handed to the pool or answered 503), in order -/
def extracted : List Out → List Bytes
  | [] => []
  | .enqueued raw :: t => raw :: extracted t
  | .refused raw :: t => raw :: extracted t
  | _ :: t => extracted t

/-- the requests the pool accepted, in order -/
def accepted : List Out → List Bytes
  | [] => []
  | .enqueued raw :: t => raw :: accepted t
  | _ :: t => accepted t

/-- what the workers did, in order -/
def workerEvs : List Out → List Ev
  | [] => []
  | .worker e :: t => e :: workerEvs t
  | _ :: t => workerEvs t

/-! ### the upgrade hold (repair FC18f): what follows an Upgrade request is not framed as HTTP

`handleIncomingData` as it is since FC18f.  The header scan also notes `haveUpgrade` (a line whose text before its first colon,
trimmed and ASCII-lowered, is `upgrade`).  After a request with `haveUpgrade` has been extracted, the rest of the read is stored
in the session buffer, the session is put into `_upgradePending` (the hold), the request is handed to the pool and the request
loop STOPS (`break`).  While the hold is set, `handleIncomingData` only appends reads to the session buffer (an overflow of
`MAX_BUFFER_SIZE` goes through `rejectSession`); nothing is scanned.  The worker that processes the request releases the hold
when it leaves `processHttpRequest` (scope guard; the plain `HttpServer` declines every upgrade, the request is then dispatched
like any other); what was held is parsed as HTTP with the next read.  `ioStep`/`connData`/`crun` above are this function for
runs in which no Upgrade request is extracted (`Lemmas/HttpServerConn.lean`: `ioStepU_eq_ioStep`). -/

/-- one line of the header scan sets `haveUpgrade` -/
def lineIsUpgrade (line : Bytes) : Bool :=
  match indexOf? (· == 58) line with
  | none => false
  | some colon => lower (trim (line.take colon)) == ascii "upgrade"

/-- `haveUpgrade` for the request at the front of `buf` (all lines of the header section, request line included) -/
def hasUpgrade (buf : Bytes) : Bool :=
  match find crlf2 buf 0 with
  | none => false
  | some he => (getLines (buf.take he)).any lineIsUpgrade

/-- the request loop with the `break` after an Upgrade request:
(extracted `requestData`, closed by the I/O thread?, remainder, stopped behind an Upgrade request?) -/
def drainRawU : Nat → Bytes → List Bytes × Bool × Bytes × Bool
  | 0, buf => ([], false, buf, false)
  | fuel + 1, buf =>
    match extractOne buf with
    | .needMore => ([], false, buf, false)
    | .close => ([], true, buf, false)
    | .request raw n =>
      if n = 0 then ([], false, buf, false)
      else if hasUpgrade buf then ([raw], false, buf.drop n, true)
      else
        let r := drainRawU fuel (buf.drop n)
        (raw :: r.1, r.2.1, r.2.2.1, r.2.2.2)

structure ConnU where
  sess : Sess := {}
  /-- `sid ∈ _upgradePending` -/
  hold : Bool := false
  /-- queued `processHttpRequest(sid, requestData, epoch, holdsUpgrade)` calls -/
  pending : List (Bytes × Bool) := []
  deriving DecidableEq, Repr

/-- the last request of a pass that stopped behind an Upgrade request carries `holdsUpgrade = true` -/
def tagLast : List Bytes → Bool → List (Bytes × Bool)
  | [], _ => []
  | [raw], stop => [(raw, stop)]
  | raw :: t, stop => (raw, false) :: tagLast t stop

def routeU : List (Bytes × Bool) → Nat → List Out × List (Bytes × Bool) × Nat × Bool
  | [], k => ([], [], k, false)
  | (raw, _) :: t, 0 => let r := routeU t 0; (.refused raw :: r.1, r.2.1, 0, true)
  | (raw, f) :: t, k + 1 => let r := routeU t k; (.enqueued raw :: r.1, (raw, f) :: r.2.1, r.2.2.1, r.2.2.2)

/-- mirrors `handleIncomingData` (FC15b + FC18f) with the pool as an oracle -/
def connDataU (c : ConnU) (seg : Bytes) (slots : Nat) : ConnU × List Out × Nat :=
  if c.hold then
    -- an Upgrade request of this session is being processed: reads are only queued behind the stored rest
    if !c.sess.alive then (c, [], slots)
    else if c.sess.buffer.length + seg.length > Gen.Http.serverMaxBufferSize then
      ({ c with sess := { c.sess with alive := false } }, [.ioClose], slots)
    else ({ c with sess := { c.sess with buffer := c.sess.buffer ++ seg } }, [], slots)
  else if !c.sess.alive then (c, [], slots)
  else if c.sess.buffer.length + seg.length > Gen.Http.serverMaxBufferSize then
    ({ c with sess := { c.sess with alive := false } }, [.ioClose], slots)
  else
    let buf := c.sess.buffer ++ seg
    let r := drainRawU (buf.length + 1) buf
    let rt := routeU (tagLast r.1 r.2.2.2) slots
    -- a refusal erases the session (503 completion) and, for the Upgrade request itself, the hold
    ({ sess := { buffer := r.2.2.1, alive := !(r.2.1 || rt.2.2.2) }, hold := r.2.2.2 && !rt.2.2.2,
       pending := c.pending ++ rt.2.1 },
     rt.1 ++ (if r.2.1 then [.ioClose] else []), rt.2.2.1)

/-- a worker runs the oldest queued request; leaving `processHttpRequest` releases the hold of an Upgrade request (the plain
server declines the upgrade and dispatches the request like any other) -/
def connWorkU (c : ConnU) : ConnU × List Out :=
  match c.pending with
  | [] => (c, [])
  | (raw, holds) :: t => ({ c with pending := t, hold := if holds then false else c.hold }, [.worker (dispatch raw)])

/-- mirrors `handleSessionClosed`: `_sessionInfo.erase`, `_upgradedSessions.erase`, `_upgradePending.erase` -/
def connClosedU (c : ConnU) : ConnU := { c with sess := { c.sess with alive := false }, hold := false }

def cstepU (c : ConnU) : COp → ConnU × List Out
  | .data seg slots => let r := connDataU c seg slots; (r.1, r.2.1)
  | .work => connWorkU c
  | .closed => (connClosedU c, [])

def crunU : ConnU → List COp → List Out × ConnU
  | c, [] => ([], c)
  | c, op :: ops =>
    let r1 := cstepU c op
    let r := crunU r1.1 ops
    (r1.2 ++ r.1, r.2)

/-- `raws` are what greedy extraction cuts out of `d`, consecutively, from offset `o` up to offset `o'` -/
def chainTo (d : Bytes) : Nat → List Bytes → Nat → Prop
  | o, [], o' => o' = o
  | o, raw :: t, o' => ∃ n, 0 < n ∧ o + n ≤ d.length ∧ extractOne (d.drop o) = .request raw n ∧ chainTo d (o + n) t o'

/-! ### the source shapes this model was written from (pinned against `Gen/Http.lean` in Props/C15.lean) -/

/-- The I/O thread's terminal closes as THIS model reads them (`Gen.Http.serverIoClose`): every close `handleIncomingData`
performs goes through `rejectSession`, which erases the session under `_sessionMutex` BEFORE it asks the transport to close -
so `ioStep` may set `alive := false` at once.  With a plain `closeSession(sid)` the session would live on until the engine's
close callback, and a later read would be appended behind a buffer that lacks the dropped read. -/
def ioCloseModelled : List (String × List String) :=
  [("handleIncomingData", ["rejectSession", "rejectSession", "rejectSession", "rejectSession", "rejectSession", "rejectSession",
      "rejectSession", "rejectSession"]),
   ("rejectSession", ["std::lock_guard<std::mutex> lock(_sessionMutex)", "_sessionInfo.erase(sid)", "closeSession(sid)"])]

/-- the query conversion of `processHttpRequest` as `queryParams` reads it (`Gen.Http.serverQueryParams`) -/
def queryParamsModelled : List String :=
  ["auto queryPos = req.path.find('?')", "if (queryPos != std::string::npos)",
   "std::string queryString = req.path.substr(queryPos + 1)", "req.path = req.path.substr(0, queryPos)",
   "std::istringstream queryStream(queryString)", "std::string param", "while (std::getline(queryStream, param, '&'))",
   "auto eqPos = param.find('=')", "if (eqPos != std::string::npos)", "std::string key = param.substr(0, eqPos)",
   "std::string value = param.substr(eqPos + 1)", "req.params[key] = value"]

/-- the upgrade hold as `connDataU` reads it (`Gen.Http.serverUpgradeHold`): the hold test and its overflow at the head of the
function, `haveUpgrade` set by the `upgrade` key of the header scan, the hold inserted where the rest is stored, erased when
`tryEnqueue` refuses, and the loop left behind an Upgrade request (`Gen.Http.serverUpgradeBreak`) -/
def upgradeHoldModelled : List String :=
  ["bool pendingOverflow = false", "if (_upgradePending.count(sid) > 0)", "pendingOverflow = true", "if (pendingOverflow)",
   "bool haveUpgrade = false", "else if (key == \"upgrade\")", "haveUpgrade = true", "if (haveUpgrade)",
   "_upgradePending.insert(sid)", "if (!_threadPool.tryEnqueue([this, sid, requestData, …]()",
   "processHttpRequest(sid, requestData, …)", "if (haveUpgrade)", "_upgradePending.erase(sid)", "if (haveUpgrade)"]

/-- `handleSessionClosed` as `connClosedU` reads it (`Gen.Http.serverSessionClosed`) -/
def sessionClosedModelled : List String :=
  ["_sessionInfo.erase(it)", "_upgradedSessions.erase(sid)", "_upgradedSessions.erase(sid)", "_upgradePending.erase(sid)",
   "onSessionClosed(sid)"]

end Iora.Http.Srv
