import IoraModel.Model.Monitor
/-!
# Monitor model of `iora::core::BlockingQueue<T>` (include/iora/core/blocking_queue.hpp) — DESIGN §7 C10

Every public method is a short program over one mutex (`_mutex`) and two condition variables (`_condNotEmpty`,
`_condNotFull`) in the vocabulary of `Model/Monitor.lean`; the code between two pthread calls is the `after` function.
The copy and move overloads of `queue`/`tryQueue` have the same skeleton (checked by the translator: `Gen/BqSkel.lean`)
and are one `Call` each.  `fixed = true` is the class as repaired (F01: `close()` flips `_closed` while holding
`_mutex`); `fixed = false` is the class as found (`_closed.exchange(true)` with no lock, then the two `notify_all`).
The ghost fields `puts`/`takes` log every `push_back`/`pop_front` in the order in which they happen.
-/
namespace Iora.BQ
open Iora.Monitor

abbrev Val := Nat
/-- `_mutex` -/
def M : MutexId := 0
/-- `_condNotEmpty` -/
def NE : CvId := 0
/-- `_condNotFull` -/
def NF : CvId := 1

inductive Call
  /-- `queue(const T&)` / `queue(T&&)` -/
  | queue (v : Val)
  /-- `tryQueue(const T&, timeout)` / `tryQueue(T&&, timeout)` -/
  | tryQueueFor (v : Val)
  /-- `tryQueue(const T&)` / `tryQueue(T&&)` -/
  | tryQueue (v : Val)
  /-- `dequeue(T&)` -/
  | dequeue
  /-- `dequeue(T&, timeout)` -/
  | dequeueFor
  | tryDequeue
  | close
  | size
  | empty
  | full
  deriving DecidableEq, Repr

inductive Ret
  | bool (b : Bool)
  | item (o : Option Val)
  | unit
  | nat (n : Nat)
  deriving DecidableEq, Repr

/-- program counter inside a method (which pthread call comes next) -/
inductive Pc
  | start
  /-- next: `lock _mutex` at method entry -/
  | enter
  /-- next: `_condNotFull.wait(lock)` (predicate was false) -/
  | sleepNF
  /-- next: `_condNotEmpty.wait(lock)` -/
  | sleepNE
  /-- next: `unlock _mutex` (scope exit), then return `r` -/
  | unlockRet (r : Ret)
  /-- next: `lock.unlock()`, then `cv.notify_one()`, then return `r` -/
  | unlockNotify (cv : CvId) (r : Ret)
  /-- next: `cv.notify_one()`, then return `r` -/
  | notify (cv : CvId) (r : Ret)
  /-- `close()` after winning the exchange: next `unlock _mutex` -/
  | closeUnlock
  /-- next: `_condNotEmpty.notify_all()` -/
  | closeNotifyNE
  /-- next: `_condNotFull.notify_all()` -/
  | closeNotifyNF
  | finished
  deriving DecidableEq, Repr

structure Loc where
  me : Tid
  /-- remaining calls; the head is the call in progress -/
  todo : List Call
  pc : Pc
  /-- results of the completed calls, in program order -/
  rets : List Ret
  deriving Repr

structure Data where
  /-- `_maxSize` -/
  cap : Nat
  /-- `_queue` -/
  q : List Val
  /-- `_closed` -/
  closed : Bool
  /-- ghost: every `push_back`, in order, with the pushing thread -/
  puts : List (Tid × Val)
  /-- ghost: every `pop_front`, in order, with the popping thread -/
  takes : List (Tid × Val)
  deriving Repr

def isTimed : List Call → Bool
  | .tryQueueFor _ :: _ => true
  | .dequeueFor :: _ => true
  | _ => false

def op (l : Loc) : Op :=
  match l.pc with
  | .start => .start
  | .enter => .lock M
  | .sleepNF => .wait NF M (isTimed l.todo)
  | .sleepNE => .wait NE M (isTimed l.todo)
  | .unlockRet _ => .unlock M
  | .unlockNotify _ _ => .unlock M
  | .notify cv _ => .notifyOne cv
  | .closeUnlock => .unlock M
  | .closeNotifyNE => .notifyAll NE
  | .closeNotifyNF => .notifyAll NF
  | .finished => .done

/-- Position the thread at its next call.  For the class as found (`fixed = false`) `close()` begins with the atomic
exchange and no pthread call, so it is executed right here, as part of the step that returns from the previous call. -/
def begin (fixed : Bool) (l : Loc) (d : Data) : List Call → Loc × Data
  | [] => ({ l with todo := [], pc := .finished }, d)
  | .close :: rest =>
    if fixed then ({ l with todo := .close :: rest, pc := .enter }, d)
    else if d.closed then begin fixed { l with rets := l.rets ++ [.unit] } d rest
    else ({ l with todo := .close :: rest, pc := .closeNotifyNE }, { d with closed := true })
  | c :: rest => ({ l with todo := c :: rest, pc := .enter }, d)

/-- the call in progress returns `r` -/
def ret (fixed : Bool) (l : Loc) (d : Data) (r : Ret) : Loc × Data :=
  begin fixed { l with rets := l.rets ++ [r] } d l.todo.tail

/-- predicate of the `_condNotFull` waits: `_queue.size() < _maxSize || _closed` -/
def predNF (d : Data) : Bool := d.q.length < d.cap || d.closed
/-- predicate of the `_condNotEmpty` waits: `!_queue.empty() || _closed` -/
def predNE (d : Data) : Bool := !d.q.isEmpty || d.closed

/-- mirrors include/iora/core/blocking_queue.hpp::queue (from `if (_closed…)` on; same text in `tryQueue(item, timeout)`) -/
def putBody (l : Loc) (d : Data) (v : Val) : Loc × Data :=
  if d.closed then ({ l with pc := .unlockRet (.bool false) }, d)
  else ({ l with pc := .unlockNotify NE (.bool true) }, { d with q := d.q ++ [v], puts := d.puts ++ [(l.me, v)] })

/-- mirrors include/iora/core/blocking_queue.hpp::dequeue (from `if (_queue.empty())` on; same text in the timed overload and `tryDequeue`) -/
def takeBody (l : Loc) (d : Data) : Loc × Data :=
  match d.q with
  | [] => ({ l with pc := .unlockRet (.item none) }, d)
  | x :: xs => ({ l with pc := .unlockNotify NF (.item (some x)) }, { d with q := xs, takes := d.takes ++ [(l.me, x)] })

/-- code that runs once `_mutex` is held at method entry, up to the next pthread call -/
def entered (l : Loc) (d : Data) : Loc × Data :=
  match l.todo with
  | [] => ({ l with pc := .finished }, d)
  | .queue v :: _ => if predNF d then putBody l d v else ({ l with pc := .sleepNF }, d)
  | .tryQueueFor v :: _ => if predNF d then putBody l d v else ({ l with pc := .sleepNF }, d)
  /- mirrors include/iora/core/blocking_queue.hpp::tryQueue (non-blocking overloads) -/
  | .tryQueue v :: _ =>
    if d.closed || d.q.length ≥ d.cap then ({ l with pc := .unlockRet (.bool false) }, d)
    else ({ l with pc := .unlockNotify NE (.bool true) }, { d with q := d.q ++ [v], puts := d.puts ++ [(l.me, v)] })
  | .dequeue :: _ => if predNE d then takeBody l d else ({ l with pc := .sleepNE }, d)
  | .dequeueFor :: _ => if predNE d then takeBody l d else ({ l with pc := .sleepNE }, d)
  /- mirrors include/iora/core/blocking_queue.hpp::tryDequeue -/
  | .tryDequeue :: _ => takeBody l d
  /- mirrors include/iora/core/blocking_queue.hpp::close (as repaired: exchange under the lock) -/
  | .close :: _ =>
    if d.closed then ({ l with pc := .unlockRet .unit }, d)
    else ({ l with pc := .closeUnlock }, { d with closed := true })
  /- mirrors include/iora/core/blocking_queue.hpp::size, ::empty, ::full -/
  | .size :: _ => ({ l with pc := .unlockRet (.nat d.q.length) }, d)
  | .empty :: _ => ({ l with pc := .unlockRet (.bool d.q.isEmpty) }, d)
  | .full :: _ => ({ l with pc := .unlockRet (.bool (d.q.length ≥ d.cap)) }, d)

/-- code that runs when a condition wait returns (mutex re-acquired): the predicate loop of `wait(lock, pred)`, resp.
libstdc++'s `wait_for(lock, d, pred)` = `while (!p()) if (wait_until(..) == timeout) return p(); return true;` -/
def rewoken (l : Loc) (d : Data) (late : Bool) : Loc × Data :=
  match l.todo with
  | .queue v :: _ => if predNF d then putBody l d v else (l, d)
  | .tryQueueFor v :: _ =>
    if predNF d then putBody l d v
    else if late then ({ l with pc := .unlockRet (.bool false) }, d)
    else (l, d)
  | .dequeue :: _ => if predNE d then takeBody l d else (l, d)
  | .dequeueFor :: _ =>
    if predNE d then takeBody l d
    else if late then ({ l with pc := .unlockRet (.item none) }, d)
    else (l, d)
  | _ => (l, d)

def after (fixed : Bool) (l : Loc) (d : Data) (late : Bool) : Loc × Data :=
  match l.pc with
  | .start => begin fixed l d l.todo
  | .enter => entered l d
  | .sleepNF => rewoken l d late
  | .sleepNE => rewoken l d late
  | .unlockRet r => ret fixed l d r
  | .unlockNotify cv r => ({ l with pc := .notify cv r }, d)
  | .notify _ r => ret fixed l d r
  | .closeUnlock => ({ l with pc := .closeNotifyNE }, d)
  | .closeNotifyNE => ({ l with pc := .closeNotifyNF }, d)
  | .closeNotifyNF => ret fixed l d .unit
  | .finished => (l, d)

/-- the blocking queue as a monitor program -/
def prog (fixed : Bool) : Prog Data Loc := { op := op, after := after fixed }

def progOf (ps : List (List Call)) (t : Tid) : List Call :=
  match ps[t]? with
  | some p => p
  | none => []

/-- initial state: an empty open queue of capacity `cap`, thread `t` is to run the calls `ps[t]` -/
def init (cap : Nat) (ps : List (List Call)) : State Data Loc :=
  { n := ps.length
    data := { cap := cap, q := [], closed := false, puts := [], takes := [] }
    owner := fun _ => none
    thr := fun t => { status := .ready, loc := { me := t, todo := progOf ps t, pc := .start, rets := [] } } }

end Iora.BQ
