import IoraModel.Model.RingBuffer
/-!
# The ring buffers with an element type whose copy/move assignment may THROW (ring_buffer.hpp, every
`noexcept(std::is_nothrow_…_assignable_v<T>)` method and `resize`)

Element = `Cell`: `some id` is a live element, `none` a moved-from husk (or a value-initialised slot).  A move
assignment `dst = std::move(src)` copies the cell and leaves `none` behind; a copy assignment copies.  `arm = 0`: no
assignment throws; `arm = k + 1`: the `(k+1)`-th element assignment performed by THIS call throws before it modifies
anything (the harness element `Tracked` of harness/c10_queues.cpp does exactly that).  The functions say what the code
does in that case: nothing is rolled back, and the counter store that follows the copy loop is not reached.
-/
namespace Iora.RingT
open Iora.Ring

abbrev Cell := Option Nat

/-- result of a call: it returned `out`, or the `(done+1)`-th assignment threw; `got` = what the caller's `out[]` array
already holds at that point (`tryPopBatch`) -/
inductive Res
  | ok (out : Out Cell)
  | threw (done : Nat) (got : List Cell)
  deriving DecidableEq, Repr

/-- `k` consecutive slots starting at counter value `start` have been moved from -/
def huskFrom (r : Ring Cell) (start : UInt64) (k : Nat) (b : Nat → Cell) : Nat → Cell :=
  (List.range k).foldl (fun b i => upd b (slot r (start + UInt64.ofNat i)) none) b

/-- does the call throw at its `i`-th assignment (0-based) -/
def throwsAt (arm n : Nat) : Option Nat := if 0 < arm ∧ arm ≤ n then some (arm - 1) else none

/-- mirrors include/iora/core/ring_buffer.hpp::tryPush (one assignment `_buffer[head & mask] = item`, then the store) -/
def tryPush (r : Ring Cell) (arm : Nat) (x : Cell) : Ring Cell × Res :=
  if r.head - r.tail ≥ r.cap then (r, .ok (.bool false))
  else match throwsAt arm 1 with
    | some _ => (r, .threw 0 [])
    | none => ((Ring.tryPush r x).2, .ok (.bool true))

/-- mirrors include/iora/core/ring_buffer.hpp::tryPop (`out = std::move(_buffer[tail & mask])`: the slot becomes a husk) -/
def tryPop (r : Ring Cell) (arm : Nat) : Ring Cell × Res :=
  if r.tail ≥ r.head then (r, .ok (.item none))
  else match throwsAt arm 1 with
    | some _ => (r, .threw 0 [])
    | none => ({ r with buf := upd r.buf (slot r r.tail) none, tail := r.tail + 1 }, .ok (.item (some (r.buf (slot r r.tail)))))

/-- mirrors include/iora/core/ring_buffer.hpp::peek (a copy: the slot stays) -/
def peek (r : Ring Cell) (arm : Nat) : Ring Cell × Res :=
  if r.tail ≥ r.head then (r, .ok (.item none))
  else match throwsAt arm 1 with
    | some _ => (r, .threw 0 [])
    | none => (r, .ok (.item (some (r.buf (slot r r.tail)))))

/-- mirrors include/iora/core/ring_buffer.hpp::tryPushBatch: a throw at assignment `k` leaves the first `k` items in
slots BEYOND `_head` (not published: `_head.store` is not reached) -/
def tryPushBatch (r : Ring Cell) (arm : Nat) (items : List Cell) : Ring Cell × Res :=
  let available := r.cap - (r.head - r.tail)
  let toPush := if items.length < available.toNat then items.length else available.toNat
  match throwsAt arm toPush with
  | some k => ({ r with buf := writeFrom r r.buf 0 (items.take k) }, .threw k [])
  | none => ((Ring.tryPushBatch r items).2, .ok (.count toPush))

/-- mirrors include/iora/core/ring_buffer.hpp::tryPopBatch: a throw at assignment `k` leaves the first `k` slots of the
window moved-from while `_tail` still counts them (`_tail.store` is not reached) -/
def tryPopBatch (r : Ring Cell) (arm : Nat) (maxCount : Nat) : Ring Cell × Res :=
  let available := r.head - r.tail
  let toPop := if maxCount < available.toNat then maxCount else available.toNat
  match throwsAt arm toPop with
  | some k => ({ r with buf := huskFrom r r.tail k r.buf }, .threw k (readFrom r r.tail k))
  | none => ({ r with buf := huskFrom r r.tail toPop r.buf, tail := r.tail + UInt64.ofNat toPop }, .ok (.items (readFrom r r.tail toPop)))

/-- mirrors include/iora/core/ring_buffer.hpp::resize: a throw at assignment `k` abandons the new buffer (with the `k` items
already moved into it) and leaves `_buffer/_capacity/_mask/_head/_tail` as they were: `k` slots are husks -/
def resize (r : Ring Cell) (arm : Nat) (n : UInt64) : Ring Cell × Res :=
  let newCapacity := nextPowerOfTwo n
  let count := r.head - r.tail
  let toCopy := if count < newCapacity then count else newCapacity
  let startTail := if count > newCapacity then r.head - newCapacity else r.tail
  match throwsAt arm toCopy.toNat with
  | some k => ({ r with buf := huskFrom r startTail k r.buf }, .threw k [])
  | none => ((Ring.resize r n).2, .ok (.count (Ring.resize r n).1.toNat))

/-- a window slot is live -/
def windowLive (r : Ring Cell) : Prop := ∀ c ∈ readFrom r r.tail (r.head - r.tail).toNat, c ≠ none

end Iora.RingT
