import IoraModel.Model.UdpEngine
/-!
# Wake-up layer of the UDP engine model — kernel receive queues, edge/level-triggered epoll, the shape of the receive loops (C06)

`Model/UdpEngine.lean` takes "the datagrams one `recvfrom` loop returns" as an input.  Which datagrams those ARE is decided here,
from three translated facts (`Gen/Udp.lean`): how the two receive loops are written (`listenerReadBudget`/`clientReadBudget`:
`none` = `for (;;)` whose only exits are the EAGAIN break and the hard-error exit; `…ZeroLenEndsLoop`: a zero-length read leaves
the loop) and whether the sockets are registered edge-triggered (`useEdgeTriggered`).

The environment now only says which datagrams ARRIVE at a socket.  They are appended to that socket's kernel receive queue; epoll
reports the socket (an arrival is an edge under EPOLLET and makes the queue non-empty under level-triggering), the engine runs its
loop ONCE over the queue, and what the loop does not take STAYS QUEUED.  Without a new arrival (`arrive… []` = one more
`epoll_wait` round) a level-triggered socket with a non-empty queue is reported again, an edge-triggered one is not: whatever a
wake-up leaves behind under EPOLLET is silent until the next datagram arrives.
-/
namespace Iora.Udp

/-- how a receive loop is written (translated) -/
structure LoopShape where
  /-- iterations per wake-up: `none` = unbounded (`for (;;)`), `some n` = a counted loop -/
  budget : Option Nat
  /-- a zero-length read (`n == 0`) leaves the loop (`break`) instead of going on -/
  zeroEnds : Bool
  deriving DecidableEq, Repr

/-- the loop reads until the kernel says EAGAIN -/
def LoopShape.drains (l : LoopShape) : Prop := l.budget = none ∧ l.zeroEnds = false

instance (l : LoopShape) : Decidable l.drains := by unfold LoopShape.drains; exact inferInstance

/-- what ONE run of a receive loop takes from the kernel queue `q` (head = oldest datagram) and what it leaves there -/
def takeLoop {α : Type} (isZero : α → Bool) (zeroEnds : Bool) : Option Nat → List α → List α × List α
  | _, [] => ([], [])
  | b, d :: ds =>
    if b = some 0 then ([], d :: ds)
    else if zeroEnds && isZero d then ([d], ds)
    else
      let r := takeLoop isZero zeroEnds (b.map Nat.pred) ds
      (d :: r.1, r.2)

structure WCfg where
  cfg : Cfg := {}
  /-- `TransportConfig::useEdgeTriggered`: sockets are registered with EPOLLET -/
  et : Bool := Gen.Udp.useEdgeTriggered
  /-- the loop of `readFromListener` / of `onClient`, as translated from the source -/
  lloop : LoopShape := ⟨Gen.Udp.listenerReadBudget, Gen.Udp.listenerZeroLenEndsLoop⟩
  cloop : LoopShape := ⟨Gen.Udp.clientReadBudget, Gen.Udp.clientZeroLenEndsLoop⟩

structure WState where
  st : State := {}
  /-- kernel receive queue of a listener socket (oldest first): datagrams that arrived and no `recvfrom` has taken yet -/
  lq : Lid → List (Addr × Bytes) := fun _ => []
  /-- kernel receive queue of a client session's own socket -/
  cq : Sid → List Bytes := fun _ => []

def setQ {α : Type} (m : Nat → List α) (k : Nat) (v : List α) : Nat → List α := fun x => if x = k then v else m x

@[simp] theorem setQ_same {α : Type} (m : Nat → List α) (k : Nat) (v : List α) : setQ m k v k = v := by simp [setQ]

inductive WIn
  /-- datagrams (source, bytes) reach listener `lid`'s socket, then `epoll_wait` returns; `[]` = an `epoll_wait` round without a new arrival -/
  | arriveL (lid : Lid) (dgs : List (Addr × Bytes))
  /-- the same for the socket of client session `sid` (the kernel only queues datagrams of its connected peer) -/
  | arriveC (sid : Sid) (dgs : List Bytes)
  /-- anything else the I/O thread does (commands, EPOLLOUT, GC, restart, key-failure reads) -/
  | io (i : In)

/-- does `epoll_wait` report EPOLLIN for a socket whose interest is armed? `fresh` = a datagram has just arrived (an edge, and a
non-empty queue); otherwise only a level-triggered socket with something queued is reported -/
def reports (et fresh queued : Bool) : Bool := fresh || (!et && queued)

/-- one `epoll_wait` round as far as one socket's EPOLLIN is concerned; `tok` (ghost) = position in the history -/
def wstep (w : WCfg) (tok : Nat) (ws : WState) : WIn → WState × List Out
  | .arriveL lid dgs =>
    match ws.st.listeners lid with
    | none => (ws, [])                      -- no such socket: nothing arrives anywhere
    | some l =>
      let q := ws.lq lid ++ dgs
      if l.armIn && reports w.et (!dgs.isEmpty) (!q.isEmpty) then
        -- mirrors udp_engine.hpp::handleFdEvent → onListener → readFromListener, once
        let t := takeLoop (fun d => (d.2.take w.cfg.ioReadChunk).isEmpty) w.lloop.zeroEnds w.lloop.budget q
        let r := step w.cfg tok ws.st (.recvFrom lid t.1)
        ({ ws with st := r.1, lq := setQ ws.lq lid t.2 }, r.2)
      else ({ ws with lq := setQ ws.lq lid q }, [])
  | .arriveC sid dgs =>
    match ws.st.sessions sid with
    | none => (ws, [])
    | some s =>
      match s.role with
      | .serverPeer => (ws, [])             -- a ServerPeer session has no socket of its own
      | .client =>
        let q := ws.cq sid ++ dgs
        if s.armIn && reports w.et (!dgs.isEmpty) (!q.isEmpty) then
          -- mirrors udp_engine.hpp::handleFdEvent → onClient (EPOLLIN part), once
          let t := takeLoop (fun d => (d.take w.cfg.ioReadChunk).isEmpty) w.cloop.zeroEnds w.cloop.budget q
          let r := step w.cfg tok ws.st (.clientRecv sid t.1)
          ({ ws with st := r.1, cq := setQ ws.cq sid t.2 }, r.2)
        else ({ ws with cq := setQ ws.cq sid q }, [])
  | .io i =>
    let r := step w.cfg tok ws.st i
    ({ ws with st := r.1 }, r.2)

def wrunFrom (w : WCfg) : Nat → WState → List WIn → WState × List Out
  | _, ws, [] => (ws, [])
  | n, ws, i :: is =>
    let r1 := wstep w n ws i
    let r2 := wrunFrom w (n + 1) r1.1 is
    (r2.1, r1.2 ++ r2.2)

def wrun (w : WCfg) (h : List WIn) : WState × List Out := wrunFrom w 0 {} h

/-- the abstraction to `Model/UdpEngine.lean`: an arrival is a receive loop that returns exactly what arrived -/
def WIn.toIn : WIn → In
  | .arriveL lid dgs => .recvFrom lid dgs
  | .arriveC sid dgs => .clientRecv sid dgs
  | .io i => i

end Iora.Udp
