import IoraModel.Model.HttpServerRespond
/-
Connection-level model for C16: how the requests extracted on the I/O thread become engine commands.

* `Pool` — `HttpServer::handleIncomingData`'s dispatch (`_threadPool.tryEnqueue(... processHttpRequest ...)`, 503 through
  `sendErrorResponse` when the queue is full) and `core::ThreadPool` as the dispatcher: a FIFO queue of accepted tasks,
  at most `w` tasks taken by workers, every engine command of a task issued in one `_mutex` section.  The scheduler is an
  input: "for every schedule" is `∀ steps : List Step`.  How long a handler runs is how many steps lie between a task's
  `pick` and its `emit`s.
* `Sock` — the engine's side of one session (`TcpEngine::doSend / flushWrites / closeNow`): bytes the kernel accepted,
  the session's write queue, and the fact that a Close command destroys the session together with its write queue.
* the reference HTTP/1.1 response framer (RFC 9112 §6.3, Content-Length bodies) used by O5 and by the monitors.
-/
namespace Iora.HttpRespond
open Iora

/-! ## worker pool -/

/-- one accepted request: the session it came from, the engine commands its `processHttpRequest` call still has to issue,
    whether a worker has taken it (`false` = still in `ThreadPool::_tasks`) -/
structure Task where
  sid : Nat
  cmds : List Cmd
  running : Bool := false
  deriving DecidableEq, Repr

structure Pool where
  /-- accepted, unfinished requests in arrival order -/
  tasks : List Task := []
  /-- the engine's command queue: (session, command) in the order the commands were enqueued -/
  log : List (Nat × Cmd) := []
  /-- ghost: the commands every arrived request was entitled to, in arrival order -/
  ledger : List (Nat × Cmd) := []
  deriving Repr

inductive Step where
  /-- the I/O thread extracted a complete request from session `sid` and calls `tryEnqueue` -/
  | arrive (sid : Nat) (data : Bytes)
  /-- an idle worker pops the head of the task queue -/
  | pick
  /-- the worker running task number `i` (position in `tasks`) issues its next engine command; a task without commands
      left (or with none at all: suppressed / shutting down) retires -/
  | emit (i : Nat)
  deriving Repr

structure Params where
  /-- number of worker threads (`poolInitial .. poolMax`) -/
  w : Nat
  /-- `ThreadPool::_maxQueueSize` -/
  qcap : Nat
  /-- the commands `processHttpRequest(sid, data)` issues -/
  respond : Nat → Bytes → List Cmd

def tag (sid : Nat) (cs : List Cmd) : List (Nat × Cmd) := cs.map (fun c => (sid, c))
def Task.tagged (t : Task) : List (Nat × Cmd) := tag t.sid t.cmds
/-- every command still owed by unfinished tasks, task by task -/
def pending (ts : List Task) : List (Nat × Cmd) := ts.flatMap Task.tagged

def queuedCount (ts : List Task) : Nat := (ts.filter (fun t => !t.running)).length
def runningCount (ts : List Task) : Nat := (ts.filter (fun t => t.running)).length

/-- FIFO pop: the first task not yet taken becomes running -/
def markFirstQueued : List Task → List Task
  | [] => []
  | t :: ts => if t.running then t :: markFirstQueued ts else { t with running := true } :: ts

/-- task `i` issues one command (if it is running): the command and the remaining tasks -/
def emitAt : List Task → Nat → Option (Nat × Cmd) × List Task
  | [], _ => (none, [])
  | t :: ts, 0 =>
    if !t.running then (none, t :: ts)
    else
      match t.cmds with
      | [] => (none, ts)
      | [c] => (some (t.sid, c), ts)
      | c :: r => (some (t.sid, c), { t with cmds := r } :: ts)
  | t :: ts, i + 1 =>
    let r := emitAt ts i
    (r.1, t :: r.2)

def stepPool (P : Params) (p : Pool) : Step → Pool
  | .arrive sid data =>
    if queuedCount p.tasks ≥ P.qcap then
      -- `tryEnqueue` refused: `sendErrorResponse(503)` sends and closes at once, on the I/O thread
      { p with log := p.log ++ tag sid (overflowCmds (isHeadRaw data)), ledger := p.ledger ++ tag sid (overflowCmds (isHeadRaw data)) }
    else
      { p with tasks := p.tasks ++ [{ sid := sid, cmds := P.respond sid data }],
               ledger := p.ledger ++ tag sid (P.respond sid data) }
  | .pick => if runningCount p.tasks < P.w then { p with tasks := markFirstQueued p.tasks } else p
  | .emit i =>
    let r := emitAt p.tasks i
    match r.1 with
    | none => { p with tasks := r.2 }
    | some e => { p with tasks := r.2, log := p.log ++ [e] }

def runPool (P : Params) (p : Pool) (steps : List Step) : Pool := steps.foldl (stepPool P) p

/-- the commands of one session, in order -/
def proj (sid : Nat) (l : List (Nat × Cmd)) : List Cmd := (l.filter (fun e => e.1 == sid)).map (fun e => e.2)

/-- the payloads of the Send commands of one session, in order: the responses as the engine receives them -/
def sends (sid : Nat) (l : List (Nat × Cmd)) : List Bytes :=
  (proj sid l).filterMap (fun c => match c with | .send w => some w | .close => none)

/-- hypothesis of the O3 partial theorem: a request of a session arrives only when no earlier request of that session is
    still queued or being handled (a client that does not pipeline) -/
def OneInFlight (P : Params) : Pool → List Step → Prop
  | _, [] => True
  | p, s :: rest =>
    (match s with
     | .arrive sid _ => ∀ t ∈ p.tasks, t.sid ≠ sid
     | _ => True) ∧ OneInFlight P (stepPool P p s) rest

/-- hypothesis of the second O3 partial theorem: the task queue is never full when a request arrives -/
def NoOverflow (P : Params) : Pool → List Step → Prop
  | _, [] => True
  | p, s :: rest =>
    (match s with
     | .arrive _ _ => queuedCount p.tasks < P.qcap
     | _ => True) ∧ NoOverflow P (stepPool P p s) rest

/-! ## the engine's side of one session -/

structure Sock where
  isOpen : Bool := true
  /-- bytes the kernel accepted (what the peer will read), in order -/
  delivered : Bytes := []
  /-- `Session::wq`, flattened -/
  wq : Bytes := []
  deriving DecidableEq, Repr

inductive EngEv where
  /-- the I/O thread processes the session's next command; for a Send that finds the write queue empty the kernel
      accepts `accept` bytes at once (`::send` returned `min accept size`) -/
  | cmd (c : Cmd) (accept : Nat)
  /-- EPOLLOUT: up to `n` bytes of the write queue are flushed -/
  | writable (n : Nat)
  deriving Repr

/-- mirrors `doSend` / `flushWrites` / `closeNow` for one session -/
def sockStep (s : Sock) : EngEv → Sock
  | .cmd (.send bs) k =>
    if !s.isOpen then s
    else if s.wq.isEmpty then { s with delivered := s.delivered ++ bs.take k, wq := bs.drop k }
    else { s with wq := s.wq ++ bs }
  | .cmd .close _ => if !s.isOpen then s else { s with isOpen := false, wq := [] }
  | .writable n => if !s.isOpen then s else { s with delivered := s.delivered ++ s.wq.take n, wq := s.wq.drop n }

def runSock (s : Sock) (evs : List EngEv) : Sock := evs.foldl sockStep s

/-- the bytes handed to the engine for this session before its first Close command -/
def sentBeforeClose : List EngEv → Bytes
  | [] => []
  | .cmd (.send bs) _ :: rest => bs ++ sentBeforeClose rest
  | .cmd .close _ :: _ => []
  | .writable _ :: rest => sentBeforeClose rest

/-- hypothesis of the O4′ partial theorem: the kernel takes every response whole ("the response fits the socket buffer") -/
def FitsBuffer : List EngEv → Prop
  | [] => True
  | .cmd (.send bs) k :: rest => bs.length ≤ k ∧ FitsBuffer rest
  | _ :: rest => FitsBuffer rest

/-! ## reference response framer (RFC 9112 §6.3; fixed-length bodies) -/

structure Frame where
  status : Nat
  lines : List Bytes
  body : Bytes
  deriving DecidableEq, Repr

/-- one CRLF-terminated line and what follows it -/
def takeLine (s : Bytes) : Option (Bytes × Bytes) := splitAtSub crlf s

/-- field lines up to the empty line -/
def readFieldLines : Nat → Bytes → Option (List Bytes × Bytes)
  | 0, _ => none
  | f + 1, s =>
    match takeLine s with
    | none => none
    | some (l, rest) =>
      if l.isEmpty then some ([], rest)
      else match readFieldLines f rest with
        | none => none
        | some (ls, r) => some (l :: ls, r)

/-- `HTTP/1.x SP 3DIGIT [SP reason]` -/
def parseStatusLine (l : Bytes) : Option Nat :=
  match splitFirst 32 l with
  | none => none
  | some (v, rest) =>
    if v == ascii "HTTP/1.1" || v == ascii "HTTP/1.0" then
      match rest with
      | a :: b :: c :: tl =>
        if isDigit a && isDigit b && isDigit c && (tl.isEmpty || tl.head? == some 32)
        then some (((a.toNat - 48) * 10 + (b.toNat - 48)) * 10 + (c.toNat - 48)) else none
      | _ => none
    else none

/-- lower-cased, trimmed field name of a field line -/
def fieldName (l : Bytes) : Bytes :=
  match splitFirst 58 l with
  | some (k, _) => lower (trim k)
  | none => []
def fieldValue (l : Bytes) : Bytes :=
  match splitFirst 58 l with
  | some (_, v) => trim v
  | none => []

/-- declared body length: `none` = framing error, `some none` = no Content-Length, `some (some n)` -/
def declaredLength (lines : List Bytes) : Option (Option Nat) :=
  if lines.any (fun l => fieldName l == ascii "transfer-encoding") then none
  else
    match (lines.filter (fun l => fieldName l == ascii "content-length")).map fieldValue with
    | [] => some none
    | [v] => (parseDec v).map some
    | _ => none

def bodyForbidden (isHead : Bool) (status : Nat) : Bool :=
  isHead || (100 ≤ status && status < 200) || status == 204 || status == 304

/-- one response from the front of the stream (`isHead` = it answers a HEAD request) -/
def frameOne (isHead : Bool) (s : Bytes) : Option (Frame × Bytes) :=
  match takeLine s with
  | none => none
  | some (sl, rest) =>
    match parseStatusLine sl with
    | none => none
    | some status =>
      match readFieldLines (rest.length + 1) rest with
      | none => none
      | some (lines, rest') =>
        match declaredLength lines with
        | none => none
        | some cl =>
          if bodyForbidden isHead status then some ({ status := status, lines := lines, body := [] }, rest')
          else
            match cl with
            | some n => if rest'.length < n then none else some ({ status := status, lines := lines, body := rest'.take n }, rest'.drop n)
            | none => some ({ status := status, lines := lines, body := rest' }, [])   -- close-delimited

/-- all responses of a stream, one per request (in request order); `none` = the stream is not a sequence of whole responses -/
def frameAll : List Bool → Bytes → Option (List Frame)
  | [], s => if s.isEmpty then some [] else none
  | h :: hs, s =>
    match frameOne h s with
    | none => none
    | some (f, rest) =>
      match frameAll hs rest with
      | none => none
      | some fs => some (f :: fs)

end Iora.HttpRespond
