import IoraModel.Gen.TsyncSkel
/-!
Facts the Transport sync-layer models (C03 `SyncRecv`, C04 `ConnectSync`, C05 `Teardown`) *take from* the lock/notify
skeleton that `tools/tr_tsyncskel.py` regenerates from `transport_impl.hpp` on every run (DESIGN §2.1, §6.3): whether a
predicate write is followed by a notify under the same mutex, whether a lock is held across a call, ….  The models are
instantiated with these booleans (the driver runs with them), and the theorems that need them carry the hypothesis that
they are `true`, discharged by `decide` in `Props/C0x.lean` — so a deleted `notify`, a narrowed lock scope or a write moved
outside the mutex breaks the build of the property.
-/
namespace Iora.TsyncFacts
open Iora.Gen.TsyncSkel

abbrev Event := String × String × String

def fn (name : String) : List Event :=
  match skeleton.find? (fun p => p.1 == name) with
  | some p => p.2
  | none => []

/-- `a` occurs and the very next event is `b` -/
def followedBy : List Event → Event → Event → Bool
  | a' :: b' :: rest, a, b => (a' == a && b' == b) || followedBy (b' :: rest) a b
  | _, _, _ => false

/-- `a` occurs somewhere before `b` -/
def before : List Event → Event → Event → Bool
  | [], _, _ => false
  | x :: rest, a, b => (x == a && rest.contains b) || before rest a b

def count (evs : List Event) (p : Event → Bool) : Nat := (evs.filter p).length

/-- all events strictly between the first `a` and the next `b` -/
def between : List Event → Event → Event → List Event
  | [], _, _ => []
  | x :: rest, a, b => if x == a then rest.takeWhile (· != b) else between rest a b

/-! ### C03: predicate writes of `buf->cv` are made under `syncMutex` and notified under the same lock -/
def notifyOnData : Bool :=
  followedBy (fn "onData") ("write", "hasData=!bufIt->second->data.empty()", "syncMutex") ("notify_one", "buf.cv", "syncMutex") ||
  followedBy (fn "onData") ("write", "hasData=!bufIt->second->data.empty()", "syncMutex") ("notify_all", "buf.cv", "syncMutex")
/-- INV-1 at the source: the handler computes `hasData` from the BUFFER after the append (never from the arriving chunk, never a
constant), so a zero-length chunk cannot mark an empty buffer readable nor hide buffered bytes (FC03a) -/
def hasDataMirrorsBuffer : Bool :=
  followedBy (fn "onData") ("append", "data", "syncMutex") ("write", "hasData=!bufIt->second->data.empty()", "syncMutex") &&
  (fn "onData").all (fun e => e.1 != "write" || ["overflow=true", "hasData=!bufIt->second->data.empty()"].contains e.2.1)
/-- `receiveSync` keys its drain on the buffer being non-empty (not on a flag), copies `min(len, size)` and recomputes the flag
from the buffer -/
def drainKeyedOnBuffer : Bool :=
  followedBy (fn "receiveSync") ("cmp", "data-nonempty", "syncMutex") ("cmp", "min(len,size)", "syncMutex") &&
  followedBy (fn "receiveSync") ("consume", "data", "syncMutex") ("write", "hasData=!buf->data.empty()", "syncMutex") &&
  count (fn "receiveSync") (fun e => e == ("cmp", "data-nonempty", "syncMutex")) == 1
/-- the flush loop's critical section either TAKES the buffered bytes (mode unchanged) or, only on a pass that found the buffer
empty, switches the mode to Async and leaves the loop: the mode switch is never in the section that took bytes (C03-b) -/
def flushSwitchesModeOnlyOnEmptyPass : Bool :=
  let f := fn "setReadMode"
  followedBy f ("cmp", "data-nonempty", "syncMutex") ("take", "data", "syncMutex") &&
  followedBy f ("take", "data", "syncMutex") ("write", "hasData=false", "syncMutex") &&
  followedBy f ("write", "hasData=false", "syncMutex") ("else", "", "syncMutex") &&
  followedBy f ("else", "", "syncMutex") ("write", "readModes=Async", "syncMutex") &&
  followedBy f ("write", "readModes=Async", "syncMutex") ("break", "", "syncMutex") &&
  followedBy f ("break", "", "syncMutex") ("unlock", "syncMutex", "syncMutex") &&
  count f (fun e => e == ("take", "data", "syncMutex")) == 1 &&
  count f (fun e => e == ("write", "readModes=Async", "syncMutex")) == 2
def notifyOnOverflow : Bool :=
  followedBy (fn "onData") ("write", "overflow=true", "syncMutex") ("notify_all", "buf.cv", "syncMutex")
def notifyOnClose : Bool :=
  followedBy (fn "onClose") ("write", "closed=true", "syncMutex") ("notify_all", "buf.cv", "syncMutex")
/-- the handler reads the mode and appends under ONE acquisition of `syncMutex` (no unlock between) -/
def modeReadAndAppendUnderOneLock : Bool :=
  !(between (fn "onData") ("lock", "syncMutex", "") ("append", "data", "syncMutex")).any (fun e => e.1 == "unlock") &&
  (between (fn "onData") ("lock", "syncMutex", "") ("append", "data", "syncMutex")).contains ("read", "readModes", "syncMutex")
/-- the flush loop invokes the user callback with no Transport mutex held -/
def flushCallbackUnlocked : Bool := (fn "setReadMode").contains ("call", "user:cb", "")

/-! ### C03: the functions the model mirrors are PINNED: any change to their lock / wait / notify / write / return skeleton (not
only the facts above) stops the build until model and literal are looked at again -/
def expOnData : List Event :=
  [("lock", "syncMutex", ""), ("read", "readModes", "syncMutex"), ("read", "readModes", "syncMutex"), ("read", "receiveBuffers", "syncMutex"),
   ("read", "receiveBuffers", "syncMutex"), ("read", "shuttingDown", "syncMutex"), ("read", "waiters", "syncMutex"), ("return", "void", "syncMutex"),
   ("read", "overflow", "syncMutex"), ("return", "void", "syncMutex"), ("cmp", "size+chunk>max", "syncMutex"), ("write", "overflow=true", "syncMutex"),
   ("notify_all", "buf.cv", "syncMutex"), ("return", "void", "syncMutex"), ("append", "data", "syncMutex"),
   ("write", "hasData=!bufIt->second->data.empty()", "syncMutex"), ("notify_one", "buf.cv", "syncMutex"), ("return", "void", "syncMutex"),
   ("return", "void", "syncMutex"), ("unlock", "syncMutex", "syncMutex"), ("lock", "callbackMutex", ""), ("unlock", "callbackMutex", "callbackMutex"),
   ("call", "user:cb", "")]
def expReceiveSync : List Event :=
  [("call", "engine.getIoThreadId", ""), ("throw", "logic_error", ""), ("lock", "syncMutex", ""), ("read", "shuttingDown", "syncMutex"),
   ("return", "err:ShuttingDown", "syncMutex"), ("read", "receiveBuffers", "syncMutex"), ("read", "receiveBuffers", "syncMutex"),
   ("write", "receiveBuffers", "syncMutex"), ("read", "waiters", "syncMutex"), ("read", "flushing", "syncMutex"), ("return", "err:Cancelled", "syncMutex"),
   ("read", "flushing", "syncMutex"), ("guard", "ParkGuard:waiters", "syncMutex"), ("guard", "ParkGuard:activeReceives", "syncMutex"),
   ("read", "waiters", "syncMutex"), ("wait_until", "buf.cv", "syncMutex"), ("return", "buf->hasData||buf->close", "syncMutex"),
   ("read", "hasData", "syncMutex"), ("read", "closed", "syncMutex"), ("read", "overflow", "syncMutex"), ("read", "shuttingDown", "syncMutex"),
   ("return", "err:Timeout", "syncMutex"), ("cmp", "data-nonempty", "syncMutex"), ("cmp", "min(len,size)", "syncMutex"), ("consume", "data", "syncMutex"),
   ("write", "hasData=!buf->data.empty()", "syncMutex"), ("read", "hasData", "syncMutex"), ("return", "ok", "syncMutex"), ("read", "overflow", "syncMutex"),
   ("return", "err:BufferOverflow", "syncMutex"), ("read", "closed", "syncMutex"), ("erase", "receiveBuffers", "syncMutex"), ("erase", "readModes", "syncMutex"),
   ("return", "err:PeerClosed", "syncMutex"), ("return", "err:ShuttingDown", "syncMutex"), ("unlock", "syncMutex", "syncMutex")]
def expSetReadMode : List Event :=
  [("call", "engine.getIoThreadId", ""), ("throw", "logic_error", ""), ("return", "false", ""), ("lock", "syncMutex", ""),
   ("read", "receiveBuffers", "syncMutex"), ("read", "receiveBuffers", "syncMutex"), ("read", "closed", "syncMutex"), ("return", "true", "syncMutex"),
   ("read", "readModes", "syncMutex"),
   ("read", "readModes", "syncMutex"), ("cmp", "flush-iff:old!=Async&&new==Async", "syncMutex"), ("write", "readModes=mode", "syncMutex"),
   ("read", "receiveBuffers", "syncMutex"), ("read", "receiveBuffers", "syncMutex"), ("write", "receiveBuffers", "syncMutex"), ("return", "true", "syncMutex"),
   ("unlock", "syncMutex", "syncMutex"), ("lock", "callbackMutex", ""), ("unlock", "callbackMutex", "callbackMutex"), ("lock", "syncMutex", ""),
   ("read", "shuttingDown", "syncMutex"), ("return", "false", "syncMutex"), ("read", "receiveBuffers", "syncMutex"), ("read", "receiveBuffers", "syncMutex"),
   ("write", "readModes=Async", "syncMutex"), ("return", "true", "syncMutex"), ("guard", "FlushGuard", "syncMutex"), ("unlock", "syncMutex", "syncMutex"),
   ("lock", "syncMutex", ""), ("read", "shuttingDown", "syncMutex"), ("return", "false", "syncMutex"), ("cmp", "data-nonempty", "syncMutex"),
   ("take", "data", "syncMutex"), ("write", "hasData=false", "syncMutex"), ("else", "", "syncMutex"), ("write", "readModes=Async", "syncMutex"),
   ("break", "", "syncMutex"), ("unlock", "syncMutex", "syncMutex"), ("call", "user:cb", ""), ("return", "true", "")]
/-- the `onClose` handler from its LAST acquisition of `syncMutex` on (the part before it is C04's and C05's): the section that marks
the session closed (the former "step 6"; REPAIRED order, FC03c: it now comes FIRST), then the global close callback and the observers,
each invoked with NO Transport mutex held, then the user-data cleanup -/
def expOnCloseTail : List Event :=
  [("lock", "syncMutex", ""), ("read", "receiveBuffers", "syncMutex"), ("read", "receiveBuffers", "syncMutex"), ("write", "closed=true", "syncMutex"),
   ("notify_all", "buf.cv", "syncMutex"), ("write", "closed=true", "syncMutex"), ("write", "receiveBuffers", "syncMutex"), ("erase", "readModes", "syncMutex"),
   ("read", "receiveBuffers", "syncMutex"), ("read", "receiveBuffers", "syncMutex"), ("read", "receiveBuffers", "syncMutex"), ("read", "closed", "syncMutex"),
   ("read", "hasData", "syncMutex"), ("read", "waiters", "syncMutex"), ("read", "flushing", "syncMutex"), ("read", "overflow", "syncMutex"),
   ("erase", "receiveBuffers", "syncMutex"),
   ("unlock", "syncMutex", "syncMutex"), ("lock", "callbackMutex", ""), ("unlock", "callbackMutex", "callbackMutex"), ("call", "user:closeCb", ""),
   ("lock", "observerMutex", ""), ("unlock", "observerMutex", "observerMutex"), ("call", "user:obsCb", ""),
   ("lock", "userDataMutex", ""), ("unlock", "userDataMutex", "userDataMutex")]
/-- the suffix of `l` that starts at its last `("lock", "syncMutex", "")` -/
def lastSyncSection : List Event → List Event
  | [] => []
  | e :: rest =>
    if rest.contains ("lock", "syncMutex", "") then lastSyncSection rest
    else if e == ("lock", "syncMutex", "") then e :: rest else lastSyncSection rest
/-- T8: step 6 of the `onClose` handler erases the session's `readModes` entry exactly once and UNCONDITIONALLY (at the brace depth of
the critical section itself, under no `if`/`else`/loop - in particular not only when the buffer is empty): a closed session has no
mode entry, so a later `setReadMode(sid, Async)` takes no flush path -/
def closeForgetsModeUnconditionally : Bool :=
  fn "onClose.step6" == [("expr", "readModes.erase.count", "1"), ("expr", "readModes.erase.depth", "0")] &&
  count (lastSyncSection (fn "onClose")) (fun e => e == ("erase", "readModes", "syncMutex")) == 1
/-- T8 / FC02a: the first critical section of `setReadMode` returns (`true`, a vacuous success) for a session whose `receiveBuffers`
entry is a closed tombstone — unconditionally (brace depth of the section) and BEFORE it reads or writes `readModes`: no mode is registered again for a
closed id while its tail is buffered (`Model.SyncRecv.setModeS`, the `tomb` branch) -/
def setReadModeSkipsTombstone : Bool :=
  fn "setReadMode.tombGuard" == [("expr", "closed-tombstone-returns-true-first", "1")] &&
  before (fn "setReadMode") ("read", "closed", "syncMutex") ("read", "readModes", "syncMutex")
def c03SkeletonPinned : Bool :=
  fn "onData" == expOnData && fn "receiveSync" == expReceiveSync && fn "setReadMode" == expSetReadMode &&
  lastSyncSection (fn "onClose") == expOnCloseTail
/-- T8 / FC03c: the close handler marks the session closed for the sync-receive layer (both `closed = true` writes and the
`readModes.erase`, under `syncMutex`) BEFORE it invokes the global close callback, and that one before the observers; both are invoked
with no Transport mutex held (`Model.SyncRecv.step`: `ioClose` precedes `ioCloseCb`) -/
def closeMarksBeforeCallbacks : Bool :=
  let f := fn "onClose"
  before f ("erase", "readModes", "syncMutex") ("call", "user:closeCb", "") &&
  before f ("notify_all", "buf.cv", "syncMutex") ("call", "user:closeCb", "") &&
  before f ("call", "user:closeCb", "") ("call", "user:obsCb", "") &&
  !before f ("call", "user:closeCb", "") ("write", "closed=true", "syncMutex") &&
  !before f ("call", "user:obsCb", "") ("erase", "readModes", "syncMutex") &&
  count f (fun e => e.1 == "call" && (e.2.1 == "user:closeCb" || e.2.1 == "user:obsCb")) == 2 &&
  (fn "c03.exprs").contains ("expr", "onClose.order", "mark,closeCb,obsCb")
/-- the conditions the model mirrors as decisions, with operators and operands (review F5: `waiters == 0` vs `>= 0` vs `> 1` are the same
event tokens): the wait predicate `pred`, the single-waiter guard and the drain of `recvEnterS`, the teardown guard and the overflow test
of `ioDataS`, the GC threshold test of `closeSess` and the GC gate `reclaimable` (FC03d: an overflowed tombstone is reclaimable only once
`overflowReported`), the callback guards of the Async path and of the flush loop (a missing data callback DISCARDS the bytes: stated as
an assumption of the check), and the BufferOverflow answer of `receiveSync` marking the buffer `overflowReported` (`drain`) -/
def c03ConditionsPinned : Bool :=
  (fn "c03.exprs").take 9 ==
    [("expr", "recv.wait_until.pred", "[&buf,this]{returnbuf->hasData||buf->closed||buf->overflow||_impl->shuttingDown;}"),
     ("expr", "recv.singleWaiterGuard", "buf->waiters>0||buf->flushing"),
     ("expr", "onData.teardownGuard", "shuttingDown&&bufIt->second->waiters==0"),
     ("expr", "onData.overflowCmp", "bufIt->second->data.size()+data.size()>config.maxSyncReceiveBuffer"),
     ("expr", "onData.cbGuard", "cb"),
     ("expr", "onClose.gcThresholdCmp", "receiveBuffers.size()>gcThreshold"),
     ("expr", "onClose.gcGate", "it->first!=sid&&it->second->closed&&!it->second->hasData&&it->second->waiters==0&&!it->second->flushing&&(!it->second->overflow||it->second->overflowReported)"),
     ("expr", "flush.cbGuard", "cb&&!flushData.empty()"),
     ("expr", "recv.overflowBranch", "buf->overflowReported=true;return:BufferOverflow")] &&
  (fn "c03.exprs").length == 10

/-- `receiveSyncCancellable` is the loop the wrapper model (`Model/SyncRecvW.lean`) mirrors: entry token check; loop head = deadline
test, token test, `remaining <= 0` → leave; ONE `receiveSync(sid, buffer, len, min(remaining, 100 ms))` per iteration; its result is
returned unless it is `Timeout`; after the loop `Timeout`. Five `return`s, no lock of its own. -/
def recvWrapperShape : Bool :=
  fn "receiveSyncCancellable" ==
    [("read", "token.isCancelled", ""), ("return", "err:Cancelled", ""), ("const", "subInterval=100", ""), ("read", "token.isCancelled", ""),
     ("return", "err:Cancelled", ""), ("break", "", ""), ("call", "receiveSync", ""), ("return", "result", ""), ("return", "result", ""),
     ("return", "err:Timeout", "")] &&
  fn "receiveSyncCancellable.args" ==
    [("expr", "subInterval", "std::chrono::milliseconds{100}"), ("expr", "deadline", "std::chrono::steady_clock::now()+timeout"),
     ("expr", "remaining", "std::chrono::duration_cast<std::chrono::milliseconds>(deadline-std::chrono::steady_clock::now())"),
     ("expr", "subTimeout", "std::min(remaining,subInterval)"), ("expr", "result", "receiveSync(sid,buffer,len,subTimeout)"),
     ("expr", "while", "std::chrono::steady_clock::now()<deadline"), ("expr", "if:token.isCancelled()", "return:err:Cancelled"),
     ("expr", "if:token.isCancelled()", "return:err:Cancelled"), ("expr", "if:remaining<=std::chrono::milliseconds::zero()", "break"),
     ("expr", "if:result.isOk()", "returnresult"), ("expr", "if:result.error().code!=TransportError::Timeout", "returnresult"),
     ("expr", "returns", "5"), ("expr", "after-loop", "return:err:Timeout")]
/-- "in time" tie of `receiveSync`: it waits on `buf->cv` under the caller's lock until `now() + timeout` (saturated, FC03b) and
answers `Timeout` exactly when the wait was not signalled -/
def recvTimingArgs : Bool :=
  fn "receiveSync.args" ==
    [("expr", "deadline", "std::chrono::steady_clock::now()+detail::clampSyncTimeout(timeout)"), ("expr", "wait_until.lock", "lk"),
     ("expr", "wait_until.deadline", "deadline"), ("expr", "not-signalled", "return:Timeout")]
/-- FC03b: every synchronous call saturates its timeout (100 years) before it enters clock arithmetic, so
`std::chrono::milliseconds::max()` ("no timeout") cannot wrap the deadline into the past -/
def recvTimeoutsSaturate : Bool :=
  (fn "syncTimeoutClamp").contains ("expr", "receiveSync", "1") && (fn "syncTimeoutClamp").contains ("expr", "receiveSyncCancellable", "1") &&
  (fn "syncTimeoutClamp").contains
    ("expr", "clampSyncTimeout", "constexprstd::chrono::millisecondskMaxSyncWait{std::chrono::hours{24*365*100}};returntimeout>kMaxSyncWait?kMaxSyncWait:timeout;")
def connectTimeoutsSaturate : Bool :=
  (fn "syncTimeoutClamp").contains ("expr", "connectSync", "1") && (fn "syncTimeoutClamp").contains ("expr", "connectSyncCancellable", "1")

/-! ### C04: register-before-completion and the single unlock window -/
/-- `syncMutex` is held continuously from before `engine->connect` through registration, the guard and into the wait -/
def connectLockHeld : Bool :=
  let seg := between (fn "connectSync") ("lock", "syncMutex", "") ("wait_for", "op.cv", "syncMutex")
  !seg.any (fun e => e.1 == "unlock") &&
  seg.contains ("call", "engine.connect", "syncMutex") &&
  before seg ("read", "shuttingDown", "syncMutex") ("call", "engine.connect", "syncMutex") &&
  before seg ("call", "engine.connect", "syncMutex") ("write", "pendingConnects", "syncMutex") &&
  before seg ("write", "pendingConnects", "syncMutex") ("guard", "ParkGuard:activeConnects", "syncMutex")
/-- after the wait there is exactly one unlock window, it contains only `engine->close`, and `abandoned` is set before it -/
def connectCloseWindow : Bool :=
  let tail := (fn "connectSync").dropWhile (· != ("wait_for", "op.cv", "syncMutex"))
  (between tail ("unlock", "syncMutex", "syncMutex") ("lock", "syncMutex", "")) == [("call", "engine.close", "")] &&
  count tail (fun e => e == ("call", "engine.close", "")) == 1 &&
  before tail ("write", "abandoned=true", "syncMutex") ("unlock", "syncMutex", "syncMutex")
/-- both handlers complete the waiter under the lock and notify it; the abandoned check precedes the erase in `onConnect` -/
def handlersCompleteUnderLock : Bool :=
  before (fn "onConnect") ("write", "done=true", "syncMutex") ("notify_one", "op.cv", "") &&
  before (fn "onClose") ("write", "done=true", "syncMutex") ("notify_one", "op.cv", "") &&
  before (fn "onConnect") ("read", "abandoned", "syncMutex") ("erase", "pendingConnects", "syncMutex")

/-- "in time" tie (the durations themselves are scheduler choices in the model): `connectSync` waits on its own lock for exactly the
caller's `timeout` with the predicate `done || shuttingDown`; the cancellable wrapper polls in sub-intervals of 100 ms, its
deadline is `now + timeout`, every sub-attempt gets `min(remaining, subInterval)` with `remaining = deadline - now`, and the loop
runs while `now < deadline` -/
def connectTimingArgs : Bool :=
  let a := fn "connectSync.args"
  let w := fn "connectSyncCancellable.args"
  a.contains ("expr", "wait_for.lock", "lk") && a.contains ("expr", "wait_for.timeout", "timeout") &&
  a.contains ("expr", "wait_for.pred", "[&op,this]{returnop->done||_impl->shuttingDown;}") &&
  w.contains ("expr", "subInterval", "std::chrono::milliseconds{100}") &&
  w.contains ("expr", "deadline", "std::chrono::steady_clock::now()+timeout") &&
  w.contains ("expr", "remaining0", "timeout") &&
  count w (fun e => e.2.1 == "remaining") == 1 &&
  w.contains ("expr", "remaining", "std::chrono::duration_cast<std::chrono::milliseconds>(deadline-std::chrono::steady_clock::now())") &&
  count w (fun e => e.2.1 == "subTimeout") == 2 &&
  count w (fun e => e == ("expr", "subTimeout", "std::min(remaining,subInterval)")) == 2 &&
  count w (fun e => e.2.1 == "connectSync.args") == 2 &&
  count w (fun e => e == ("expr", "connectSync.args", "host,port,tls,subTimeout")) == 2 &&
  w.contains ("expr", "while", "std::chrono::steady_clock::now()<deadline")
/-- the requested host, port and TLS mode reach `engine->connect` unchanged; an engine error is returned as is; the id handed out is
the engine's; the timeout exit closes exactly that id; the success return is the handler's result -/
def connectPassesArgs : Bool :=
  let a := fn "connectSync.args"
  count a (fun e => e.2.1 == "engine.connect.args") == 2 &&
  count a (fun e => e == ("expr", "engine.connect.args", "host,port,tls")) == 2 &&
  count a (fun e => e.2.1 == "engine.close.args") == 1 && a.contains ("expr", "engine.close.args", "sid") &&
  a.contains ("expr", "connect.errbranch", "returnresult;") && a.contains ("expr", "sid", "result.value()") &&
  a.contains ("expr", "return.done", "std::move(op->result)") && count a (fun e => e.2.1 == "return.ok") == 0

/-! ### C05: fence, counters, guards -/
def fenceUnderLockAndNotifies : Bool :=
  followedBy (fn "setTeardownFence") ("write", "shuttingDown=true", "syncMutex") ("notify_all", "pendingConnects[*].cv", "syncMutex") &&
  followedBy (fn "teardownWaitOut") ("write", "shuttingDown=true", "syncMutex") ("notify_all", "pendingConnects[*].cv", "syncMutex") &&
  before (fn "teardownWaitOut") ("notify_all", "receiveBuffers[*].cv", "syncMutex") ("wait", "teardownCv", "syncMutex")
def guardsPaired : Bool :=
  fn "ParkGuard.ctor" == [("inc", "counter", "")] &&
  fn "ParkGuard.dtor" == [("dec", "counter", ""), ("notify_one", "teardownCv", "")] &&
  fn "FlushGuard.ctor" == [("write", "flushing=true", ""), ("inc", "activeFlushes", "")] &&
  fn "FlushGuard.dtor" == [("lock", "syncMutex", ""), ("write", "flushing=false", "syncMutex"), ("dec", "activeFlushes", "syncMutex"),
                           ("notify_one", "teardownCv", "syncMutex"), ("unlock", "syncMutex", "syncMutex")]
/-- every park site constructs its guard(s) under the lock before waiting, after the entry-fence check -/
def parkSitesGuarded : Bool :=
  before (fn "receiveSync") ("read", "shuttingDown", "syncMutex") ("guard", "ParkGuard:waiters", "syncMutex") &&
  followedBy (fn "receiveSync") ("guard", "ParkGuard:waiters", "syncMutex") ("guard", "ParkGuard:activeReceives", "syncMutex") &&
  before (fn "receiveSync") ("guard", "ParkGuard:activeReceives", "syncMutex") ("wait_until", "buf.cv", "syncMutex") &&
  before (fn "connectSync") ("guard", "ParkGuard:activeConnects", "syncMutex") ("wait_for", "op.cv", "syncMutex") &&
  before (fn "setReadMode") ("read", "shuttingDown", "syncMutex") ("guard", "FlushGuard", "syncMutex") &&
  count (fn "receiveSync") (fun e => e.1 == "wait_until" || e.1 == "wait" || e.1 == "wait_for") == 1 &&
  count (fn "connectSync") (fun e => e.1 == "wait_until" || e.1 == "wait" || e.1 == "wait_for") == 1 &&
  count (fn "setReadMode") (fun e => e.1 == "wait_until" || e.1 == "wait" || e.1 == "wait_for") == 0
/-- the normal path is fence → engine stop → wait-out(false); the already-stopped path is wait-out(true) -/
def teardownOrder : Bool :=
  fn "performTeardown" == [("call", "engine.getIoThreadId", ""), ("call", "engine.isRunning", ""), ("call", "teardownWaitOut(true)", ""),
                           ("return", "void", ""), ("call", "setTeardownFence", ""), ("call", "engine.stop", ""),
                           ("call", "teardownWaitOut(false)", "")]

/-! ### C05 T4: the engine command queue (tcp_engine.hpp) -/
/-- both `enqueue` overloads test `_cmdsClosed` under `_cmdMutex`, return false before pushing, and push under the same lock -/
def enqueueChecksClosedUnderLock : Bool :=
  ["tcp.enqueue#0", "tcp.enqueue#1"].all fun f =>
    (fn f).take 6 == [("lock", "_cmdMutex", ""), ("read", "_cmdsClosed", "_cmdMutex"), ("return", "false", "_cmdMutex"),
                      ("push", "_cmds", "_cmdMutex"), ("wake", "_eventFd", "_cmdMutex"), ("unlock", "_cmdMutex", "_cmdMutex")]
/-- `shutdownDrain` runs `process()` once more, then closes the queue and takes the residual commands under ONE acquisition of
`_cmdMutex`, and fails the residual promises afterwards -/
def drainClosesQueueUnderLock : Bool :=
  before (fn "tcp.shutdownDrain") ("call", "process", "") ("lock", "_cmdMutex", "") &&
  followedBy (fn "tcp.shutdownDrain") ("lock", "_cmdMutex", "") ("write", "_cmdsClosed=true", "_cmdMutex") &&
  followedBy (fn "tcp.shutdownDrain") ("write", "_cmdsClosed=true", "_cmdMutex") ("swap", "residual", "_cmdMutex") &&
  before (fn "tcp.shutdownDrain") ("unlock", "_cmdMutex", "_cmdMutex") ("set_value", "false", "") &&
  count (fn "tcp.shutdownDrain") (fun e => e.1 == "write") == 1
/-- `process()` swaps the queue out under the lock and fulfils an AddListener promise in the normal arm and in the exception arm -/
def processFulfilsPromises : Bool :=
  (fn "tcp.process").take 3 == [("lock", "_cmdMutex", ""), ("swap", "q", "_cmdMutex"), ("unlock", "_cmdMutex", "_cmdMutex")] &&
  before (fn "tcp.process") ("case", "AddListener", "") ("call", "doAddListener", "") &&
  followedBy (fn "tcp.process") ("call", "doAddListener", "") ("set_value", "ok", "") &&
  before (fn "tcp.process") ("catch", "", "") ("set_value", "false", "")
/-- `addListener` returns ShuttingDown without waiting when `enqueue` refuses the command, and only then waits on the future -/
def addListenerRejectsBeforeWaiting : Bool :=
  followedBy (fn "tcp.addListener") ("enqueue", "addListener+promise", "") ("return", "err:ShuttingDown", "") &&
  before (fn "tcp.addListener") ("return", "err:ShuttingDown", "") ("wait", "future", "")
/-- `stop()` is a CAS on `_running`, then Shutdown is enqueued and the I/O thread is joined -/
def stopJoins : Bool :=
  fn "tcp.stop" == [("running", "compare_exchange_strong:exp,false", ""), ("enqueue", "shutdown", ""), ("join", "_loop", "")]

end Iora.TsyncFacts
