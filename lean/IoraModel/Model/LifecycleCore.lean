/-!
# Engine session lifecycle — shared core (C02)

State of one engine instance (TcpEngine / UdpEngine) as far as the session LIFECYCLE is concerned, and the
primitive state operations out of which the handlers of `Model/EngineLifecycle.lean` are composed.
Every primitive mirrors a small piece of C++ that occurs at many places (the `closeNow` routine, the
"copy `_cbs.onClose` and call it" idiom, `bumpSess`, the session-map insert, ...).

The environment (kernel, OpenSSL, clocks, fault-injection hooks) is an *input*: each handler consumes a list of
answers `A`, one per call whose result decides the control flow.  Quantifying over all input lists therefore
quantifies over all fault sequences.

The output trace is threaded through the state (`G.tr`): an operation that invokes a callback appends the
corresponding `Out`.  `G.stale` is set when the model would dereference a session that is no longer in the table
(the C++ would touch a dangling `Session*`); `G.envBad` is set when the environment hands payload bytes to a
client session whose connect the engine has not yet seen complete (no kernel does that; see Props/C02 T3).
-/
namespace Iora.Lifecycle

abbrev Sid := Nat
abbrev Lid := Nat
abbrev Key := Nat

/-- `TlsState` of tcp_engine.hpp (`None` also stands for a plain session, `tlsMode == None`). -/
inductive Tls | none | handshake | opened
  deriving DecidableEq, Repr

/-- the `TlsMode` argument of connect(): `None`, `Client`, or (meaningless for an outbound connection, but accepted by the API) `Server` -/
inductive TlsReq | none | client | server
  deriving DecidableEq, Repr

/-- `CloseOrigin` of tcp_engine.hpp. -/
inductive Origin | app | connectTimeout | handshakeTimeout | writeStall
  deriving DecidableEq, Repr

/-- One environment answer (abstracted result of a syscall / OpenSSL call / clock comparison / test hook). -/
inductive A
  | ok        -- success: connect()==0, SO_ERROR==0, getpeername()==0, accept4 fd, SSL_new, handshake rc==1, hook true, getaddrinfo ok
  | again     -- EAGAIN / EWOULDBLOCK / EINPROGRESS / SSL_ERROR_WANT_* / transient ENOTCONN
  | fail      -- hard failure of the call (rc<0 with another errno, fatal SSL error, hook returned false)
  | refused   -- ECONNREFUSED / ENETUNREACH / EHOSTUNREACH (/ ETIMEDOUT for getpeername)
  | soerr     -- getsockopt succeeded and SO_ERROR != 0
  | data      -- recv / SSL_read returned n > 0
  | eof       -- recv returned 0 / SSL_ERROR_ZERO_RETURN
  | full      -- send / SSL_write / sendto took the whole buffer
  | part      -- send / SSL_write took a strict prefix
  | timeout   -- a clock comparison came out "expired" (DNS wait, inline handshake timeout)
  | no        -- a clock comparison came out "not expired" / the address list is exhausted
  | dgram (k : Key)   -- recvfrom returned a datagram from peer key k (UDP listener)
  | addrs (n : Nat)   -- getaddrinfo succeeded with n usable addresses
  | afFail            -- udp sockAf(): getsockname failed / unknown family (only ever logged on failure: peeked)
  | noMatch           -- udp viaDo: no resolved address of the listener's family (peeked)
  | keyFail           -- udp viaDo: key(to) failed (getnameinfo error), the peer key is empty (only ever logged on failure: peeked) - FC06a
  | dgramNoKey        -- udp readFromListener: recvfrom returned a datagram whose source address key(from) cannot format - FC06a
  | throw             -- the call threw (tcp doConnect: std::async cannot create the resolver thread, std::system_error) - FC02b
  deriving DecidableEq, Repr

/-- Every call site that can produce a close notification (one constructor per `closeNow(`/`closeCb(` call site of
the two engines; tied to the source by `closeSites_covered`). The `proc*` sites carry the command's origin. -/
inductive Site
  -- shared shape (both engines)
  | drainSession | drainResidual | procClose (o : Origin) | gc
  -- tcp doConnect (session not inserted yet: direct closeCb)
  | tlsRefused | resolveThrow | resolveTimeout | resolveFail | refused | noSocket | sslNewFail | sniFail
  -- tcp doConnect immediate check (inserted: closeNow)
  | immGsoFail | immPeerFail | immSoErr
  -- tcp onSession
  | evSoErrEarly | evGsoFail | evPeerFail | evSoErr | hup
  -- tcp driveHandshake
  | hsTimeoutInline | hsHookBefore | hsHookAfterOk | hsHookAfterErr | hsFatal
  -- tcp readAvail
  | rdHook | tlsZeroReturn | tlsReadErr | recvErr | fin
  -- tcp writePending
  | wrHook | tlsWriteErr | sendErr
  -- tcp doSend
  | dsHook | dsTlsErr | dsSendErr | backpressure
  -- udp connectDo / viaDo (not inserted yet)
  | uResolveFail | uNoSocket | vNoListener | vAfUnknown | vResolveFail | vAfMismatch | vKeyFail | vCap
  -- udp onClient / writeClient / sendDo
  | ucRecvErr | ucWriteErr | usBackpressure | usSendErr | usListenerGone | usLstBackpressure | usPeerSendErr
  deriving DecidableEq, Repr

inductive AnnKind | accept | connect
  deriving DecidableEq, Repr

/-- What the application can observe: `connect()` returning, and the engine-level callbacks. -/
inductive Out
  | ret (sid : Sid) (ok : Bool)
  | announce (sid : Sid) (k : AnnKind)
  | data (sid : Sid)
  | close (sid : Sid) (site : Site)
  deriving DecidableEq, Repr

/-- `Session` of both engines, lifecycle-relevant fields only. -/
structure Sess where
  client : Bool := false          -- tcp: created by doConnect; udp: Role::ClientConnected
  connectPending : Bool := false
  tls : Tls := .none
  closed : Bool := false
  wq : Nat := 0                   -- wq.size()
  pkey : Option Key := none       -- udp Role::ServerPeer: peer key
  owner : Lid := 0                -- udp Role::ServerPeer: owning listener
  connAnnounced : Bool := false   -- ghost: the connect callback has fired for this session
  deriving Repr

/-- The accept / connect callback has fired for this session (client sessions are announced exactly when
`connectPending` is cleared; accepted sessions at insertion). -/
def Sess.announced (s : Sess) : Bool := !s.client || !s.connectPending

inductive Cmd
  | shutdown
  | addListener (lid : Lid) (tls : Bool)
  | connect (sid : Sid) (tls : TlsReq) (named : Bool)
  | via (sid : Sid) (lid : Lid) (k : Key)
  | send (sid : Sid)
  | close (sid : Sid) (o : Origin)
  deriving DecidableEq, Repr

/-- program counter of the I/O thread -/
inductive Phase | loop | drainProc | drainSess | stopped
  deriving DecidableEq, Repr

/-- Static configuration (from `TransportConfig`, plus flags describing the source variant; the driver sets those to the current tree). -/
structure Cfg where
  cliCtx : Bool := false          -- `_config.clientTls.enabled && _sslCli`
  srvCtx : Bool := false          -- `_config.serverTls.enabled && _sslSrv`
  tlsRefuse : Bool := false       -- doConnect refuses TLS requested without a usable client context (F18 repair; true on the current tree)
  sniCheck : Bool := false        -- `clientTls.verifyPeer`: SSL_set1_host is called for connects by name (F20 repair)
  inlineHsTimeout : Bool := false -- `!_timerService && handshakeTimeout > 0`
  maxWriteQueue : Nat := 1024
  closeOnBackpressure : Bool := true
  maxSessions : Nat := 0          -- udp; 0 = unlimited
  peerEraseGuarded : Bool := false -- F17 repair present in closeNow
  peerEraseGuardedDrain : Bool := false
  deriving Repr

structure G where
  cfg : Cfg := {}
  table : Sid → Option Sess := fun _ => none       -- `_sessions`
  nextId : Nat := 1                                   -- `_nextSessionId`
  queue : List Cmd := []                              -- `_cmds` / `_q`
  batch : List Cmd := []                              -- the local deque of process()
  cur : Option Sid := none                            -- the connect request being processed (`cr.sid`, not inserted yet)
  cmdsClosed : Bool := false
  running : Bool := true
  phase : Phase := .loop
  accepted : Nat := 0
  connected : Nat := 0
  closedCnt : Nat := 0
  current : Int := 0                                  -- sessionsCurrent (Int: an underflow must be visible)
  backpressureCloses : Nat := 0
  listeners : Lid → Option Nat := fun _ => none       -- udp: listener -> wq.size(); tcp: presence only
  index : Key → Option Sid := fun _ => none           -- udp `_peerIndex`
  tr : List Out := []
  stale : Bool := false
  dupAnn : Bool := false       -- ghost: a connect callback fired a second time for one session
  envBad : Bool := false       -- ghost: payload was delivered for a session before its accept/connect callback

def upd {β : Type} (f : Nat → Option β) (k : Nat) (v : Option β) : Nat → Option β := fun x => if x = k then v else f x

/-- append one observable event -/
def emit (o : Out) (g : G) : G := { g with tr := g.tr ++ [o] }

/-- the next answer; a missing answer reads as `again` (the acceptor reports exhausted answer lists separately) -/
def nextA : List A → A × List A
  | [] => (.again, [])
  | a :: r => (a, r)

/-- mirrors `_peerIndex.erase(pkey)` of UdpEngine::closeNow / shutdownDrain; `guarded` = the F17 repair is present (the entry is
erased only if it maps to the closing session). Client-role and tcp sessions have no key. -/
def eraseIdx (guarded : Bool) (index : Key → Option Sid) (pkey : Option Key) (sid : Sid) : Key → Option Sid :=
  match pkey with
  | none => index
  | some k => if guarded then (if index k = some sid then upd index k none else index) else upd index k none

/-- an answer that is only ever logged when the call FAILS is peeked: consumed if it is the next one, otherwise nothing is consumed -/
def peekA (a : A) (as : List A) : Bool × List A :=
  match as with
  | [] => (false, [])
  | x :: r => if x = a then (true, r) else (false, x :: r)

/-- mirrors the common tail of TcpEngine::closeNow / UdpEngine::closeNow: guard on the closed flag, mark, (udp: drop the
peer-index entry), erase from the map, counters, then the close callback. -/
def closeNow (sid : Sid) (site : Site) (g : G) : G :=
  match g.table sid with
  | none => g
  | some s =>
    if s.closed then g else
    emit (.close sid site)
      { g with table := upd g.table sid none, index := eraseIdx g.cfg.peerEraseGuarded g.index s.pkey sid,
               closedCnt := g.closedCnt + 1, current := g.current - 1 }

/-- mirrors the "copy `_cbs.onClose`, call it for `cr.sid`" idiom of the connect failure paths (the session does not exist). -/
def failConnect (site : Site) (g : G) : G :=
  match g.cur with
  | none => { g with stale := true }
  | some sid => emit (.close sid site) { g with cur := none }

/-- mirrors `_sessions.emplace(cr.sid, ...)` + `bumpSess()` of doConnect / connectDo / viaDo: the new session is a client
session whose connect callback has not fired yet. -/
def insertCur (useTls : Bool) (pkey : Option Key) (owner : Lid) (g : G) : G :=
  match g.cur with
  | none => { g with stale := true }
  | some sid =>
    { g with cur := none, current := g.current + 1,
             table := upd g.table sid (some { client := true, connectPending := true, tls := if useTls then .handshake else .none,
                                              pkey := pkey, owner := owner }) }

/-- mirrors `sid = _nextSessionId++` + emplace + `bumpSess()` + `accepted++` + `acceptCb(sid, ..)` of onListener / readFromListener
(udp also enters the peer into `_peerIndex` between the emplace and the callback). -/
def acceptFresh (tls : Tls) (pkey : Option Key) (owner : Lid) (g : G) : G × Sid :=
  let sid := g.nextId
  (emit (.announce sid .accept)
    { g with nextId := g.nextId + 1, current := g.current + 1, accepted := g.accepted + 1,
             table := upd g.table sid (some { tls := tls, pkey := pkey, owner := owner }),
             index := match pkey with | some k => upd g.index k (some sid) | none => g.index }, sid)

/-- mirrors `SessionId sid = _nextSessionId++` of an accept whose SSL_new failed: the id is burnt, nothing is inserted -/
def burnId (g : G) : G := { g with nextId := g.nextId + 1 }

/-- read access through a `Session*`: the session must still be in the map and not marked closed -/
def withLive (sid : Sid) (g : G) (k : Sess → G) : G :=
  match g.table sid with
  | none => { g with stale := true }
  | some s => if s.closed then { g with stale := true } else k s

/-- mirrors `connectCb(sid, ..)`, `connected++`, `connectPending = false` (the three always occur together); on the TLS path
`tlsState = Open` is assigned on the lines just before, which is folded in here (a no-op for plain sessions). -/
def announceConnect (sid : Sid) (g : G) (count : Bool := true) : G :=
  withLive sid g fun s =>
    emit (.announce sid .connect)
      { g with table := upd g.table sid (some { s with connectPending := false, connAnnounced := true,
                                                       tls := if s.tls = .handshake then .opened else s.tls }),
               connected := if count then g.connected + 1 else g.connected,
               dupAnn := g.dupAnn || s.connAnnounced }

/-- udp: `_sessions.emplace` + `bumpSess()` + `connectCb(..)` of connectDo / viaDo in one go (a UDP "connect" is immediate:
the session is created with `connectPending = false` and announced at once) -/
def connectNow (pkey : Option Key) (owner : Lid) (count : Bool) (g : G) : G :=
  match g.cur with
  | none => { g with stale := true }
  | some sid => announceConnect sid (insertCur false pkey owner g) count

/-- mirrors `dataCb(sid, ..)` -/
def dataCb (sid : Sid) (g : G) : G :=
  withLive sid g fun s =>
    emit (.data sid) { g with envBad := g.envBad || !s.announced }

/-- field update that does not touch the lifecycle fields -/
def setWq (sid : Sid) (n : Nat) (g : G) : G :=
  withLive sid g fun s => { g with table := upd g.table sid (some { s with wq := n }) }

/-- mirrors `if (!peerExists) _peerIndex.emplace(k, vr.sid)` of viaDo for the session just announced -/
def viaIndex (sid : Sid) (k : Key) (g : G) : G :=
  withLive sid g fun s =>
    -- (the first two conjuncts always hold where viaDo calls this: the session was created with this key and announced on the line above)
    if s.announced ∧ s.pkey = some k ∧ g.index k = none then { g with index := upd g.index k (some sid) } else g

/-- mirrors `for (auto &c : q)` of process(): take the next command; a Connect / Via request's id becomes `cur` -/
def popCmd (g : G) : Option Cmd × G :=
  match g.batch with
  | [] => (none, g)
  | c :: rest =>
    match c with
    | .connect sid _ _ => (some c, { g with batch := rest, cur := some sid })
    | .via sid _ _ => (some c, { g with batch := rest, cur := some sid })
    | _ => (some c, { g with batch := rest })

/-- mirrors `_atomicStats.backpressureCloses++` -/
def bumpBp (g : G) : G := { g with backpressureCloses := g.backpressureCloses + 1 }

/-- mirrors `enqueue(cmd)`: refused once the queue is closed -/
def enqueue (c : Cmd) (g : G) : G × Bool :=
  if g.cmdsClosed then (g, false) else ({ g with queue := g.queue ++ [c] }, true)

end Iora.Lifecycle
