import IoraModel.Common.Bytes
import IoraModel.Gen.Ws
/-
Model of `include/iora/network/websocket_frame.hpp` (frame codec, UTF-8 validator).
Every definition mirrors one C++ function; constants come from the regenerated `Gen/Ws.lean`.
-/
namespace Iora.Ws
open Iora

structure Frame where
  fin : Bool
  opcode : Nat          -- low nibble of byte 0 (0..15)
  masked : Bool
  key : Bytes           -- `maskKey[4]`
  payload : Bytes
  deriving DecidableEq, Repr

/-- mirrors `isControlFrame` (table from the source) -/
def isControl (op : Nat) : Bool := Gen.Ws.controlOpcodes.contains op

/-- result of `WebSocketFrame::parse(data, consumed, status, maxPayload)` -/
inductive PRes where
  | frame (f : Frame) (consumed : Nat)
  | incomplete
  | protocolError
  | tooLarge
  deriving DecidableEq, Repr

/-- mirrors the un/masking loops `payload[i] ^= maskKey[i % 4]`: the key is rotated as we go -/
def xorMask : Bytes → Bytes → Bytes
  | k0 :: ks, x :: xs => (x ^^^ k0) :: xorMask (ks ++ [k0]) xs
  | _, xs => xs

def zeroKey : Bytes := [0, 0, 0, 0]

/-- extended payload length (`readU16BE` / `readU64BE`): (declared length, header bytes used, rest) -/
def readExt (l7 : Nat) (rest : Bytes) : Option (Nat × Nat × Bytes) :=
  if l7 = Gen.Ws.len16Marker then
    match takeN 2 rest with
    | none => none
    | some (a, r) => some (beNat a, 2, r)
  else if l7 = Gen.Ws.len64Marker then
    match takeN 8 rest with
    | none => none
    | some (a, r) => some (beNat a, 8, r)
  else some (l7, 0, rest)

/-- the 4 mask-key bytes, present iff the MASK bit is set -/
def readKey (masked : Bool) (r1 : Bytes) : Option (Bytes × Nat × Bytes) :=
  if masked then
    match takeN 4 r1 with
    | none => none
    | some (k, r) => some (k, 4, r)
  else some (zeroKey, 0, r1)

/-- mirrors `WebSocketFrame::parse` (4-argument overload; the 2-argument one passes `maxPayload = 2^64-1`).
`allocation` is not a separate output: the only allocation is `payload.resize(payloadLen)`, reached
only in the `frame` outcome, where it equals `payload.length`. -/
def parse (maxPayload : Nat) (d : Bytes) : PRes :=
  match d with
  | b0 :: b1 :: rest =>
    let fin := decide (b0.toNat ≥ 128)
    let rsv := (b0.toNat / 16) % 8
    let op := b0.toNat % 16
    if rsv ≠ 0 then
      .frame { fin := fin, opcode := op, masked := false, key := zeroKey, payload := [] } d.length
    else
      let masked := decide (b1.toNat ≥ 128)
      let l7 := b1.toNat % 128
      if isControl op && (decide (l7 > Gen.Ws.maxControlPayload) || !fin) then .protocolError
      else
        match readExt l7 rest with
        | none => .incomplete
        | some (len, extBytes, r1) =>
          if len > maxPayload then .tooLarge
          else
            match readKey masked r1 with
            | none => .incomplete
            | some (key, keyBytes, r2) =>
              match takeN len r2 with
              | none => .incomplete
              | some (pl, _) =>
                .frame { fin := fin, opcode := op, masked := masked, key := key,
                         payload := if masked then xorMask key pl else pl }
                       (2 + extBytes + keyBytes + len)
  | _ => .incomplete

/-- mirrors `WebSocketFrame::serialize(applyMask)` with `applyMask = f.masked` -/
def serialize (f : Frame) : Bytes :=
  let b0 := b8 (f.opcode + (if f.fin then 128 else 0))
  let m := if f.masked then 128 else 0
  let n := f.payload.length
  let hdr : Bytes :=
    if n ≤ Gen.Ws.serMax7 then [b0, b8 (m + n)]
    else if n ≤ Gen.Ws.serMax16 then b0 :: b8 (m + 126) :: be16 n
    else b0 :: b8 (m + 127) :: be64 n
  if f.masked then hdr ++ f.key ++ xorMask f.key f.payload else hdr ++ f.payload

/-- mirrors `closePayload()` : (code, reason) -/
def closePayload (pl : Bytes) : Nat × Bytes :=
  match pl with
  | a :: b :: r => (a.toNat * 256 + b.toNat, r)
  | _ => (1005, [])

/-- `(x & 0xC0) == 0x80`: a UTF-8 continuation byte -/
def isCont (x : UInt8) : Bool := x.toNat / 64 = 2

/-- mirrors `while (n > 0 && (reason[n] & 0xC0) == 0x80) --n;` in `makeClose` -/
def backoff (r : Bytes) : Nat → Nat
  | 0 => 0
  | n + 1 =>
    match r[n + 1]? with
    | some x => if isCont x then backoff r n else n + 1
    | none => n + 1

/-- number of reason bytes `makeClose` keeps: all of them up to `closeReasonMax`, else cut on a UTF-8 character boundary -/
def closeReasonLen (r : Bytes) : Nat :=
  if r.length > Gen.Ws.closeReasonMax then backoff r Gen.Ws.closeReasonMax else r.length

/-- the payload `makeClose(code, reason)` builds (the code is a `uint16_t`) -/
def closeBody (code : Nat) (reason : Bytes) : Bytes :=
  b8 (code / 256) :: b8 code :: reason.take (closeReasonLen reason)

/-- mirrors `makeClose(code, reason)` -/
def makeClose (code : Nat) (reason : Bytes) : Frame :=
  { fin := true, opcode := 8, masked := false, key := zeroKey, payload := closeBody code reason }

def mkFrame (op : Nat) (fin : Bool) (pl : Bytes) : Frame :=
  { fin := fin, opcode := op, masked := false, key := zeroKey, payload := pl }

/-- one application send call -/
inductive Send where
  | text (bs : Bytes)
  | binary (bs : Bytes)
  | ping (bs : Bytes)
  | close (code : Nat) (reason : Bytes)
  deriving DecidableEq, Repr

/-! ### UTF-8 validator, mirrors `isValidUtf8` -/

/-- one iteration of the `while` loop: `none` = return false, `some rest` = `i += seqLen` -/
def utf8Step : Bytes → Option Bytes
  | [] => some []
  | c :: t =>
    let c' := c.toNat
    if c' ≤ 0x7F then some t
    else if c' / 32 = 6 then        -- (c & 0xE0) == 0xC0
      match t with
      | x1 :: r => if !isCont x1 then none else if c' < 0xC2 then none else some r
      | _ => none
    else if c' / 16 = 14 then       -- (c & 0xF0) == 0xE0
      match t with
      | x1 :: x2 :: r =>
        if !isCont x1 || !isCont x2 then none
        else if c' = 0xE0 && x1.toNat < 0xA0 then none
        else if c' = 0xED && x1.toNat ≥ 0xA0 then none
        else some r
      | _ => none
    else if c' / 8 = 30 then        -- (c & 0xF8) == 0xF0
      match t with
      | x1 :: x2 :: x3 :: r =>
        if !isCont x1 || !isCont x2 || !isCont x3 then none
        else if c' = 0xF0 && x1.toNat < 0x90 then none
        else if c' > 0xF4 || (c' = 0xF4 && x1.toNat > 0x8F) then none
        else some r
      | _ => none
    else none

theorem utf8Step_length : ∀ (d r : Bytes), d ≠ [] → utf8Step d = some r → r.length < d.length := by
  intro d r hne h
  match d, hne with
  | c :: t, _ =>
    simp only [utf8Step] at h
    split at h
    · cases h; simp
    · split at h
      · split at h
        · split at h; · cases h
          split at h; · cases h
          cases h; simp; omega
        · cases h
      · split at h
        · split at h
          · split at h; · cases h
            split at h; · cases h
            split at h; · cases h
            cases h; simp; omega
          · cases h
        · split at h
          · split at h
            · split at h; · cases h
              split at h; · cases h
              split at h; · cases h
              cases h; simp; omega
            · cases h
          · cases h

def isValidUtf8 (d : Bytes) : Bool :=
  match hd : d with
  | [] => true
  | c :: t =>
    match h : utf8Step (c :: t) with
    | none => false
    | some r => isValidUtf8 r
termination_by d.length
decreasing_by
  have := utf8Step_length (c :: t) r (by simp) h
  simp_all

end Iora.Ws
