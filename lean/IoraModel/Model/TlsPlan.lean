import IoraModel.Gen.TlsCalls
/-!
# C07 — the TLS plan of `TcpEngine` / `HttpClient` / `HttpServer`, and the assumed OpenSSL handshake

`plan` (here: `connectPlan`, `listenPlan`, `httpClientPlan`, `httpServerPlan`) is the configuration/decision logic:
which OpenSSL context settings a configuration produces, whether a requested session becomes TLS, plain, or is
refused.  It INTERPRETS the call inventory that the translator regenerates from the C++ on every run
(`Gen/TlsCalls.lean`), so a removed call / changed flag / dropped guard changes these functions.

OpenSSL itself (X.509 path validation, signatures, record layer) is NOT modelled: it is the parameter
`H : Handshake` with the documented semantics as explicit hypotheses (`Handshake.Assumed`); `Ossl.ref` is the
executable reference that satisfies them and that the driver uses to print predictions, which the harness compares
with real handshakes of the installed library over the whole matrix.
-/
namespace Iora.Tls
open Iora.Gen.TlsCalls

/-! ## configuration and environment -/

/-- `TlsConfig.ciphers`, by what it does to authentication: unset (the library default: no anonymous suites); a string that
leaves `aNULL`/`eNULL` disabled; a string that enables anonymous (unauthenticated) key exchange, e.g. `ALL:@SECLEVEL=0` -/
inductive CipherClass | default | restricts | enablesAnon
  deriving DecidableEq, Repr

/-- `TransportConfig::TlsConfig`, abstracted to what `initTls` looks at -/
structure Cfg where
  enabled : Bool := false
  defaultMode : Mode := .none
  certFileSet : Bool := false
  keyFileSet : Bool := false
  caFileSet : Bool := false
  caPathSet : Bool := false
  verifyPeer : Bool := false
  minVersion : Int := 0
  ciphers : CipherClass := .default
  alpnSet : Bool := false
  verifyDepth : Int := 4
  deriving DecidableEq, Repr

/-- answers of the file system / libcrypto about the configured files (all `true` = everything loads) -/
structure Files where
  certReadable : Bool := true
  keyReadable : Bool := true
  certLoads : Bool := true
  keyLoads : Bool := true
  keyMatches : Bool := true
  certNotExpired : Bool := true
  caLoads : Bool := true
  deriving DecidableEq, Repr

def Files.holds (f : Files) : EnvFact → Bool
  | .certReadable => f.certReadable
  | .keyReadable => f.keyReadable
  | .certLoads => f.certLoads
  | .keyLoads => f.keyLoads
  | .keyMatches => f.keyMatches
  | .certNotExpired => f.certNotExpired
  | .caLoads => f.caLoads

/-- the `host` argument of `connect` -/
inductive Target
  | name (n : String)
  | ipv4
  | ipv6
  deriving DecidableEq, Repr

def Target.name? : Target → Option String
  | .name n => some n
  | _ => none

/-- valuation of the guard atoms -/
structure Env where
  cfg : Cfg
  req : Mode := .none
  ctx : Bool := false
  target : Target := .ipv4

def Env.atom (e : Env) : Atom → Bool
  | .enabled => e.cfg.enabled
  | .defaultModeIs m => e.cfg.defaultMode == m
  | .reqIs m => e.req == m
  | .ctxPresent => e.ctx
  | .certFileSet => e.cfg.certFileSet
  | .keyFileSet => e.cfg.keyFileSet
  | .caFileSet => e.cfg.caFileSet
  | .caPathSet => e.cfg.caPathSet
  | .verifyPeer => e.cfg.verifyPeer
  | .hostIsIPv4 => e.target == .ipv4
  | .hostIsIPv6 => e.target == .ipv6
  | .ciphersSet => e.cfg.ciphers != .default
  | .alpnSet => e.cfg.alpnSet
  | .verifyDepthPositive => decide (e.cfg.verifyDepth > 0)

def G.eval (e : Env) : G → Bool
  | .tt => true
  | .ff => false
  | .atom a => e.atom a
  | .not g => !(g.eval e)
  | .and a b => a.eval e && b.eval e
  | .or a b => a.eval e || b.eval e

/-! ## `applyTls12Floor` -/

def Cmp.eval : Cmp → Int → Int → Bool
  | .lt, a, b => decide (a < b)
  | .le, a, b => decide (a ≤ b)
  | .gt, a, b => decide (a > b)
  | .ge, a, b => decide (a ≥ b)

def FloorArm.eval : FloorArm → Int → Int
  | .const, _ => floorConst
  | .arg, n => n

/-- mirrors tcp_engine.hpp::applyTls12Floor: the value handed to `SSL_CTX_set_min_proto_version` -/
def floor (n : Int) : Int :=
  if floorCmp.eval n floorConst then floorThen.eval n else floorElse.eval n

/-- `SSL_CTX_set_min_proto_version` on a TLS context (OpenSSL `ssl_set_version_bound`, assumed): 0 clears the bound; a TLS
number of the library (SSL 3.0 … TLS 1.3) becomes the bound; any other number — rejected (unknown, e.g. 0x0305) or
accepted and ignored (a DTLS number) — changes nothing. -/
def libSetMin (cur : Option Int) (v : Int) : Option Int :=
  if v == 0 then none else if 768 ≤ v && v ≤ 772 then some v else cur

/-- mirrors the whole of `applyTls12Floor`: set `floor n`, then (when the source has it) read the effective minimum back
and repair it; the result is the context's EFFECTIVE minimum (`none` = no minimum at all) -/
def applyFloorMin (cur : Option Int) (n : Int) : Option Int :=
  let m := libSetMin cur (floor n)
  match floorReadback with
  | none => m
  | some (a, b) => if m.getD 0 < a then libSetMin m b else m

/-! ## `initTls` -/

/-- where the context's verification store comes from.  An OpenSSL store ACCUMULATES: every successful
`SSL_CTX_load_verify_locations` / `SSL_CTX_set_default_verify_paths` adds to it, nothing removes — so this is the SET of
sources that were loaded, not the last one. -/
structure Trust where
  file : Bool := false      -- `SSL_CTX_load_verify_locations(caFile, …)` succeeded with a file
  path : Bool := false      -- … with a directory
  dflt : Bool := false      -- `SSL_CTX_set_default_verify_paths`: the SYSTEM store is trusted as well
  deriving DecidableEq, Repr

def Trust.none : Trust := {}
def Trust.isNone (t : Trust) : Bool := !t.file && !t.path && !t.dflt
/-- some explicitly configured location was loaded -/
def Trust.located (t : Trust) : Bool := t.file || t.path

/-- effective settings of one `SSL_CTX` (what the interposed `SSL_CTX_*` calls observe) -/
structure Ctx where
  role : Mode
  verify : List VFlag := []
  minProto : Option Int := none
  trust : Trust := {}
  certLoaded : Bool := false
  keyLoaded : Bool := false
  anon : Bool := false            -- the cipher list offers / accepts anonymous key exchange
  depth : Option Int := none      -- `SSL_CTX_set_verify_depth` (unset: the library default, reported as -1)
  deriving DecidableEq, Repr

/-- mirrors one action of `initTls`; `none` = `return false` -/
def stepCtx (e : Env) (f : Files) (c : Ctx) (s : Step) : Option Ctx :=
  if s.guard.eval e then
    match s.act with
    | .require x =>
      if f.holds x then
        some (match x with
          | .certLoads => { c with certLoaded := true }
          | .keyLoads => { c with keyLoaded := true }
          | .caLoads => { c with trust := { c.trust with file := c.trust.file || e.cfg.caFileSet, path := c.trust.path || e.cfg.caPathSet } }
          | _ => c)
      else none
    | .setVerify fl => some { c with verify := fl }
    | .defaultVerifyPaths => some { c with trust := { c.trust with dflt := true } }
    | .fail => none
    | .applyFloor => some { c with minProto := applyFloorMin c.minProto e.cfg.minVersion }
    | .setCipherList => some { c with anon := e.cfg.ciphers == .enablesAnon }
    | .setVerifyDepth => some { c with depth := some e.cfg.verifyDepth }
    | .other _ => some c
  else some c

/-- the block's actions in source order, stopping at the first `return false` -/
def runSteps (e : Env) (f : Files) : List Step → Ctx → Option Ctx
  | [], c => some c
  | s :: ss, c =>
    match stepCtx e f c s with
    | none => none
    | some c' => runSteps e f ss c'

inductive CtxRes
  | absent            -- the block's creation guard is false: the context pointer stays null
  | refused           -- `initTls` returns false
  | built (c : Ctx)
  deriving DecidableEq, Repr

def buildCtx (blk : CtxBlock) (role : Mode) (cfg : Cfg) (f : Files) : CtxRes :=
  let e : Env := { cfg := cfg }
  if blk.create.eval e then
    match runSteps e f blk.steps { role := role } with
    | none => .refused
    | some c => .built c
  else .absent

def CtxRes.ctx? : CtxRes → Option Ctx
  | .built c => some c
  | _ => none

/-- `TransportConfig.serverTls` / `.clientTls` and the files they name -/
structure TCfg where
  server : Cfg := {}
  client : Cfg := {}
  deriving DecidableEq, Repr

structure TFiles where
  server : Files := {}
  client : Files := {}
  deriving DecidableEq, Repr

inductive Started
  | refused
  | up (srv cli : Option Ctx)
  deriving DecidableEq, Repr

/-- mirrors `TcpEngine::start` → `initTls`: server block, then client block; either may fail the start -/
def start (tc : TCfg) (tf : TFiles) : Started :=
  match buildCtx serverCtx .server tc.server tf.server with
  | .refused => .refused
  | s =>
    match buildCtx clientCtx .client tc.client tf.client with
    | .refused => .refused
    | c => .up s.ctx? c.ctx?

/-! ## sessions -/

inductive RefuseAt | start | connect | listen | enableTls
  deriving DecidableEq, Repr

inductive Plan
  | plain
  | refuse (w : RefuseAt)
  | tls (ctx : Ctx) (host : Option String) (sni : Option String)
  deriving DecidableEq, Repr

/-- mirrors `connect(host, port, req)` → `doConnect` on a started engine -/
def connectOn (tc : TCfg) (cli : Option Ctx) (req : Mode) (t : Target) : Plan :=
  let e : Env := { cfg := tc.client, req := req, ctx := cli.isSome, target := t }
  if connectSite.refuse.eval e then .refuse .connect
  else if connectSite.sslNew.eval e then
    match cli with
    | some c =>
      .tls c (if connectSite.set1host.eval e then t.name? else none) (if connectSite.sni.eval e then t.name? else none)
    | none => .refuse .connect        -- `SSL_new(nullptr)` fails: the connect is closed with TLSHandshake
  else .plain

def connectPlan (tc : TCfg) (tf : TFiles) (req : Mode) (t : Target) : Plan :=
  match start tc tf with
  | .refused => .refuse .start
  | .up _ cli => connectOn tc cli req t

/-- mirrors `addListener(…, req)` → `doAddListener`, then `onListener` for an accepted connection -/
def listenOn (tc : TCfg) (srv : Option Ctx) (req : Mode) : Plan :=
  let e : Env := { cfg := tc.server, req := req, ctx := srv.isSome }
  if listenSite.refuse.eval e then .refuse .listen
  else if listenSite.sslNew.eval e then
    match srv with
    | some c => .tls c none none
    | none => .refuse .listen
  else .plain

def listenPlan (tc : TCfg) (tf : TFiles) (req : Mode) : Plan :=
  match start tc tf with
  | .refused => .refuse .start
  | .up srv _ => listenOn tc srv req

/-! ## `HttpClient` / `HttpServer` -/

/-- `HttpClient::TlsConfig` -/
structure HttpTls where
  verifyPeer : Bool := true
  caFileSet : Bool := false
  certFileSet : Bool := false
  keyFileSet : Bool := false
  deriving DecidableEq, Repr

def Src.bool (s : Src) (dflt verify : Bool) : Bool :=
  match s with
  | .constTrue => true
  | .fromVerifyPeer => verify
  | _ => dflt

def Src.mode (s : Src) : Mode :=
  match s with
  | .constMode m => m
  | _ => .none

def Src.file (s : Src) (ca cert key : Bool) : Bool :=
  match s with
  | .fromCaFile => ca
  | .fromCertFile => cert
  | .fromKeyFile => key
  | _ => false

def mapCfg (m : CfgMap) (verify ca cert key : Bool) : Cfg :=
  { enabled := m.enabled.bool false verify
    defaultMode := m.defaultMode.mode
    verifyPeer := m.verifyPeer.bool false verify
    caFileSet := m.caFile.file ca cert key
    certFileSet := m.certFile.file ca cert key
    keyFileSet := m.keyFile.file ca cert key }

/-- mirrors `HttpClient::ensureInitialized` -/
def httpClientCfg (h : HttpTls) : TCfg :=
  { client := mapCfg httpClientMap h.verifyPeer h.caFileSet h.certFileSet h.keyFileSet }

/-- the host part of a URL: a name or an IPv4 literal (`isIPAddress` recognises IPv4 only) -/
inductive UrlHost
  | name (n : String)
  | ipv4
  deriving DecidableEq, Repr

/-- mirrors `acquireConnection`: what is handed to `connectSync`.  `resolves` = the name resolved to an address
(`localhost` always does; a DNS failure falls back to the literal name). -/
def httpTarget (u : UrlHost) (resolves : Bool) : Target :=
  match u with
  | .ipv4 => .ipv4
  | .name n =>
    match httpClientHost with
    | .urlHost => .name n
    | .resolvedAddress => if resolves then .ipv4 else .name n

def httpClientPlan (h : HttpTls) (tf : TFiles) (https : Bool) (u : UrlHost) (resolves : Bool) : Plan :=
  connectPlan (httpClientCfg h) tf (if https then httpClientHttpsReq else httpClientHttpReq) (httpTarget u resolves)

/-! ### URL scheme spellings (`parseUrl`, `ParsedUrl::isHttps`) -/

/-- does `parseUrl` accept a URL with this scheme spelling (rest of the URL well-formed): the regex group is `https?` -/
def urlAccepted (scheme : String) : Bool :=
  let s := if urlRegexIcase then scheme.toLower else scheme
  s == "http" || s == "https"

/-- `ParsedUrl::isHttps()` for the scheme as `parseUrl` stores it -/
def urlIsHttps (scheme : String) : Bool :=
  (if urlSchemeNormalised || isHttpsCaseInsensitive then scheme.toLower else scheme) == isHttpsLiteral

/-- the port when the URL names none -/
def urlDefaultPort (scheme : String) : Nat :=
  if (if urlSchemeNormalised || defaultPortCaseInsensitive then scheme.toLower else scheme) == "https" then httpsDefaultPort else httpDefaultPort

/-- a request for `scheme://host…`: `none` = rejected ("Invalid URL format", nothing is sent) -/
def httpUrlPlan (h : HttpTls) (tf : TFiles) (scheme : String) (u : UrlHost) (resolves : Bool) : Option Plan :=
  if urlAccepted scheme then some (httpClientPlan h tf (urlIsHttps scheme) u resolves) else none

/-! ### the connection cache (`acquireConnection`), for a sequence of requests to ONE host:port -/

structure CacheReq where
  https : Bool
  dropAfter : Bool      -- the connection is evicted after this exchange (Connection: close, failure, idle)
  deriving DecidableEq, Repr

/-- one request: (cache afterwards, TLS mode of the session that carries the request, a new connection was opened) -/
def cacheStep (cached : Option Mode) (r : CacheReq) : Option Mode × Mode × Bool :=
  let want := if r.https then httpClientHttpsReq else httpClientHttpReq
  let use : Mode × Bool :=
    match cached with
    | some m => if !cacheReuseChecksTlsMode || m == want then (m, false) else (want, true)
    | none => (want, true)
  (if r.dropAfter then none else some use.1, use.1, use.2)

/-- (request was https, mode of the carrying session, new connection) per request -/
def cacheRun : Option Mode → List CacheReq → List (Bool × Mode × Bool)
  | _, [] => []
  | c, r :: rs => (r.https, (cacheStep c r).2.1, (cacheStep c r).2.2) :: cacheRun (cacheStep c r).1 rs

/-- `HttpServer::TlsConfig` -/
structure HttpSrvTls where
  certFileSet : Bool := true
  keyFileSet : Bool := true
  caFileSet : Bool := false
  requireClientCert : Bool := false
  deriving DecidableEq, Repr

/-- mirrors `HttpServer::enableTls` (its own preconditions) + `start` -/
def httpServerPlan (o : Option HttpSrvTls) (tf : TFiles) : Plan :=
  match o with
  | none => listenPlan {} tf httpServerPlainReq
  | some h =>
    if enableTlsRequiresCertAndKey && !(h.certFileSet && h.keyFileSet) then .refuse .enableTls
    else if enableTlsRequiresCaForClientCert && h.requireClientCert && !h.caFileSet then .refuse .enableTls
    else listenPlan { server := mapCfg httpServerMap h.requireClientCert h.caFileSet h.certFileSet h.keyFileSet } tf httpServerTlsReq

/-! ## the assumed OpenSSL handshake -/

inductive Issuer | rightCA | wrongCA | self
  deriving DecidableEq, Repr

/-- what X.509 validation would establish about a presented certificate (assumed, never computed here) -/
structure CertProps where
  issuer : Issuer
  inTime : Bool
  /-- the identities the library's host check accepts with its DEFAULT flags (`X509_check_host`, hostflags = 0): the
  dNSName subjectAltName entries, or — ONLY when the certificate has no dNSName SAN at all — the subject CN.  A subject CN
  does not count as an identity once a dNSName SAN is present.  The plan never changes the host flags (read back per
  handshake by the harness), so this is the rule `client_name` speaks about. -/
  names : List String
  possession : Bool       -- the presenter owns the private key of the certificate it shows
  deriving DecidableEq, Repr

/-- content of a verification store: which of the two test CAs it holds -/
inductive Anchors | right | wrong | empty | both
  deriving DecidableEq, Repr

def chains (c : CertProps) : Anchors → Bool
  | .right => c.issuer == .rightCA
  | .wrong => c.issuer == .wrongCA
  | .empty => false
  | .both => c.issuer == .rightCA || c.issuer == .wrongCA

/-- two sources loaded into one store -/
def Anchors.union : Anchors → Anchors → Anchors
  | .empty, b => b
  | a, .empty => a
  | .right, .right => .right
  | .wrong, .wrong => .wrong
  | _, _ => .both

/-- `anon` = a TLS peer that offers ONLY anonymous key exchange (no certificate; such suites exist up to TLS 1.2) -/
inductive PeerKind | tls | plaintext | garbage | anon
  deriving DecidableEq, Repr

/-- a remote server: what it speaks, the certificate it shows, the highest protocol version it accepts (wire number) -/
structure SrvPeer where
  kind : PeerKind
  cert : CertProps
  ceil : Int
  deriving DecidableEq, Repr

structure CliPeer where
  kind : PeerKind
  cert : Option CertProps
  ceil : Int
  deriving DecidableEq, Repr

def tls10 : Int := 769
def tls13 : Int := 772
/-- the version two OpenSSL ends agree on: the lower of the ceilings (ours is the library maximum, TLS 1.3) -/
def negotiated (peerCeil : Int) : Int := if peerCeil < tls13 then peerCeil else tls13
/-- the context minimum (`SSL_CTX_set_min_proto_version`); unset = the library's lowest TLS version -/
def Ctx.lowest (c : Ctx) : Int := c.minProto.getD tls10

/-- anonymous suites exist up to TLS 1.2 only -/
def anonNegotiated (peerCeil : Int) : Int := if peerCeil < 771 then peerCeil else 771

def nameOk (host : Option String) (c : CertProps) : Bool :=
  match host with
  | none => true
  | some n => c.names.contains n

/-- OpenSSL as a parameter: result of a handshake of a context with these settings against a peer;
`some v` = completed at protocol version `v`. -/
structure Handshake where
  client : Ctx → Option String → Anchors → SrvPeer → Option Int
  server : Ctx → Anchors → CliPeer → Option Int

/-- what an anonymous-suite handshake does (no certificate is ever shown, so nothing is verified): it completes iff our own
cipher list enables anonymous key exchange and the version bounds allow it; on a server that REQUIRES a client certificate
(`FAIL_IF_NO_PEER_CERT`) it cannot complete, since the certificate request is illegal in an anonymous handshake -/
def anonClient (c : Ctx) (p : SrvPeer) : Option Int :=
  if c.anon && decide (c.lowest ≤ anonNegotiated p.ceil) then some (anonNegotiated p.ceil) else none

def anonServer (c : Ctx) (p : CliPeer) : Option Int :=
  if c.anon && decide (c.lowest ≤ anonNegotiated p.ceil) &&
     (!c.verify.contains .peer || !c.verify.contains .failIfNoPeerCert) then some (anonNegotiated p.ceil) else none

/-- The assumed (documented) OpenSSL semantics, as hypotheses about the parameter.  The certificate rules speak about peers that
authenticate (`kind = tls`); `client_anon` / `server_anon` state what happens with anonymous suites — in particular that a cipher
string enabling them makes `SSL_VERIFY_PEER` void on a client, which is why the authentication theorems carry the hypothesis
`ciphers ≠ enablesAnon`. -/
structure Handshake.Assumed (H : Handshake) : Prop where
  /-- a peer that does not speak TLS (plaintext / garbage) never completes a handshake -/
  client_nontls : ∀ c h a p, p.kind ≠ .tls → p.kind ≠ .anon → H.client c h a p = none
  /-- anonymous key exchange: exactly `anonClient` (no certificate, no verification, whatever the verify flags) -/
  client_anon : ∀ c h a p, p.kind = .anon → H.client c h a p = anonClient c p
  /-- the negotiated version is the lower ceiling and never below the context minimum -/
  client_version : ∀ c h a p v, p.kind = .tls → H.client c h a p = some v → v = negotiated p.ceil ∧ c.lowest ≤ v
  /-- the key exchange is signed: a peer that does not own its certificate's key fails, verification on or off -/
  client_possession : ∀ c h a p v, p.kind = .tls → H.client c h a p = some v → p.cert.possession = true
  /-- client + `SSL_VERIFY_PEER`: fails unless the chain verifies to the configured store and is inside its validity period -/
  client_verify : ∀ c h a p v, p.kind = .tls → H.client c h a p = some v → c.verify.contains .peer = true →
    chains p.cert a = true ∧ p.cert.inTime = true
  /-- the name is checked when (and ONLY when, see `client_complete`) `SSL_set1_host` was called -/
  client_name : ∀ c n a p v, p.kind = .tls → H.client c (some n) a p = some v → c.verify.contains .peer = true →
    p.cert.names.contains n = true
  /-- nothing else makes a client handshake fail -/
  client_complete : ∀ c h a p, p.kind = .tls → c.lowest ≤ negotiated p.ceil → p.cert.possession = true →
    (c.verify.contains .peer = true → chains p.cert a = true ∧ p.cert.inTime = true ∧ nameOk h p.cert = true) →
    H.client c h a p = some (negotiated p.ceil)
  server_nontls : ∀ c a p, p.kind ≠ .tls → p.kind ≠ .anon → H.server c a p = none
  server_anon : ∀ c a p, p.kind = .anon → H.server c a p = anonServer c p
  server_version : ∀ c a p v, p.kind = .tls → H.server c a p = some v → v = negotiated p.ceil ∧ c.lowest ≤ v
  /-- a server context without certificate and key cannot complete an authenticated handshake -/
  server_needs_cert : ∀ c a p v, p.kind = .tls → H.server c a p = some v → (c.certLoaded && c.keyLoaded) = true
  /-- server + `SSL_VERIFY_PEER`: a presented client certificate must verify (chain, validity, possession) -/
  server_verify : ∀ c a p v cc, p.kind = .tls → H.server c a p = some v → c.verify.contains .peer = true → p.cert = some cc →
    chains cc a = true ∧ cc.inTime = true ∧ cc.possession = true
  /-- … and a client WITHOUT certificate is rejected only under `SSL_VERIFY_FAIL_IF_NO_PEER_CERT` (used by T5 and by the
  exactness direction of T6; the F19 repair is what makes the flag present) -/
  server_nocert : ∀ c a p v, p.kind = .tls → H.server c a p = some v → c.verify.contains .peer = true → p.cert = none →
    c.verify.contains .failIfNoPeerCert = false
  server_complete : ∀ c a p, p.kind = .tls → c.lowest ≤ negotiated p.ceil → (c.certLoaded && c.keyLoaded) = true →
    (c.verify.contains .peer = true →
      match p.cert with
      | none => c.verify.contains .failIfNoPeerCert = false
      | some cc => chains cc a = true ∧ cc.inTime = true ∧ cc.possession = true) →
    H.server c a p = some (negotiated p.ceil)

namespace Ossl
/-- executable reference of the assumed semantics (used by the driver; `ref_assumed` shows it satisfies them) -/
def clientTls (c : Ctx) (h : Option String) (a : Anchors) (p : SrvPeer) : Option Int :=
  if decide (c.lowest ≤ negotiated p.ceil) && p.cert.possession &&
     (!c.verify.contains .peer || (chains p.cert a && p.cert.inTime && nameOk h p.cert))
  then some (negotiated p.ceil) else none

def client (c : Ctx) (h : Option String) (a : Anchors) (p : SrvPeer) : Option Int :=
  match p.kind with
  | .tls => clientTls c h a p
  | .anon => anonClient c p
  | _ => none

def clientCertOk (c : Ctx) (a : Anchors) : Option CertProps → Bool
  | none => !c.verify.contains .failIfNoPeerCert
  | some cc => chains cc a && cc.inTime && cc.possession

def serverTls (c : Ctx) (a : Anchors) (p : CliPeer) : Option Int :=
  if decide (c.lowest ≤ negotiated p.ceil) && (c.certLoaded && c.keyLoaded) &&
     (!c.verify.contains .peer || clientCertOk c a p.cert)
  then some (negotiated p.ceil) else none

def server (c : Ctx) (a : Anchors) (p : CliPeer) : Option Int :=
  match p.kind with
  | .tls => serverTls c a p
  | .anon => anonServer c p
  | _ => none

def ref : Handshake := { client := client, server := server }
end Ossl

/-! ## the configuration matrix of the property -/

/-- the trust anchor the operator configured (as `caFile`): the CA that issued the good certificates, another CA, none -/
inductive TrustSel | right | wrong | none
  deriving DecidableEq, Repr
/-- `sanOther`: right CA, in time, key owned, subject CN = the host but dNSName SAN = another host only;
`cnOnly`: subject CN = the host and no subjectAltName at all -/
inductive CertKind | valid | selfSigned | expired | wrongName | keyMismatch | sanOther | cnOnly
  deriving DecidableEq, Repr
inductive CCertKind | none | valid | untrusted | expired
  deriving DecidableEq, Repr
inductive Ver | v10 | v11 | v12 | v13
  deriving DecidableEq, Repr
inductive MinSel | unset | v10 | v11 | v12 | v13
  deriving DecidableEq, Repr

def Ver.num : Ver → Int
  | .v10 => 769 | .v11 => 770 | .v12 => 771 | .v13 => 772
def MinSel.num : MinSel → Int
  | .unset => 0 | .v10 => 769 | .v11 => 770 | .v12 => 771 | .v13 => 772

/-- the host every test certificate is (or is not) issued for -/
def theHost : String := "localhost"

/-- what the certificate factory produces (checked against the generated files by the `certtable` lockstep line) -/
def CertKind.props : CertKind → CertProps
  | .valid => { issuer := .rightCA, inTime := true, names := [theHost], possession := true }
  | .selfSigned => { issuer := .self, inTime := true, names := [theHost], possession := true }
  | .expired => { issuer := .rightCA, inTime := false, names := [theHost], possession := true }
  | .wrongName => { issuer := .rightCA, inTime := true, names := ["other.example"], possession := true }
  | .keyMismatch => { issuer := .rightCA, inTime := true, names := [theHost], possession := false }
  | .sanOther => { issuer := .rightCA, inTime := true, names := ["other.example"], possession := true }
  | .cnOnly => { issuer := .rightCA, inTime := true, names := [theHost], possession := true }

def CCertKind.props : CCertKind → Option CertProps
  | .none => Option.none
  | .valid => some { issuer := .rightCA, inTime := true, names := [], possession := true }
  | .untrusted => some { issuer := .wrongCA, inTime := true, names := [], possession := true }
  | .expired => some { issuer := .rightCA, inTime := false, names := [], possession := true }

def TrustSel.anchors : TrustSel → Anchors
  | .right => .right | .wrong => .wrong | .none => .empty

/-- what a context's store contains in a cell: the explicit locations hold the configured CA, the default paths hold the
system store `sys`, and the store is the UNION of everything that was loaded; no call = empty -/
def storeOf (t : Trust) (configured sys : Anchors) : Anchors :=
  (if t.located then configured else .empty).union (if t.dflt then sys else .empty)

/-- iora as client (Transport API) -/
structure CliCell where
  verify : Bool
  trust : TrustSel
  scert : CertKind
  ceil : Ver
  peer : PeerKind
  byName : Bool
  min : MinSel
  deriving DecidableEq, Repr

def CliCell.tcfg (c : CliCell) : TCfg :=
  { client := { enabled := true, defaultMode := .client, verifyPeer := c.verify, caFileSet := c.trust != .none, minVersion := c.min.num } }
def CliCell.target (c : CliCell) : Target := if c.byName then .name theHost else .ipv4
def CliCell.srvPeer (c : CliCell) : SrvPeer := { kind := c.peer, cert := c.scert.props, ceil := c.ceil.num }
def CliCell.plan (c : CliCell) : Plan := connectPlan c.tcfg {} .client c.target

/-- outcome of a planned client session against a server peer: `some v` = announced as connected at version `v` -/
def clientOutcome (H : Handshake) (p : Plan) (configured sys : Anchors) (peer : SrvPeer) : Option Int :=
  match p with
  | .tls ctx host _ => H.client ctx host (storeOf ctx.trust configured sys) peer
  | _ => none

def CliCell.outcome (H : Handshake) (c : CliCell) : Option Int :=
  clientOutcome H c.plan c.trust.anchors .empty c.srvPeer

/-- iora as server (Transport API) -/
structure SrvCell where
  verify : Bool
  trust : TrustSel
  own : CertKind
  ccert : CCertKind
  ceil : Ver
  peer : PeerKind
  min : MinSel
  deriving DecidableEq, Repr

/-- what libcrypto answers about the server's own certificate files -/
def CertKind.files : CertKind → Files
  | .expired => { certNotExpired := false }
  | .keyMismatch => { keyLoads := false, keyMatches := false }
  | _ => {}

def SrvCell.tcfg (c : SrvCell) : TCfg :=
  { server := { enabled := true, defaultMode := .server, certFileSet := true, keyFileSet := true, verifyPeer := c.verify,
                caFileSet := c.trust != .none, minVersion := c.min.num } }
def SrvCell.files (c : SrvCell) : TFiles := { server := c.own.files }
def SrvCell.cliPeer (c : SrvCell) : CliPeer := { kind := c.peer, cert := c.ccert.props, ceil := c.ceil.num }
def SrvCell.plan (c : SrvCell) : Plan := listenPlan c.tcfg c.files .server

def serverOutcome (H : Handshake) (p : Plan) (configured sys : Anchors) (peer : CliPeer) : Option Int :=
  match p with
  | .tls ctx _ _ => H.server ctx (storeOf ctx.trust configured sys) peer
  | _ => none

def SrvCell.outcome (H : Handshake) (c : SrvCell) : Option Int :=
  serverOutcome H c.plan c.trust.anchors .empty c.cliPeer

/-- iora as HTTPS client (`HttpClient` API): `TlsConfig{verifyPeer, caFile}` × system store × server certificate ×
ceiling × peer × URL host form -/
structure HttpCell where
  verify : Bool
  ca : TrustSel
  sys : TrustSel
  scert : CertKind
  ceil : Ver
  peer : PeerKind
  byName : Bool
  deriving DecidableEq, Repr

def HttpCell.plan (c : HttpCell) : Plan :=
  httpClientPlan { verifyPeer := c.verify, caFileSet := c.ca != .none } {} true (if c.byName then .name theHost else .ipv4) true
def HttpCell.srvPeer (c : HttpCell) : SrvPeer := { kind := c.peer, cert := c.scert.props, ceil := c.ceil.num }
def HttpCell.outcome (H : Handshake) (c : HttpCell) : Option Int :=
  clientOutcome H c.plan c.ca.anchors c.sys.anchors c.srvPeer

/-- the decidable carve-out of finding F20-http: an https URL with a host NAME, verification on, and a certificate that
is not issued for that name -/
def HttpCell.nameUnchecked (c : HttpCell) : Bool := c.verify && c.byName && !c.scert.props.names.contains theHost

/-! ## the specification (independent of the plan and of `Gen`) -/
namespace Spec

def tls12 : Int := 771

/-- the version the two ends would use, and whether the property (and the operator's own minimum) allows it -/
def versionOk (min : MinSel) (ceil : Ver) : Bool :=
  decide (tls12 ≤ negotiated ceil.num) && decide (min.num ≤ negotiated ceil.num)

/-- A client session may be announced exactly when: the peer speaks TLS and owns the certificate it shows, the
version is ≥ TLS 1.2 (and ≥ the operator's minimum), and — with verification on — the certificate chains to the
configured anchor, is inside its validity period and, for a connection made to a host name, is issued for that name. -/
def cliAdmissible (c : CliCell) : Bool :=
  c.peer == .tls && c.scert.props.possession && versionOk c.min c.ceil &&
  (!c.verify || (chains c.scert.props c.trust.anchors && c.scert.props.inTime && (!c.byName || c.scert.props.names.contains theHost)))

/-- A server admits a client exactly when: it can prove possession of a currently valid certificate itself, the peer
speaks TLS at an allowed version, and — when client certificates are required — a trust anchor is configured and the
client presents a certificate that chains to it, is inside its validity period and is owned by the client. -/
def srvAdmissible (c : SrvCell) : Bool :=
  c.own.props.possession && c.own.props.inTime && c.peer == .tls && versionOk c.min c.ceil &&
  (!c.verify ||
    (c.trust != .none &&
      match c.ccert.props with
      | none => false
      | some cc => chains cc c.trust.anchors && cc.inTime && cc.possession))

/-- the anchor an `HttpClient` is configured with: its `caFile`, or — without one — the system store -/
def httpAnchors (c : HttpCell) : Anchors := if c.ca != .none then c.ca.anchors else c.sys.anchors

/-- An https response may be returned exactly when the peer speaks TLS ≥ 1.2, owns its certificate and — with
verification on — the certificate chains to the configured anchor, is inside its validity period and, for a URL with a
host name, is issued for that name. -/
def httpAdmissible (c : HttpCell) : Bool :=
  c.peer == .tls && c.scert.props.possession && decide (tls12 ≤ negotiated c.ceil.num) &&
  (!c.verify || (chains c.scert.props (httpAnchors c) && c.scert.props.inTime && (!c.byName || c.scert.props.names.contains theHost)))

end Spec

/-! ## a TLS session stays silent until the handshake is done (`doConnect` tail, `onSession`, `driveHandshake`, `writePending`, `doSend`)

Every guard of the C++ is an input from `Gen` (`true` = present); the machine does what the C++ would do WITHOUT a guard
when its fact is `false`, so each fact is load-bearing for T7/T8. -/

inductive TlsState | none | handshake | open
  deriving DecidableEq, Repr

structure Sess where
  req : Mode := .none               -- `cr.tls` of the connect request (outbound sessions)
  tlsMode : Mode := .none
  tlsState : TlsState := .none
  connectPending : Bool := true
  announced : Bool := false
  closed : Bool := false
  wq : List (List UInt8) := []
  deriving DecidableEq, Repr

/-- what the I/O thread can be asked to do with one session -/
inductive SEv
  | immediate                                -- tail of `doConnect`: the socket turned out to be connected already
  | epoll (out : Bool) (rc : Option Bool)    -- one `onSession` call (EPOLLOUT set? else EPOLLIN); `rc` = what `SSL_do_handshake`
                                             --   answers IF it is driven: some true = 1, none = WANT_READ/WRITE, some false = fatal
  | appSend (bs : List UInt8)                -- `send(sid, bs)` command → `doSend`
  deriving DecidableEq, Repr

inductive SOut
  | onConnect
  | rawWire (bs : List UInt8)     -- `::send(fd, …)` : bytes on the wire as they are
  | sslWrite (bs : List UInt8)    -- `SSL_write` : bytes handed to the record layer
  | onClose
  deriving DecidableEq, Repr

def Sess.inHs (s : Sess) : Bool := s.tlsMode != .none && s.tlsState == .handshake
def Sess.openTls (s : Sess) : Bool := s.tlsMode != .none && s.tlsState == .open

def announce (s : Sess) : Sess × List SOut :=
  ({ s with connectPending := false, announced := true }, [.onConnect])

/-- mirrors `writePending`: drains the queue — `SSL_write` for an Open TLS session, otherwise a raw `::send` -/
def writePending (s : Sess) : Sess × List SOut :=
  if s.wq.isEmpty then (s, [])
  else if s.openTls && writePendingSslWhenOpenTls then ({ s with wq := [] }, s.wq.map .sslWrite)
  else if s.inHs && writePendingSkipsHandshake then (s, [])
  else ({ s with wq := [] }, s.wq.map .rawWire)

/-- what a NON-successful `SSL_do_handshake` does to the session when Open / the connect callback are not confined to `rc == 1` -/
def leakOnIncomplete (s : Sess) : Sess × List SOut :=
  let s1 := if openOnlyOnRc1 then s else { s with tlsState := .open }
  if connectCbOnlyOnRc1 then (s1, []) else ({ s1 with announced := true }, [.onConnect])

/-- mirrors `driveHandshake`: (session, outputs, completed) -/
def driveHs (s : Sess) (rc : Option Bool) : Sess × List SOut × Bool :=
  match rc with
  | some true => ({ s with tlsState := .open, connectPending := false, announced := true }, [.onConnect], true)
  | none =>
    if wantIoKeepsHandshake then ((leakOnIncomplete s).1, (leakOnIncomplete s).2, false)
    else ({ s with closed := true, wq := [] }, [.onClose], false)
  | some false =>
    if failureCloses then ({ s with closed := true, wq := [] }, [.onClose], false)
    else ((leakOnIncomplete s).1, (leakOnIncomplete s).2, false)

/-- mirrors the tail of `doConnect`, `onSession`, `doSend` -/
def sessStep (s : Sess) (ev : SEv) : Sess × List SOut :=
  if s.closed then (s, []) else
  match ev with
  | .immediate =>
    if s.connectPending && (s.req == .none || !immediateAnnounceRequiresReqNone) then announce s else (s, [])
  | .epoll out rc =>
    if s.inHs && handshakeDrivenFirst then
      let d := driveHs s rc
      if !d.2.2 && handshakeReturnsWhenIncomplete then (d.1, d.2.1)      -- `if (!driveHandshake(s)) return;`
      else if d.1.closed then (d.1, d.2.1)                               -- the session is gone (re-lookup fails)
      else
        let w := if out then writePending d.1 else (d.1, [])
        (w.1, d.2.1 ++ w.2)
    else
      let a := if out && s.connectPending && (s.tlsMode == .none || !plainAnnounceRequiresModeNone) then announce s else (s, [])
      let w := if out then writePending a.1 else (a.1, [])
      (w.1, a.2 ++ w.2)
  | .appSend bs =>
    if s.inHs && sendQueuedDuringHandshake && sendGuardPrecedesIo then ({ s with wq := s.wq ++ [bs] }, [])
    else if s.openTls && doSendSslWhenOpenTls then (s, [.sslWrite bs])
    else (s, [.rawWire bs])

def sessRun : Sess → List SEv → List SOut
  | _, [] => []
  | s, e :: es => (sessStep s e).2 ++ sessRun (sessStep s e).1 es

/-- a session as `doConnect` (`outbound`, request mode `req`) / `onListener` create it under plan `p` -/
def Plan.session (outbound : Bool) (req : Mode) : Plan → Option Sess
  | .plain => some { req := req, connectPending := outbound }
  | .refuse _ => none
  | .tls ctx _ _ => some { req := req, tlsMode := ctx.role, tlsState := .handshake, connectPending := outbound }

/-! ## `HttpClient` configuration history (`setTlsConfig`, `ensureInitialized`) -/

inductive HOp
  | setTls (c : HttpTls)
  | touch                      -- anything that runs `ensureInitialized` successfully: a request, `setDnsServers`, `addDnsServer`, `getDnsServers`
  | touchFail                  -- the same, but `_transport->start()` FAILS when it is attempted (e.g. a `caFile` that cannot be loaded): it throws
  deriving DecidableEq, Repr

structure HState where
  stored : HttpTls := {}                  -- `_tlsConfig`
  applied : Option HttpTls := none        -- the settings the transport's client context was built from
  dead : Bool := false                    -- `_transport` is set although its start failed: nothing initialises it again
  deriving DecidableEq, Repr

/-- (state, the call threw) -/
def hStep (s : HState) : HOp → HState × Bool
  | .setTls c =>
    if setTlsConfigRejectsChangeAfterInit && (s.applied.isSome || s.dead) && s.stored != c then (s, true)
    else ({ s with stored := c }, false)
  | .touch =>
    if s.dead then (s, true)               -- `ensureInitialized` skips a set `_transport`; the dead one serves nothing
    else ({ s with applied := some (s.applied.getD s.stored) }, false)
  | .touchFail =>
    if s.applied.isSome then (s, false)    -- already initialised: nothing is attempted, so nothing fails
    else if s.dead then (s, true)
    else if initFailureReleasesTransport then (s, true) else ({ s with dead := true }, true)

def hRun : HState → List HOp → HState
  | s, [] => s
  | s, o :: os => hRun (hStep s o).1 os

end Iora.Tls
