/-!
# Model of the TcpEngine command queue at shutdown (C05 T4)

Mirrors `include/iora/network/detail/tcp_engine.hpp`: `TcpEngine::enqueue` (push under `_cmdMutex` unless `_cmdsClosed`),
`TcpEngine::process` (swap the deque out under the lock, dispatch each command; an `AddListener` command carrying a promise has
it fulfilled in the normal arm or in the exception arm), the loop exit on `Cmd::Shutdown`, and the tail of
`TcpEngine::shutdownDrain` (one more `process()`, then under `_cmdMutex`: `_cmdsClosed = true`, swap the residual commands out,
fail their promises).  `fulfilled p` counts the `set_value` calls made for promise `p`.
-/
namespace Iora.EngineQueue

inductive Cmd | addListener (p : Nat) | shutdown | other
  deriving DecidableEq, Repr

inductive Phase
  | loop            -- `while (_running.load())`
  | drain           -- `shutdownDrain()`: its `process()` call (and the session/listener closing) not yet finished
  | residual        -- queue closed; failing the promises of the residual commands
  | exited
  deriving DecidableEq, Repr

structure State where
  cmds : List Cmd := []            -- `_cmds`
  closed : Bool := false           -- `_cmdsClosed`
  batch : List Cmd := []           -- the deque `process()` swapped out and is dispatching
  residual : List Cmd := []
  running : Bool := true           -- `_running`
  phase : Phase := .loop
  fulfilled : Nat → Nat := fun _ => 0
  accepted : List Nat := []        -- promises whose command `enqueue` accepted
  rejected : List Nat := []        -- promises whose `enqueue` returned false (addListener then returns ShuttingDown without waiting)

inductive Step
  | enqueue (c : Cmd)              -- any thread
  | swap                           -- I/O thread: `process()` takes the queue
  | dispatch (throws : Bool)       -- I/O thread: next command of the batch (normal arm / exception arm)
  | loopExit                       -- I/O thread: `_running` is false, the batch is done: enter shutdownDrain
  | closeQueue                     -- I/O thread: `_cmdsClosed = true; residual.swap(_cmds)` under `_cmdMutex`
  | failResidual                   -- I/O thread: next residual command
  deriving Repr

def bump (f : Nat → Nat) (p : Nat) : Nat → Nat := fun q => if q = p then f q + 1 else f q

/-- mirrors tcp_engine.hpp::TcpEngine::enqueue -/
def doEnqueue (s : State) (c : Cmd) : State :=
  if s.closed then
    match c with
    | .addListener p => { s with rejected := p :: s.rejected }
    | _ => s
  else
    match c with
    | .addListener p => { s with cmds := s.cmds ++ [c], accepted := p :: s.accepted }
    | _ => { s with cmds := s.cmds ++ [c] }

/-- mirrors tcp_engine.hpp::TcpEngine::process — one command -/
def doDispatch (s : State) (_throws : Bool) : State :=
  match s.batch with
  | [] => s
  | .addListener p :: rest => { s with batch := rest, fulfilled := bump s.fulfilled p }   -- set_value(ok) or, in the catch arm, set_value(false)
  | .shutdown :: rest => { s with batch := rest, running := false }
  | .other :: rest => { s with batch := rest }

def step (s : State) : Step → State
  | .enqueue c => doEnqueue s c
  | .swap =>
    (match s.phase, s.batch with
     | .loop, [] => if s.running then { s with batch := s.cmds, cmds := [] } else s
     | .drain, [] => { s with batch := s.cmds, cmds := [] }
     | _, _ => s)
  | .dispatch t => (match s.phase with | .loop | .drain => doDispatch s t | _ => s)
  | .loopExit => (match s.phase, s.batch with | .loop, [] => if s.running then s else { s with phase := .drain } | _, _ => s)
  | .closeQueue =>
    (match s.phase, s.batch with
     | .drain, [] => { s with closed := true, residual := s.cmds, cmds := [], phase := .residual }
     | _, _ => s)
  | .failResidual =>
    (match s.phase, s.residual with
     | .residual, [] => { s with phase := .exited }
     | .residual, .addListener p :: rest => { s with residual := rest, fulfilled := bump s.fulfilled p }
     | .residual, _ :: rest => { s with residual := rest }
     | _, _ => s)

def run (s : State) : List Step → State
  | [] => s
  | st :: rest => run (step s st) rest

/-- environment contract: every `addListener` call makes a fresh promise -/
def ok (s : State) : Step → Bool
  | .enqueue (.addListener p) => !s.accepted.contains p && !s.rejected.contains p
  | _ => true

def Disciplined : State → List Step → Prop
  | _, [] => True
  | s, st :: rest => ok s st = true ∧ Disciplined (step s st) rest

def init : State := {}

end Iora.EngineQueue
