import IoraModel.Model.TeardownFacts
/-!
# Model of the engine command queue at shutdown (C05 T4) — TcpEngine AND UdpEngine

Mirrors `include/iora/network/detail/tcp_engine.hpp` and `udp_engine.hpp` (same shape, checked function by function by
`TeardownFacts`): `enqueue` (push under the queue mutex unless the closed flag is set), `process` (swap the deque out under
the lock, dispatch each command; an `AddListener` command carrying a promise has it fulfilled in the normal arm or in the
exception arm), the three ways `_running` is cleared — `stop()`'s CAS on the caller's thread (`clearRunning`, followed by an
ordinary `enqueue shutdown`), `detachForTermination()` (`clearRunning` with no command at all) and the dispatched Shutdown
command —, the loop exit, the tail of `shutdownDrain` (one more `process()`, then under the queue mutex: closed := true, swap the
residual commands out, fail their promises), and `start()` after a stop (`restart`: the queue is reopened).
`fulfilled p` counts the `set_value` calls made for promise `p`.

The model is instantiated with the regenerated facts of BOTH engines (`TeardownFacts.enqueueRefusesWhenClosed`, …): were one
of them false the corresponding step would behave like the changed source (push into a closed queue, drop a residual promise).
-/
namespace Iora.EngineQueue
open Iora

inductive Cmd | addListener (p : Nat) | shutdown | other
  deriving DecidableEq, Repr

inductive Phase
  | loop            -- `while (_running.load())`
  | drain           -- `shutdownDrain()`: its `process()` call (and the session/listener closing) not yet finished
  | residual        -- queue closed; failing the promises of the residual commands
  | exited
  deriving DecidableEq, Repr

structure State where
  cmds : List Cmd := []            -- `_cmds` / `_q`
  closed : Bool := false           -- `_cmdsClosed` / `_qClosed`
  batch : List Cmd := []           -- the deque `process()` swapped out and is dispatching
  residual : List Cmd := []
  running : Bool := true           -- `_running`
  phase : Phase := .loop
  fulfilled : Nat → Nat := fun _ => 0
  accepted : List Nat := []        -- promises whose command `enqueue` accepted
  rejected : List Nat := []        -- promises whose `enqueue` returned false (addListener then returns ShuttingDown without waiting)

inductive Step
  | enqueue (c : Cmd)              -- any thread
  | clearRunning                   -- `stop()`'s successful CAS (any thread) or `detachForTermination()` (I/O thread, inside a callback)
  | swap                           -- I/O thread: `process()` takes the queue
  | dispatch (throws : Bool)       -- I/O thread: next command of the batch (normal arm / exception arm)
  | loopExit                       -- I/O thread: `_running` is false, the batch is done: enter shutdownDrain
  | closeQueue                     -- I/O thread: closed := true; residual.swap(queue) under the queue mutex
  | failResidual                   -- I/O thread: next residual command
  | restart                        -- `start()` after the I/O thread has terminated: the queue is reopened
  deriving Repr

def bump (f : Nat → Nat) (p : Nat) : Nat → Nat := fun q => if q = p then f q + 1 else f q

/-- mirrors tcp_engine.hpp::TcpEngine::enqueue / udp_engine.hpp::UdpEngine::enqueue -/
def doEnqueue (s : State) (c : Cmd) : State :=
  if s.closed && TeardownFacts.enqueueRefusesWhenClosed then
    match c with
    | .addListener p => { s with rejected := p :: s.rejected }
    | _ => s
  else
    match c with
    | .addListener p => { s with cmds := s.cmds ++ [c], accepted := p :: s.accepted }
    | _ => { s with cmds := s.cmds ++ [c] }

/-- mirrors tcp_engine.hpp::TcpEngine::process / udp_engine.hpp::UdpEngine::process — one command -/
def doDispatch (s : State) (throws : Bool) : State :=
  match s.batch with
  | [] => s
  | .addListener p :: rest =>
    -- normal arm: set_value(ok); catch arm: set_value(false)
    let fulfils := if throws then TeardownFacts.dispatchFulfilsCatchArm else TeardownFacts.dispatchFulfilsNormalArm
    { s with batch := rest, fulfilled := if fulfils then bump s.fulfilled p else s.fulfilled }
  | .shutdown :: rest => { s with batch := rest, running := if TeardownFacts.shutdownCommandClearsRunning then false else s.running }
  | .other :: rest => { s with batch := rest }

def step (s : State) : Step → State
  | .enqueue c => doEnqueue s c
  | .clearRunning => { s with running := false }
  | .swap =>
    (match s.phase, s.batch with
     | .loop, [] => { s with batch := s.cmds, cmds := [] }      -- the iteration may have begun before `_running` was cleared
     | .drain, [] => { s with batch := s.cmds, cmds := [] }
     | _, _ => s)
  | .dispatch t => (match s.phase with | .loop | .drain => doDispatch s t | _ => s)
  | .loopExit => (match s.phase, s.batch with | .loop, [] => if s.running then s else { s with phase := .drain } | _, _ => s)
  | .closeQueue =>
    (match s.phase, s.batch with
     | .drain, [] =>
       if TeardownFacts.drainClosesAndTakesUnderOneLock then { s with closed := true, residual := s.cmds, cmds := [], phase := .residual }
       else { s with closed := true, residual := [], phase := .residual }    -- residual taken in an earlier section: later pushes are stranded
     | _, _ => s)
  | .failResidual =>
    (match s.phase, s.residual with
     | .residual, [] => { s with phase := .exited }
     | .residual, .addListener p :: rest =>
       { s with residual := rest, fulfilled := if TeardownFacts.residualPromisesFailed then bump s.fulfilled p else s.fulfilled }
     | .residual, _ :: rest => { s with residual := rest }
     | _, _ => s)
  | .restart =>
    (match s.phase with
     | .exited => { s with phase := .loop, closed := false, running := true }
     | _ => s)

def run (s : State) : List Step → State
  | [] => s
  | st :: rest => run (step s st) rest

/-- environment contract: every `addListener` call makes a fresh promise -/
def ok (s : State) : Step → Bool
  | .enqueue (.addListener p) => !s.accepted.contains p && !s.rejected.contains p
  | _ => true

def Disciplined : State → List Step → Prop
  | _, [] => True
  | s, st :: rest => ok s st = true ∧ Disciplined (step s st) rest

def disciplinedB : State → List Step → Bool
  | _, [] => true
  | s, st :: rest => ok s st && disciplinedB (step s st) rest

def init : State := {}

end Iora.EngineQueue
