import IoraModel.Model.Json
/-!
Reference semantics for C13: a syntax-tree type that spans the grammar of RFC 8259 (`SText`), its concrete text (`render`) and
the value an RFC-conforming decoder assigns to it (`denote`).  This file is the *specification* side of theorem J1
(`parse (render t) = ok (denote t)`); it does not mention the parser.

Coverage of the grammar (RFC 8259 §2–§7), production by production:
* `JSON-text = ws value ws`                                        — `SText`
* `ws = *( %x20 / %x09 / %x0A / %x0D )`                            — `Ws = List WsChar`
* `value = false / null / true / object / array / number / string` — `SVal`
* `array = begin-array [ value *( value-separator value ) ] end-array`, each structural character surrounded by `ws`
                                                                    — `SVal.arr w es`: `[` w (w1 value w2),… `]`
* `object`, `member = string name-separator value`                 — `SVal.obj w ms`: `{` w (w1 string w2 `:` w3 value w4),… `}`
* `number = [ minus ] int [ frac ] [ exp ]`, `int = zero / ( digit1-9 *DIGIT )` — `SNum`: the integer part is *the* decimal
  numeral of a natural number (`natToDec`, no leading zero); `frac`/`exp` digits are arbitrary digit strings, `e`/`E`, `+`/`-`/none
* `string = quotation-mark *char quotation-mark`; `char = unescaped / \" \\ \/ \b \f \n \r \t / \uXXXX` (hex digits of either case)
                                                                    — `StrItem`; an unescaped character is given byte by byte
  (`raw`): RFC 8259 demands bytes ≥ 0x20 forming well-formed UTF-8; J1 needs only "not `"` and not `\`" (`StrItem.ok`), so it covers
  the RFC and more.
Semantics: the eight two-character escapes denote their character; `\uXXXX` denotes the UTF-8 encoding of the code point, a high
surrogate immediately followed by a `\u` low surrogate denotes the supplementary code point (RFC 8259 §7); an unpaired surrogate
denotes U+FFFD (the RFC leaves it open, §8.2).  Object members: a later duplicate replaces the earlier value (§4 leaves it open; this is
what "last wins" means, cf. theorem J5).  A number without fraction and exponent that fits `int64` denotes that integer; every other
number denotes `strtod` of its own text.
-/
namespace Iora.Json.Spec
open Iora Iora.Json

inductive WsChar | sp | tab | lf | cr
  deriving DecidableEq

def WsChar.byte : WsChar → UInt8
  | .sp => 0x20 | .tab => 0x09 | .lf => 0x0A | .cr => 0x0D

abbrev Ws := List WsChar
def Ws.render (w : Ws) : Bytes := w.map WsChar.byte

/-- a hexadecimal digit as written: value and, for a–f, the letter case -/
structure HexDigit where
  val : Fin 16
  upper : Bool

def HexDigit.byte (h : HexDigit) : UInt8 :=
  if h.val.val < 10 then b8 (48 + h.val.val) else if h.upper then b8 (55 + h.val.val) else b8 (87 + h.val.val)

/-- the eight two-character escapes -/
inductive Esc | quote | backslash | slash | b | f | n | r | t
  deriving DecidableEq

/-- the character after the backslash -/
def Esc.letter : Esc → UInt8
  | .quote => 0x22 | .backslash => 0x5C | .slash => 0x2F | .b => 0x62 | .f => 0x66 | .n => 0x6E | .r => 0x72 | .t => 0x74
/-- the character denoted (RFC 8259 §7) -/
def Esc.char : Esc → UInt8
  | .quote => 0x22 | .backslash => 0x5C | .slash => 0x2F | .b => 0x08 | .f => 0x0C | .n => 0x0A | .r => 0x0D | .t => 0x09

inductive StrItem
  | raw (b : UInt8)
  | esc (e : Esc)
  | u (h1 h2 h3 h4 : HexDigit)

def StrItem.ok : StrItem → Prop
  | .raw b => b ≠ 0x22 ∧ b ≠ 0x5C
  | _ => True

def StrItem.render : StrItem → Bytes
  | .raw b => [b]
  | .esc e => [0x5C, e.letter]
  | .u h1 h2 h3 h4 => [0x5C, 0x75, h1.byte, h2.byte, h3.byte, h4.byte]

def renderItems (s : List StrItem) : Bytes := s.flatMap StrItem.render
def renderString (s : List StrItem) : Bytes := 0x22 :: (renderItems s ++ [0x22])

/-- the UTF-16 code unit written by `\uXXXX` -/
def codeUnit (h1 h2 h3 h4 : HexDigit) : Nat := ((h1.val.val * 16 + h2.val.val) * 16 + h3.val.val) * 16 + h4.val.val

def isHigh (cu : Nat) : Bool := 0xD800 ≤ cu && cu ≤ 0xDBFF
def isLow (cu : Nat) : Bool := 0xDC00 ≤ cu && cu ≤ 0xDFFF

/-- UTF-8 of one code unit standing alone: itself, or U+FFFD for an unpaired surrogate -/
def loneUnit (cu : Nat) : Bytes := if isHigh cu || isLow cu then utf8 0xFFFD else utf8 cu

/-- the byte string a JSON string denotes -/
def denoteItems : List StrItem → Bytes
  | [] => []
  | .raw b :: tl => b :: denoteItems tl
  | .esc e :: tl => e.char :: denoteItems tl
  | .u a1 a2 a3 a4 :: .u b1 b2 b3 b4 :: tl =>
    if isHigh (codeUnit a1 a2 a3 a4) && isLow (codeUnit b1 b2 b3 b4) then
      utf8 (0x10000 + (codeUnit a1 a2 a3 a4 - 0xD800) * 1024 + (codeUnit b1 b2 b3 b4 - 0xDC00)) ++ denoteItems tl
    else loneUnit (codeUnit a1 a2 a3 a4) ++ denoteItems (.u b1 b2 b3 b4 :: tl)
  | .u a1 a2 a3 a4 :: tl => loneUnit (codeUnit a1 a2 a3 a4) ++ denoteItems tl

/-- `number = [ minus ] int [ frac ] [ exp ]` -/
structure SNum where
  neg : Bool
  int : Nat
  /-- digits after the decimal point: ASCII digits, non-empty when present (`SNum.ok`) -/
  frac : Option Bytes
  /-- `(upper-case E, sign: none | some false = '+' | some true = '-', ASCII digits (non-empty))` -/
  exp : Option (Bool × Option Bool × Bytes)

/-- `1*DIGIT` -/
def Digits1 (ds : Bytes) : Prop := ds ≠ [] ∧ ∀ d ∈ ds, isDigit d = true

def SNum.ok (n : SNum) : Prop :=
  (∀ ds, n.frac = some ds → Digits1 ds) ∧ (∀ u s ds, n.exp = some (u, s, ds) → Digits1 ds)

def SNum.renderFrac (n : SNum) : Bytes :=
  match n.frac with
  | none => []
  | some ds => 0x2E :: ds

def SNum.renderExp (n : SNum) : Bytes :=
  match n.exp with
  | none => []
  | some (u, s, ds) =>
    (if u then 0x45 else 0x65) :: ((match s with | none => [] | some false => [0x2B] | some true => [0x2D]) ++ ds)

def SNum.render (n : SNum) : Bytes :=
  (if n.neg then [0x2D] else []) ++ natToDec n.int ++ n.renderFrac ++ n.renderExp

def SNum.isFloat (n : SNum) : Bool := n.frac.isSome || n.exp.isSome

def SNum.denote (ops : FloatOps) (n : SNum) : Json :=
  if n.isFloat then .dbl (ops.strtod n.render)
  else
    let i : Int := if n.neg then -(n.int : Int) else n.int
    if -(2 ^ 63 : Int) ≤ i ∧ i < 2 ^ 63 then .int i else .dbl (ops.strtod n.render)

mutual
inductive SVal
  | null | true | false
  | num (n : SNum)
  | str (s : List StrItem)
  | arr (w : Ws) (es : SElems)
  | obj (w : Ws) (ms : SMembers)
inductive SElems
  | nil
  | cons (w1 : Ws) (v : SVal) (w2 : Ws) (tl : SElems)
inductive SMembers
  | nil
  | cons (w1 : Ws) (k : List StrItem) (w2 w3 : Ws) (v : SVal) (w4 : Ws) (tl : SMembers)
end

def SElems.length : SElems → Nat
  | .nil => 0
  | .cons _ _ _ tl => tl.length + 1
def SMembers.length : SMembers → Nat
  | .nil => 0
  | .cons _ _ _ _ _ _ tl => tl.length + 1

mutual
def SVal.render : SVal → Bytes
  | .null => litNull
  | .true => litTrue
  | .false => litFalse
  | .num n => n.render
  | .str s => renderString s
  | .arr w es => 0x5B :: (w.render ++ es.render ++ [0x5D])
  | .obj w ms => 0x7B :: (w.render ++ ms.render ++ [0x7D])
def SElems.render : SElems → Bytes
  | .nil => []
  | .cons w1 v w2 tl => w1.render ++ v.render ++ w2.render ++ (match tl with | .nil => [] | tl => 0x2C :: tl.render)
def SMembers.render : SMembers → Bytes
  | .nil => []
  | .cons w1 k w2 w3 v w4 tl =>
    w1.render ++ renderString k ++ w2.render ++ [0x3A] ++ w3.render ++ v.render ++ w4.render
      ++ (match tl with | .nil => [] | tl => 0x2C :: tl.render)
end

mutual
def SVal.denote (ops : FloatOps) : SVal → Json
  | .null => .null
  | .true => .bool Bool.true
  | .false => .bool Bool.false
  | .num n => n.denote ops
  | .str s => .str (denoteItems s)
  | .arr _ es => .arr (es.denote ops)
  | .obj _ ms => .obj (ms.denote ops [])
def SElems.denote (ops : FloatOps) : SElems → List Json
  | .nil => []
  | .cons _ v _ tl => v.denote ops :: tl.denote ops
/-- members are entered left to right; a later duplicate replaces the value of the earlier one -/
def SMembers.denote (ops : FloatOps) : SMembers → List (Bytes × Json) → List (Bytes × Json)
  | .nil, acc => acc
  | .cons _ k _ _ v _ tl, acc => tl.denote ops (insertOrAssign (denoteItems k) (v.denote ops) acc)
end

mutual
/-- syntactic well-formedness that the types do not enforce -/
def SVal.ok : SVal → Prop
  | .num n => n.ok
  | .str s => ∀ i ∈ s, i.ok
  | .arr _ es => es.ok
  | .obj _ ms => ms.ok
  | _ => True
def SElems.ok : SElems → Prop
  | .nil => True
  | .cons _ v _ tl => v.ok ∧ tl.ok
def SMembers.ok : SMembers → Prop
  | .nil => True
  | .cons _ k _ _ v _ tl => (∀ i ∈ k, i.ok) ∧ v.ok ∧ tl.ok
end

mutual
/-- "within the configured limits" for a value at nesting depth `d` (the root is at depth 0) -/
def SVal.fits (lim : Limits) : Nat → SVal → Prop
  | d, .str s => d ≤ lim.depthMax ∧ (denoteItems s).length ≤ lim.stringLengthMax
  | d, .arr _ es => d ≤ lim.depthMax ∧ es.length ≤ lim.arrayItemsMax ∧ es.fits lim (d + 1)
  | d, .obj _ ms => d ≤ lim.depthMax ∧ ms.length ≤ lim.membersMax ∧ ms.fits lim (d + 1)
  | d, _ => d ≤ lim.depthMax
def SElems.fits (lim : Limits) : Nat → SElems → Prop
  | _, .nil => True
  | d, .cons _ v _ tl => v.fits lim d ∧ tl.fits lim d
def SMembers.fits (lim : Limits) : Nat → SMembers → Prop
  | _, .nil => True
  | d, .cons _ k _ _ v _ tl => (denoteItems k).length ≤ lim.stringLengthMax ∧ v.fits lim d ∧ tl.fits lim d
end

/-- RFC 8259 `*char` exactly: a sequence of escapes and of UNESCAPED characters, an unescaped character being the UTF-8 encoding
    (core Lean's `String.utf8EncodeChar`) of a Unicode scalar value `≥ U+0020` other than `"` and `\` (`%x20-21 / %x23-5B / %x5D-10FFFF`).
    `StrItem.ok` (what J1 needs) is weaker; `strictItems_ok` shows every strict string is `ok`. -/
inductive StrictItems : List StrItem → Prop
  | nil : StrictItems []
  | esc (e : Esc) {tl : List StrItem} : StrictItems tl → StrictItems (.esc e :: tl)
  | u (a1 a2 a3 a4 : HexDigit) {tl : List StrItem} : StrictItems tl → StrictItems (.u a1 a2 a3 a4 :: tl)
  | char (c : Char) {tl : List StrItem} : 0x20 ≤ c.val.toNat → c.val.toNat ≠ 0x22 → c.val.toNat ≠ 0x5C → StrictItems tl →
      StrictItems ((String.utf8EncodeChar c).map StrItem.raw ++ tl)

mutual
/-- the tree is in the grammar of RFC 8259 in the strict sense: every string and key is `StrictItems` (no raw control character,
    raw bytes form well-formed UTF-8) -/
def SVal.strict : SVal → Prop
  | .str s => StrictItems s
  | .arr _ es => es.strict
  | .obj _ ms => ms.strict
  | _ => True
def SElems.strict : SElems → Prop
  | .nil => True
  | .cons _ v _ tl => v.strict ∧ tl.strict
def SMembers.strict : SMembers → Prop
  | .nil => True
  | .cons _ k _ _ v _ tl => StrictItems k ∧ v.strict ∧ tl.strict
end

/-- well-formed UTF-8: the encoding of a sequence of Unicode scalar values -/
def ValidUtf8 (s : Bytes) : Prop := ∃ cs : List Char, s = cs.flatMap String.utf8EncodeChar

/-- `JSON-text = ws value ws` -/
structure SText where
  w1 : Ws
  v : SVal
  w2 : Ws

def SText.render (t : SText) : Bytes := t.w1.render ++ t.v.render ++ t.w2.render
def SText.denote (ops : FloatOps) (t : SText) : Json := t.v.denote ops
def SText.ok (t : SText) : Prop := t.v.ok
def SText.fits (lim : Limits) (t : SText) : Prop := t.v.fits lim 0


/-! ### which values the round-trip statement J2 speaks about -/

/-- What J2/J3 assume about libc's `std::to_chars(general, precision)` (the `%.*g` text) / `detail::jsonToDouble` (`strtod`) pair — nothing else about floating point is assumed; the logic of
    `Json::_formatDouble` (precision loop, `.0` suffix) is proved on top of these four facts (`formatDouble_roundtrips`):
    * `shape`: for the precisions the loop tries, `%.{p}g` of a finite double is a JSON number token (`-?int[.frac][e±exp]`);
    * `exactHi`: the text with the LAST precision tried (17 significant digits) reads back as the same double;
    * `zeroSign`: a zero whose text reads back as a zero reads back as the SAME zero (the sign of `-0.0` is printed and read);
    * `dotZero`: appending `.0` to an integer-looking token does not change what `strtod` returns.
    All four hold for a correctly rounded libc (glibc); they are validated bit for bit by the lockstep, not proved. -/
structure LibcOk (ops : FloatOps) : Prop where
  shape : ∀ p d, Gen.Json.fmtPrecLo ≤ p → p ≤ Gen.Json.fmtPrecHi → isFiniteBits d = true →
    ∃ n : SNum, n.ok ∧ n.render = ops.printfG p d
  exactHi : ∀ d, isFiniteBits d = true → ops.strtod (ops.printfG Gen.Json.fmtPrecHi d) = d
  zeroSign : ∀ p d, Gen.Json.fmtPrecLo ≤ p → p ≤ Gen.Json.fmtPrecHi → isZeroBits d = true →
    isZeroBits (ops.strtod (ops.printfG p d)) = true → ops.strtod (ops.printfG p d) = d
  dotZero : ∀ n : SNum, n.ok → n.isFloat = false →
    ops.strtod (n.render ++ Gen.Json.fmtSuffix.map b8) = ops.strtod n.render

end Iora.Json.Spec

namespace Iora.Json
open Iora.Json.Spec

mutual
/-- a value the C++ `Json` type can hold and J2 speaks about ("made of finite numbers"): integers in `int64`, FINITE doubles,
    objects with pairwise distinct keys (`std::unordered_map`) -/
def Json.Good : Json → Prop
  | .int i => -(2 ^ 63 : Int) ≤ i ∧ i < 2 ^ 63
  | .dbl d => isFiniteBits d = true
  | .arr xs => Json.GoodList xs
  | .obj ms => (ms.map Prod.fst).Nodup ∧ Json.GoodMembers ms
  | _ => True
def Json.GoodList : List Json → Prop
  | [] => True
  | x :: xs => x.Good ∧ Json.GoodList xs
def Json.GoodMembers : List (Bytes × Json) → Prop
  | [] => True
  | (_, v) :: ms => v.Good ∧ Json.GoodMembers ms
end

mutual
/-- the value (at nesting depth `d`) respects the parse limits, with `slack` extra bytes allowed per string -/
def Json.within (lim : Limits) (slack : Nat) : Nat → Json → Prop
  | d, .str s => d ≤ lim.depthMax ∧ s.length ≤ lim.stringLengthMax + slack
  | d, .arr xs => d ≤ lim.depthMax ∧ xs.length ≤ lim.arrayItemsMax ∧ Json.withinList lim slack (d + 1) xs
  | d, .obj ms => d ≤ lim.depthMax ∧ ms.length ≤ lim.membersMax ∧ Json.withinMembers lim slack (d + 1) ms
  | d, _ => d ≤ lim.depthMax
def Json.withinList (lim : Limits) (slack : Nat) : Nat → List Json → Prop
  | _, [] => True
  | d, x :: xs => x.within lim slack d ∧ Json.withinList lim slack d xs
def Json.withinMembers (lim : Limits) (slack : Nat) : Nat → List (Bytes × Json) → Prop
  | _, [] => True
  | d, (k, v) :: ms => k.length ≤ lim.stringLengthMax + slack ∧ v.within lim slack d ∧ Json.withinMembers lim slack d ms
end

mutual
/-- every string and every key of the value is well-formed UTF-8 ("valid UTF-8 strings" in the property) -/
def Json.utf8 : Json → Prop
  | .str s => ValidUtf8 s
  | .arr xs => Json.utf8List xs
  | .obj ms => Json.utf8Members ms
  | _ => True
def Json.utf8List : List Json → Prop
  | [] => True
  | x :: xs => x.utf8 ∧ Json.utf8List xs
def Json.utf8Members : List (Bytes × Json) → Prop
  | [] => True
  | (k, v) :: ms => ValidUtf8 k ∧ v.utf8 ∧ Json.utf8Members ms
end

mutual
/-- every object in the value has pairwise distinct keys (it is a map) -/
def Json.distinctKeys : Json → Prop
  | .arr xs => Json.distinctKeysList xs
  | .obj ms => (ms.map Prod.fst).Nodup ∧ Json.distinctKeysMembers ms
  | _ => True
def Json.distinctKeysList : List Json → Prop
  | [] => True
  | x :: xs => x.distinctKeys ∧ Json.distinctKeysList xs
def Json.distinctKeysMembers : List (Bytes × Json) → Prop
  | [] => True
  | (_, v) :: ms => v.distinctKeys ∧ Json.distinctKeysMembers ms
end

/-- `std::sort` of the members by key -/
def sortMs (ms : List (Bytes × Json)) : List (Bytes × Json) := ms.mergeSort (fun a b => bytesLe a.1 b.1)

mutual
/-- the value with the members of every object sorted by key: what `sortKeys` serializes -/
def sortDeep : Json → Json
  | .arr xs => .arr (sortDeepList xs)
  | .obj ms => .obj (sortMs (sortDeepMembers ms))
  | j => j
def sortDeepList : List Json → List Json
  | [] => []
  | x :: xs => sortDeep x :: sortDeepList xs
def sortDeepMembers : List (Bytes × Json) → List (Bytes × Json)
  | [] => []
  | (k, v) :: ms => (k, sortDeep v) :: sortDeepMembers ms
end

/-- `find` on the member list -/
def lookupKey (k : Bytes) : List (Bytes × Json) → Option Json
  | [] => none
  | (k', v) :: ms => if k' = k then some v else lookupKey k ms

mutual
/-- mirrors `Json::operator==` (`std::variant` equality; `std::unordered_map::operator==`: same size and every member of the
    left operand is found in the right one with an equal value); doubles are compared with `operator==` on `double` (`dblEq`) -/
def eqv : Json → Json → Bool
  | .null, .null => true
  | .bool a, .bool b => a == b
  | .int a, .int b => a == b
  | .dbl a, .dbl b => dblEq a b
  | .str a, .str b => a == b
  | .arr xs, .arr ys => eqvList xs ys
  | .obj ms, .obj ns => ms.length == ns.length && eqvMembers ms ns
  | _, _ => false
def eqvList : List Json → List Json → Bool
  | [], [] => true
  | x :: xs, y :: ys => eqv x y && eqvList xs ys
  | _, _ => false
def eqvMembers : List (Bytes × Json) → List (Bytes × Json) → Bool
  | [], _ => true
  | (k, v) :: ms, ns => (match lookupKey k ns with | some w => eqv v w | none => false) && eqvMembers ms ns
end

end Iora.Json
