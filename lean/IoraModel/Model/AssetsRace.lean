import IoraModel.Model.Assets
/-!
# C20 under N concurrent threads: the double-checked locking of the filesystem-mode caches

`Model/Assets.lean` takes every lookup as one atomic step (histories are sequential).  This file is the small-step model of
`Assets::getStaticFilesystem`, `Assets::getTemplateFilesystem` and `Assets::reload` for ANY number of threads sharing one
`FsState` (the two caches) and one `_fs->mutex`, at the granularity of the code's critical sections:

    lookup of key k (cached mode):                                    reload():
      start     weakly_canonical / isContained / is_regular_file        start
                on the thread's own snapshots; no shared access         lockR   wait for _fs->mutex
      lock1     wait for _fs->mutex                                      csR     clear both maps; unlock
      cs1       it = cache.find(k); hit: return it->second; unlock      done
      build     OUTSIDE the lock: buildEntry / readFile (own snapshots)
      lock2     wait for _fs->mutex
      cs2       it = cache.find(k); hit: chosen = it->second (the built value is discarded)
                                    miss: cache.emplace(k, built); unlock
      done

A per-request static lookup (`perRequestRead`) goes `start → build → done` and never touches the cache.
Taking the mutex is its own step (a thread that finds it taken does not move); the body of a critical section together with
the unlock is ONE step.  WHICH accesses lie inside a lock scope is not hard-wired: it is the `Shape`, instantiated from the
facts the translator extracts from `assets.hpp` (`Shape.gen`).  An access to a map by a thread that does not own the mutex sets
the sticky flag `unguarded` (a data race on the `std::unordered_map`).  A schedule is a list of thread indices; the move of a
blocked, finished or non-existent thread is the identity.  Every thread carries its own `Snaps` (the environment may change the
file system arbitrarily between threads and between the system calls of one thread).  Theorems: `Lemmas/AssetsRace.lean`.
-/
namespace Iora.Assets.Race
open Iora Iora.Assets

/-- lock skeleton of one cached lookup function: facts about `assets.hpp` -/
structure LookupShape where
  /-- the first `find` is inside a `lock_guard` on `_fs->mutex` -/
  find1UnderLock : Bool
  /-- `buildEntry` / `readFile` runs while that guard is still live (it must NOT: file I/O outside the lock) -/
  buildUnderLock : Bool
  /-- after the build there is a second `find` of the key -/
  hasSecondFind : Bool
  /-- that second `find` and the insertion are inside ONE `lock_guard` scope -/
  find2EmplaceSameLock : Bool
  /-- the insertion is `emplace` (does not overwrite an existing key); otherwise it overwrites -/
  emplace : Bool
  deriving DecidableEq, Repr

structure Shape where
  static : LookupShape
  template : LookupShape
  reloadUnderLock : Bool
  reloadClearsStatic : Bool
  reloadClearsTemplate : Bool
  deriving DecidableEq, Repr

/-- the shape of the working tree -/
def Shape.gen : Shape :=
  { static := { find1UnderLock := Gen.Assets.staticFind1UnderLock, buildUnderLock := Gen.Assets.staticBuildUnderLock,
                hasSecondFind := Gen.Assets.staticHasSecondFind, find2EmplaceSameLock := Gen.Assets.staticFind2EmplaceSameLock,
                emplace := Gen.Assets.staticCacheInsert == "emplace" },
    template := { find1UnderLock := Gen.Assets.templateFind1UnderLock, buildUnderLock := Gen.Assets.templateReadUnderLock,
                  hasSecondFind := Gen.Assets.templateHasSecondFind, find2EmplaceSameLock := Gen.Assets.templateFind2EmplaceSameLock,
                  emplace := Gen.Assets.templateCacheInsert == "emplace" },
    reloadUnderLock := Gen.Assets.reloadUnderLock,
    reloadClearsStatic := Gen.Assets.reloadClears.contains "staticCache",
    reloadClearsTemplate := Gen.Assets.reloadClears.contains "templateCache" }

/-- the double-checked locking of the source: what the theorems need -/
def LookupShape.ok (l : LookupShape) : Bool :=
  l.find1UnderLock && !l.buildUnderLock && l.hasSecondFind && l.find2EmplaceSameLock && l.emplace

def Shape.ok (sh : Shape) : Bool :=
  sh.static.ok && sh.template.ok && sh.reloadUnderLock && sh.reloadClearsStatic && sh.reloadClearsTemplate

/-- a cached value: a static entry or a template source -/
inductive Val where
  | s (e : CacheEntry)
  | t (d : Bytes)
  deriving DecidableEq, Repr

/-- what a call returns: `getStaticFilesystem` (left) or `getTemplateFilesystem` (right) -/
abbrev Ret := Sum Res (Option Bytes)

/-- what one thread runs -/
inductive RaceOp where
  | static (n : Bytes)
  | template (n : Bytes)
  | reload
  | none
  deriving DecidableEq, Repr

/-- program counter (with the thread's locals) -/
inductive Pc where
  | start
  | lock1 (resolved : Bytes)
  | cs1 (resolved : Bytes)
  | build (resolved : Bytes)
  | lock2 (built : Val)
  | cs2 (built : Val)
  /-- only when find2 and the insertion are NOT in one lock scope: the insertion on its own -/
  | lockE (built : Val)
  | csE (built : Val)
  | lockR
  | csR
  | done (r : Option Ret)
  deriving DecidableEq, Repr

structure Thread where
  op : RaceOp
  /-- the file-system snapshots this thread's system calls see -/
  sn : Snaps
  pc : Pc := .start

/-- what the threads share -/
structure Shared where
  st : FsState
  /-- owner of `_fs->mutex` -/
  owner : Option Nat := none
  /-- sticky: some thread accessed a cache map without owning the mutex -/
  unguarded : Bool := false

/-- `cache.find(k)` on the map of the kind -/
def find (tmpl : Bool) (st : FsState) (k : Bytes) : Option Val :=
  if tmpl then (st.templateCache.lookup k).map Val.t else (st.staticCache.lookup k).map Val.s

/-- `emplace` keeps an existing key; the other insertions overwrite (the new pair shadows the old one) -/
def put {α : Type} (emplace : Bool) (k : Bytes) (v : α) (l : List (Bytes × α)) : List (Bytes × α) :=
  if emplace && (l.lookup k).isSome then l else (k, v) :: l

def insert (sh : Shape) (k : Bytes) (v : Val) (st : FsState) : FsState :=
  match v with
  | .s e => { st with staticCache := put sh.static.emplace k e st.staticCache }
  | .t d => { st with templateCache := put sh.template.emplace k d st.templateCache }

/-- `blobFromEntry(chosen, path)` / `string_view(*source)` -/
def retOf (k : Bytes) : Val → Ret
  | .s e => .inl (.found (blobOf e k))
  | .t d => .inr (some d)

def missRet (tmpl : Bool) : Ret := if tmpl then .inr none else .inl .notFound
def rejRet (tmpl : Bool) : Ret := if tmpl then .inr none else .inl .rejected

/-- `buildEntry(resolved)` / `readFile(resolved)` on the thread's snapshots -/
def buildVal (tmpl : Bool) (sn : Snaps) (r : Bytes) : Option Val :=
  if tmpl then (readFile sn.o r).map Val.t else (buildEntryAt sn.o sn.g sn.z r).map Val.s

/-- end of a `lock_guard` scope (a thread that does not own the mutex has nothing to give back) -/
def release (i : Nat) (g : Shared) : Shared := { g with owner := if g.owner = some i then none else g.owner }

/-- an access to a cache map by thread `i` -/
def touch (i : Nat) (g : Shared) : Shared := { g with unguarded := g.unguarded || !(g.owner == some i) }

/-- `lock_guard` constructor: take the free mutex, or do not move -/
def lockStep (i : Nat) (g : Shared) (next cur : Pc) : Pc × Shared :=
  match g.owner with
  | none => (next, { g with owner := some i })
  | some _ => (cur, g)

/-- the insertion, then `return blobFromEntry(built)`, at the end of the lock scope -/
def emplaceDone (sh : Shape) (i : Nat) (k : Bytes) (v : Val) (g : Shared) : Pc × Shared :=
  (.done (some (retOf k v)), release i { g with st := insert sh k v g.st })

/-- mirrors `Assets::getStaticFilesystem` (`tmpl = false`) and `Assets::getTemplateFilesystem` (`tmpl = true`), one step -/
def stepLookup (sh : Shape) (i : Nat) (tmpl : Bool) (k : Bytes) (sn : Snaps) (pc : Pc) (g : Shared) : Pc × Shared :=
  let lk := if tmpl then sh.template else sh.static
  let root := if tmpl then g.st.templatesRoot else g.st.staticsRoot
  let direct := !tmpl && g.st.perRequest
  match pc with
  | .start =>
    match weaklyCanonicalAt sn.s sn.c (pathAppend root k) with
    | .error _ => (.done (some (missRet tmpl)), g)
    | .ok resolved =>
      if !isContained root resolved then (.done (some (rejRet tmpl)), g)
      else if !isRegularFile sn.r resolved then (.done (some (missRet tmpl)), g)
      else if direct then (.build resolved, g)
      else if lk.find1UnderLock then (.lock1 resolved, g) else (.cs1 resolved, g)
  | .lock1 r => lockStep i g (.cs1 r) pc
  | .cs1 r =>
    let g := touch i g
    match find tmpl g.st k with
    | some v => (.done (some (retOf k v)), release i g)
    | none => (.build r, if lk.buildUnderLock then g else release i g)
  | .build r =>
    match buildVal tmpl sn r with
    | none => (.done (some (missRet tmpl)), release i g)
    | some v =>
      if direct then (.done (some (retOf k v)), g)
      else if lk.buildUnderLock then (.cs2 v, g) else (.lock2 v, g)
  | .lock2 v => lockStep i g (.cs2 v) pc
  | .cs2 v =>
    let g := touch i g
    if lk.hasSecondFind then
      match find tmpl g.st k with
      | some w => (.done (some (retOf k w)), release i g)      -- `chosen = it->second`: another thread won
      | none => if lk.find2EmplaceSameLock then emplaceDone sh i k v g else (.lockE v, release i g)
    else if lk.find2EmplaceSameLock then emplaceDone sh i k v g else (.lockE v, release i g)
  | .lockE v => lockStep i g (.csE v) pc
  | .csE v => emplaceDone sh i k v (touch i g)
  | .lockR => (pc, g)
  | .csR => (pc, g)
  | .done _ => (pc, g)

/-- mirrors `Assets::reload` (filesystem mode), one step -/
def stepReload (sh : Shape) (i : Nat) (pc : Pc) (g : Shared) : Pc × Shared :=
  match pc with
  | .start => if sh.reloadUnderLock then (.lockR, g) else (.csR, g)
  | .lockR => lockStep i g .csR pc
  | .csR =>
    let g := touch i g
    (.done none, release i { g with st := { g.st with
        staticCache := if sh.reloadClearsStatic then [] else g.st.staticCache,
        templateCache := if sh.reloadClearsTemplate then [] else g.st.templateCache } })
  | _ => (pc, g)

/-- one step of thread `i` -/
def stepT (sh : Shape) (i : Nat) (t : Thread) (g : Shared) : Thread × Shared :=
  let r : Pc × Shared :=
    match t.op with
    | .static k => stepLookup sh i false k t.sn t.pc g
    | .template k => stepLookup sh i true k t.sn t.pc g
    | .reload => stepReload sh i t.pc g
    | .none => (match t.pc with | .start => .done none | p => p, g)
  ({ t with pc := r.1 }, r.2)

structure State where
  g : Shared
  threads : List Thread

/-- thread `i` is given the processor -/
def step (sh : Shape) (s : State) (i : Nat) : State :=
  match s.threads[i]? with
  | none => s
  | some t => { g := (stepT sh i t s.g).2, threads := s.threads.set i (stepT sh i t s.g).1 }

def run (sh : Shape) (s : State) (sched : List Nat) : State := sched.foldl (step sh) s

/-- the mutex is free, nothing has raced, every thread is about to start -/
def State.init (st : FsState) (ts : List (RaceOp × Snaps)) : State :=
  { g := { st := st }, threads := ts.map (fun x => { op := x.1, sn := x.2 }) }

/-- enough consecutive steps for any call to return when nobody else moves -/
def soloLen : Nat := 8

/-- what thread `i` has returned (`none`: still running, or `reload`/`none` which return nothing) -/
def State.result (s : State) (i : Nat) : Option Ret :=
  match s.threads[i]? with
  | some t => (match t.pc with | .done r => r | _ => none)
  | none => none

/-! ## The gated two-thread schedule the driver replays against the real code -/

/-- the value of a call that has returned (a lookup always has, after `soloLen` uninterrupted steps) -/
def orMiss (tmpl : Bool) : Option Ret → Ret
  | some r => r
  | none => missRet tmpl

structure RaceOut where
  resA : Sum Res (Option Bytes)
  resB : Option (Sum Res (Option Bytes))
  st : FsState
  gated : Bool

def atBuild (s : State) (i : Nat) : Bool :=
  match s.threads[i]? with
  | some t => (match t.pc with | .build _ => true | _ => false)
  | none => false

def finished (s : State) (i : Nat) : Bool :=
  match s.threads[i]? with
  | some t => (match t.pc with | .done _ => true | _ => false)
  | none => true

/-- give thread `i` the processor until it is about to `build` (its first `open(2)`) or has returned -/
def advanceToBuild (sh : Shape) (i : Nat) : Nat → State → State
  | 0, s => s
  | n + 1, s => if atBuild s i || finished s i then s else advanceToBuild sh i n (step sh s i)

/-- Thread A (index 0) looks `nameA` up (static, or template if `tmplA`); everything up to and including its first `find` sees
`fs0`.  If A is then about to `build` (`gated`): thread B (index 1) runs `bOp` to completion in `fs0`, the file system becomes
`fs1`, and A finishes (`build`, second critical section) in `fs1`.  Otherwise A has already returned and B runs afterwards in
`fs0`.  Defined by RUNNING the small-step machine for `Shape.gen` on the corresponding schedule. -/
def gatedRace (fs0 fs1 : Fs) (st : FsState) (tmplA : Bool) (nameA : Bytes) (bOp : RaceOp) : RaceOut :=
  let a : Thread := { op := if tmplA then .template nameA else .static nameA, sn := ⟨fs0, fs0, fs0, fs1, fs1, fs1⟩ }
  let b : Thread := { op := bOp, sn := Snaps.const fs0 }
  let s0 : State := { g := { st := st }, threads := [a, b] }
  let s1 := advanceToBuild Shape.gen 0 soloLen s0
  let gated := atBuild s1 0
  let s2 := run Shape.gen s1 (List.replicate soloLen 1)
  let s3 := run Shape.gen s2 (List.replicate soloLen 0)
  { resA := orMiss tmplA (s3.result 0),
    resB := s3.result 1,
    st := s3.g.st,
    gated := gated }

end Iora.Assets.Race
