import IoraModel.Common.Bytes
import IoraModel.Gen.Json
/-!
Model of `include/iora/parsers/json.hpp` (C13): `JsonParser` (recursive descent with an explicit cursor) and
`Json::_serialize` (compact / pretty / sorted keys).  Core Lean only.

Conventions.
* The cursor `Cur` is the not yet consumed suffix of `_text` together with `_pos`; `_text[_pos]` is the head of the suffix,
  `_pos >= _text.size()` is "the suffix is empty".  `pos + rest.length = _text.size()` is an invariant (theorem `J4`).
* Numbers that take the floating path are *not* computed here: `FloatOps.strtod` is applied to the exact token the C++
  hands to `std::strtod`, and `FloatOps.printfG p d` stands for `snprintf("%.*g", p, d)`; `Json::_formatDouble` itself (the
  15..17 precision loop, the `.0` suffix, `null` for non-finite values) is modelled (`formatDouble`).  A double is represented by
  its IEEE-754 bit pattern (`UInt64`); only its exponent/fraction fields are inspected (`isFiniteBits`, `dblEq`).  No theorem
  mentions `Float`.
* `Json.obj` is an association list with pairwise distinct keys in the order of first insertion
  (`std::unordered_map::operator[]` + assignment = `insertOrAssign`); the iteration order of the real hash map is not modelled,
  `serialize` takes whatever order the list has (theorem J2 holds for every order).
* Recursion: `parseValue` recurses on a nesting budget (`depthMax + 2`, never exhausted: theorem `J4_total`); the element /
  member / character loops recurse on a budget equal to the number of remaining bytes + 1 (each iteration consumes a byte).
  `ErrKind.fuel` is the "budget exhausted" outcome and is proved unreachable.
-/
namespace Iora.Json
open Iora

/-- mirrors `struct ParseLimits` -/
structure Limits where
  depthMax : Nat := Gen.Json.depthMaxDefault
  arrayItemsMax : Nat := Gen.Json.arrayItemsMaxDefault
  membersMax : Nat := Gen.Json.membersMaxDefault
  stringLengthMax : Nat := Gen.Json.stringLengthMaxDefault

/-- one constructor per `_error = "..."` message (see `ErrKind.message`); `fuel` has no C++ counterpart -/
inductive ErrKind
  | eof | extra | depth | char | null | bool | number | quote | strlen | eos | unicode | escape | unterminated
  | arrsize | eoa | arrsep | objsize | colon | eoo | objsep | fuel
  deriving DecidableEq, Repr

def ErrKind.message : ErrKind → String
  | .eof => "Unexpected end of input" | .extra => "Extra characters after JSON value" | .depth => "Maximum nesting depth exceeded"
  | .char => "Unexpected character" | .null => "Invalid null literal" | .bool => "Invalid boolean literal"
  | .number => "Invalid number format" | .quote => "Expected '\"'" | .strlen => "String length exceeds limit"
  | .eos => "Unexpected end of string" | .unicode => "Invalid unicode escape" | .escape => "Invalid escape sequence"
  | .unterminated => "Unterminated string" | .arrsize => "Array size exceeds limit" | .eoa => "Unexpected end of array"
  | .arrsep => "Expected ',' or ']'" | .objsize => "Object size exceeds limit" | .colon => "Expected ':'"
  | .eoo => "Unexpected end of object" | .objsep => "Expected ',' or '}'" | .fuel => "<model budget exhausted>"

/-- the value type: mirrors `Json::Value` (`std::variant<nullptr_t, bool, int64_t, double, string, Array, Object>`) -/
inductive Json
  | null
  | bool (b : Bool)
  | int (i : Int)
  | dbl (bits : UInt64)
  | str (s : Bytes)
  | arr (xs : List Json)
  | obj (ms : List (Bytes × Json))

/-- the libc primitives on the floating path, as parameters (a double is its IEEE-754 bit pattern) -/
structure FloatOps where
  /-- `std::strtod` applied to a number token; result as IEEE-754 bits -/
  strtod : Bytes → UInt64
  /-- `std::snprintf(buf, sizeof buf, "%.*g", precision, d)` -/
  printfG : Nat → UInt64 → Bytes

structure Cur where
  rest : Bytes
  pos : Nat

abbrev Err := ErrKind × Nat
abbrev Res (α : Type) := Except Err (α × Cur)

/-- `std::isspace` in the "C" locale on a `char` (bytes ≥ 0x80 are negative and not white space) -/
def isSpace (b : UInt8) : Bool := b == 0x20 || (0x09 ≤ b && b ≤ 0x0D)
/-- `std::isdigit` -/
def isDigit (b : UInt8) : Bool := 0x30 ≤ b && b ≤ 0x39

/-- advance the cursor by one byte (`++_pos`) -/
def Cur.adv (c : Cur) : Cur := ⟨c.rest.tail, c.pos + 1⟩

def skipWsAux : Bytes → Nat → Cur
  | [], p => ⟨[], p⟩
  | b :: r, p => if isSpace b then skipWsAux r (p + 1) else ⟨b :: r, p⟩
/-- mirrors `JsonParser::_skipWhitespace` -/
def skipWs (c : Cur) : Cur := skipWsAux c.rest c.pos

def skipDigitsAux : Bytes → Nat → Cur
  | [], p => ⟨[], p⟩
  | b :: r, p => if isDigit b then skipDigitsAux r (p + 1) else ⟨b :: r, p⟩
/-- `while (_pos < _text.size() && std::isdigit(_text[_pos])) ++_pos;` -/
def skipDigits (c : Cur) : Cur := skipDigitsAux c.rest c.pos

def litNull : Bytes := [0x6E, 0x75, 0x6C, 0x6C]
def litTrue : Bytes := [0x74, 0x72, 0x75, 0x65]
def litFalse : Bytes := [0x66, 0x61, 0x6C, 0x73, 0x65]

/-- mirrors `_parseNull` -/
def parseNull (c : Cur) : Res Json :=
  if c.rest.take 4 = litNull then .ok (.null, ⟨c.rest.drop 4, c.pos + 4⟩) else .error (.null, c.pos)

/-- mirrors `_parseBool` -/
def parseBool (c : Cur) : Res Json :=
  if c.rest.take 4 = litTrue then .ok (.bool true, ⟨c.rest.drop 4, c.pos + 4⟩)
  else if c.rest.take 5 = litFalse then .ok (.bool false, ⟨c.rest.drop 5, c.pos + 5⟩)
  else .error (.bool, c.pos)

/-- value of a run of ASCII digits -/
def decVal (ds : Bytes) : Nat := ds.foldl (fun a d => a * 10 + (d.toNat - 48)) 0

/-- `std::from_chars(first, last, std::int64_t&)` on a token of the shape `-?[0-9]+`: `none` = `result_out_of_range` -/
def fromCharsInt64 (tok : Bytes) : Option Int :=
  match tok with
  | 0x2D :: ds => if decVal ds ≤ 2 ^ 63 then some (-(decVal ds : Int)) else none
  | ds => if decVal ds < 2 ^ 63 then some (decVal ds : Int) else none

/-- `if (_pos >= _text.size() || !std::isdigit(_text[_pos])) error; while (... isdigit ...) ++_pos;` -/
def digitsRequired (c : Cur) : Except Nat Cur :=
  match c.rest with
  | d :: _ => if isDigit d then .ok (skipDigits c) else .error c.pos
  | [] => .error c.pos

/-- optional exponent sign -/
def skipSign (c : Cur) : Cur :=
  match c.rest with
  | s :: r => if s = 0x2B ∨ s = 0x2D then ⟨r, c.pos + 1⟩ else c
  | [] => c

/-- optional fraction: position of the "Invalid number format" failure, or (seen, cursor) -/
def scanFrac (c : Cur) : Except Nat (Bool × Cur) :=
  match c.rest with
  | b :: r =>
    if b = 0x2E then
      match digitsRequired ⟨r, c.pos + 1⟩ with
      | .ok c' => .ok (true, c')
      | .error p => .error p
    else .ok (false, c)
  | [] => .ok (false, c)

/-- optional exponent -/
def scanExp (c : Cur) : Except Nat (Bool × Cur) :=
  match c.rest with
  | b :: r =>
    if b = 0x65 ∨ b = 0x45 then
      match digitsRequired (skipSign ⟨r, c.pos + 1⟩) with
      | .ok c' => .ok (true, c')
      | .error p => .error p
    else .ok (false, c)
  | [] => .ok (false, c)

/-- `if (_text[_pos] == '-') ++_pos;` -/
def skipMinus (c : Cur) : Cur :=
  match c.rest with
  | b :: r => if b = 0x2D then ⟨r, c.pos + 1⟩ else c
  | [] => c

/-- the integer part: a digit is required; a leading `0` stands alone -/
def scanInt (c : Cur) : Except Nat Cur :=
  match c.rest with
  | [] => .error c.pos
  | d :: r => if isDigit d then .ok (if d = 0x30 then ⟨r, c.pos + 1⟩ else skipDigits c) else .error c.pos

/-- the scanning half of `_parseNumber`: position of the "Invalid number format" failure, or (`hasDecimal`, cursor after the token) -/
def scanNumber (c : Cur) : Except Nat (Bool × Cur) :=
  match scanInt (skipMinus c) with
  | .error p => .error p
  | .ok c1 =>
    match scanFrac c1 with
    | .error p => .error p
    | .ok (hasFrac, c2) =>
      match scanExp c2 with
      | .error p => .error p
      | .ok (hasExp, c3) => .ok (hasFrac || hasExp, c3)

/-- the conversion half of `_parseNumber` on the token `numStr` -/
def convertNumber (ops : FloatOps) (hasDecimal : Bool) (tok : Bytes) : Json :=
  if hasDecimal then .dbl (ops.strtod tok)
  else match fromCharsInt64 tok with
    | some i => .int i
    | none => .dbl (ops.strtod tok)

/-- mirrors `_parseNumber` (entered with `_text[_pos]` = `-` or a digit) -/
def parseNumber (ops : FloatOps) (c : Cur) : Res Json :=
  match scanNumber c with
  | .error p => .error (.number, p)
  | .ok (hasDecimal, c3) => .ok (convertNumber ops hasDecimal (c.rest.take (c3.pos - c.pos)), c3)

def hexVal (b : UInt8) : Option Nat :=
  if 0x30 ≤ b ∧ b ≤ 0x39 then some (b.toNat - 0x30)
  else if 0x61 ≤ b ∧ b ≤ 0x66 then some (b.toNat - 0x61 + 10)
  else if 0x41 ≤ b ∧ b ≤ 0x46 then some (b.toNat - 0x41 + 10)
  else none

/-- mirrors `_parseHex4`: exactly four hex digits, bounds-checked -/
def parseHex4 : Bytes → Option Nat
  | a :: b :: c :: d :: _ =>
    match hexVal a, hexVal b, hexVal c, hexVal d with
    | some a, some b, some c, some d => some (((a * 16 + b) * 16 + c) * 16 + d)
    | _, _, _, _ => none
  | _ => none

/-- mirrors `_appendUtf8` (`x | (y >> k)` written arithmetically; the operands have disjoint bits) -/
def utf8 (cp : Nat) : Bytes :=
  if cp ≤ Gen.Json.utf8Max1 then [b8 cp]
  else if cp ≤ Gen.Json.utf8Max2 then [b8 (cp / 64 % 32 + 192), b8 (cp % 64 + 128)]
  else if cp ≤ Gen.Json.utf8Max3 then [b8 (cp / 4096 % 16 + 224), b8 (cp / 64 % 64 + 128), b8 (cp % 64 + 128)]
  else [b8 (cp / 262144 % 8 + 240), b8 (cp / 4096 % 64 + 128), b8 (cp / 64 % 64 + 128), b8 (cp % 64 + 128)]

def isHiSurr (cp : Nat) : Bool := Gen.Json.hiSurrLo ≤ cp && cp ≤ Gen.Json.hiSurrHi
def isLoSurr (cp : Nat) : Bool := Gen.Json.loSurrLo ≤ cp && cp ≤ Gen.Json.loSurrHi

/-- the `\uXXXX` that may follow a high surrogate: `_text[_pos+1] == '\\' && _text[_pos+2] == 'u' && _parseHex4(_pos+3, lo) && lo in range` -/
def lowSurrogate (r : Bytes) : Option Nat :=
  match r with
  | a :: b :: r' =>
    if a = 0x5C ∧ b = 0x75 then
      match parseHex4 r' with
      | some lo => if isLoSurr lo then some lo else none
      | none => none
    else none
  | _ => none

/-- what one `\u` escape appends and how many bytes it consumes, counted from the `u`: (code point, bytes consumed) -/
def decodeU (r : Bytes) : Option (Nat × Nat) :=
  match parseHex4 r with
  | none => none
  | some cp =>
    if isHiSurr cp then
      match lowSurrogate (r.drop Gen.Json.hexAdvance) with
      | some lo => some (Gen.Json.supplementaryBase + (cp - Gen.Json.hiSurrLo) * 2 ^ Gen.Json.surrogateShift + (lo - Gen.Json.loSurrLo),
                         1 + Gen.Json.hexAdvance + Gen.Json.pairAdvance)
      | none => some (Gen.Json.replacementCp, 1 + Gen.Json.hexAdvance)
    else if isLoSurr cp then some (Gen.Json.replacementCp, 1 + Gen.Json.hexAdvance)
    else some (cp, 1 + Gen.Json.hexAdvance)

/-- the body of the `while` loop of `_parseString`; the cursor is just after the opening quote.
    `racc` is `str` reversed, `n = str.size()`. -/
def strLoop (lim : Limits) : Nat → Bytes → Nat → Cur → Res Bytes
  | 0, _, _, c => .error (.fuel, c.pos)
  | fuel + 1, racc, n, c =>
    match c.rest with
    | [] => .error (.unterminated, c.pos)
    | b :: r =>
      if b = 0x22 then .ok (racc.reverse, ⟨r, c.pos + 1⟩)
      else if Gen.Json.stringExceeded n lim.stringLengthMax then .error (.strlen, c.pos)
      else if b = 0x5C then
        match r with
        | [] => .error (.eos, c.pos + 1)
        | e :: r2 =>
          if e = 0x75 then
            match decodeU r2 with
            | none => .error (.unicode, c.pos + 1)
            | some (cp, k) => strLoop lim fuel ((utf8 cp).reverse ++ racc) (n + (utf8 cp).length) ⟨r.drop k, c.pos + 1 + k⟩
          else match Gen.Json.parseEscapes.lookup e.toNat with
            | some o => strLoop lim fuel (b8 o :: racc) (n + 1) ⟨r2, c.pos + 2⟩
            | none => .error (.escape, c.pos + 1)
      else strLoop lim fuel (b :: racc) (n + 1) ⟨r, c.pos + 1⟩

/-- mirrors `_parseString` (with the bounds check of the repaired code: an empty suffix is "Expected '\"'") -/
def parseString (lim : Limits) (c : Cur) : Res Bytes :=
  match c.rest with
  | [] => .error (.quote, c.pos)
  | b :: r => if b = 0x22 then strLoop lim (r.length + 1) [] 0 ⟨r, c.pos + 1⟩ else .error (.quote, c.pos)

/-- the `while (true)` loop of `_parseArray`; `racc` is `arr` reversed, `n = arr.size()`; `pv` is `_parseValue(·, depth + 1)` -/
def arrLoop (pv : Cur → Res Json) (lim : Limits) : Nat → List Json → Nat → Cur → Res Json
  | 0, _, _, c => .error (.fuel, c.pos)
  | fuel + 1, racc, n, c =>
    if Gen.Json.arrayExceeded n lim.arrayItemsMax then .error (.arrsize, c.pos) else
    match pv c with
    | .error e => .error e
    | .ok (v, c1) =>
      let c2 := skipWs c1
      match c2.rest with
      | [] => .error (.eoa, c2.pos)
      | b :: r =>
        if b = 0x5D then .ok (.arr (v :: racc).reverse, ⟨r, c2.pos + 1⟩)
        else if b = 0x2C then arrLoop pv lim fuel (v :: racc) (n + 1) (skipWs ⟨r, c2.pos + 1⟩)
        else .error (.arrsep, c2.pos)

/-- mirrors `_parseArray` (entered with `_text[_pos] == '['`) -/
def parseArray (pv : Cur → Res Json) (lim : Limits) (c : Cur) : Res Json :=
  let c1 := skipWs c.adv
  match c1.rest with
  | b :: r => if b = 0x5D then .ok (.arr [], ⟨r, c1.pos + 1⟩) else arrLoop pv lim (c1.rest.length + 1) [] 0 c1
  | [] => arrLoop pv lim 1 [] 0 c1

/-- `obj[key] = value` on `std::unordered_map`: assign if the key exists, else insert -/
def insertOrAssign (k : Bytes) (v : Json) : List (Bytes × Json) → List (Bytes × Json)
  | [] => [(k, v)]
  | (k', v') :: ms => if k' = k then (k', v) :: ms else (k', v') :: insertOrAssign k v ms

/-- the `while (true)` loop of `_parseObject` -/
def objLoop (pv : Cur → Res Json) (lim : Limits) : Nat → List (Bytes × Json) → Cur → Res Json
  | 0, _, c => .error (.fuel, c.pos)
  | fuel + 1, ms, c =>
    if Gen.Json.membersExceeded ms.length lim.membersMax then .error (.objsize, c.pos) else
    match parseString lim c with
    | .error e => .error e
    | .ok (k, c1) =>
      let c2 := skipWs c1
      match c2.rest with
      | [] => .error (.colon, c2.pos)
      | b :: r =>
        if b ≠ 0x3A then .error (.colon, c2.pos) else
        match pv ⟨r, c2.pos + 1⟩ with
        | .error e => .error e
        | .ok (v, c3) =>
          let c4 := skipWs c3
          match c4.rest with
          | [] => .error (.eoo, c4.pos)
          | b :: r =>
            if b = 0x7D then .ok (.obj (insertOrAssign k v ms), ⟨r, c4.pos + 1⟩)
            else if b = 0x2C then objLoop pv lim fuel (insertOrAssign k v ms) (skipWs ⟨r, c4.pos + 1⟩)
            else .error (.objsep, c4.pos)

/-- mirrors `_parseObject` (entered with `_text[_pos] == '{'`) -/
def parseObject (pv : Cur → Res Json) (lim : Limits) (c : Cur) : Res Json :=
  let c1 := skipWs c.adv
  match c1.rest with
  | b :: r => if b = 0x7D then .ok (.obj [], ⟨r, c1.pos + 1⟩) else objLoop pv lim (c1.rest.length + 1) [] c1
  | [] => objLoop pv lim 1 [] c1

/-- mirrors `_parseValue`; the first argument is the nesting budget -/
def parseValue (ops : FloatOps) (lim : Limits) : Nat → Nat → Cur → Res Json
  | 0, _, c => .error (.fuel, c.pos)
  | fuel + 1, depth, c =>
    if Gen.Json.depthExceeded depth lim.depthMax then .error (.depth, c.pos) else
    let c := skipWs c
    match c.rest with
    | [] => .error (.eof, c.pos)
    | b :: _ =>
      if b = 0x6E then parseNull c
      else if b = 0x74 ∨ b = 0x66 then parseBool c
      else if b = 0x22 then
        match parseString lim c with
        | .ok (s, c') => .ok (.str s, c')
        | .error e => .error e
      else if b = 0x5B then parseArray (parseValue ops lim fuel (depth + 1)) lim c
      else if b = 0x7B then parseObject (parseValue ops lim fuel (depth + 1)) lim c
      else if b = 0x2D ∨ isDigit b then parseNumber ops c
      else .error (.char, c.pos)

/-- mirrors `JsonParser::parse()`; the error carries `_pos` at the time of the failure -/
def parse (ops : FloatOps) (lim : Limits) (bs : Bytes) : Except Err Json :=
  let c := skipWs ⟨bs, 0⟩
  match c.rest with
  | [] => .error (.eof, c.pos)
  | _ :: _ =>
    match parseValue ops lim (lim.depthMax + 2) 0 c with
    | .error e => .error e
    | .ok (v, c1) =>
      let c2 := skipWs c1
      match c2.rest with
      | [] => .ok v
      | _ :: _ => .error (.extra, c2.pos)

/-- mirrors `_getLocation`: (line, column) of offset `off` -/
def location (bs : Bytes) (off : Nat) : Nat × Nat :=
  (bs.take off).foldl (fun (lc : Nat × Nat) b => if b = 0x0A then (lc.1 + 1, 1) else (lc.1, lc.2 + 1)) (1, 1)

/-! ### serializer -/

/-- mirrors `struct SerializeOptions` -/
structure Opts where
  pretty : Bool := Gen.Json.prettyDefault
  sortKeys : Bool := Gen.Json.sortKeysDefault
  indent : Bytes := Gen.Json.indentDefault.map b8

def hexLower (n : Nat) : UInt8 := if n < 10 then b8 (48 + n) else b8 (87 + n)

/-- one byte through the `switch` of `_escapeString` -/
def escapeByte (b : UInt8) : Bytes :=
  match Gen.Json.serEscapes.lookup b.toNat with
  | some e => [0x5C, b8 e]
  | none =>
    if b.toNat < Gen.Json.serControlBelow then [0x5C, 0x75, 0x30, 0x30, hexLower (b.toNat / 16), hexLower (b.toNat % 16)]
    else [b]

/-- mirrors `_escapeString` -/
def escapeString (s : Bytes) : Bytes := 0x22 :: (s.flatMap escapeByte ++ [0x22])

/-- decimal digits of a natural number, most significant first (`std::to_string`) -/
def natToDec (n : Nat) : Bytes :=
  if h : n < 10 then [b8 (48 + n)] else natToDec (n / 10) ++ [b8 (48 + n % 10)]
decreasing_by omega

/-- `std::isfinite` on the bit pattern: the exponent field is not all ones -/
def isFiniteBits (b : UInt64) : Bool := decide ((b.toNat / 2 ^ 52) % 2048 ≠ 2047)
/-- `±0.0` -/
def isZeroBits (b : UInt64) : Bool := decide (b.toNat % 2 ^ 63 = 0)
/-- NaN: exponent all ones, fraction non-zero -/
def isNaNBits (b : UInt64) : Bool := decide ((b.toNat / 2 ^ 52) % 2048 = 2047 ∧ b.toNat % 2 ^ 52 ≠ 0)
/-- `operator==` on `double`: NaN equals nothing, `+0.0 == -0.0`, otherwise the bit patterns are equal -/
def dblEq (a b : UInt64) : Bool := !isNaNBits a && !isNaNBits b && (a == b || (isZeroBits a && isZeroBits b))

/-- the `for (precision = lo; precision <= hi; ++precision)` loop of `_formatDouble`: `k` = remaining precisions after `p`;
    the last precision is used unconditionally (the loop ends with its text in `buf`) -/
def fmtSearch (ops : FloatOps) (d : UInt64) : Nat → Nat → Bytes
  | 0, p => ops.printfG p d
  | k + 1, p => if dblEq (ops.strtod (ops.printfG p d)) d then ops.printfG p d else fmtSearch ops d k (p + 1)

/-- `out.find_first_of(".eE") != npos` -/
def hasMarker (s : Bytes) : Bool := s.any fun c => Gen.Json.fmtMarkers.contains c.toNat

/-- mirrors `Json::_formatDouble` -/
def formatDouble (ops : FloatOps) (d : UInt64) : Bytes :=
  if !isFiniteBits d then Gen.Json.fmtNonFinite.toList.map fun c => b8 c.toNat
  else
    let s := fmtSearch ops d (Gen.Json.fmtPrecHi - Gen.Json.fmtPrecLo) Gen.Json.fmtPrecLo
    if hasMarker s then s else s ++ Gen.Json.fmtSuffix.map b8

/-- `std::to_string(std::int64_t)` -/
def intToDec (i : Int) : Bytes :=
  if i < 0 then 0x2D :: natToDec i.natAbs else natToDec i.natAbs

/-- `depth` copies of `options.indent` -/
def indentN (o : Opts) (n : Nat) : Bytes := (List.replicate n o.indent).flatten

def nl (o : Opts) : Bytes := if o.pretty then [0x0A] else []
def ind (o : Opts) (n : Nat) : Bytes := if o.pretty then indentN o n else []

/-- `std::string::operator<` (unsigned bytes, lexicographic) as `≤` -/
def bytesLe : Bytes → Bytes → Bool
  | [], _ => true
  | _ :: _, [] => false
  | a :: as, b :: bs => if a < b then true else if b < a then false else bytesLe as bs

/-- `std::sort(keys)` (keys are pairwise distinct, so the algorithm's stability does not matter) -/
def sortItems (items : List (Bytes × Bytes)) : List (Bytes × Bytes) :=
  items.mergeSort (fun a b => bytesLe a.1 b.1)

/-- the member loop of `_serializeObject` over already serialized values -/
def joinMembers (o : Opts) (depth : Nat) : List (Bytes × Bytes) → Bytes
  | [] => []
  | (k, sv) :: rest =>
    ind o (depth + 1) ++ escapeString k ++ [0x3A] ++ (if o.pretty then [0x20] else []) ++ sv
      ++ (if rest.isEmpty then [] else [0x2C]) ++ nl o ++ joinMembers o depth rest

mutual
/-- mirrors `Json::_serialize` / `_serializeArray` / `_serializeObject`.  The C++ sorts the keys and then serializes each
    value; here the values are serialized first and the (key, text) pairs are sorted — the same text, since serializing a
    value does not depend on its position. -/
def serialize (ops : FloatOps) (o : Opts) (depth : Nat) : Json → Bytes
  | .null => litNull
  | .bool b => if b then litTrue else litFalse
  | .int i => intToDec i
  | .dbl d => formatDouble ops d
  | .str s => escapeString s
  | .arr xs =>
    if xs.isEmpty then [0x5B, 0x5D]
    else [0x5B] ++ nl o ++ serElems ops o depth xs ++ ind o depth ++ [0x5D]
  | .obj ms =>
    if ms.isEmpty then [0x7B, 0x7D]
    else
      let items := serMembers ops o depth ms
      let items := if o.sortKeys then sortItems items else items
      [0x7B] ++ nl o ++ joinMembers o depth items ++ ind o depth ++ [0x7D]
def serElems (ops : FloatOps) (o : Opts) (depth : Nat) : List Json → Bytes
  | [] => []
  | x :: xs =>
    ind o (depth + 1) ++ serialize ops o (depth + 1) x ++ (if xs.isEmpty then [] else [0x2C]) ++ nl o ++ serElems ops o depth xs
def serMembers (ops : FloatOps) (o : Opts) (depth : Nat) : List (Bytes × Json) → List (Bytes × Bytes)
  | [] => []
  | (k, v) :: ms => (k, serialize ops o (depth + 1) v) :: serMembers ops o depth ms
end

end Iora.Json
