import IoraModel.Model.KvSpec
/-!
# `get()` on a cache miss ∥ one writer on the same key: the lock skeleton

The sequential model (`Model/KvStore.lean`) takes every public method as one atomic step.  That is justified for the
read cache only if no schedule of a reader's cache refill and a writer's update of the same key can leave a stale
entry in `_cache`.  This file models exactly that: the critical sections of `get(k)` on the cache-miss path and of one
writer of `k`, step by step at the granularity of lock operations and single reads / writes of `_kv[k]` and `_cache[k]`,
with the two reader/writer locks `_mutex` and `_cacheMutex`.  WHICH accesses lie inside which guard is not hard-wired:
it is the `Shape`, instantiated from the lock scopes the translator extracts from `kvstore.hpp` (`Shape.gen`).

    reader, get(k), cache missed:                 writer (set / set+ttl / setBatch / remove / expireAt / persist /
      lock_shared(_mutex)                           clear / evictionCallback) of k:
      e := (_kv[k], _expiry[k])   (absent or          lock(_mutex)
           expired: unlock, return)                   _kv[k], _expiry[k] := new
      [unlock_shared(_mutex)   if the refill          [unlock(_mutex)   if the cache update is NOT under the store lock]
           is NOT under the store lock]               lock(_cacheMutex); _cache[k] := new or erased; unlock(_cacheMutex)
      lock(_cacheMutex); _cache[k] := e;              [unlock(_mutex)]
      unlock(_cacheMutex)
      [unlock_shared(_mutex)]

A lock is held by a thread exactly when its program counter is inside the guard's scope, so the lock state is a function
of the two program counters.  A blocked thread does not move (its step is the identity).  A schedule is any list of
"reader moves" / "writer moves".  Theorems: `Lemmas/KvRace.lean`.
-/
namespace Iora.Kv.Race
open Iora Iora.Kv

/-- lock scopes: facts about `kvstore.hpp` (`Gen/Kv.lean`) -/
structure Shape where
  /-- `get()`: `updateCache` is called while the guard on `_mutex` that covered the lookup is still live -/
  refillUnderStoreLock : Bool
  /-- writers: `_cache` is updated while `_mutex` is held exclusively -/
  writerCacheUnderStoreLock : Bool
  deriving DecidableEq, Repr

/-- the shape of the working tree -/
def Shape.gen : Shape :=
  { refillUnderStoreLock := Gen.Kv.getRefillsCacheUnderStoreLock, writerCacheUnderStoreLock := Gen.Kv.writersTouchCacheUnderStoreLock }

/-- program counter of the reader (`get(k)`, the fast path has missed and released `_cacheMutex`) -/
inductive RPc
  | start      -- about to `lock_shared(_mutex)`
  | hasS       -- holds `_mutex` shared
  | loaded     -- has copied `_kv[k]` / `_expiry[k]` into its locals
  | released   -- (only if the refill is not under the store lock) `_mutex` given back, entry still in the locals
  | hasC       -- inside `updateCache`: holds `_cacheMutex` exclusively
  | wrote      -- `_cache[k] := locals` done
  | relC       -- `_cacheMutex` released
  | done
  deriving DecidableEq, Repr

/-- program counter of the writer -/
inductive WPc
  | start      -- about to `lock(_mutex)`
  | hasX       -- holds `_mutex` exclusively
  | wroteKv    -- `_kv[k]` / `_expiry[k]` updated
  | released   -- (only if the cache update is not under the store lock) `_mutex` given back
  | hasC       -- holds `_cacheMutex` exclusively
  | wroteC     -- `_cache[k]` updated / erased
  | relC       -- `_cacheMutex` released
  | done
  deriving DecidableEq, Repr

/-- a writer of the key: what `_kv`/`_expiry` hold for it afterwards (`none`: `remove`, eviction, `clear`; `some`: `set`,
`set`+TTL, `setBatch`, `expireAt`, `persist`), and what it does to the cache entry (`none`: erased — `remove`,
`expireAt`, `persist`, eviction, `clear`, or the cache is off; `some`: `updateCache`) -/
structure WOp where
  kv : Option Ent
  cache : Option Ent

/-- the writers of `kvstore.hpp`: the cache entry is erased or set to exactly what was stored (`opSet`, `opRemove`, … of the
sequential model keep `MemInv`'s cache coherence this way) -/
def WOp.OK (o : WOp) : Prop := o.cache = none ∨ o.cache = o.kv

structure St where
  kv : Option Ent       -- `_kv[k]` with `_expiry[k]`
  cache : Option Ent    -- `_cache[k]`
  tmp : Option Ent      -- the reader's locals
  r : RPc
  w : WPc

def rHoldsMu (sh : Shape) : RPc → Bool
  | .hasS | .loaded => true
  | .hasC | .wrote | .relC => sh.refillUnderStoreLock
  | _ => false

def rHoldsC : RPc → Bool
  | .hasC | .wrote => true
  | _ => false

def wHoldsMu (sh : Shape) : WPc → Bool
  | .hasX | .wroteKv => true
  | .hasC | .wroteC | .relC => sh.writerCacheUnderStoreLock
  | _ => false

def wHoldsC : WPc → Bool
  | .hasC | .wroteC => true
  | _ => false

/-- one step of the reader.  `fresh e` = "`e`'s expiry is in the future" at the reader's `now()` (an expired entry is
treated like an absent key: return without touching the cache) -/
def stepR (sh : Shape) (fresh : Ent → Bool) (s : St) : St :=
  match s.r with
  | .start => if wHoldsMu sh s.w then s else { s with r := .hasS }
  | .hasS =>
    match s.kv with
    | none => { s with r := .done }
    | some e => if fresh e then { s with tmp := some e, r := .loaded } else { s with r := .done }
  | .loaded =>
    if sh.refillUnderStoreLock then (if wHoldsC s.w then s else { s with r := .hasC }) else { s with r := .released }
  | .released => if wHoldsC s.w then s else { s with r := .hasC }
  | .hasC => { s with cache := s.tmp, r := .wrote }
  | .wrote => { s with r := .relC }
  | .relC => { s with r := .done }
  | .done => s

/-- one step of the writer (an exclusive lock waits for the reader's shared hold as well) -/
def stepW (sh : Shape) (o : WOp) (s : St) : St :=
  match s.w with
  | .start => if rHoldsMu sh s.r then s else { s with w := .hasX }
  | .hasX => { s with kv := o.kv, w := .wroteKv }
  | .wroteKv =>
    if sh.writerCacheUnderStoreLock then (if rHoldsC s.r then s else { s with w := .hasC }) else { s with w := .released }
  | .released => if rHoldsC s.r then s else { s with w := .hasC }
  | .hasC => { s with cache := o.cache, w := .wroteC }
  | .wroteC => { s with w := .relC }
  | .relC => { s with w := .done }
  | .done => s

/-- a schedule: `true` = the reader is given the processor, `false` = the writer -/
def run (sh : Shape) (fresh : Ent → Bool) (o : WOp) (s : St) (sched : List Bool) : St :=
  sched.foldl (fun s t => if t then stepR sh fresh s else stepW sh o s) s

/-- both threads about to start, on a store whose cache entry for the key is coherent -/
def St.init (kv cache : Option Ent) : St := { kv := kv, cache := cache, tmp := none, r := .start, w := .start }

/-- cache coherence for the key: the cache has no entry for it, or exactly the stored one (value and expiry) -/
def St.Coherent (s : St) : Prop := s.cache = none ∨ s.cache = s.kv

end Iora.Kv.Race
