import IoraModel.Model.JsonSpec
/-!
The public surface of `include/iora/parsers/json.hpp` around the parser/serializer core of `Model/Json.lean` (C13, extension round):

* the LOCALE layer (repair FC13b): `detail::jsonToDouble` — the only place a double is read from text.  `std::strtod` honours
  `LC_NUMERIC`; the helper hands it the token with `localeconv()->decimal_point` in place of the `.`.  `Libc.strtodL dp` is
  `std::strtod` in a process whose numeric locale has the decimal point `dp`; `opsIn lc dp` is what `parse` / `serialize` use in
  such a process.  The formatting side is `std::to_chars(general, precision)`, locale independent by [charconv.to.chars].
* the public parse wrappers (`parseOrThrow`, `parse(text, nullptr, bool)`, `safe_parse`, `parseString`, `operator>>`) and
  `JsonStreamParser` (`feed` / `finish`);
* the public serialize wrappers (`dump`, `operator<<`, `operator std::string`);
* the value-construction API (`Json(T)` for integral `T`, `Json(float)`, the initializer-list constructor, `push_back`,
  `operator[](size_t)`, `operator[](key)`, copy assignment).
-/
namespace Iora.Json
open Iora

/-! ### locale layer -/

/-- libc / libstdc++ as a process sees them -/
structure Libc where
  /-- `std::strtod(text, nullptr)` while `localeconv()->decimal_point` is `dp`; result as IEEE-754 bits -/
  strtodL : Bytes → Bytes → UInt64
  /-- `std::to_chars(buf, end, d, std::chars_format::general, precision)` (the `%.*g` text of the "C" locale, whatever the locale) -/
  toCharsG : Nat → UInt64 → Bytes

/-- the decimal point of JSON (and of the "C" locale): the byte `detail::jsonToDouble` looks for -/
def pointC : Bytes := [b8 Gen.Json.decimalPointByte]

/-- `dot = text.find('.'); if (dot != npos) text.replace(dot, 1, point)` -/
def substPoint (dp : Bytes) : Bytes → Bytes
  | [] => []
  | b :: r => if b = b8 Gen.Json.decimalPointByte then dp ++ r else b :: substPoint dp r

/-- mirrors `detail::jsonToDouble` (`point[0] != '\0' && strcmp(point, ".") != 0` guards the replacement) -/
def jsonToDouble (lc : Libc) (dp : Bytes) (tok : Bytes) : UInt64 :=
  if dp ≠ [] ∧ dp ≠ pointC then lc.strtodL dp (substPoint dp tok) else lc.strtodL dp tok

/-- the floating-point primitives of the parser/serializer in a process whose LC_NUMERIC decimal point is `dp` -/
def opsIn (lc : Libc) (dp : Bytes) : FloatOps := { strtod := jsonToDouble lc dp, printfG := lc.toCharsG }

/-! ### parse wrappers -/

/-- what `parse_error::what()` carries: message kind, line, column (no offset) -/
abbrev Thrown := ErrKind × Nat × Nat

/-- mirrors `Json::parseOrThrow(text, limits)` -/
def parseOrThrow (ops : FloatOps) (lim : Limits) (bs : Bytes) : Except Thrown Json :=
  match parse ops lim bs with
  | .ok v => .ok v
  | .error e => .error (e.1, location bs e.2)

/-- mirrors `Json::parse(text, nullptr, allow_exceptions)` (DEFAULT limits); `safe_parse` = `allow_exceptions = false` -/
def parseFlag (ops : FloatOps) (allowExceptions : Bool) (bs : Bytes) : Except Thrown Json :=
  if allowExceptions then parseOrThrow ops {} bs
  else match parse ops {} bs with
    | .ok v => .ok v
    | .error _ => .ok .null

/-- mirrors `operator>>(std::istream&, Json&)`: the whole stream, `parseOrThrow(content)` with DEFAULT limits -/
def readStream (ops : FloatOps) (content : Bytes) : Except Thrown Json := parseOrThrow ops {} content

/-! ### `JsonStreamParser` -/

structure StreamSt where
  buf : Bytes := []
  value : Json := .null
  complete : Bool := false
  /-- `_error` together with the buffer it refers to (`none` = default-constructed `JsonError`) -/
  error : Option (Bytes × Err) := none

/-- mirrors `JsonStreamParser::feed`: append, re-parse the whole buffer -/
def StreamSt.feed (ops : FloatOps) (lim : Limits) (st : StreamSt) (chunk : Bytes) : StreamSt × Bool :=
  let buf := st.buf ++ chunk
  match parse ops lim buf with
  | .ok v => ({ buf := buf, value := v, complete := true, error := none }, true)
  | .error e => ({ st with buf := buf, error := some (buf, e) }, false)

/-- mirrors `JsonStreamParser::finish` -/
def StreamSt.finish (ops : FloatOps) (lim : Limits) (st : StreamSt) : StreamSt × Bool :=
  if st.complete then (st, true) else
  match parse ops lim st.buf with
  | .ok v => ({ st with value := v, complete := true, error := none }, true)
  | .error e => ({ st with error := some (st.buf, e) }, false)

/-- a fresh parser fed the chunks in order -/
def streamFeedAll (ops : FloatOps) (lim : Limits) (st : StreamSt) : List Bytes → StreamSt
  | [] => st
  | ch :: rest => streamFeedAll ops lim (st.feed ops lim ch).1 rest

/-- feed every chunk, then `finish()` -/
def streamRun (ops : FloatOps) (lim : Limits) (chunks : List Bytes) : StreamSt × Bool :=
  (streamFeedAll ops lim {} chunks).finish ops lim

/-! ### serialize wrappers -/

/-- mirrors `Json::dump(indent, indent_char, ensure_ascii, sort_keys)` (`ensure_ascii` is ignored by the code) -/
def dumpOpts (indent : Int) (indentChar : UInt8) (sortKeys : Bool) : Opts :=
  if indent ≥ 0 then { pretty := true, sortKeys := sortKeys, indent := List.replicate indent.toNat indentChar }
  else { sortKeys := sortKeys }

def dump (ops : FloatOps) (indent : Int) (indentChar : UInt8) (sortKeys : Bool) (v : Json) : Bytes :=
  serialize ops (dumpOpts indent indentChar sortKeys) 0 v

/-- mirrors `operator<<(std::ostream&, const Json&)`: `os << j.dump()` -/
def writeStream (ops : FloatOps) (v : Json) : Bytes := dump ops (-1) 0x20 false v

/-- mirrors `operator std::string()`: a String value converts to its raw contents, everything else to `dump()` -/
def toStdString (ops : FloatOps) : Json → Bytes
  | .str s => s
  | v => dump ops (-1) 0x20 false v

/-! ### value construction -/

/-- `static_cast<std::int64_t>(i)` of an unsigned 64-bit `i`: values above `INT64_MAX` wrap to negative -/
def ofUInt64 (n : Nat) : Json := .int (if n % 2 ^ 64 < 2 ^ 63 then (n % 2 ^ 64 : Nat) else ((n % 2 ^ 64 : Nat) : Int) - 2 ^ 64)

/-- `static_cast<double>(float)` on bit patterns (exact; a signalling NaN is quieted as the hardware conversion does) -/
def floatToDoubleBits (f : UInt32) : UInt64 :=
  let b := f.toNat
  let sign := b / 2 ^ 31 * 2 ^ 63
  let e := b / 2 ^ 23 % 256
  let m := b % 2 ^ 23
  if e = 255 then UInt64.ofNat (sign + 2047 * 2 ^ 52 + (if m = 0 then 0 else 2 ^ 51 + m % 2 ^ 22 * 2 ^ 29))
  else if e = 0 then
    if m = 0 then UInt64.ofNat sign
    else
      -- subnormal float: m · 2^-149, normal as a double
      let k := Nat.log2 m
      UInt64.ofNat (sign + (k + 1023 - 149) * 2 ^ 52 + (m - 2 ^ k) * 2 ^ (52 - k))
  else UInt64.ofNat (sign + (e + 1023 - 127) * 2 ^ 52 + m * 2 ^ 29)

/-- mirrors `Json(float f) : _value(static_cast<double>(f))` -/
def ofFloat (f : UInt32) : Json := .dbl (floatToDoubleBits f)

/-- mirrors `Json(std::initializer_list<Json> init) : _value(Array(init))` -/
def ofInitList (xs : List Json) : Json := .arr xs

/-- mirrors `push_back`: a non-array becomes an empty array first -/
def pushBack (j v : Json) : Json :=
  match j with
  | .arr xs => .arr (xs ++ [v])
  | _ => .arr [v]

/-- mirrors `operator[](std::size_t) = v`: a non-array becomes an empty array, the array is padded with nulls up to the index -/
def setIndex (j : Json) (i : Nat) (v : Json) : Json :=
  let xs := match j with | .arr xs => xs | _ => []
  let xs := xs ++ List.replicate (i + 1 - xs.length) .null
  .arr (xs.set i v)

/-- mirrors `operator[](const std::string&) = v`: a non-object becomes an empty object first -/
def setKey (j : Json) (k : Bytes) (v : Json) : Json :=
  match j with
  | .obj ms => .obj (insertOrAssign k v ms)
  | _ => .obj [(k, v)]

mutual
/-- every non-finite double replaced by `null`: what the serializer writes for them -/
def Json.nullify : Json → Json
  | .dbl d => if isFiniteBits d then .dbl d else .null
  | .arr xs => .arr (Json.nullifyElems xs)
  | .obj ms => .obj (Json.nullifyMembers ms)
  | j => j
def Json.nullifyElems : List Json → List Json
  | [] => []
  | x :: xs => x.nullify :: Json.nullifyElems xs
def Json.nullifyMembers : List (Bytes × Json) → List (Bytes × Json)
  | [] => []
  | (k, v) :: ms => (k, v.nullify) :: Json.nullifyMembers ms
end

end Iora.Json
