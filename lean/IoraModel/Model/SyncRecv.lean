import IoraModel.Common.Bytes
/-!
# Model of the Transport synchronous-receive layer (C03)

Mirrors, function by function, the parts of `include/iora/network/transport_impl.hpp` that implement the per-session
read mode and the synchronous receive buffer:

* `Transport::Impl::setupEngineCallbacks` — the `onData` handler and the `onClose` handler (I/O thread): its `syncMutex` section that
  marks the session closed (`ioClose`; REPAIRED order, fixes/FC03c-…: it runs BEFORE the close callbacks) and the invocation of the
  global close callback / observers (`ioCloseCb`, emitting `Ev.closeCb`),
* `Transport::receiveSync`, `Transport::setReadMode` (incl. the ordered flush loop), `Impl::setTeardownFence`.

Granularity: **one step = one `syncMutex` critical section** (or one user-callback invocation made outside the lock), which
is exactly the granularity at which DetSched schedules the real class (DESIGN §3.4, §6.3).  A condition wait is split into
*park* (release-and-sleep, the end of `recvEnter`) and *wake-and-reacquire* (`recvWake`); whether a timed wait times out is
a scheduler choice (`recvWake sid true`), time itself is not modelled.

Ghost fields (`arrived`, `accepted`, `out`, `gap`, `lateSync`, `lateAsync`, `dead`, `eof`) record the history the theorems talk about;
no modelled decision reads them.

Modelled as REPAIRED (fixes/F15-…, fixes/F15b-…, fixes/FC03a-…, fixes/FC02a-…): `setReadMode` is a no-op (vacuous `true`) for a closed
tombstone (FC02a), the `onData` handler drops every chunk once `overflow` is set,
`setReadMode(…, Async)` takes the ordered-flush path from `Disabled` as well as from `Sync`, and `hasData` is computed from the
buffer after the append (a zero-length chunk — legal input, UdpEngine delivers empty datagrams — cannot mark an empty buffer readable).

Environment assumptions are *not* built into `step`; they are the decidable predicate `ok` (see `Disciplined`):
the engine delivers no data / second close for a closed session (C02's contract; EMPTY chunks are legal arrivals), the I/O thread is
ONE thread (it does not deliver the next chunk or a close while it is between reading "Async" under the lock and invoking the data
callback - `ioPend`; `step` leaves the state unchanged for such a step, `ok` excludes it, so no arrival is silently uncounted), and one application
thread drives a session's blocking calls (the property's quantifier: "an application thread parked in receive or flushing
a mode switch") — no `receiveSync` overlaps a `setReadMode(…, Async)` of the same session.
-/
namespace Iora.SyncRecv
open Iora

inductive Mode | async | sync | disabled
  deriving DecidableEq, Repr, Inhabited

/-- `Impl::SyncReceiveBuffer` (`waiters` and `flushing` are derived from the parked receiver / flusher of the session). -/
structure Buf where
  data : Bytes := []
  hasData : Bool := false
  closed : Bool := false
  overflow : Bool := false
  reported : Bool := false      -- `overflowReported`: a receive has answered BufferOverflow for this buffer (FC03d: GC gate)
  deriving Repr

/-- program counter of a `setReadMode(sid, Async)` call that took the flush path -/
inductive Flush
  | begin                 -- step 1 decided "flush"; buffer not fetched yet, FlushGuard not constructed
  | loop                  -- FlushGuard alive, between two critical sections, holding no bytes
  | holding (d : Bytes)   -- took `d` out of the buffer under the lock; the data callback has not been invoked yet
  | ending (ret : Bool)   -- loop left (`break` or teardown bail); FlushGuard destructor pending
  deriving Repr

/-- a `receiveSync` caller asleep on `buf->cv` -/
structure Parked where
  len : Nat            -- caller's buffer length
  awake : Bool         -- a notify has reached it (it will re-acquire the lock without needing its timeout)
  deriving Repr

inductive RecvRes | ok (bs : Bytes) | timeout | peerClosed | overflow | shuttingDown | cancelled
  deriving Repr, DecidableEq

structure Sess where
  mode : Option Mode := none         -- `readModes` entry (absent = Async)
  buf : Option Buf := none           -- `receiveBuffers` entry
  parked : Option Parked := none
  flush : Option Flush := none
  -- ghost history
  arrived : Bytes := []              -- every byte the engine delivered while the mode was not Disabled
  accepted : Bytes := []             -- the bytes among them that were not dropped (buffered or handed to the callback path)
  out : Bytes := []                  -- bytes returned by receives and delivered to the data callback, in real-time order
  gap : Bool := false                -- some chunk has been dropped
  lateSync : Bool := false           -- a chunk was appended to the sync buffer after a gap (F15)
  lateAsync : Bool := false          -- a chunk took the Async callback path after a gap (mode switched to Async after an overflow)
  dead : Bool := false               -- the engine has reported the close
  eof : Bool := false                -- a receive has returned PeerClosed
  ovfSeen : Bool := false            -- ghost: a receive has returned BufferOverflow
  deriving Repr

structure Cfg where
  maxBuf : Nat                        -- `TransportConfig::maxSyncReceiveBuffer`
  gcThreshold : Nat                   -- `TransportConfig::syncBufferGcThreshold`
  allowSwitch : Bool := true          -- `TransportConfig::allowReadModeSwitch`
  /-- skeleton facts (Gen/TsyncSkel): the handler notifies `buf->cv` under the lock after the write -/
  notifyOnData : Bool := true
  notifyOnOverflow : Bool := true
  notifyOnClose : Bool := true

structure State where
  sess : Nat → Sess := fun _ => {}
  dom : List Nat := []                -- session ids touched so far (finite support of `sess`)
  shuttingDown : Bool := false
  ioPend : Option (Nat × Bytes) := none   -- the I/O thread read "Async" under the lock and has not yet invoked the callback
  gcRan : Bool := false               -- ghost: a tombstone GC pass has run
  closePend : Option Nat := none      -- the I/O thread has marked this session closed (close handler step 2) and has not yet invoked the close callbacks
  closeGrace : Bool := false          -- ghost: a setReadMode(…, Async) flush of that session was in progress when its close was processed

inductive Step
  | ioData (sid : Nat) (chunk : Bytes)
  | ioDeliver
  | ioClose (sid : Nat)
  | ioCloseCb (sid : Nat)
  | recvEnter (sid len : Nat)
  | recvWake (sid : Nat) (timedOut : Bool)
  | setMode (sid : Nat) (m : Mode)
  | flushStep (sid : Nat)
  | fence (notifyRecv : Bool)
  deriving Repr

inductive Ev
  | recvRet (sid : Nat) (r : RecvRes)
  | cbData (sid : Nat) (d : Bytes)
  | modeRet (sid : Nat) (ok : Bool)
  | closeCb (sid : Nat)             -- the global close callback (and then the session's observers) is invoked for `sid`
  deriving Repr, DecidableEq

/-! ## derived fields -/

def effMode (x : Sess) : Mode := match x.mode with | some m => m | none => .async

def waiters (x : Sess) : Nat := match x.parked with | some _ => 1 | none => 0

def flushing (x : Sess) : Bool :=
  match x.flush with
  | some .loop | some (.holding _) | some (.ending _) => true
  | _ => false

def bufData (x : Sess) : Bytes := match x.buf with | some b => b.data | none => []

def inflight (x : Sess) : Bytes := match x.flush with | some (.holding d) => d | _ => []

def upd (f : Nat → Sess) (i : Nat) (x : Sess) : Nat → Sess := fun j => if j = i then x else f j

def touch (dom : List Nat) (sid : Nat) : List Nat := if sid ∈ dom then dom else sid :: dom

def wake (x : Sess) (really : Bool) : Sess :=
  match x.parked with
  | some p => { x with parked := some { p with awake := p.awake || really } }
  | none => x

/-- wait predicate of `receiveSync` -/
def pred (sh : Bool) (b : Buf) : Bool := b.hasData || b.closed || b.overflow || sh

/-! ## `receiveSync` -/

/-- mirrors transport_impl.hpp::Transport::receiveSync — the tail after a signalled wait (drain, then overflow, then closed) -/
def drain (x : Sess) (b : Buf) (len : Nat) : Sess × RecvRes :=
  if b.data ≠ [] then
    let n := min len b.data.length
    let rest := b.data.drop n
    ({ x with buf := some { b with data := rest, hasData := !rest.isEmpty }, out := x.out ++ b.data.take n, parked := none },
     .ok (b.data.take n))
  else if b.overflow then ({ x with buf := some { b with reported := true }, parked := none, ovfSeen := true }, .overflow)
  else if b.closed then ({ x with buf := none, mode := none, parked := none, eof := true }, .peerClosed)
  else ({ x with parked := none }, .shuttingDown)

/-- mirrors transport_impl.hpp::Transport::receiveSync — entry critical section up to the first evaluation of the wait predicate -/
def recvEnterS (sh : Bool) (x : Sess) (len : Nat) : Sess × Option RecvRes :=
  if sh then (x, some .shuttingDown)
  else
    let b : Buf := match x.buf with | some b => b | none => {}
    let x := { x with buf := some b }
    if waiters x > 0 || flushing x then (x, some .cancelled)
    else if pred sh b then ((drain x b len).1, some (drain x b len).2)
    else ({ x with parked := some { len := len, awake := false } }, none)

/-- mirrors transport_impl.hpp::Transport::receiveSync — wake-and-reacquire of `wait_until(lk, deadline, pred)` -/
def recvWakeS (sh : Bool) (x : Sess) (timedOut : Bool) : Sess × Option RecvRes :=
  match x.parked, x.buf with
  | some p, some b =>
    if pred sh b then ((drain x b p.len).1, some (drain x b p.len).2)
    else if timedOut then ({ x with parked := none }, some .timeout)
    else ({ x with parked := some { p with awake := false } }, none)
  | _, _ => (x, none)

/-! ## I/O thread -/

/-- what the `onData` handler decided under the lock -/
inductive DataAct | dropped | buffered | toCallback | ignored
  deriving Repr, DecidableEq

/-- mirrors transport_impl.hpp::Transport::Impl::setupEngineCallbacks — the `onData` handler's `syncMutex` section -/
def ioDataS (cfg : Cfg) (sh : Bool) (x : Sess) (chunk : Bytes) : Sess × DataAct :=
  match effMode x with
  | .sync =>
    match x.buf with
    | none => ({ x with arrived := x.arrived ++ chunk, gap := true }, .dropped)
    | some b =>
      if sh && waiters x == 0 then ({ x with arrived := x.arrived ++ chunk, gap := true }, .dropped)
      else if b.overflow then ({ x with arrived := x.arrived ++ chunk, gap := true }, .dropped)
      else if b.data.length + chunk.length > cfg.maxBuf then
        (wake { x with buf := some { b with overflow := true }, arrived := x.arrived ++ chunk, gap := true } cfg.notifyOnOverflow,
         .dropped)
      else
        (wake { x with buf := some { b with data := b.data ++ chunk, hasData := !(b.data ++ chunk).isEmpty },
                       arrived := x.arrived ++ chunk, accepted := x.accepted ++ chunk,
                       lateSync := x.lateSync || x.gap } cfg.notifyOnData,
         .buffered)
  | .disabled => (x, .ignored)
  | .async => ({ x with arrived := x.arrived ++ chunk, accepted := x.accepted ++ chunk, lateAsync := x.lateAsync || x.gap }, .toCallback)

/-- mirrors transport_impl.hpp::Transport::Impl::setupEngineCallbacks — `onClose` handler step 2 (the former step 6, moved above the
callbacks by FC03c), the session's own entry -/
def ioCloseS (cfg : Cfg) (x : Sess) : Sess :=
  let x1 : Sess := match x.buf with
    | some b => wake { x with buf := some { b with closed := true } } cfg.notifyOnClose
    | none => { x with buf := some { closed := true } }
  { x1 with mode := none, dead := true }

/-- GC gate of `onClose` step 6 -/
def reclaimable (y : Sess) : Bool :=
  match y.buf with
  | some b => b.closed && !b.hasData && waiters y == 0 && !flushing y && (!b.overflow || b.reported)
  | none => false

def bufCount (sess : Nat → Sess) (dom : List Nat) : Nat := (dom.filter (fun j => (sess j).buf.isSome)).length

/-! ## `setReadMode` -/

/-- does `setReadMode(sid, m)` take the ordered-flush path? (repaired: from Sync *and* from Disabled) -/
def flushPath (x : Sess) (m : Mode) : Bool := effMode x != .async && m == .async

/-- the session's `receiveBuffers` entry is a closed tombstone (the close handler has run; the tail is for `receiveSync` only) -/
def tomb (x : Sess) : Bool := match x.buf with | some b => b.closed | none => false

/-- mirrors transport_impl.hpp::Transport::setReadMode — step 1 (first critical section). Repaired (FC02a): a closed tombstone has no
read mode any more — the call is vacuous: it answers `true`, registers nothing and flushes nothing, so no later switch to Async can
hand the tail to the data callback after the close callback. -/
def setModeS (cfg : Cfg) (x : Sess) (m : Mode) : Sess × Option Bool :=
  if !cfg.allowSwitch then (x, some false)
  else if tomb x then (x, some true)
  else if flushPath x m then ({ x with flush := some .begin }, none)
  else
    let x := { x with mode := some m }
    let x := if m == .sync then (match x.buf with | none => { x with buf := some {} } | some _ => x) else x
    (x, some true)

inductive FlushOut | none | cb (d : Bytes) | ret (ok : Bool)

/-- mirrors transport_impl.hpp::Transport::setReadMode — step 2: fetch + FlushGuard, the flush loop, the guard's destructor -/
def flushStepS (sh : Bool) (x : Sess) : Sess × FlushOut :=
  match x.flush with
  | none => (x, .none)
  | some .begin =>
    if sh then ({ x with flush := none }, .ret false)
    else match x.buf with
      | none => ({ x with mode := some .async, flush := none }, .ret true)
      | some _ => ({ x with flush := some .loop }, .none)
  | some .loop =>
    if sh then ({ x with flush := some (.ending false) }, .none)
    else match x.buf with
      | some b =>
        if b.data ≠ [] then ({ x with buf := some { b with data := [], hasData := false }, flush := some (.holding b.data) }, .none)
        else ({ x with mode := some .async, flush := some (.ending true) }, .none)
      | none => ({ x with mode := some .async, flush := some (.ending true) }, .none)
  | some (.holding d) => ({ x with out := x.out ++ d, flush := some .loop }, .cb d)
  | some (.ending r) => ({ x with flush := none }, .ret r)

/-! ## global step -/

def evRecv (sid : Nat) : Option RecvRes → List Ev
  | some r => [.recvRet sid r]
  | none => []

def evMode (sid : Nat) : Option Bool → List Ev
  | some r => [.modeRet sid r]
  | none => []

def evFlush (sid : Nat) : FlushOut → List Ev
  | .none => []
  | .cb d => [.cbData sid d]
  | .ret r => [.modeRet sid r]

/-- sessions after the `onClose` handler's step 6 for `sid` (own entry + tombstone GC of the others) -/
def closeSess (cfg : Cfg) (s : State) (sid : Nat) : Bool × (Nat → Sess) :=
  let x' := ioCloseS cfg (s.sess sid)
  let gc := decide (bufCount (upd s.sess sid x') (touch s.dom sid) > cfg.gcThreshold)
  (gc, fun j => if j = sid then x'
                else if gc && reclaimable (s.sess j) then { s.sess j with buf := none } else s.sess j)

def step (cfg : Cfg) (s : State) : Step → State × List Ev
  | .ioData sid chunk =>
    match s.ioPend with
    | some _ => (s, [])
    | none =>
      let r := ioDataS cfg s.shuttingDown (s.sess sid) chunk
      ({ s with sess := upd s.sess sid r.1, dom := touch s.dom sid,
                ioPend := if r.2 = .toCallback then some (sid, chunk) else none }, [])
  | .ioDeliver =>
    match s.ioPend with
    | some (sid, d) =>
      ({ s with sess := upd s.sess sid { s.sess sid with out := (s.sess sid).out ++ d }, ioPend := none }, [.cbData sid d])
    | none => (s, [])
  | .ioClose sid =>
    match s.ioPend with
    | some _ => (s, [])
    | none =>
      ({ s with sess := (closeSess cfg s sid).2, dom := touch s.dom sid, gcRan := s.gcRan || (closeSess cfg s sid).1,
                closePend := some sid, closeGrace := (s.sess sid).flush.isSome }, [])
  | .ioCloseCb sid =>
    -- mirrors transport_impl.hpp::Transport::Impl::setupEngineCallbacks — `onClose` handler steps 3-6 (REPAIRED order, FC03c): the
    -- global close callback and the observers run AFTER the session was marked closed (`ioClose`), with no Transport mutex held
    if s.closePend = some sid then ({ s with closePend := none }, [.closeCb sid]) else (s, [])
  | .recvEnter sid len =>
    let r := recvEnterS s.shuttingDown (s.sess sid) len
    ({ s with sess := upd s.sess sid r.1, dom := touch s.dom sid }, evRecv sid r.2)
  | .recvWake sid timedOut =>
    let r := recvWakeS s.shuttingDown (s.sess sid) timedOut
    ({ s with sess := upd s.sess sid r.1 }, evRecv sid r.2)
  | .setMode sid m =>
    let r := setModeS cfg (s.sess sid) m
    ({ s with sess := upd s.sess sid r.1, dom := touch s.dom sid }, evMode sid r.2)
  | .flushStep sid =>
    let r := flushStepS s.shuttingDown (s.sess sid)
    ({ s with sess := upd s.sess sid r.1 }, evFlush sid r.2)
  | .fence notifyRecv =>
    ({ s with shuttingDown := true, sess := fun j => wake (s.sess j) notifyRecv }, [])

def run (cfg : Cfg) (s : State) : List Step → State × List Ev
  | [] => (s, [])
  | st :: rest => ((run cfg (step cfg s st).1 rest).1, (step cfg s st).2 ++ (run cfg (step cfg s st).1 rest).2)

/-! ## environment discipline (decidable; evaluated by the driver on every lockstep case) -/

/-- `ok s st`: step `st` respects the engine contract and the one-application-thread-per-session contract in state `s`. -/
def ok (s : State) : Step → Bool
  | .ioData sid _ => !(s.sess sid).dead && s.ioPend.isNone
  | .ioClose sid => !(s.sess sid).dead && s.ioPend.isNone
  | .recvEnter sid _ => (s.sess sid).flush.isNone
  | .setMode sid m => (s.sess sid).flush.isNone && (!flushPath (s.sess sid) m || (s.sess sid).parked.isNone)
  | _ => true

def Disciplined (cfg : Cfg) : State → List Step → Prop
  | _, [] => True
  | s, st :: rest => ok s st = true ∧ Disciplined cfg (step cfg s st).1 rest

def disciplinedB (cfg : Cfg) : State → List Step → Bool
  | _, [] => true
  | s, st :: rest => ok s st && disciplinedB cfg (step cfg s st).1 rest

def init : State := {}

/-! ## what an observer of the emitted events sees -/

/-- the bytes the events hand to the application for session `sid`: successful receives and data-callback deliveries, in order -/
def evBytes (sid : Nat) : List Ev → Bytes
  | [] => []
  | .recvRet j (.ok bs) :: r => (if j = sid then bs else []) ++ evBytes sid r
  | .cbData j d :: r => (if j = sid then d else []) ++ evBytes sid r
  | _ :: r => evBytes sid r

end Iora.SyncRecv
