import IoraModel.Model.BlockingQueue
import IoraModel.Model.BqSkel
/-!
# From the monitor model back to the extracted skeleton

`Model/BqSkel.lean` compares the extracted skeleton with a hand-written list.  Here the pthread-level trace (lock, wait,
unlock, notify) of every call of the monitor PROGRAM `BQ.prog true` itself - run alone, along the path that goes through
the wait where there is one - is computed and compared (`decide`, Props/C10.lean `model_trace_is_skeleton`) with the
projection of the EXTRACTED skeleton to those events: the model's programs are the source's, event for event.
-/
namespace Iora.BQ
open Iora.Monitor

def cvName (cv : CvId) : String := if cv = NE then "_condNotEmpty" else "_condNotFull"

def opName : Op → Option (String × String)
  | .lock _ => some ("lock", "_mutex")
  | .unlock _ => some ("unlock", "_mutex")
  | .wait cv _ timed => some (if timed then "wait_for" else "wait", cvName cv)
  | .notifyOne cv => some ("notify_one", cvName cv)
  | .notifyAll cv => some ("notify_all", cvName cv)
  | _ => none

/-- the pthread operations one call performs when run alone: the shared data is whatever the call itself makes of `d0`
until it goes to sleep, and `d1` when it is woken (so that the path through the wait continues to the end of the method) -/
def traceLoop : Nat → Loc → Data → Data → List (String × String)
  | 0, _, _, _ => []
  | fuel + 1, l, d, d1 =>
    match op l with
    | .done => []
    | .wait cv m timed =>
      let (l', d') := after true l d1 false
      (opName (.wait cv m timed)).toList ++ traceLoop fuel l' d' d1
    | o =>
      let (l', d') := after true l d false
      (opName o).toList ++ traceLoop fuel l' d' d1

def callTrace (c : Call) (d0 d1 : Data) : List (String × String) :=
  traceLoop 12 { me := 0, todo := [c], pc := .start, rets := [] } d0 d1

def isSyncEvent (k : String) : Bool :=
  k == "lock" || k == "unlock" || k == "wait" || k == "wait_for" || k == "wait_until" || k == "notify_one" || k == "notify_all"

/-- projection of one extracted method to its lock / wait / unlock / notify events -/
def syncEventsOf (sk : Skel) (name : String) : List (String × String) :=
  match sk.find? (fun m => m.1 == name) with
  | some m => (m.2.filter (fun e => isSyncEvent e.1)).map (fun e => (e.1, e.2.1))
  | none => [("method-not-found", name)]

def dataWith (cap : Nat) (q : List Val) : Data := { cap := cap, q := q, closed := false, puts := [], takes := [] }

/-- source method ↦ the model call that stands for it, the data it starts on and the data it finds when woken -/
def traceTable : List (String × Call × Data × Data) :=
  [("queue#0", .queue 1, dataWith 1 [9], dataWith 1 []), ("queue#1", .queue 1, dataWith 1 [9], dataWith 1 []),
   ("tryQueue#0", .tryQueueFor 1, dataWith 1 [9], dataWith 1 []), ("tryQueue#1", .tryQueueFor 1, dataWith 1 [9], dataWith 1 []),
   ("tryQueue#2", .tryQueue 1, dataWith 1 [], dataWith 1 []), ("tryQueue#3", .tryQueue 1, dataWith 1 [], dataWith 1 []),
   ("dequeue#0", .dequeue, dataWith 1 [], dataWith 1 [5]), ("dequeue#1", .dequeueFor, dataWith 1 [], dataWith 1 [5]),
   ("tryDequeue#0", .tryDequeue, dataWith 1 [5], dataWith 1 [5]),
   ("close#0", .close, dataWith 1 [], dataWith 1 []),
   ("size#0", .size, dataWith 1 [], dataWith 1 []), ("empty#0", .empty, dataWith 1 [], dataWith 1 []),
   ("full#0", .full, dataWith 1 [], dataWith 1 [])]

def modelTraceIsSkeleton (sk : Skel) : Bool :=
  traceTable.all (fun r => callTrace r.2.1 r.2.2.1 r.2.2.2 == syncEventsOf sk r.1)

end Iora.BQ
