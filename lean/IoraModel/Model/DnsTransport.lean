import IoraModel.Model.Dns
/-
Model of the decision logic of `DnsTransport::processResponse` (include/iora/network/dns/dns_transport.hpp): which pending
query a received message completes, and how.  Scope: one server:port (the key is then the 16-bit query id) and a transport
mode other than `Both` (the TCP-fallback branch re-sends on a live socket and is not modelled).
-/
namespace Iora.DnsTransport
open Iora Iora.Dns

/-- what the data callback does with a received message -/
inductive Completion where
  | result (id : Nat) (r : Result)       -- `completeQuery(key, result)`: callback(result, nullptr), promise.set_value
  | parseError (id : Nat)                -- `completeQuery(key, make_exception_ptr(DnsParseException))`
  deriving Repr

/-- `pendingQueries_.find(key)` / `erase` for the ids of one server:port -/
def complete (pending : List Nat) (id : Nat) : Bool × List Nat := (pending.contains id, pending.filter (· ≠ id))

/-- mirrors `processResponse(data, size, mode, server, port)`.  `catch (const std::exception &)` catches every exception of
the parser; an out-of-range read would not be an exception, so `oob`/`fuel` are passed on (and proved impossible). -/
def processResponse (pending : List Nat) (data : Bytes) : R (Option Completion × List Nat) :=
  match parse data with
  | .ok r =>
    let (found, rest) := complete pending r.header.id
    .ok (if found then some (.result r.header.id r) else none, rest)
  | .error .oob => .error .oob
  | .error .fuel => .error .fuel
  | .error _ =>
    if data.length ≥ Gen.Dns.respMinIdBytes then
      match rd data 0, rd data 1 with
      | .ok b0, .ok b1 =>
        let id := b0.toNat * 256 + b1.toNat           -- `(data[0] << 8) | data[1]`
        let (found, rest) := complete pending id
        .ok (if found then some (.parseError id) else none, rest)
      | .error e, _ => .error e
      | _, .error e => .error e
    else .ok (none, pending)

end Iora.DnsTransport
