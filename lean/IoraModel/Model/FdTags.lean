/-!
# The fd-tag map of the engines (C02, review F6b)

`handleFdEvent(fd, events)` turns a kernel event into a session through `_fdTags` (tcp) / `_tags` (udp): `tags : Fd → Option Sid`.
The lifecycle model (`Model/EngineLifecycle.lean`) keys I/O events by session id; THIS model is the layer below it: which session
an event on a given fd NUMBER reaches, when the kernel reuses fd numbers (always the lowest free one) - within one run and across
stop()/start().  Mirrors the four places that touch the map:

* `insert`     - doConnect / onListener / connectDo: the kernel returned `fd` (never a number that is still open), `_sessions.emplace`,
                 `_fdTags.emplace(fd, tag)` - which does NOT overwrite an existing entry,
* `closeNow`   - `closed = true`, `_fdTags.erase(s->fd)`, `::close(fd)`, `_sessions.erase`,
* `drain`      - shutdownDrain: for every session `closed = true`, the tag erase of repair F35 (`erases`; the source variant, fed from
                 `Gen.CloseSites.tcpDrainErasesTags` / `udpDrainErasesTags`), `::close(fd)`; then `_sessions.clear()`.
                 The maps are not touched by start(): a restarted engine continues from the state the drain left.
-/
namespace Iora.FdTags

abbrev Sid := Nat
abbrev Fd := Nat

structure Sess where
  fd : Fd
  closed : Bool := false
  deriving Repr, DecidableEq

structure T where
  erases : Bool := true                        -- the drain erases the tag of every session it frees (F35 repair present)
  sess : Sid → Option Sess := fun _ => none    -- `_sessions`
  keys : List Sid := []                        -- its keys (iteration of the drain)
  tags : Fd → Option Sid := fun _ => none      -- `_fdTags` restricted to session tags
  kopen : Fd → Bool := fun _ => false          -- kernel: this fd number is currently open

def upd {β : Type} (f : Nat → β) (k : Nat) (v : β) : Nat → β := fun x => if x = k then v else f x

inductive Op
  | insert (sid : Sid) (fd : Fd)
  | closeNow (sid : Sid)
  | drain
  deriving Repr, DecidableEq

/-- one iteration of the session loop of shutdownDrain -/
def drainClose (t : T) (sid : Sid) : T :=
  match t.sess sid with
  | none => t
  | some s =>
    if s.closed then t else
    { t with sess := upd t.sess sid (some { s with closed := true }),
             tags := if t.erases then upd t.tags s.fd none else t.tags,
             kopen := upd t.kopen s.fd false }

def step (t : T) : Op → T
  | .insert sid fd =>
    -- the ENVIRONMENT contract: the kernel never hands out a number that is still open; ids are fresh (T4): anything else is not an input
    if t.kopen fd || (t.sess sid).isSome then t else
    { t with sess := upd t.sess sid (some { fd := fd }), keys := sid :: t.keys, kopen := upd t.kopen fd true,
             tags := if (t.tags fd).isSome then t.tags else upd t.tags fd (some sid) }
  | .closeNow sid =>
    match t.sess sid with
    | none => t
    | some s =>
      if s.closed then t else
      { t with sess := upd t.sess sid none, tags := upd t.tags s.fd none, kopen := upd t.kopen s.fd false }
  | .drain =>
    let t1 := t.keys.foldl drainClose t
    { t1 with sess := fun _ => none, keys := [] }

def run (t : T) (ops : List Op) : T := ops.foldl step t

/-- mirrors the lookup of handleFdEvent: the session an event on `fd` is dispatched to -/
def dispatch (t : T) (fd : Fd) : Option Sid := t.tags fd

end Iora.FdTags
