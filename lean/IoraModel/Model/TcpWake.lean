/-!
# The eventfd wake-up protocol between `TcpEngine::enqueue` and the I/O loop (C01)

Mirrors `include/iora/network/detail/tcp_engine.hpp`:

* `enqueue()`: `lock(_cmdMutex); _cmds.push_back(cmd); write(_eventFd, 1); unlock` — the deque push and the eventfd write are
  two separate steps inside ONE critical section (`wakeAfterPush = true`, translator fact `enqueueWakeAfterPushUnderLock`);
* `loopNonBatched` / `loopBatched`: `epoll_wait` reports the eventfd (registered level-triggered, `addEpoll(_eventFd, EPOLLIN)`)
  as long as its counter is non-zero; the handler is `drainEvt(); process();` (`drainFirst = true`, translator fact
  `loopDrainBeforeProcess`): `drainEvt` reads the counter down to 0 WITHOUT taking `_cmdMutex`, `process()` swaps the queue
  under `_cmdMutex` and dispatches the batch.

Because `_cmdMutex` is exclusive, at most one sender is inside the critical section; any number of sender threads is therefore
modelled by ONE critical-section slot (`crit`) that a new sender may enter whenever it is free.  With `wakeAfterPush = false`
(the eventfd write BEFORE the lock — a variant the witnesses below need) several senders may have written and not yet pushed:
`pre` counts them.  Commands are counted, not named (their order is T5's subject, `Enq`).
-/
namespace Iora.Tcp.Wake

/-- where the sender that holds `_cmdMutex` stands -/
inductive Crit
  | free      -- nobody holds `_cmdMutex`
  | locked    -- a sender holds it, before `push_back`
  | pushed    -- after `push_back`, before the eventfd write (only when `wakeAfterPush`)
  | wrote     -- after the eventfd write (resp. after the push when `wakeAfterPush = false`), before unlock
  deriving DecidableEq, Repr

/-- where the I/O thread stands -/
inductive IoPc
  | waiting   -- in `epoll_wait` (returns only while the eventfd counter is non-zero)
  | woken     -- `epoll_wait` has reported the eventfd; before the first of `drainEvt()` / `process()`
  | mid       -- between the two calls
  deriving DecidableEq, Repr

structure W where
  cmds : Nat := 0        -- `_cmds.size()`
  taken : Nat := 0       -- commands handed to the dispatch loop so far
  accepted : Nat := 0    -- `push_back`s performed so far (= `enqueue` calls that will return / have returned true)
  evt : Nat := 0         -- the eventfd counter
  crit : Crit := .free
  pre : Nat := 0         -- senders that wrote the eventfd and have not yet taken the lock (`wakeAfterPush = false` only)
  io : IoPc := .waiting
  deriving DecidableEq, Repr

inductive Actor
  | sender      -- the sender inside the critical section moves on; if it is free, a new sender enters
  | early       -- a new sender performs its eventfd write before taking the lock (`wakeAfterPush = false` only)
  | io
  deriving DecidableEq, Repr

/-- one scheduler step; a choice that is not enabled is a stutter.
`wakeAfterPush`: the eventfd write follows `push_back` inside the lock scope. `drainFirst`: the handler is `drainEvt(); process();`.
`wholeBatch`: one `process()` call dispatches everything it swapped out (`processDispatchesWholeBatch`); otherwise it dispatches one
command, hands the rest back to the queue and signals the eventfd again. -/
def step (wakeAfterPush drainFirst wholeBatch : Bool) (w : W) : Actor → W
  | .early => if wakeAfterPush then w else { w with evt := w.evt + 1, pre := w.pre + 1 }
  | .sender =>
    match w.crit with
    | .free =>
      if wakeAfterPush then { w with crit := .locked }
      else if w.pre > 0 then { w with crit := .locked, pre := w.pre - 1 } else w
    | .locked =>
      { w with cmds := w.cmds + 1, accepted := w.accepted + 1, crit := if wakeAfterPush then .pushed else .wrote }
    | .pushed => { w with evt := w.evt + 1, crit := .wrote }
    | .wrote => { w with crit := .free }
  | .io =>
    match w.io with
    | .waiting => if w.evt > 0 then { w with io := .woken } else w
    | .woken =>
      if drainFirst then { w with evt := 0, io := .mid }                                  -- drainEvt()
      else if w.crit = .free then { w with taken := w.taken + w.cmds, cmds := 0, io := .mid } else w   -- process()
    | .mid =>
      if drainFirst then
        (if w.crit = .free then
          (if wholeBatch then { w with taken := w.taken + w.cmds, cmds := 0, io := .waiting }
           else { w with taken := w.taken + min w.cmds 1, cmds := w.cmds - 1, evt := if w.cmds > 1 then w.evt + 1 else w.evt, io := .waiting })
         else w)  -- process()
      else { w with evt := 0, io := .waiting }                                            -- drainEvt()

def run (wakeAfterPush drainFirst wholeBatch : Bool) (w : W) : List Actor → W
  | [] => w
  | a :: as => run wakeAfterPush drainFirst wholeBatch (step wakeAfterPush drainFirst wholeBatch w a) as

/-- the I/O thread is blocked in `epoll_wait` with nothing to wake it, and no `enqueue` call is in flight -/
def W.Asleep (w : W) : Prop := w.io = .waiting ∧ w.evt = 0 ∧ w.crit = .free ∧ w.pre = 0

end Iora.Tcp.Wake
