import IoraModel.Model.WsFrame
/-
Model of the post-upgrade data path of `include/iora/network/websocket_client.hpp`:
`handleData` (frame loop), `handleFrame`, `handleDataFrame`, `sendText/sendBinary/sendPing/sendClose`.
Client frames are masked with a random key; the key is not part of the model: an outgoing frame is recorded
as (opcode, fin, UNMASKED payload) and the harness unmasks what the real client sent (W1 covers masking).
-/
namespace Iora.Ws

inductive CEv where
  | text (bs : Bytes)
  | binary (bs : Bytes)
  | sent (op : Nat) (fin : Bool) (pl : Bytes)
  | onClose (code : Nat) (reason : Bytes)
  | onError
  deriving DecidableEq, Repr

structure CSess where
  buffer : Bytes := []
  fragBuf : Bytes := []
  fragOp : Nat := 0
  closeEchoed : Bool := false       -- `_closeEchoed`
  protocolFailed : Bool := false    -- `_protocolFailed`
  closeSent : Bool := false         -- `_closeSent` (under `_sendMutex`)
  connected : Bool := true          -- `_state == CONNECTED`
  deriving DecidableEq, Repr

def cstr (s : String) : Bytes := s.toUTF8.toList

/-- `kMaxFramePayload` -/
def clientMaxPayload : Nat := Gen.Ws.clientMaxFramePayload

/-- mirrors `sendClose(code, reason)`: flag and send are one `_sendMutex` section; no state check -/
def cSendClose (s : CSess) (code : Nat) (reason : Bytes) : CSess × List CEv :=
  ({ s with closeSent := true }, [.sent 8 true (b8 (code / 256) :: b8 code :: reason)])

/-- mirrors `sendText/sendBinary/sendPing`: advisory state check, then check-and-send under `_sendMutex` -/
def cSend (s : CSess) (op : Nat) (pl : Bytes) : CSess × List CEv :=
  if !s.connected then (s, []) else if s.closeSent then (s, []) else (s, [.sent op true pl])

/-- mirrors `handleDataFrame` -/
def cHandleDataFrame (s : CSess) (f : Frame) : CSess × List CEv :=
  let isStart := f.opcode = 1 || f.opcode = 2
  let s1 : CSess :=
    if isStart then { s with fragOp := f.opcode, fragBuf := f.payload }
    else if f.opcode = 0 then { s with fragBuf := s.fragBuf ++ f.payload }
    else s
  if f.fin then
    let op := s1.fragOp
    let pl := s1.fragBuf
    let s2 := { s1 with fragBuf := [], fragOp := 0 }
    if op = 1 then
      if !isValidUtf8 pl then cSendClose s2 1007 (cstr "Invalid UTF-8")
      else (s2, [.text pl])
    else if op = 2 then (s2, [.binary pl])
    else (s2, [])
  else (s1, [])

/-- mirrors `handleFrame` -/
def cHandleFrame (s : CSess) (f : Frame) : CSess × List CEv :=
  if f.opcode = 1 || f.opcode = 2 || f.opcode = 0 then cHandleDataFrame s f
  else if f.opcode = 9 then (s, [.sent 10 true f.payload])
  else if f.opcode = 10 then (s, [])
  else if f.opcode = 8 then
    let (code, reason) := closePayload f.payload
    let (s1, ev) := if !s.closeEchoed then cSendClose { s with closeEchoed := true } code reason else (s, [])
    ({ s1 with connected := false }, ev ++ [.onClose code reason])
  else (s, [])

/-- mirrors the failure arm of the frame loop -/
def cFail (s : CSess) (tooLarge : Bool) : CSess × List CEv :=
  let (s1, ev) := cSendClose { s with protocolFailed := true }
    (if tooLarge then 1009 else 1002) (cstr (if tooLarge then "Message Too Big" else "Protocol error"))
  ({ s1 with connected := false }, ev ++ [.onError])

/-- the frame loop of `handleData` (step 3) -/
def cLoop : Nat → CSess → Bytes → CSess × List CEv × Option Bytes
  | 0, s, d => (s, [], some d)
  | fuel + 1, s, d =>
    if d.isEmpty then (s, [], some d) else
    match parse clientMaxPayload d with
    | .incomplete => (s, [], some d)
    | .protocolError => let (s1, ev) := cFail s false; (s1, ev, none)
    | .tooLarge => let (s1, ev) := cFail s true; (s1, ev, none)
    | .frame f n =>
      let (s1, ev1) := cHandleFrame s f
      let (s2, ev2, r) := cLoop fuel s1 (d.drop n)
      (s2, ev1 ++ ev2, r)

/-- mirrors `handleData` after the upgrade completed -/
def cOnData (s : CSess) (data : Bytes) : CSess × List CEv :=
  let local_ := s.buffer ++ data
  let s0 := { s with buffer := [] }
  if s.protocolFailed then (s0, []) else
  let (s1, ev, r) := cLoop (local_.length + 1) s0 local_
  match r with
  | some rest => ({ s1 with buffer := rest }, ev)
  | none => (s1, ev)

inductive COp where
  | sendText (bs : Bytes)
  | sendBinary (bs : Bytes)
  | sendPing (bs : Bytes)
  | sendClose (code : Nat) (reason : Bytes)
  | data (bs : Bytes)
  deriving Repr

def cStep (s : CSess) : COp → CSess × List CEv
  | .sendText bs => cSend s 1 bs
  | .sendBinary bs => cSend s 2 bs
  | .sendPing bs => cSend s 9 bs
  | .sendClose c r => cSendClose s c r
  | .data bs => cOnData s bs

def cRun : CSess → List COp → CSess × List CEv
  | s, [] => (s, [])
  | s, op :: ops =>
    let (s1, e1) := cStep s op
    let (s2, e2) := cRun s1 ops
    (s2, e1 ++ e2)

end Iora.Ws
