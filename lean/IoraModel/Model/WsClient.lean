import IoraModel.Model.WsFrame
/-
Model of the data path of `include/iora/network/websocket_client.hpp`:
`handleData` (HTTP upgrade response, then the frame loop), `handleFrame`, `handleDataFrame`,
`sendText/sendBinary/sendPing/sendClose`.
Client frames are masked with a random key; the key is not part of the model: an outgoing frame is recorded
as (opcode, fin, UNMASKED payload) and the harness unmasks what the real client sent (W1 covers masking).
As for the server, callbacks run outside every lock and may send re-entrantly (`CCbs`).
-/
namespace Iora.Ws

inductive CEv where
  | text (bs : Bytes)
  | binary (bs : Bytes)
  | sent (op : Nat) (fin : Bool) (pl : Bytes)
  | onClose (code : Nat) (reason : Bytes)
  | onError
  | connected                        -- `_onConnect` (upgrade response accepted)
  deriving DecidableEq, Repr

structure CSess where
  buffer : Bytes := []
  fragBuf : Bytes := []
  fragOp : Nat := 0
  closeEchoed : Bool := false       -- `_closeEchoed`
  protocolFailed : Bool := false    -- `_protocolFailed`
  closeSent : Bool := false         -- `_closeSent` (under `_sendMutex`)
  connected : Bool := true          -- `_state == CONNECTED`
  upgraded : Bool := true           -- `_upgradeComplete`
  deriving DecidableEq, Repr

/-- what the application sends from inside each callback -/
structure CCbs where
  onText : List Send := []
  onBinary : List Send := []
  onClose : List Send := []
  onError : List Send := []
  deriving Repr

/-- per-connection constants: the size limit (`_maxFrameSize`, default `kMaxFramePayload`), the expected
`Sec-WebSocket-Accept` value (base64 of SHA-1 of key + GUID: computed outside the model) and the callback scripts -/
structure CCfg where
  max : Nat := Gen.Ws.clientMaxFramePayload
  accept : Bytes := []
  cb : CCbs := {}
  deriving Repr

def cstr (s : String) : Bytes := s.toUTF8.toList

/-- mirrors `sendClose(code, reason)`: flag and send are one `_sendMutex` section; no state check -/
def cSendClose (s : CSess) (code : Nat) (reason : Bytes) : CSess × List CEv :=
  ({ s with closeSent := true }, [.sent 8 true (closeBody code reason)])

/-- mirrors `sendText/sendBinary` (and `sendPing` after its payload guard): advisory state check, then
check-and-send under `_sendMutex` -/
def cSend (s : CSess) (op : Nat) (pl : Bytes) : CSess × List CEv :=
  if !s.connected then (s, []) else if s.closeSent then (s, []) else (s, [.sent op true pl])

def cSendPing (s : CSess) (pl : Bytes) : CSess × List CEv :=
  if pl.length > Gen.Ws.clientPingMax then (s, []) else cSend s 9 pl

def cSendStep (s : CSess) : Send → CSess × List CEv
  | .text bs => cSend s 1 bs
  | .binary bs => cSend s 2 bs
  | .ping bs => cSendPing s bs
  | .close c r => cSendClose s c r

def cRunSends : CSess → List Send → CSess × List CEv
  | s, [] => (s, [])
  | s, a :: as =>
    let (s1, e1) := cSendStep s a
    let (s2, e2) := cRunSends s1 as
    (s2, e1 ++ e2)

/-- invoke a callback: the callback event, then whatever the application sends from inside it -/
def cFire (s : CSess) (e : CEv) (script : List Send) : CSess × List CEv :=
  let (s1, ev) := cRunSends s script
  (s1, e :: ev)

def cDeliver (cb : CCbs) (s : CSess) (op : Nat) (pl : Bytes) : CSess × List CEv :=
  if op = 1 then
    if !isValidUtf8 pl then cSendClose s 1007 (cstr "Invalid UTF-8")
    else cFire s (.text pl) cb.onText
  else if op = 2 then cFire s (.binary pl) cb.onBinary
  else (s, [])

/-- mirrors the failure sequence (frame-level in `handleData`, message-level in `handleDataFrame`):
`_protocolFailed = true`, `sendClose`, state CLOSED, `_onError` -/
def cFail (cb : CCbs) (s : CSess) (tooLarge : Bool) : CSess × List CEv :=
  let (s1, ev) := cSendClose { s with protocolFailed := true }
    (if tooLarge then 1009 else 1002) (cstr (if tooLarge then "Message Too Big" else "Protocol error"))
  let (s2, ev2) := cFire { s1 with connected := false } .onError cb.onError
  (s2, ev ++ ev2)

/-- the locked part of `handleDataFrame`: a start frame replaces the fragment buffer, a continuation frame appends -/
def cAccumulate (s : CSess) (f : Frame) : CSess :=
  if f.opcode = 1 || f.opcode = 2 then { s with fragOp := f.opcode, fragBuf := f.payload }
  else if f.opcode = 0 then { s with fragBuf := s.fragBuf ++ f.payload }
  else s

/-- mirrors `handleDataFrame` -/
def cHandleDataFrame (cfg : CCfg) (s : CSess) (f : Frame) : CSess × List CEv :=
  let s1 := cAccumulate s f
  if s1.fragBuf.length > cfg.max then
    cFail cfg.cb { s1 with fragBuf := [], fragOp := 0 } true
  else if f.fin then
    cDeliver cfg.cb { s1 with fragBuf := [], fragOp := 0 } s1.fragOp s1.fragBuf
  else (s1, [])

/-- mirrors `handleFrame` -/
def cHandleFrame (cfg : CCfg) (s : CSess) (f : Frame) : CSess × List CEv :=
  if f.opcode = 1 || f.opcode = 2 || f.opcode = 0 then cHandleDataFrame cfg s f
  else if f.opcode = 9 then (s, [.sent 10 true f.payload])
  else if f.opcode = 10 then (s, [])
  else if f.opcode = 8 then
    let (code, reason) := closePayload f.payload
    let (s1, ev) := if !s.closeEchoed then cSendClose { s with closeEchoed := true } code reason else (s, [])
    let (s2, ev2) := cFire { s1 with connected := false } (.onClose code reason) cfg.cb.onClose
    (s2, ev ++ ev2)
  else (s, [])

/-- the frame loop of `handleData` (step 3): stops (dropping the rest) as soon as the connection has been failed -/
def cLoop (cfg : CCfg) : Nat → CSess → Bytes → CSess × List CEv × Option Bytes
  | 0, s, d => (s, [], some d)
  | fuel + 1, s, d =>
    if d.isEmpty then (s, [], some d) else
    match parse cfg.max d with
    | .incomplete => (s, [], some d)
    | .protocolError => let (s1, ev) := cFail cfg.cb s false; (s1, ev, none)
    | .tooLarge => let (s1, ev) := cFail cfg.cb s true; (s1, ev, none)
    | .frame f n =>
      let (s1, ev1) := cHandleFrame cfg s f
      if s1.protocolFailed then (s1, ev1, none) else
      let (s2, ev2, r) := cLoop cfg fuel s1 (d.drop n)
      (s2, ev1 ++ ev2, r)

/-- steps 3 and 4 of `handleData` on the local buffer -/
def cFrames (cfg : CCfg) (s : CSess) (local_ : Bytes) : CSess × List CEv :=
  if s.protocolFailed then (s, []) else
  let (s1, ev, r) := cLoop cfg (local_.length + 1) s local_
  match r with
  | some rest => ({ s1 with buffer := rest }, ev)
  | none => (s1, ev)

/-! ### the HTTP upgrade response (step 2 of `handleData`) -/

/-- `std::string::find(pat)` on the suffix `d`, counting from `i` -/
def findFrom (pat : Bytes) : Bytes → Nat → Option Nat
  | [], i => if pat.isEmpty then some i else none
  | x :: t, i => if pat.isPrefixOf (x :: t) then some i else findFrom pat t (i + 1)

def findSub (pat d : Bytes) : Option Nat := findFrom pat d 0

def isWs (x : UInt8) : Bool := x = 32 || x = 9

/-- `substr(find_first_not_of(" \t"), …find_last_not_of(" \t"))` -/
def trimWs (d : Bytes) : Bytes := ((d.dropWhile isWs).reverse.dropWhile isWs).reverse

def crlf : Bytes := [13, 10]
def crlf2 : Bytes := [13, 10, 13, 10]
/-- the ASCII bytes of `"Sec-WebSocket-Accept:"` (`kAcceptHdr`) and of `"HTTP/1.1 101"`, written out so that proofs can
compute with them (`String.toUTF8` does not reduce in the kernel); the lockstep runs tie them to the real strings -/
def acceptHdr : Bytes := [83, 101, 99, 45, 87, 101, 98, 83, 111, 99, 107, 101, 116, 45, 65, 99, 99, 101, 112, 116, 58]
def statusOk : Bytes := [72, 84, 84, 80, 47, 49, 46, 49, 32, 49, 48, 49]

/-- the trimmed value of the `Sec-WebSocket-Accept:` header inside the header section (empty if absent) -/
def acceptValue (resp : Bytes) (headerEnd : Nat) : Bytes :=
  match findSub acceptHdr resp with
  | none => []
  | some ap =>
    if ap < headerEnd then
      let vs := ap + acceptHdr.length
      let tail := resp.drop vs
      let n := match findSub crlf tail with
        | some k => k
        | none => headerEnd - vs
      trimWs (tail.take n)
    else []

inductive HsRes where
  | wait (s : CSess)                         -- header incomplete (and not over the limit): everything put back
  | failed (s : CSess) (ev : List CEv)       -- not a 101 / wrong accept value: state DISCONNECTED, input dropped
  | ok (s : CSess) (ev : List CEv) (rest : Bytes)

/-- mirrors step 2 of `handleData` on the local buffer -/
def cHandshake (cfg : CCfg) (s : CSess) (local_ : Bytes) : HsRes :=
  match findSub crlf2 local_ with
  | none =>
    if local_.length > Gen.Ws.clientMaxUpgradeResponse then .failed { s with connected := false } [.onError]
    else .wait { s with buffer := local_ }
  | some he =>
    if !statusOk.isPrefixOf local_ then .failed { s with connected := false } [.onError]
    else if acceptValue local_ he ≠ cfg.accept then .failed { s with connected := false } [.onError]
    else .ok { s with upgraded := true, connected := true } [.connected] (local_.drop (he + 4))

/-- mirrors `handleData` -/
def cOnData (cfg : CCfg) (s : CSess) (data : Bytes) : CSess × List CEv :=
  let local_ := s.buffer ++ data
  let s0 := { s with buffer := [] }
  if s.upgraded then cFrames cfg s0 local_
  else
    match cHandshake cfg s0 local_ with
    | .wait s1 => (s1, [])
    | .failed s1 ev => (s1, ev)
    | .ok s1 ev rest =>
      let (s2, ev2) := cFrames cfg s1 rest
      (s2, ev ++ ev2)

inductive COp where
  | sendText (bs : Bytes)
  | sendBinary (bs : Bytes)
  | sendPing (bs : Bytes)
  | sendClose (code : Nat) (reason : Bytes)
  | data (bs : Bytes)
  | disconnect (code : Nat) (reason : Bytes)      -- `disconnect(code, reason)` → `teardownTransport(gracefulClose = true)`
  deriving Repr

/-- mirrors `disconnect()` → `teardownTransport(true, code, reason)` + `setState(CLOSED)`: the transport is taken away
(snapshot + reset under `_transportMutex`); if there was one and the state is CONNECTED the courtesy CLOSE frame is handed
over with `_closeSent` set, both under `_sendMutex` (repair FC18e: before, neither the lock nor the flag) -/
def cDisconnect (s : CSess) (code : Nat) (reason : Bytes) : CSess × List CEv :=
  if s.connected then
    let (s1, ev) := cSendClose s code reason
    ({ s1 with connected := false }, ev)
  else ({ s with connected := false }, [])

def cStep (cfg : CCfg) (s : CSess) : COp → CSess × List CEv
  | .sendText bs => cSendStep s (.text bs)
  | .sendBinary bs => cSendStep s (.binary bs)
  | .sendPing bs => cSendStep s (.ping bs)
  | .sendClose c r => cSendStep s (.close c r)
  | .data bs => cOnData cfg s bs
  | .disconnect c r => cDisconnect s c r

def cRun (cfg : CCfg) : CSess → List COp → CSess × List CEv
  | s, [] => (s, [])
  | s, op :: ops =>
    let (s1, e1) := cStep cfg s op
    let (s2, e2) := cRun cfg s1 ops
    (s2, e1 ++ e2)

/-- the state `doConnect` leaves before the upgrade response arrives -/
def preUpgrade : CSess := { connected := false, upgraded := false }

/-- mirrors the re-arming block of `doConnect` (state CONNECTING, then the per-connection fields): DEFINED from the list of
resets the translator finds in the source (`Gen.Ws.clientConnectResets`) - a field whose reset is missing keeps the
value the previous connection left -/
def cReconnect (s : CSess) : CSess :=
  let has := fun (n : String) => Gen.Ws.clientConnectResets.contains n
  { buffer := if has "_buffer" then [] else s.buffer
    fragBuf := if has "_fragmentBuffer" then [] else s.fragBuf
    fragOp := if has "_fragmentOpcode" then 0 else s.fragOp
    closeEchoed := if has "_closeEchoed" then false else s.closeEchoed
    protocolFailed := if has "_protocolFailed" then false else s.protocolFailed
    closeSent := if has "_closeSent" then false else s.closeSent
    connected := false
    upgraded := if has "_upgradeComplete" then false else s.upgraded }

end Iora.Ws
