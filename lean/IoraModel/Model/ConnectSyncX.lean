import IoraModel.Model.ConnectSync
/-!
# C04 model, argument layer

`Model/ConnectSync.lean` decides *which* session a call gets and which callbacks fire.  This layer carries the two pieces of
data the property also talks about, without touching the control model: the TLS mode a call REQUESTED versus the mode the
engine was asked for when the session was created ("completed its (TCP and, if requested, TLS) handshake"), and the reason
class the engine's onClose reported for a session (refused / unresolved / engine-side connect timeout / TLS failure / closed by
application / peer), which is what a failed connectSync returns ("a definite error (refused, unresolved, timed out …)").

An `XStep` is a control step plus one number: the requested TLS mode for `call`, the reason class for the steps that begin a
close handler (`ioPop` of a failing Connect or of a Close, `ioFail`, `ioPeerClose`); it is ignored elsewhere.
-/
namespace Iora.ConnectSync

structure XState where
  core : State := {}
  reqTls : Nat → Nat := fun _ => 0     -- per application thread: the TLS mode its current call requested
  sessTls : Nat → Nat := fun _ => 0    -- per session id: the mode `engine->connect` was called with
  reason : Nat → Nat := fun _ => 0     -- per session id: reason class of the engine's onClose (0 = none yet)

def setN (f : Nat → Nat) (i v : Nat) : Nat → Nat := fun j => if j = i then v else f j

/-- session whose close handler the step begins, if any -/
def closeBegins (s : State) : Step → Option Nat
  | .ioPop succeeds =>
    (match s.io, s.fifo with
     | .idle, .connect sid :: _ => if s.eng sid == .none && !succeeds then some sid else none
     | .idle, .close sid :: _ => if s.eng sid == .connecting || s.eng sid == .established then some sid else none
     | _, _ => none)
  | .ioFail sid => if s.io == .idle && s.eng sid == .connecting then some sid else none
  | .ioPeerClose sid => if s.io == .idle && s.eng sid == .established then some sid else none
  | .timerClose sid => if s.io == .idle && s.eng sid == .connecting then some sid else none
  | _ => none

def xstep (cfg : Cfg) (x : XState) (st : Step) (n : Nat) : XState :=
  let core' := stepC cfg x.core st
  match st with
  | .call c _ =>
    if (x.core.callers c).pc == .idle || (x.core.callers c).pc == .finished then { x with core := core', reqTls := setN x.reqTls c n }
    else { x with core := core' }
  | .cConnect c =>
    -- mirrors `engine->connect(host, port, tls)`: the requested mode is passed on (skeleton fact `connectPassesArgs`)
    -- `Cfg.args` is load-bearing here: were the arguments not passed on unchanged, the engine would be asked for mode 0
    if (x.core.callers c).pc == .haveLock then
      { x with core := core', sessTls := setN x.sessTls x.core.nextSid (if cfg.args then x.reqTls c else 0) }
    else { x with core := core' }
  | _ =>
    match closeBegins x.core st with
    | some sid => { x with core := core', reason := setN x.reason sid n }
    | none => { x with core := core' }

def xrun (cfg : Cfg) (x : XState) : List (Step × Nat) → XState
  | [] => x
  | (st, n) :: rest => xrun cfg (xstep cfg x st n) rest

theorem xstep_core (cfg : Cfg) (x : XState) (st : Step) (n : Nat) : (xstep cfg x st n).core = stepC cfg x.core st := by
  unfold xstep
  cases st <;> simp <;> (repeat' split) <;> rfl

theorem xrun_core (cfg : Cfg) : ∀ (steps : List (Step × Nat)) (x : XState),
    (xrun cfg x steps).core = runC cfg x.core (steps.map (·.1)) := by
  intro steps
  induction steps with
  | nil => intro x; rfl
  | cons p rest ih => intro x; obtain ⟨st, n⟩ := p; simp only [xrun, List.map, runC, ih, xstep_core]

def xinit : XState := {}

end Iora.ConnectSync
