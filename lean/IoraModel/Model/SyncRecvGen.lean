import IoraModel.Model.SyncRecv
import IoraModel.Model.TsyncFacts
/-! The C03 model instantiated from the regenerated skeleton facts (this is the configuration the driver runs). -/
namespace Iora.SyncRecv

/-- mirrors transport_types.hpp::TransportConfig (sync-receive part) + the notify facts of Gen/TsyncSkel -/
def genCfg (maxBuf gcThreshold : Nat) (allowSwitch : Bool) : Cfg :=
  { maxBuf := maxBuf, gcThreshold := gcThreshold, allowSwitch := allowSwitch,
    notifyOnData := TsyncFacts.notifyOnData, notifyOnOverflow := TsyncFacts.notifyOnOverflow,
    notifyOnClose := TsyncFacts.notifyOnClose }

def defaultCfg : Cfg :=
  genCfg Gen.TsyncSkel.maxSyncReceiveBufferDefault Gen.TsyncSkel.syncBufferGcThresholdDefault Gen.TsyncSkel.allowReadModeSwitchDefault

end Iora.SyncRecv
