/-!
# C07 — vocabulary shared by the generated call inventory (`Gen/TlsCalls.lean`) and the TLS plan model

Only types: guard formulas over the atoms that occur in `TcpEngine::initTls / doConnect / doAddListener /
onListener`, the OpenSSL configuration actions those functions perform, and the field mappings of
`HttpClient::ensureInitialized` / `HttpServer::start`.  The translator unit `tls` emits VALUES of these types;
`Model/TlsPlan.lean` interprets them.
-/
namespace Iora.Tls

/-- `enum class TlsMode` -/
inductive Mode | none | server | client
  deriving DecidableEq, Repr, Inhabited

/-- atoms of the guard conditions (each is one recognised C++ sub-expression) -/
inductive Atom
  | enabled                 -- `_config.<side>Tls.enabled`
  | defaultModeIs (m : Mode) -- `_config.<side>Tls.defaultMode == TlsMode::m`
  | reqIs (m : Mode)        -- `cr.tls == TlsMode::m` / `lc.tls == …` / `lst->tls == …`
  | ctxPresent              -- `_sslCli` / `_sslSrv` (non-null)
  | certFileSet             -- `!…certFile.empty()`
  | keyFileSet
  | caFileSet
  | caPathSet
  | verifyPeer              -- `_config.<side>Tls.verifyPeer`
  | hostIsIPv4              -- `isIPv4` (inet_pton(AF_INET, cr.host) == 1)
  | hostIsIPv6
  | ciphersSet | alpnSet | verifyDepthPositive
  deriving DecidableEq, Repr

/-- guard formulas -/
inductive G
  | tt | ff
  | atom (a : Atom)
  | not (g : G)
  | and (a b : G)
  | or (a b : G)
  deriving DecidableEq, Repr

/-- `SSL_VERIFY_*` bits -/
inductive VFlag | peer | failIfNoPeerCert | clientOnce | postHandshake
  deriving DecidableEq, Repr

/-- answers of the file system / libcrypto about the configured files (environment, not modelled further) -/
inductive EnvFact
  | certReadable | keyReadable   -- `::access(file, R_OK) == 0`
  | certLoads | keyLoads         -- `SSL_CTX_use_certificate_file / use_PrivateKey_file == 1`
  | keyMatches                   -- `SSL_CTX_check_private_key == 1`
  | certNotExpired               -- `X509_cmp_time(notAfter, now) > 0`
  | caLoads                      -- `SSL_CTX_load_verify_locations == 1`
  deriving DecidableEq, Repr

/-- one configuration action of a context block -/
inductive Act
  | require (f : EnvFact)        -- `if (<f does not hold>) { setLastFatal(...); return false; }`
  | setVerify (flags : List VFlag) -- `SSL_CTX_set_verify(ctx, flags, nullptr)`
  | defaultVerifyPaths           -- `SSL_CTX_set_default_verify_paths(ctx)`
  | fail                         -- unconditional `return false`
  | applyFloor                   -- `applyTls12Floor(ctx, cfg.minVersion)`
  | setVerifyDepth               -- `SSL_CTX_set_verify_depth(ctx, cfg.verifyDepth)`
  | setCipherList                -- `SSL_CTX_set_cipher_list(ctx, cfg.ciphers)`: decides which key exchanges (incl. anonymous ones) are on offer
  | other (name : String)        -- a call recorded for completeness, without effect on the plan (ciphers, ALPN, depth)
  deriving DecidableEq, Repr

/-- an action together with its path condition (conjunction of the enclosing `if` conditions) -/
structure Step where
  guard : G
  act : Act
  deriving DecidableEq, Repr

/-- one `if (enabled && defaultMode == …) { ctx = SSL_CTX_new(method); … }` block of `initTls` -/
structure CtxBlock where
  create : G
  method : String
  steps : List Step
  deriving Repr

/-- `doConnect`: the early refusal, the guard of the `SSL_new(_sslCli)` block, and inside it the path conditions of SNI / host binding -/
structure ConnectSite where
  refuse : G
  sslNew : G
  sni : G
  set1host : G
  set1hostFailClosed : Bool     -- a failing `SSL_set1_host` ends the connect (never a handshake without the name bound)
  deriving Repr

/-- `doAddListener` refusal + the guard of the `SSL_new(_sslSrv)` block in `onListener` -/
structure ListenSite where
  refuse : G
  sslNew : G
  deriving Repr

/-- comparison used by `applyTls12Floor` -/
inductive Cmp | lt | le | gt | ge
  deriving DecidableEq, Repr
/-- the two arms of its conditional expression -/
inductive FloorArm | const | arg
  deriving DecidableEq, Repr

/-- where a field of the transport-level TlsConfig comes from in `HttpClient::ensureInitialized` / `HttpServer::start` -/
inductive Src
  | unset                 -- not assigned: keeps the TransportConfig default
  | constTrue
  | constMode (m : Mode)
  | fromVerifyPeer        -- HttpClient::TlsConfig::verifyPeer / HttpServer::TlsConfig::requireClientCert
  | fromCaFile
  | fromCertFile
  | fromKeyFile
  deriving DecidableEq, Repr

structure CfgMap where
  enabled : Src
  defaultMode : Src
  verifyPeer : Src
  caFile : Src
  certFile : Src
  keyFile : Src
  deriving Repr

/-- which string `HttpClient::acquireConnection` passes to `connectSync` -/
inductive HostSrc | resolvedAddress | urlHost
  deriving DecidableEq, Repr

end Iora.Tls
