import IoraModel.Model.JsonApi
/-!
Executable reference for the two libc primitives on JSON's floating path, in exact natural-number arithmetic:
`strtodBits` (correctly rounded, round-half-even decimal → binary64, what glibc's `strtod` computes in the default rounding mode)
and `fmtG` (`printf("%.{p}g")`; glibc's `printf` rounds the exact binary value half-even).  `Json::_formatDouble` itself is part
of the model proper (`Iora.Json.formatDouble`) and of theorem J2.

Nothing is proved about these two functions: they instantiate the `FloatOps` parameter of the model in the native driver so
that doubles take part in the lockstep comparison bit for bit; the theorems of C13 quantify over every `FloatOps`.
No `Float` anywhere.
-/
namespace Iora.Json.FloatRef
open Iora Iora.Json

def takeDigits : Bytes → Bytes × Bytes
  | [] => ([], [])
  | b :: r => if isDigit b then let (d, r') := takeDigits r; (b :: d, r') else ([], b :: r)

/-- number of decimal digits of `n` (`0` has one) -/
def ndigits (n : Nat) : Nat := (natToDec n).length

/-- a number token `-?int[.frac][(e|E)[+-]?exp]` as (negative, decimal mantissa, decimal exponent): value = ± mant · 10^e10 -/
def splitToken (tok : Bytes) : Bool × Nat × Int :=
  let (neg, r) : Bool × Bytes := match tok with
    | b :: r => if b = 0x2D then (true, r) else (false, tok)
    | [] => (false, [])
  let (ip, r) := takeDigits r
  let (fp, r) : Bytes × Bytes := match r with
    | b :: r' => if b = 0x2E then takeDigits r' else ([], r)
    | [] => ([], [])
  let e : Int := match r with
    | b :: r' =>
      if b = 0x65 ∨ b = 0x45 then
        match r' with
        | s :: r'' =>
          if s = 0x2D then -((decVal (takeDigits r'').1 : Nat) : Int)
          else if s = 0x2B then ((decVal (takeDigits r'').1 : Nat) : Int)
          else ((decVal (takeDigits r').1 : Nat) : Int)
        | [] => 0
      else 0
    | [] => 0
  (neg, decVal (ip ++ fp), e - (fp.length : Int))

def scale2 (num den : Nat) (e : Int) : Nat × Nat :=
  if e ≥ 0 then (num, den * 2 ^ e.toNat) else (num * 2 ^ (-e).toNat, den)

/-- round-half-even quotient -/
def divRound (n d : Nat) : Nat :=
  let q := n / d
  let r := n % d
  if 2 * r > d ∨ (2 * r = d ∧ q % 2 = 1) then q + 1 else q

/-- bits (sign excluded) of the binary64 nearest to `num / den` (`num, den > 0`), ties to even, overflow to infinity -/
def roundRat (num den : Nat) : Nat :=
  let fix (e : Int) : Int :=
    let (n, d) := scale2 num den e
    let q := n / d
    if q ≥ 2 ^ 53 then e + 1 else if q < 2 ^ 52 then e - 1 else e
  let e0 : Int := (Nat.log2 num : Int) - (Nat.log2 den : Int) - 52
  let e1 := fix (fix (fix e0))
  let e : Int := if e1 < -1074 then -1074 else e1
  let (n, d) := scale2 num den e
  let q := divRound n d
  let (q, e) : Nat × Int := if q ≥ 2 ^ 53 then (q / 2, e + 1) else (q, e)
  if q < 2 ^ 52 then q
  else
    let biased := e + 1075
    if biased ≥ 2047 then 0x7FF * 2 ^ 52 else biased.toNat * 2 ^ 52 + (q - 2 ^ 52)

/-- `std::strtod` on a JSON number token, as IEEE-754 bits -/
def strtodBits (tok : Bytes) : UInt64 :=
  let (neg, m, e10) := splitToken tok
  let sign : Nat := if neg then 2 ^ 63 else 0
  if m = 0 then UInt64.ofNat sign
  else
    let mag : Int := e10 + (ndigits m : Int)
    if mag > 310 then UInt64.ofNat (sign + 0x7FF * 2 ^ 52)
    else if mag < -330 then UInt64.ofNat sign
    else if e10 ≥ 0 then UInt64.ofNat (sign + roundRat (m * 10 ^ e10.toNat) 1)
    else UInt64.ofNat (sign + roundRat m (10 ^ (-e10).toNat))

def stripZeros (ds : Bytes) : Bytes := (ds.reverse.dropWhile (· = 0x30)).reverse

def ge10 (num den : Nat) (x : Int) : Bool :=
  if x ≥ 0 then decide (num ≥ den * 10 ^ x.toNat) else decide (num * 10 ^ (-x).toNat ≥ den)

/-- `printf("%.{p}g", d)` for a finite `d` (`p ≥ 1`) -/
def fmtG (p : Nat) (bits : UInt64) : Bytes :=
  let b : Nat := bits.toNat
  let neg : Bool := decide (b / 2 ^ 63 % 2 = 1)
  let ef : Nat := b / 2 ^ 52 % 2048
  let fr : Nat := b % 2 ^ 52
  let sgn : Bytes := if neg then [0x2D] else []
  if ef = 0 ∧ fr = 0 then sgn ++ [0x30]
  else
    let (m, e) : Nat × Int := if ef = 0 then (fr, -1074) else (fr + 2 ^ 52, (ef : Int) - 1075)
    let (num, den) : Nat × Nat := if e ≥ 0 then (m * 2 ^ e.toNat, 1) else (m, 2 ^ (-e).toNat)
    let x0 : Int := (ndigits num : Int) - (ndigits den : Int)
    let x : Int := if ge10 num den x0 then x0 else x0 - 1
    let s : Int := (p : Int) - 1 - x
    let dg : Nat := if s ≥ 0 then divRound (num * 10 ^ s.toNat) den else divRound num (den * 10 ^ (-s).toNat)
    let (dg, x) : Nat × Int := if dg ≥ 10 ^ p then (dg / 10, x + 1) else (dg, x)
    let ds := natToDec dg
    if x < -4 ∨ x ≥ (p : Int) then
      let frac := stripZeros (ds.drop 1)
      let ex := natToDec x.natAbs
      let ex := if ex.length < 2 then 0x30 :: ex else ex
      sgn ++ ds.take 1 ++ (if frac.isEmpty then [] else 0x2E :: frac) ++ [0x65, if x < 0 then 0x2D else 0x2B] ++ ex
    else if x ≥ 0 then
      let frac := stripZeros (ds.drop (x.toNat + 1))
      sgn ++ ds.take (x.toNat + 1) ++ (if frac.isEmpty then [] else 0x2E :: frac)
    else
      sgn ++ [0x30, 0x2E] ++ List.replicate ((-x).toNat - 1) 0x30 ++ stripZeros ds

/-- the instance used by the native driver -/
def ops : FloatOps := { strtod := strtodBits, printfG := fmtG }

/-- what glibc's `strtod` consumes of `text` in a locale whose decimal point is `dp`, rewritten as a "C" token: an optional `-`,
    digits, the locale's decimal point with digits (ANY other byte - a `.` under a decimal comma - ends the number), an exponent -/
def delocalize (dp : Bytes) (text : Bytes) : Bytes :=
  let (sign, r) : Bytes × Bytes := match text with
    | b :: r => if b = 0x2D then ([0x2D], r) else ([], text)
    | [] => ([], [])
  let (ip, r) := takeDigits r
  let (fp, r) : Bytes × Bytes :=
    if dp ≠ [] ∧ dp.isPrefixOf r then
      let (f, r') := takeDigits (r.drop dp.length)
      (0x2E :: f, r')
    else ([], r)
  let ex : Bytes := match r with
    | b :: _ => if b = 0x65 ∨ b = 0x45 then r else []
    | [] => []
  sign ++ ip ++ fp ++ ex

/-- `std::strtod` under the decimal point `dp` -/
def strtodL (dp : Bytes) (text : Bytes) : UInt64 := strtodBits (delocalize dp text)

/-- libc + libstdc++ of the native driver: locale dependent `strtod`, locale independent `to_chars` -/
def libc : Libc := { strtodL := strtodL, toCharsG := fmtG }

end Iora.Json.FloatRef
