import IoraModel.Model.KvRace
/-!
# Any number of threads, each making any sequence of calls: the lock skeleton of one key's cache entry

`Model/KvRace.lean` has exactly two threads (one `get(k)` on the cache-miss path, one writer of `k`).  This file lifts the
same step relations (`RPc`, `WPc`, the same `Shape` of extracted lock scopes) to `n` threads, for every `n`.  A thread is,
at any moment, outside a call (`idle` / a finished call), or inside

* `rd`: `get(k)` past a missed fast path (the reader of `KvRace`, with its own locals `tmp`);
* `wr`: a writer of `k` (`set`, `set`+TTL, `setBatch`, `remove`, `expireAt`, `persist`, `clear`, the eviction callback, the
  compaction thread), described by its `WOp`;
* `fp`: the fast path at the top of `get(k)`: ONE atomic read of `_cache[k]` under a shared hold of `_cacheMutex` (a shared hold
  spanning several steps only keeps exclusive holders out, so the value read is the value at the acquisition: one step loses
  nothing).  A hit on an unexpired entry is the call's answer; otherwise the same thread goes on as `rd` (a new `call`);
* `ev`: a call on ANOTHER key whose `updateCache` picks `k`'s entry as the LRU victim (`_cache.erase(_cache.begin())`), or
  any other erase of `k`'s cache entry.  Only its exclusive hold of `_cacheMutex` is modelled (it takes `_mutex` first in
  the code: leaving that out only ADDS interleavings).

The lock state is a function of the program counters: `_mutex` is free for a shared hold iff no thread holds it
exclusively, free for an exclusive hold iff no thread holds it at all; `_cacheMutex` (only exclusive holds are modelled)
iff no thread holds it.  A blocked thread does not move.  A schedule is a list of actions: "thread `i` makes its next step"
(with the answer of its expiry test, adversarial: every reader has its own `now()`), or "thread `i`, outside a call, starts
the call `c`".

`St.lin` is a GHOST (no step reads it): the value of `k` in the linearization, i.e. the atomic register the calls are linearizable
to.  It is assigned in exactly one step of every writer, the assignment to `_cache[k]` (strictly inside the call, `_mutex` and
`_cacheMutex` both held).  Theorems: `Lemmas/KvRaceN.lean`.
-/
namespace Iora.Kv.RaceN
open Iora Iora.Kv Iora.Kv.Race

/-- program counter of a call that erases `k`'s cache entry under `_cacheMutex` -/
inductive EPc
  | start | hasC | wrote | done
  deriving DecidableEq, Repr

inductive Th
  | idle
  | rd (pc : RPc) (tmp : Option Ent)
  | wr (pc : WPc) (o : WOp)
  | ev (pc : EPc)
  /-- fast path of `get(k)`: `none` = about to read `_cache[k]`, `some r` = has read `r` -/
  | fp (ret : Option (Option Ent))

def Th.holdsS (sh : Shape) : Th → Bool
  | .rd pc _ => rHoldsMu sh pc
  | _ => false

def Th.holdsX (sh : Shape) : Th → Bool
  | .wr pc _ => wHoldsMu sh pc
  | _ => false

def ePcHoldsC : EPc → Bool
  | .hasC | .wrote => true
  | _ => false

def Th.holdsC : Th → Bool
  | .rd pc _ => rHoldsC pc
  | .wr pc _ => wHoldsC pc
  | .ev pc => ePcHoldsC pc
  | .fp _ => false
  | .idle => false

/-- outside a call -/
def Th.finished : Th → Bool
  | .idle => true
  | .rd .done _ => true
  | .wr .done _ => true
  | .ev .done => true
  | .fp (some _) => true
  | _ => false

/-- a writer between its assignment to `_kv[k]` and its assignment to `_cache[k]` -/
def Th.mid : Th → Bool
  | .wr .wroteKv _ => true
  | .wr .hasC _ => true
  | _ => false

structure St where
  n : Nat               -- number of threads
  kv : Option Ent       -- `_kv[k]` with `_expiry[k]`
  cache : Option Ent    -- `_cache[k]`
  lin : Option Ent      -- ghost: the value of `k` in the linearization
  th : Nat → Th         -- thread `i < n`

def St.noX (sh : Shape) (s : St) : Bool := (List.range s.n).all fun j => !(s.th j).holdsX sh
def St.noS (sh : Shape) (s : St) : Bool := (List.range s.n).all fun j => !(s.th j).holdsS sh
def St.noC (s : St) : Bool := (List.range s.n).all fun j => !(s.th j).holdsC

/-- thread `i` becomes `t`; `_kv[k]`, `_cache[k]` and the ghost become `kv`, `cache`, `lin` -/
def St.put (s : St) (i : Nat) (t : Th) (kv cache lin : Option Ent) : St :=
  { s with kv := kv, cache := cache, lin := lin, th := fun j => if j = i then t else s.th j }

def St.setTh (s : St) (i : Nat) (t : Th) : St := s.put i t s.kv s.cache s.lin

/-- the next step of a reader (same relation as `Race.stepR`): new thread state, `_cache[k]` -/
def nextR (sh : Shape) (fresh : Bool) (s : St) (pc : RPc) (tmp : Option Ent) : Option (Th × Option Ent) :=
  match pc with
  | .start => if s.noX sh then some (.rd .hasS tmp, s.cache) else none
  | .hasS =>
    match s.kv with
    | none => some (.rd .done tmp, s.cache)
    | some e => if fresh then some (.rd .loaded (some e), s.cache) else some (.rd .done tmp, s.cache)
  | .loaded =>
    if sh.refillUnderStoreLock then (if s.noC then some (.rd .hasC tmp, s.cache) else none) else some (.rd .released tmp, s.cache)
  | .released => if s.noC then some (.rd .hasC tmp, s.cache) else none
  | .hasC => some (.rd .wrote tmp, tmp)
  | .wrote => some (.rd .relC tmp, s.cache)
  | .relC => some (.rd .done tmp, s.cache)
  | .done => none

/-- the next step of a writer (same relation as `Race.stepW`): new thread state, `_kv[k]`, `_cache[k]`, ghost -/
def nextW (sh : Shape) (s : St) (pc : WPc) (o : WOp) : Option (Th × Option Ent × Option Ent × Option Ent) :=
  match pc with
  | .start => if s.noX sh && s.noS sh then some (.wr .hasX o, s.kv, s.cache, s.lin) else none
  | .hasX => some (.wr .wroteKv o, o.kv, s.cache, s.lin)
  | .wroteKv =>
    if sh.writerCacheUnderStoreLock then (if s.noC then some (.wr .hasC o, s.kv, s.cache, s.lin) else none)
    else some (.wr .released o, s.kv, s.cache, s.lin)
  | .released => if s.noC then some (.wr .hasC o, s.kv, s.cache, s.lin) else none
  | .hasC => some (.wr .wroteC o, s.kv, o.cache, o.kv)
  | .wroteC => some (.wr .relC o, s.kv, s.cache, s.lin)
  | .relC => some (.wr .done o, s.kv, s.cache, s.lin)
  | .done => none

def nextE (s : St) (pc : EPc) : Option (Th × Option Ent) :=
  match pc with
  | .start => if s.noC then some (.ev .hasC, s.cache) else none
  | .hasC => some (.ev .wrote, none)
  | .wrote => some (.ev .done, s.cache)
  | .done => none

/-- thread `i` is given the processor -/
def stepTh (sh : Shape) (fresh : Bool) (s : St) (i : Nat) : St :=
  match s.th i with
  | .idle => s
  | .rd pc tmp =>
    match nextR sh fresh s pc tmp with
    | some (t, c) => s.put i t s.kv c s.lin
    | none => s
  | .wr pc o =>
    match nextW sh s pc o with
    | some (t, kv, c, l) => s.put i t kv c l
    | none => s
  | .ev pc =>
    match nextE s pc with
    | some (t, c) => s.put i t s.kv c s.lin
    | none => s
  | .fp ret =>
    match ret with
    | none => if s.noC then s.setTh i (.fp (some s.cache)) else s
    | some _ => s

inductive Call
  /-- the fast path of `get(k)` -/
  | fast
  /-- the rest of `get(k)` after a missed fast path -/
  | get
  | write (o : WOp)
  | evict

def Call.start : Call → Th
  | .fast => .fp none
  | .get => .rd .start none
  | .write o => .wr .start o
  | .evict => .ev .start

inductive Act
  /-- thread `i` makes its next step; `fresh` = outcome of its expiry test, if that is the step -/
  | move (i : Nat) (fresh : Bool)
  /-- thread `i`, outside a call, starts a call -/
  | call (i : Nat) (c : Call)

/-- the writers that occur are writers of `kvstore.hpp`: the cache entry is erased or set to what was stored -/
def Act.OK : Act → Prop
  | .call _ (.write o) => o.OK
  | _ => True

def apply (sh : Shape) (s : St) : Act → St
  | .move i fresh => if i < s.n then stepTh sh fresh s i else s
  | .call i c => if i < s.n ∧ (s.th i).finished = true then s.setTh i c.start else s

def run (sh : Shape) (s : St) (sched : List Act) : St := sched.foldl (apply sh) s

/-- `n` threads, none inside a call -/
def St.init (n : Nat) (kv cache : Option Ent) : St := { n := n, kv := kv, cache := cache, lin := kv, th := fun _ => .idle }

def St.Coherent (s : St) : Prop := s.cache = none ∨ s.cache = s.kv

end Iora.Kv.RaceN
