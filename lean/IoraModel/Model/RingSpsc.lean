import IoraModel.Gen.Orders
/-!
# SPSC interleaving model of the ring buffers with release/acquire views (DESIGN §6.4, §7 C10: R2, R3)

One producer (`tryPush`, `tryPushBatch`) and one consumer (`tryPop`, `tryPopBatch`, `peek`) run arbitrary programs; a
schedule is a list of `Act`s and EVERY atomic access and EVERY plain slot access is one step:

* producer: `pLoad v` (loads `_head` — its own counter, exact — and `_tail`, obtaining `v`), then one `pWrite` per slot
  (`_buffer[(head + k) & mask] = items[k]`), then `pStore` (`_head.store(head + n)`, return `n`);
* consumer: `qLoad v`, one `qRead` per slot, `qStore` (`_tail.store(tail + n)`; `peek` stores nothing).

Memory model (the fragment of C++11 the ring uses: two single-writer monotone counters, loads and stores only, no RMW, no
fences — a modelling assumption, not derived from the standard):
a load of the other thread's counter may return ANY value between the newest one this thread has already seen
(coherence) and the latest one (`pLoad v` with `pSeen ≤ v ≤ tail`): stale reads are allowed, also for acquire loads.
A release store of value `v` publishes the writer's slot accesses made so far (for `_tail = v`: all reads of indices `< v`;
for `_head = v`: all writes of indices `< v`); an acquire load reading `v` from a release store joins that:
`pKq` = "consumer reads of indices `< pKq` happen-before the producer's next action", `qKp` symmetric.  A relaxed load,
or a load from a relaxed store, joins nothing.  With two threads a vector clock collapses to these two numbers.
A *race* is a plain slot access that conflicts (same slot `i % C`, at least one write) with an earlier access of the other
thread that is not ordered before it.

Counters are naturals here: overflow of the 64-bit counters is excluded by hypothesis (see `Model/RingBuffer.lean`, R1).
-/
namespace Iora.Spsc

abbrev Val := Nat

/-- memory orders that matter, as booleans taken from the source by the translator -/
structure Cfg where
  /-- capacity (a power of two in the code; the proofs need only `0 < C`) -/
  C : Nat
  /-- the producer's loads of `_tail` are acquire (or stronger) in every producer method -/
  pAcq : Bool
  /-- the consumer's loads of `_head` are acquire -/
  qAcq : Bool
  /-- the producer's stores of `_head` are release -/
  pRel : Bool
  /-- the consumer's stores of `_tail` are release -/
  qRel : Bool

inductive POp
  | push (x : Val)
  | pushBatch (xs : List Val)
  deriving DecidableEq, Repr

inductive QOp
  | pop
  | popBatch (n : Nat)
  | peek
  deriving DecidableEq, Repr

def POp.items : POp → List Val
  | .push x => [x]
  | .pushBatch xs => xs

/-- how many items the producer decides to write after reading `tail = ts` (mirrors `tryPush`: `head - tail >= Capacity`
→ 0 else 1; `tryPushBatch`: `min(count, Capacity - (head - tail))`) -/
def POp.count (c : Nat) (head ts : Nat) : POp → Nat
  | .push _ => if head - ts ≥ c then 0 else 1
  | .pushBatch xs => min xs.length (c - (head - ts))

/-- how many items the consumer decides to read after reading `head = hs` (mirrors `tryPop`/`peek`: `tail >= head` → 0 else 1;
`tryPopBatch`: `min(maxCount, head - tail)`) -/
def QOp.count (tail hs : Nat) : QOp → Nat
  | .pop => if tail ≥ hs then 0 else 1
  | .peek => if tail ≥ hs then 0 else 1
  | .popBatch m => min m (hs - tail)

inductive PPc
  | idle
  /-- counters loaded (`ts` = value read for `_tail`), `n` items to write, `k` written so far -/
  | writing (ts n k : Nat)
  deriving DecidableEq, Repr

inductive QPc
  | idle
  /-- `hs` = value read for `_head`, `n` items to read, values read so far -/
  | reading (hs n : Nat) (got : List Val)
  deriving DecidableEq, Repr

structure S where
  head : Nat := 0
  tail : Nat := 0
  buf : Nat → Val := fun _ => 0
  pTodo : List POp
  pPc : PPc := .idle
  /-- results of the producer's completed calls (number pushed) -/
  pRets : List Nat := []
  qTodo : List QOp
  qPc : QPc := .idle
  /-- results of the consumer's completed calls (items returned) -/
  qRets : List (List Val) := []
  /-- newest `_tail` value the producer has read (coherence) -/
  pSeen : Nat := 0
  qSeen : Nat := 0
  /-- consumer reads of indices `< pKq` happen-before the producer's next action -/
  pKq : Nat := 0
  /-- producer writes of indices `< qKp` happen-before the consumer's next action -/
  qKp : Nat := 0
  /-- ghost: every value written into a slot, in index order (`hist[i]` = the value of index `i`) -/
  hist : List Val := []
  /-- ghost: every value accepted from the producer (published by a `_head` store), in order -/
  acc : List Val := []
  /-- ghost: every value handed to the consumer by `tryPop`/`tryPopBatch`, in order -/
  recv : List Val := []
  /-- ghost: one past the highest index the consumer has read -/
  rmax : Nat := 0

inductive Act
  | pLoad (v : Nat)
  | pWrite
  | pStore
  | qLoad (v : Nat)
  | qRead
  | qStore
  deriving DecidableEq, Repr

def upd (b : Nat → Val) (k : Nat) (x : Val) : Nat → Val := fun i => if i = k then x else b i

def step (c : Cfg) (s : S) : Act → S
  | .pLoad v =>
    match s.pPc, s.pTodo with
    | .idle, op :: _ =>
      if s.pSeen ≤ v ∧ v ≤ s.tail then
        { s with pPc := .writing v (op.count c.C s.head v) 0, pSeen := v,
                 pKq := if c.pAcq && c.qRel then max s.pKq v else s.pKq }
      else s
    | _, _ => s
  | .pWrite =>
    match s.pPc, s.pTodo with
    | .writing ts n k, op :: _ =>
      if k < n then
        match op.items[k]? with
        | some x => { s with buf := upd s.buf ((s.head + k) % c.C) x, hist := s.hist ++ [x], pPc := .writing ts n (k + 1) }
        | none => s
      else s
    | _, _ => s
  | .pStore =>
    match s.pPc, s.pTodo with
    | .writing _ n k, op :: rest =>
      if k = n then
        { s with head := s.head + n, acc := s.acc ++ op.items.take n, pRets := s.pRets ++ [n], pTodo := rest, pPc := .idle }
      else s
    | _, _ => s
  | .qLoad v =>
    match s.qPc, s.qTodo with
    | .idle, op :: _ =>
      if s.qSeen ≤ v ∧ v ≤ s.head then
        { s with qPc := .reading v (op.count s.tail v) [], qSeen := v,
                 qKp := if c.qAcq && c.pRel then max s.qKp v else s.qKp }
      else s
    | _, _ => s
  | .qRead =>
    match s.qPc with
    | .reading hs n got =>
      if got.length < n then
        { s with qPc := .reading hs n (got ++ [s.buf ((s.tail + got.length) % c.C)]), rmax := max s.rmax (s.tail + got.length + 1) }
      else s
    | .idle => s
  | .qStore =>
    match s.qPc, s.qTodo with
    | .reading _ n got, op :: rest =>
      if got.length = n then
        if op = .peek then { s with qRets := s.qRets ++ [got], qTodo := rest, qPc := .idle }
        else { s with tail := s.tail + n, recv := s.recv ++ got, qRets := s.qRets ++ [got], qTodo := rest, qPc := .idle }
      else s
    | _, _ => s

def run (c : Cfg) : S → List Act → S := List.foldl (step c)

/-! ### one call at a time with fresh reads (the sequential lockstep runs the real rings against THIS function too, so the
count formulas, the `% C` slot addressing and the data movement of the interleaving model are tied to the code, not only
its memory orders) -/

/-- the producer performs one call alone: load (fresh), its slot writes, store -/
def seqProducer (c : Cfg) (s : S) (op : POp) : S :=
  let s1 := step c { s with pTodo := [op] } (.pLoad s.tail)
  let n := match s1.pPc with | .writing _ n _ => n | .idle => 0
  let s2 := (List.range n).foldl (fun s _ => step c s .pWrite) s1
  step c s2 .pStore

/-- the consumer performs one call alone: load (fresh), its slot reads, store -/
def seqConsumer (c : Cfg) (s : S) (op : QOp) : S :=
  let s1 := step c { s with qTodo := [op] } (.qLoad s.head)
  let n := match s1.qPc with | .reading _ n _ => n | .idle => 0
  let s2 := (List.range n).foldl (fun s _ => step c s .qRead) s1
  step c s2 .qStore

/-- the producer's next slot write (index `head + k`) races with an earlier consumer read of the same slot that is not
ordered before it -/
def RaceP (c : Cfg) (s : S) : Prop :=
  ∃ ts n k, s.pPc = .writing ts n k ∧ k < n ∧ ∃ j, j < s.rmax ∧ j % c.C = (s.head + k) % c.C ∧ ¬ j < s.pKq

/-- the consumer's next slot read (index `tail + |got|`) races with an earlier producer write of the same slot that is
not ordered before it -/
def RaceQ (c : Cfg) (s : S) : Prop :=
  ∃ hs n got, s.qPc = .reading hs n got ∧ got.length < n ∧
    ∃ j, j < s.hist.length ∧ j % c.C = (s.tail + got.length) % c.C ∧ ¬ j < s.qKp

/-- performing `a` in state `s` is a racy plain access -/
def Racy (c : Cfg) (s : S) : Act → Prop
  | .pWrite => RaceP c s
  | .qRead => RaceQ c s
  | _ => False

def init (p : List POp) (q : List QOp) : S := { pTodo := p, qTodo := q }

/-- data-race freedom: no schedule of any pair of programs reaches a racy slot access -/
def DRF (c : Cfg) : Prop := ∀ (p : List POp) (q : List QOp) (as : List Act) (a : Act), ¬ Racy c (run c (init p q) as) a

/-! ## Memory orders from the translator -/

def isAcq (o : String) : Bool := o == "acquire" || o == "seq_cst"
def isRel (o : String) : Bool := o == "release" || o == "seq_cst"

def producerMethods : List String := ["tryPush#0", "tryPush#1", "tryPushBatch#0"]
def consumerMethods : List String := ["tryPop#0", "tryPopBatch#0", "peek#0"]
def classes : List String := ["RingBuffer", "DynamicRingBuffer"]

abbrev Orders := List (String × String × String × String × String)

/-- all events of one method, source order: (variable, kind, order) -/
def accessesOf (o : Orders) (cls m : String) : List (String × String × String) :=
  (o.filter (fun r => r.1 == cls && r.2.1 == m)).map (fun r => r.2.2)

/-- the atomic accesses (counters only) of one method -/
def counterAccessesOf (o : Orders) (cls m : String) : List (String × String × String) :=
  (accessesOf o cls m).filter (fun a => a.1 != "_buffer")

/-- a producer method reads `_head` (any order), reads `_tail` with acquire, stores only `_head`, with release -/
def producerOk (acc : List (String × String × String)) : Bool :=
  acc.any (fun a => a.1 == "_tail" && a.2.1 == "load") &&
  acc.any (fun a => a.1 == "_head" && a.2.1 == "store") &&
  acc.all (fun a =>
    if a.2.1 == "load" then (if a.1 == "_tail" then isAcq a.2.2 else true)
    else a.1 == "_head" && isRel a.2.2)

/-- a consumer method reads `_tail` (any order), reads `_head` with acquire, stores only `_tail`, with release -/
def consumerOk (acc : List (String × String × String)) (mayStore : Bool) : Bool :=
  acc.any (fun a => a.1 == "_head" && a.2.1 == "load") &&
  acc.all (fun a =>
    if a.2.1 == "load" then (if a.1 == "_head" then isAcq a.2.2 else true)
    else mayStore && a.1 == "_tail" && isRel a.2.2)

def countersOK (o : Orders) : Bool :=
  classes.all (fun cls =>
    producerMethods.all (fun m => producerOk (counterAccessesOf o cls m)) &&
    consumerMethods.all (fun m => consumerOk (counterAccessesOf o cls m) (m != "peek#0")) &&
    (counterAccessesOf o cls "tryPop#0").any (fun a => a.1 == "_tail" && a.2.1 == "store") &&
    (counterAccessesOf o cls "tryPopBatch#0").any (fun a => a.1 == "_tail" && a.2.1 == "store"))

/-! ### exact event shape of every method (what makes the step order of the interleaving model the code's order) -/

/-- requirement on the order of one event -/
inductive Req | any | acq | rel | plain deriving DecidableEq

def reqOk : Req → String → Bool
  | .any, o => o != "plain"
  | .acq, o => isAcq o
  | .rel, o => isRel o
  | .plain, o => o == "plain"

/-- producer: load own counter, load the other counter (acquire), WRITE the slot(s), then publish with one release store -/
def shapeProducer : List (String × String × Req) :=
  [("_head", "load", .any), ("_tail", "load", .acq), ("_buffer", "write", .plain), ("_head", "store", .rel)]
/-- consumer: load own counter, load the other counter (acquire), READ the slot(s), then release them with one store -/
def shapeConsumer : List (String × String × Req) :=
  [("_tail", "load", .any), ("_head", "load", .acq), ("_buffer", "read", .plain), ("_tail", "store", .rel)]
def shapePeek : List (String × String × Req) :=
  [("_tail", "load", .any), ("_head", "load", .acq), ("_buffer", "read", .plain)]
def shapeSize : List (String × String × Req) := [("_head", "load", .any), ("_tail", "load", .any)]
def shapeClear : List (String × String × Req) := [("_head", "store", .any), ("_tail", "store", .any)]
def shapeResize : List (String × String × Req) :=
  [("_tail", "load", .any), ("_head", "load", .any), ("_buffer", "read", .plain), ("_buffer", "assign", .plain),
   ("_tail", "store", .any), ("_head", "store", .any)]

/-- the methods of a class and the exact sequence of events each must consist of -/
def methodShapes (cls : String) : List (String × List (String × String × Req)) :=
  [("tryPush#0", shapeProducer), ("tryPush#1", shapeProducer), ("tryPop#0", shapeConsumer), ("peek#0", shapePeek),
   ("tryPushBatch#0", shapeProducer), ("tryPopBatch#0", shapeConsumer), ("size#0", shapeSize), ("clear#0", shapeClear)] ++
  (if cls == "DynamicRingBuffer" then [("resize#0", shapeResize)] else [])

def matchesShape : List (String × String × String) → List (String × String × Req) → Bool
  | [], [] => true
  | a :: as, e :: es => a.1 == e.1 && a.2.1 == e.2.1 && reqOk e.2.2 a.2.2 && matchesShape as es
  | _, _ => false

/-- every method consists of exactly its expected events in exactly that order, and there are no rows of other methods or classes -/
def shapeOK (o : Orders) : Bool :=
  classes.all (fun cls => (methodShapes cls).all (fun ms => matchesShape (accessesOf o cls ms.1) ms.2)) &&
  o.all (fun r => classes.any (fun cls => r.1 == cls && (methodShapes cls).any (fun ms => ms.1 == r.2.1)))

def ordersOK (o : Orders) : Bool := countersOK o && shapeOK o

/-- the accesses of the source are the modelled ones: every cross-thread counter load is acquire, every counter store in a
producer/consumer method is release, each counter has one writer, and every method is exactly "counter loads, slot
accesses, one store" in that source order (so publishing before the slot write, or releasing before the slot read, is
rejected) -/
def OrdersOK (o : Orders) : Prop := ordersOK o = true
instance (o : Orders) : Decidable (OrdersOK o) := inferInstanceAs (Decidable (_ = _))

def allOf (o : Orders) (ms : List String) (var acc : String) (p : String → Bool) : Bool :=
  classes.all (fun cls => ms.all (fun m => (counterAccessesOf o cls m).all (fun a => if a.1 == var && a.2.1 == acc then p a.2.2 else true)))

/-- configuration of the view model determined by the extracted orders (the weakest order over all methods of both classes) -/
def cfgOf (o : Orders) (C : Nat) : Cfg :=
  { C := C
    pAcq := allOf o producerMethods "_tail" "load" isAcq
    qAcq := allOf o consumerMethods "_head" "load" isAcq
    pRel := allOf o producerMethods "_head" "store" isRel
    qRel := allOf o consumerMethods "_tail" "store" isRel }

end Iora.Spsc
