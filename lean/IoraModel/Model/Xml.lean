import IoraModel.Common.Bytes
import IoraModel.Gen.Xml
/-!
Model of `include/iora/parsers/xml.hpp`: the pull tokenizer `Parser::next` with all its readers, the entity decoder
(`decodeEntities / appendCharRef / encodeUtf8`), the SAX runner and `DomBuilder::build`.

Representation.  The C++ parser holds `_input` (a `string_view`) and an index `_cur`; every read is `_input[_cur]` or
`_input[pos]` for a look-ahead index `pos ≥ _cur`.  The model's cursor `Cur` carries the index `pos` *and* the suffix
`rest` of the input that starts there (`Cur.At bs c : c.rest = bs.drop c.pos`, proved to be an invariant in
`Lemmas/Xml.lean`), so that the byte under the cursor is `rest.head?` (`= bs[pos]?`, lemma `Cur.peek_eq_get`).
A read where nothing is left is the explicit outcome `oob` — no default byte is ever substituted; that `oob` is
unreachable is theorem X2.  Loops of the form `while (!eof() && p(peek())) advance();` are split into a pure scan of `rest`
(how far the loop runs) and `advN` (the `advance()` calls, which do the line/column accounting and *are* the reads).
Slices (`string_view`s into the input) are `(offset, length)` pairs.
Line and column are modelled as `Nat`, the limits in `Options` as `Nat` (assumption: the input is shorter than 2^31
bytes, so neither `size_t` arithmetic nor the `int bracket` counter of `readDoctype` wraps).
-/
namespace Iora.Xml
open Iora

/-! ### vocabulary -/

/-- a `std::string_view` into the input: `(data() - input.data(), size())` -/
structure Slice where
  off : Nat
  len : Nat
  deriving DecidableEq, Repr, Inhabited

/-- the bytes a slice denotes -/
def Slice.bytes (bs : Bytes) (s : Slice) : Bytes := (bs.drop s.off).take s.len

/-- mirrors `enum class TokenKind` (values tied to the source by `Gen.Xml.tokenKinds`, see `Props/C14.lean`) -/
inductive Kind where
  | invalid | eof | xmlDecl | doctype | startElement | endElement | emptyElement | text | cdata | comment | pi
  deriving DecidableEq, Repr, Inhabited

def Kind.toNat : Kind → Nat
  | .invalid => 0 | .eof => 1 | .xmlDecl => 2 | .doctype => 3 | .startElement => 4 | .endElement => 5
  | .emptyElement => 6 | .text => 7 | .cdata => 8 | .comment => 9 | .pi => 10

def Kind.cxxName : Kind → String
  | .invalid => "Invalid" | .eof => "Eof" | .xmlDecl => "XmlDecl" | .doctype => "Doctype"
  | .startElement => "StartElement" | .endElement => "EndElement" | .emptyElement => "EmptyElement"
  | .text => "Text" | .cdata => "CData" | .comment => "Comment" | .pi => "ProcessingInstruction"

def Kind.all : List Kind :=
  [.invalid, .eof, .xmlDecl, .doctype, .startElement, .endElement, .emptyElement, .text, .cdata, .comment, .pi]

/-- mirrors `struct Options` (the two boolean members are read nowhere in the header: `Gen.Xml.unusedOptionFields`) -/
structure Options where
  maxDepth : Nat := Gen.Xml.defaultMaxDepth
  maxAttrs : Nat := Gen.Xml.defaultMaxAttrsPerElement
  maxName : Nat := Gen.Xml.defaultMaxNameLength
  maxText : Nat := Gen.Xml.defaultMaxTextSpan
  maxTokens : Nat := Gen.Xml.defaultMaxTotalTokens
  /-- the compile-time switch `IORA_XML_THROW_ON_ERROR` (default `Gen.Xml.throwOnErrorDefault` = 0): `fail()` throws
  `std::runtime_error` after recording the error instead of returning `false`.  Not a member of the C++ struct; carried here so that
  both builds are one model.  The only place where the two builds differ observably is `readName` (see there). -/
  throwing : Bool := Gen.Xml.throwOnErrorDefault != 0
  deriving Repr

/-- every message `fail()` / an `Error` can carry, as a small enum -/
inductive ErrKind where
  | tokenLimit | eofAfterLt | badDecl | nameTooLong | expectedQuote | expectedQuoteChar | unterminatedAttr
  | attrTooLong | eofInAttrs | badAttrName | expectedEq | tooManyAttrs | badPiTarget | unterminatedPi
  | unterminatedComment | unterminatedCData | unterminatedDoctype | badEndName | expectedGtEnd | strayEnd
  | badStartName | expectedGtStart | depthExceeded | textTooLarge | mismatch | unclosed
  | unterminatedEntity | badCharRef | unknownEntity | domUnbalancedEnd | domUnclosed
  deriving DecidableEq, Repr, Inhabited

/-- the message text in the header (prefix for the two composed messages) -/
def ErrKind.message : ErrKind → String
  | .tokenLimit => "token limit exceeded"
  | .eofAfterLt => "unexpected end after '<'"
  | .badDecl => "unsupported markup declaration"
  | .nameTooLong => "name too long"
  | .expectedQuote => "expected quote"
  | .expectedQuoteChar => "expected '\"' or ''' for attribute value"
  | .unterminatedAttr => "unterminated attribute value"
  | .attrTooLong => "attribute value too long"
  | .eofInAttrs => "unexpected end in attributes"
  | .badAttrName => "invalid attribute name"
  | .expectedEq => "expected '=' after attribute name"
  | .tooManyAttrs => "too many attributes"
  | .badPiTarget => "invalid PI target"
  | .unterminatedPi => "unterminated processing instruction"
  | .unterminatedComment => "unterminated comment"
  | .unterminatedCData => "unterminated CDATA"
  | .unterminatedDoctype => "unterminated doctype"
  | .badEndName => "invalid end tag name"
  | .expectedGtEnd => "expected '>' after end tag name"
  | .strayEnd => "end tag without matching start tag"
  | .badStartName => "invalid start tag name"
  | .expectedGtStart => "expected '>' to end start tag"
  | .depthExceeded => "maximum element depth exceeded"
  | .textTooLarge => "text span too large"
  | .mismatch => "mismatched end tag - expected </"
  | .unclosed => "unclosed elements at end of document: "
  | .unterminatedEntity => "unterminated entity"
  | .badCharRef => "invalid character reference"
  | .unknownEntity => "unknown entity"
  | .domUnbalancedEnd => "unbalanced end element"
  | .domUnclosed => "unclosed elements at end of document"

def ErrKind.all : List ErrKind :=
  [.tokenLimit, .eofAfterLt, .badDecl, .nameTooLong, .expectedQuote, .expectedQuoteChar, .unterminatedAttr,
   .attrTooLong, .eofInAttrs, .badAttrName, .expectedEq, .tooManyAttrs, .badPiTarget, .unterminatedPi,
   .unterminatedComment, .unterminatedCData, .unterminatedDoctype, .badEndName, .expectedGtEnd, .strayEnd,
   .badStartName, .expectedGtStart, .depthExceeded, .textTooLarge, .mismatch, .unclosed,
   .unterminatedEntity, .badCharRef, .unknownEntity, .domUnbalancedEnd, .domUnclosed]

/-- mirrors `struct Attribute` -/
structure Attr where
  name : Slice
  value : Slice
  deriving DecidableEq, Repr

/-- mirrors `struct Token`.  A default-constructed `string_view` is `⟨0, 0⟩`; which of `name`/`text` a kind sets is
`Kind.hasName` / `Kind.hasText`. -/
structure Token where
  kind : Kind := .invalid
  name : Slice := ⟨0, 0⟩
  text : Slice := ⟨0, 0⟩
  attrs : List Attr := []
  selfClosing : Bool := false
  depth : Nat := 0
  offset : Nat := 0
  line : Nat := 1
  column : Nat := 1
  deriving DecidableEq, Repr

def Kind.hasName : Kind → Bool
  | .startElement | .endElement | .emptyElement | .pi => true
  | _ => false
def Kind.hasText : Kind → Bool
  | .text | .cdata | .comment | .pi | .doctype => true
  | _ => false

/-! ### cursor -/

/-- `_cur`, `_line`, `_col` and the not yet consumed suffix of `_input` -/
structure Cur where
  pos : Nat
  line : Nat
  col : Nat
  rest : Bytes
  deriving DecidableEq, Repr

/-- the cursor a freshly constructed `Parser` has -/
def Cur.init (bs : Bytes) : Cur := ⟨0, 1, 1, bs⟩

/-- the cursor invariant: `rest` is the input from `pos` on -/
def Cur.At (bs : Bytes) (c : Cur) : Prop := c.pos ≤ bs.length ∧ c.rest = bs.drop c.pos

/-- mirrors `eof()` -/
def Cur.eof (c : Cur) : Bool := c.rest.isEmpty

/-- mirrors `get()` / `advance()`: one read of `_input[_cur++]` with the line/column update; `none` = out-of-range read -/
def Cur.adv (c : Cur) : Option Cur :=
  match c.rest with
  | [] => none
  | ch :: r => some (if ch = 10 then ⟨c.pos + 1, c.line + 1, 1, r⟩ else ⟨c.pos + 1, c.line, c.col + 1, r⟩)

/-- `k` calls of `advance()` -/
def advN : Nat → Cur → Option Cur
  | 0, c => some c
  | k + 1, c =>
    match c.adv with
    | none => none
    | some c' => advN k c'

/-- outcome of a reader: a value and the cursor after it; `fail(msg)` (with the cursor `fail` records);
or an out-of-range read / exhausted loop budget, which Lemmas show never happen -/
inductive Bad where
  | oob | fuel | dead
  deriving DecidableEq, Repr

inductive Res (α : Type) where
  | ok (a : α) (c : Cur)
  | fail (e : ErrKind) (c : Cur)
  | bad (b : Bad)
  deriving Repr

def Res.bind {α β : Type} (r : Res α) (k : α → Cur → Res β) : Res β :=
  match r with
  | .ok a c => k a c
  | .fail e c => .fail e c
  | .bad b => .bad b

/-- `k` × `advance()` as a reader -/
def advR (k : Nat) (c : Cur) : Res Unit :=
  match advN k c with
  | none => .bad .oob
  | some c' => .ok () c'

/-! ### character classes and scans -/

/-- the white-space test of `skipSpaces` / `skipWhitespaceOutsideText` / `matchWordCaseInsensitive` -/
def isSpace (ch : UInt8) : Bool := ch = 0x20 || ch = 0x09 || ch = 0x0D || ch = 0x0A

/-- mirrors `isNameStart` (`char` is signed in the build: bytes ≥ 0x80 fail every range test, as they do here) -/
def isNameStart (ch : UInt8) : Bool :=
  ch = 0x3A || ch = 0x5F || (0x41 ≤ ch && ch ≤ 0x5A) || (0x61 ≤ ch && ch ≤ 0x7A)

/-- mirrors `isNameChar` -/
def isNameChar (ch : UInt8) : Bool :=
  isNameStart ch || ch = 0x2D || ch = 0x2E || (0x30 ≤ ch && ch ≤ 0x39)

/-- is `pat` a prefix of `r` (the comparison loops of `matchString`, `string_view::compare(pos, n, s) == 0`) -/
def startsWith : Bytes → Bytes → Bool
  | [], _ => true
  | _ :: _, [] => false
  | p :: ps, x :: xs => p = x && startsWith ps xs

/-- index of the first occurrence of `pat` in `r` (`readUntil`'s search loop, `_input.find("?>", _cur)`);
`none` when the scan index reaches the end -/
def findSub (pat : Bytes) : Bytes → Option Nat
  | [] => none
  | ch :: r =>
    if startsWith pat (ch :: r) then some 0
    else match findSub pat r with
      | none => none
      | some k => some (k + 1)

/-- index of the first byte equal to `b` (`string_view::find(';', i + 1)`) -/
def findByte (b : UInt8) : Bytes → Option Nat
  | [] => none
  | ch :: r =>
    if ch = b then some 0
    else match findByte b r with
      | none => none
      | some k => some (k + 1)

/-! ### reads and guards

Every access to the input is one of the partial functions below; `none` is an index `≥ size`, i.e. an out-of-range read, and every
caller turns it into the outcome `bad oob`.  The guards are the C++ comparisons with `_input.size()`.  Under the cursor invariant
`Cur.At bs c` they are literally `bs[c.pos + i]?` and `c.pos + i ≥ bs.length` (`Cur.at_eq_get`, `Cur.beyond_iff` in
`Lemmas/XmlExplicit.lean`).  The table of read sites with their dominating guards, regenerated from the header, is
`Gen.Xml.readSites`; `readSites` below is what this file implements, and `Props/C14.lean` proves the two equal. -/

/-- `peek()` = `_input[_cur]` -/
def Cur.peek (c : Cur) : Option UInt8 := c.rest.head?

/-- `_input[_cur + i]` -/
def Cur.at (c : Cur) (i : Nat) : Option UInt8 := c.rest[i]?

/-- `_cur + i >= _input.size()` -/
def Cur.beyond (c : Cur) (i : Nat) : Bool := (c.rest.drop i).isEmpty

/-- a look-ahead index `pos ≥ _cur` (`p` in `skipWhitespaceOutsideText`, `pos` in `readUntil` and `readDoctype`): its distance from
`_cur`, and the input from there on -/
structure Look where
  off : Nat
  rest : Bytes
  deriving Repr

/-- `pos = _cur` -/
def Look.start (c : Cur) : Look := ⟨0, c.rest⟩
/-- `pos >= _input.size()` -/
def Look.atEnd (l : Look) : Bool := l.rest.isEmpty
/-- `_input[pos]` -/
def Look.read (l : Look) : Option UInt8 := l.rest.head?
/-- `++pos` -/
def Look.next (l : Look) : Look := ⟨l.off + 1, l.rest.tail⟩

/-- `_input.find(pat, _cur)` (library call, bounds-safe by contract): index of the first occurrence relative to `_cur` -/
def findFrom (pat : Bytes) : Nat → Bytes → Option Nat
  | _, [] => none
  | i, ch :: r => if startsWith pat (ch :: r) then some i else findFrom pat (i + 1) r

/-- `while (!eof() && p(peek())) advance();` — the shape of the loops in `skipSpaces`, `readName` and `readQuotedValue`.
`fuel` is any list at least as long as the remaining input (the callers pass the remaining input itself). -/
def advWhile (p : UInt8 → Bool) : Bytes → Cur → Res Unit
  | fuel, c =>
    if c.eof then .ok () c                       -- `!eof()`
    else
      match c.peek with                          -- `peek()`
      | none => .bad .oob
      | some ch =>
        if p ch then
          match fuel with
          | [] => .bad .fuel
          | _ :: fuel' =>
            match c.adv with                     -- `advance()`
            | none => .bad .oob
            | some c' => advWhile p fuel' c'
        else .ok () c

/-- mirrors `skipSpaces` -/
def skipSpaces (c : Cur) : Res Unit := advWhile isSpace c.rest c

/-- the scan loop of `skipWhitespaceOutsideText` (as repaired): `while (p < size) { ch = _input[p]; if (space) { ++p; continue; } break; }` -/
def wsScan : Bytes → Look → Except Bad Look
  | fuel, p =>
    if p.atEnd then .ok p                        -- `p < _input.size()`
    else
      match p.read with                          -- `_input[p]`
      | none => .error .oob
      | some ch =>
        if isSpace ch then
          match fuel with
          | [] => .error .fuel
          | _ :: fuel' => wsScan fuel' p.next
        else .ok p

/-- mirrors `skipWhitespaceOutsideText` **as repaired (F29)**: look ahead over the white space; consume it only when markup
(`<`) or the end of input follows.  (The unrepaired function consumed it unconditionally, i.e. was `skipSpaces`.) -/
def skipWhitespaceOutsideText (c : Cur) : Res Unit :=
  match wsScan c.rest (Look.start c) with
  | .error b => .bad b
  | .ok p =>
    -- `if (p < _input.size() && _input[p] != '<') return;`
    if p.atEnd then advR p.off c                 -- `while (_cur < p) advance();`
    else
      match p.read with
      | none => .bad .oob
      | some ch => if ch ≠ 0x3C then .ok () c else advR p.off c

/-- the comparison loop of `matchString`: `if (_cur + i >= size) return false; if (_input[_cur + i] != s[i]) return false; ++i;` -/
def matchLoop (c : Cur) : Bytes → Nat → Except Bad Bool
  | [], _ => .ok true
  | x :: xs, i =>
    if c.beyond i then .ok false                 -- `_cur + i >= _input.size()`
    else
      match c.at i with                          -- `_input[_cur + i]`
      | none => .error .oob
      | some ch => if ch ≠ x then .ok false else matchLoop c xs (i + 1)

/-- mirrors `matchString(s)`: on a match the cursor moves over `s` (`for (j < i) advance();`) -/
def matchString (s : Bytes) (c : Cur) : Res Bool :=
  match matchLoop c s 0 with
  | .error b => .bad b
  | .ok false => .ok false c
  | .ok true => (advR s.length c).bind fun _ c' => .ok true c'

/-- `a - 'A' + 'a'` for `'A'..'Z'` -/
def lowerAscii (ch : UInt8) : UInt8 := if 0x41 ≤ ch && ch ≤ 0x5A then ch + 32 else ch

/-- the comparison loop of `matchWordCaseInsensitive`: `if (pos + i >= size) return false; a = _input[pos + i]; …` -/
def matchLoopCI (c : Cur) : Bytes → Nat → Except Bad Bool
  | [], _ => .ok true
  | x :: xs, i =>
    if c.beyond i then .ok false                 -- `pos + i >= _input.size()`
    else
      match c.at i with                          -- `_input[pos + i]`
      | none => .error .oob
      | some ch => if lowerAscii ch ≠ lowerAscii x then .ok false else matchLoopCI c xs (i + 1)

/-- mirrors `matchWordCaseInsensitive(s)`: the word, then a boundary byte — white space, `>` or `[`;
`next = (pos + i < size ? _input[pos + i] : '\0')` -/
def matchWordCI (w : Bytes) (c : Cur) : Res Bool :=
  match matchLoopCI c w 0 with
  | .error b => .bad b
  | .ok false => .ok false c
  | .ok true =>
    let nx : Option UInt8 :=
      if c.beyond w.length then some 0           -- `pos + i < _input.size() ? … : '\0'`
      else c.at w.length                         -- `_input[pos + i]`
    match nx with
    | none => .bad .oob
    | some nx =>
      if isSpace nx || nx = 0x3E || nx = 0x5B then (advR w.length c).bind fun _ c' => .ok true c'
      else .ok false c

/-- mirrors `readName`: `none` is the empty view.  When the name is longer than `maxNameLength` the code calls
`fail("name too long")` and returns the empty view; every caller then calls `fail` again with its own message at the same cursor,
so only the cursor (after the over-long name) is observable — unless the build throws (`o.throwing`): then that first `fail` ends
the call and "name too long" IS the reported error. -/
def readName (o : Options) (c : Cur) : Res (Option Slice) :=
  if c.eof then .ok none c                       -- `eof() ||`
  else
    match c.peek with                            -- `!isNameStart(peek())`
    | none => .bad .oob
    | some ch =>
      if !isNameStart ch then .ok none c
      else
        (advR 1 c).bind fun _ c0 =>              -- `advance();`
        (advWhile isNameChar c0.rest c0).bind fun _ c' =>   -- `while (!eof() && isNameChar(peek())) advance();`
          let len := c'.pos - c.pos
          if len > o.maxName then (if o.throwing then .fail .nameTooLong c' else .ok none c') else .ok (some ⟨c.pos, len⟩) c'

/-- the search loop of `readUntil`: `if (pos >= size) return false; if (_input.compare(pos, n, endSeq) == 0) …; ch = _input[pos++];`
(`compare` is a library call that clamps to the end) — `none` = returned false -/
def untilScan (endSeq : Bytes) : Bytes → Look → Except Bad (Option Look)
  | fuel, l =>
    if l.atEnd then .ok none                     -- `pos >= _input.size()`
    else if startsWith endSeq l.rest then .ok (some l)
    else
      match l.read with                          -- `_input[pos++]`
      | none => .error .oob
      | some _ =>
        match fuel with
        | [] => .error .fuel
        | _ :: fuel' => untilScan endSeq fuel' l.next

/-- mirrors `readUntil(endSeq, start, len)`: `none` = returned false (cursor untouched) -/
def readUntil (endSeq : Bytes) (c : Cur) : Res (Option Slice) :=
  match untilScan endSeq c.rest (Look.start c) with
  | .error b => .bad b
  | .ok none => .ok none c
  | .ok (some l) =>                              -- `while (_cur < pos + endSeq.size()) advance();`
    (advR (l.off + endSeq.length) c).bind fun _ c' => .ok (some ⟨c.pos, l.off⟩) c'

/-- mirrors `readQuotedValue` -/
def readQuotedValue (o : Options) (c : Cur) : Res Slice :=
  if c.eof then .fail .expectedQuote c           -- `if (eof())`
  else
    match c.peek with                            -- `char quote = peek();`
    | none => .bad .oob
    | some q =>
      if q ≠ 0x22 && q ≠ 0x27 then .fail .expectedQuoteChar c
      else
        (advR 1 c).bind fun _ c0 =>
        (advWhile (fun x => x ≠ q) c0.rest c0).bind fun _ c1 =>   -- `while (!eof() && peek() != quote) advance();`
          if c1.eof then .fail .unterminatedAttr c1
          else
            (advR 1 c1).bind fun _ c2 =>
              let out : Slice := ⟨c0.pos, c1.pos - c0.pos⟩
              if out.len > o.maxText then .fail .attrTooLong c2 else .ok out c2

/-- mirrors `readAttributes` (`fuel` bounds the `while (true)`: each round consumes at least the attribute name, so any list longer
than the remaining input suffices) -/
def readAttributes (o : Options) : Bytes → List Attr → Cur → Res (List Attr)
  | [], _, _ => .bad .fuel
  | _ :: fuel, acc, c =>
    (skipSpaces c).bind fun _ c1 =>
      if c1.eof then .fail .eofInAttrs c1        -- `if (eof())`
      else
        match c1.peek with                       -- `char ch = peek();`
        | none => .bad .oob
        | some ch =>
          if ch = 0x2F || ch = 0x3E then .ok acc c1
          else
            (readName o c1).bind fun name c2 =>
              match name with
              | none => .fail .badAttrName c2
              | some nm =>
                (skipSpaces c2).bind fun _ c3 =>
                  if c3.eof then .fail .expectedEq c3          -- `eof() ||`
                  else
                    match c3.peek with                         -- `peek() != '='`
                    | none => .bad .oob
                    | some e =>
                      if e ≠ 0x3D then .fail .expectedEq c3
                      else
                        (advR 1 c3).bind fun _ c4 =>
                        (skipSpaces c4).bind fun _ c5 =>
                        (readQuotedValue o c5).bind fun v c6 =>
                          let acc' := acc ++ [⟨nm, v⟩]
                          if acc'.length > o.maxAttrs then .fail .tooManyAttrs c6
                          else readAttributes o fuel acc' c6

/-! ### parser state and `next()` -/

/-- `_cur/_line/_col`, `_depth`, `_elementStack` (copies of the names, innermost first), `_producedTokens`.
`_hasError` / `_emittedEof` are the two ways `run` ends. -/
structure St where
  cur : Cur
  depth : Nat := 0
  stack : List Bytes := []
  produced : Nat := 0
  deriving Repr

def St.init (bs : Bytes) : St := { cur := Cur.init bs }

/-- one call of `next()` -/
inductive Step where
  | tok (t : Token) (s : St)          -- returned true; `current()` is `t`
  | eof (t : Token) (s : St)          -- `emitEof()` succeeded; returned false, no error
  | err (e : ErrKind) (c : Cur)       -- `fail(msg)`: returned false; depth/stack/produced are unchanged
  | bad (b : Bad)
  deriving Repr

/-- `produced()` after `_token = t` -/
def emit (s : St) (c : Cur) (t : Token) : Step :=
  .tok t { s with cur := c, produced := s.produced + 1 }

/-- lift a reader result into a step -/
def Res.toStep {α : Type} (r : Res α) (k : α → Cur → Step) : Step :=
  match r with
  | .ok a c => k a c
  | .fail e c => .err e c
  | .bad b => .bad b

/-- mirrors `readProcessingInstruction` (`_input.find("?>", _cur)` is a library call) -/
def readPI (o : Options) (s : St) (start : Cur) (c : Cur) : Step :=
  (readName o c).toStep fun target c1 =>
    match target with
    | none => .err .badPiTarget c1
    | some tg =>
      match findFrom [0x3F, 0x3E] 0 c1.rest with
      | none => .err .unterminatedPi c1
      | some k =>
        (advR (k + 2) c1).toStep fun _ c2 =>     -- `while (_cur < pos + 2) advance();`
          emit s c2 { kind := .pi, name := tg, text := ⟨c1.pos, k⟩, depth := s.depth,
                      offset := start.pos, line := start.line, column := start.col }

/-- mirrors `readComment` (after `<!--`) -/
def readComment (s : St) (start : Cur) (c : Cur) : Step :=
  (readUntil [0x2D, 0x2D, 0x3E] c).toStep fun r c1 =>
    match r with
    | none => .err .unterminatedComment c1
    | some sl => emit s c1 { kind := .comment, text := sl, depth := s.depth,
                             offset := start.pos, line := start.line, column := start.col }

/-- mirrors `readCData` (after `<![CDATA[`) -/
def readCData (s : St) (start : Cur) (c : Cur) : Step :=
  (readUntil [0x5D, 0x5D, 0x3E] c).toStep fun r c1 =>
    match r with
    | none => .err .unterminatedCData c1
    | some sl => emit s c1 { kind := .cdata, text := sl, depth := s.depth,
                             offset := start.pos, line := start.line, column := start.col }

/-- the scan loop of `readDoctype`: `while (pos < size) { ch = _input[pos]; … else if (ch == '>' && bracket == 0) break; ++pos; }` -/
def doctypeLoop : Bytes → Look → Nat → Except Bad Look
  | fuel, l, b =>
    if l.atEnd then .ok l                        -- `pos < _input.size()`
    else
      match l.read with                          -- `_input[pos]`
      | none => .error .oob
      | some ch =>
        if ch = 0x5B then                        -- `++bracket`
          match fuel with
          | [] => .error .fuel
          | _ :: fuel' => doctypeLoop fuel' l.next (b + 1)
        else if ch = 0x5D then                   -- `if (bracket > 0) --bracket`
          match fuel with
          | [] => .error .fuel
          | _ :: fuel' => doctypeLoop fuel' l.next (if b > 0 then b - 1 else b)
        else if ch = 0x3E && b = 0 then .ok l    -- `break`
        else
          match fuel with
          | [] => .error .fuel
          | _ :: fuel' => doctypeLoop fuel' l.next b

/-- mirrors `readDoctype` (after `<!DOCTYPE`) -/
def readDoctype (s : St) (start : Cur) (c : Cur) : Step :=
  match doctypeLoop c.rest (Look.start c) 0 with
  | .error b => .bad b
  | .ok l =>
    if l.atEnd then .err .unterminatedDoctype c  -- `if (pos >= _input.size())`
    else
      (advR (l.off + 1) c).toStep fun _ c1 =>    -- `while (_cur <= pos) advance();`
        emit s c1 { kind := .doctype, text := ⟨c.pos, l.off⟩, depth := s.depth,
                    offset := start.pos, line := start.line, column := start.col }

/-- mirrors `readEndTag` (after `</`) -/
def readEndTag (o : Options) (s : St) (start : Cur) (c : Cur) : Step :=
  (readName o c).toStep fun name c1 =>
    match name with
    | none => .err .badEndName c1
    | some nm =>
      (skipSpaces c1).toStep fun _ c2 =>
        if c2.eof then .err .expectedGtEnd c2    -- `eof() ||`
        else
          match c2.peek with                     -- `peek() != '>'`
          | none => .bad .oob
          | some g =>
            if g ≠ 0x3E then .err .expectedGtEnd c2
            else
              (advR 1 c2).toStep fun _ c3 =>
                match s.stack with
                | [] => .err .strayEnd c3
                | top :: below =>
                  -- `_elementStack.back() != name`: the name's bytes are the `nm.len` bytes the cursor `c` stood on
                  if top ≠ c.rest.take nm.len then .err .mismatch c3
                  else
                    .tok { kind := .endElement, name := nm, depth := (s.depth - 1) + 1,
                           offset := start.pos, line := start.line, column := start.col }
                         { cur := c3, depth := s.depth - 1, stack := below, produced := s.produced + 1 }

/-- mirrors `readStartOrEmptyTag` (after `<`) -/
def readStartOrEmptyTag (o : Options) (s : St) (start : Cur) (c : Cur) : Step :=
  (readName o c).toStep fun name c1 =>
    match name with
    | none => .err .badStartName c1
    | some nm =>
      (readAttributes o (0 :: c1.rest) [] c1).toStep fun attrs c2 =>
        -- `if (peek() == '/')` WITHOUT an `eof()` test: in range only because `readAttributes` returned true on `/` or `>`
        match c2.peek with
        | none => .bad .oob
        | some p =>
          let empty := p = 0x2F
          (if empty then advR 1 c2 else .ok () c2).toStep fun _ c3 =>
            if c3.eof then .err .expectedGtStart c3          -- `eof() ||`
            else
              match c3.peek with                             -- `peek() != '>'`
              | none => .bad .oob
              | some g =>
                if g ≠ 0x3E then .err .expectedGtStart c3
                else
                  (advR 1 c3).toStep fun _ c4 =>
                    if s.depth + 1 > o.maxDepth then .err .depthExceeded c4
                    else if empty then
                      .tok { kind := .emptyElement, name := nm, attrs := attrs, selfClosing := true, depth := s.depth + 1,
                             offset := start.pos, line := start.line, column := start.col }
                           { s with cur := c4, produced := s.produced + 1 }
                    else
                      .tok { kind := .startElement, name := nm, attrs := attrs, depth := s.depth + 1,
                             offset := start.pos, line := start.line, column := start.col }
                           { cur := c4, depth := s.depth + 1, stack := c.rest.take nm.len :: s.stack,
                             produced := s.produced + 1 }

/-- the loop of `readText`: `while (!eof() && peek() != '<') { if ((_cur - start) >= maxTextSpan) return fail(…); advance(); }` -/
def textLoop (o : Options) (start : Nat) : Bytes → Cur → Res Unit
  | fuel, c =>
    if c.eof then .ok () c                       -- `!eof()`
    else
      match c.peek with                          -- `peek() != '<'`
      | none => .bad .oob
      | some ch =>
        if ch = 0x3C then .ok () c
        else if c.pos - start ≥ o.maxText then .fail .textTooLarge c
        else
          match fuel with
          | [] => .bad .fuel
          | _ :: fuel' =>
            match c.adv with                     -- `advance()`
            | none => .bad .oob
            | some c' => textLoop o start fuel' c'

/-- mirrors `readText`.  The `if (sv.empty()) return next();` re-entry is the outcome `bad dead`: X2 proves it unreachable (the
only call site has just seen a byte other than `<` under the cursor). -/
def readText (o : Options) (s : St) (c : Cur) : Step :=
  (textLoop o c.pos c.rest c).toStep fun _ c1 =>
    if c1.pos - c.pos = 0 then .bad .dead
    else
      emit s c1 { kind := .text, text := ⟨c.pos, c1.pos - c.pos⟩, depth := s.depth,
                  offset := c.pos, line := c.line, column := c.col }

/-- mirrors `emitEof` -/
def emitEof (s : St) (c : Cur) : Step :=
  if !s.stack.isEmpty then .err .unclosed c
  else .eof { kind := .eof, depth := s.depth, offset := c.pos, line := c.line, column := c.col } { s with cur := c }

/-- mirrors `Parser::next()` for a parser that has neither failed nor emitted Eof yet -/
def next (o : Options) (s : St) : Step :=
  if o.maxTokens ≠ 0 && s.produced ≥ o.maxTokens then .err .tokenLimit s.cur
  else
    (skipWhitespaceOutsideText s.cur).toStep fun _ c =>
      if c.eof then emitEof s c                  -- `if (eof())`
      else
        match c.peek with                        -- `char c = peek();`
        | none => .bad .oob
        | some ch =>
          if ch = 0x3C then
            (advR 1 c).toStep fun _ c1 =>
              if c1.eof then .err .eofAfterLt c1 -- `if (eof())`
              else
                match c1.peek with               -- `char n = peek();`
                | none => .bad .oob
                | some n =>
                  if n = 0x3F then (advR 1 c1).toStep fun _ c2 => readPI o s c c2
                  else if n = 0x21 then
                    (advR 1 c1).toStep fun _ c2 =>
                      (matchString [0x2D, 0x2D] c2).toStep fun m c3 =>
                        if m then readComment s c c3
                        else
                          (matchString [0x5B, 0x43, 0x44, 0x41, 0x54, 0x41, 0x5B] c3).toStep fun m c4 =>
                            if m then readCData s c c4
                            else
                              (matchWordCI [0x44, 0x4F, 0x43, 0x54, 0x59, 0x50, 0x45] c4).toStep fun m c5 =>
                                if m then readDoctype s c c5 else .err .badDecl c5
                  else if n = 0x2F then (advR 1 c1).toStep fun _ c2 => readEndTag o s c c2
                  else readStartOrEmptyTag o s c c1
          else readText o s c

/-! ### running the parser to the end (`while (parser.next())`) -/

/-- how a run ends -/
inductive Outcome where
  | accepted (eofTok : Token) (s : St)        -- Eof emitted, `error() == nullptr`
  | error (e : ErrKind) (c : Cur) (s : St)    -- `error()` with the cursor it records; `s` = state before the failing call
  | bad (b : Bad)
  deriving Repr

/-- the tokens `next()` returns true for, then how it stopped -/
def run (o : Options) : Nat → St → List Token × Outcome
  | 0, _ => ([], .bad .fuel)
  | fuel + 1, s =>
    match next o s with
    | .tok t s' => let (ts, out) := run o fuel s'; (t :: ts, out)
    | .eof t s' => ([], .accepted t s')
    | .err e c => ([], .error e c s)
    | .bad b => ([], .bad b)

/-- the whole pull API on one document.  `length + 2` calls suffice (X3). -/
def tokens (o : Options) (bs : Bytes) : List Token × Outcome := run o (bs.length + 2) (St.init bs)

/-! ### entities -/

/-- `static_cast<char>(x)` of a 32-bit value -/
def u8 (x : UInt32) : UInt8 := x.toUInt8

/-- mirrors `encodeUtf8(cp, out)`: the bytes appended, `none` = returned false -/
def encodeUtf8 (cp : UInt32) : Option Bytes :=
  if cp ≤ 0x7F then some [cp.toUInt8]
  else if cp ≤ 0x7FF then
    some [u8 ((0xC0 : UInt32) ||| ((cp >>> 6) &&& 0x1F)), u8 ((0x80 : UInt32) ||| (cp &&& 0x3F))]
  else if cp ≤ 0xFFFF then
    if cp ≥ 0xD800 && cp ≤ 0xDFFF then none
    else some [u8 ((0xE0 : UInt32) ||| ((cp >>> 12) &&& 0x0F)), u8 ((0x80 : UInt32) ||| ((cp >>> 6) &&& 0x3F)),
               u8 ((0x80 : UInt32) ||| (cp &&& 0x3F))]
  else if cp ≤ 0x10FFFF then
    some [u8 ((0xF0 : UInt32) ||| ((cp >>> 18) &&& 0x07)), u8 ((0x80 : UInt32) ||| ((cp >>> 12) &&& 0x3F)),
          u8 ((0x80 : UInt32) ||| ((cp >>> 6) &&& 0x3F)), u8 ((0x80 : UInt32) ||| (cp &&& 0x3F))]
  else none

/-- value of a hex digit as `appendCharRef` computes it -/
def hexDigitVal (c : UInt8) : Option UInt32 :=
  if 0x30 ≤ c && c ≤ 0x39 then some (c - 0x30).toUInt32
  else if 0x61 ≤ c && c ≤ 0x66 then some (c - 0x61 + 10).toUInt32
  else if 0x41 ≤ c && c ≤ 0x46 then some (c - 0x41 + 10).toUInt32
  else none

/-- `code = (code << 4) | v` over the digits; 32-bit accumulator, wraps -/
def hexAcc : Bytes → UInt32 → Option UInt32
  | [], code => some code
  | c :: r, code =>
    match hexDigitVal c with
    | none => none
    | some v => hexAcc r ((code <<< 4) ||| v)

/-- `code = code * 10u + (c - '0')` over the digits; 32-bit accumulator, wraps -/
def decAcc : Bytes → UInt32 → Option UInt32
  | [], code => some code
  | c :: r, code =>
    if c < 0x30 || c > 0x39 then none else decAcc r (code * 10 + (c - 0x30).toUInt32)

/-- the code point `appendCharRef` computes for an entity body starting with `#`; `none` = returned false before encoding -/
def charRefCode (ent : Bytes) : Option UInt32 :=
  match ent with
  | _ :: x :: r => if x = 0x78 || x = 0x58 then hexAcc r 0 else decAcc (x :: r) 0
  | _ => none     -- `entBody.size() < 2`

/-- mirrors `appendCharRef(entBody, out)`: the bytes appended -/
def appendCharRef (ent : Bytes) : Option Bytes :=
  match charRefCode ent with
  | none => none
  | some code => encodeUtf8 code

/-- the `ent == "lt"` … chain, from the regenerated table -/
def predefined (ent : Bytes) : Option UInt8 :=
  match Gen.Xml.entityBytes.find? (fun e => e.1.map UInt8.ofNat == ent) with
  | some e => some (UInt8.ofNat e.2)
  | none => none

/-- result of `decodeEntities(in, out, err)` -/
inductive DecRes where
  | ok (out : Bytes)
  | err (e : ErrKind) (offset : Nat)     -- `*err = {i, 0, 0, msg}`
  | fuel
  deriving DecidableEq, Repr

/-- the `for (i = 0; i < in.size();)` loop of `decodeEntities`: `r` = `in` from `i` on, `out` = bytes appended so far -/
def decodeLoop : Nat → Bytes → Nat → Bytes → DecRes
  | 0, _, _, _ => .fuel
  | _ + 1, [], _, out => .ok out
  | fuel + 1, ch :: t, i, out =>
    if ch ≠ 0x26 then decodeLoop fuel t (i + 1) (out ++ [ch])
    else
      match findByte 0x3B t with
      | none => .err .unterminatedEntity i
      | some k =>
        let ent := t.take k
        match predefined ent with
        | some b => decodeLoop fuel (t.drop (k + 1)) (i + k + 2) (out ++ [b])
        | none =>
          match ent with
          | 0x23 :: _ =>
            match appendCharRef ent with
            | some u => decodeLoop fuel (t.drop (k + 1)) (i + k + 2) (out ++ u)
            | none => .err .badCharRef i
          | _ => .err .unknownEntity i

/-- mirrors `Parser::decodeEntities` -/
def decodeEntities (inp : Bytes) : DecRes := decodeLoop (inp.length + 1) inp 0 []

/-! ### `decodeEntities` / `appendCharRef` read by read

The functions above follow the data (list patterns).  The C++ indexes: `in[i]`, `ent[0]`, `entBody[1]`, `entBody[i]`.  The versions
below perform every such read as the partial `xs[i]?` under exactly the guard the C++ has (`Gen.Xml.decodeReadSites`, regenerated from
the header, lists read and guard; `decodeReadSites` below is what this file implements); an index `≥ size` is the outcome `oob`.
`Lemmas/XmlDecodeReads.lean` proves them equal to the functions above — so `oob` never happens. -/

/-- outcome of an explicit reader: a value, an out-of-range read, or an exhausted loop budget -/
inductive RdRes (α : Type) where
  | ok (a : α)
  | oob
  | fuel
  deriving Repr, DecidableEq

/-- the hex loop of `appendCharRef`: `for (i = 2; i < entBody.size(); ++i) { char c = entBody[i]; … code = (code << 4) | v; }`;
`ok none` = returned false -/
def hexLoopI (ent : Bytes) : Nat → Nat → UInt32 → RdRes (Option UInt32)
  | 0, _, _ => .fuel
  | f + 1, i, code =>
    if i < ent.length then                       -- `i < entBody.size()`
      match ent[i]? with                         -- `entBody[i]`
      | none => .oob
      | some c =>
        match hexDigitVal c with
        | none => .ok none
        | some v => hexLoopI ent f (i + 1) ((code <<< 4) ||| v)
    else .ok (some code)

/-- the decimal loop of `appendCharRef`: `for (i = 1; i < entBody.size(); ++i) { char c = entBody[i]; … }` -/
def decLoopI (ent : Bytes) : Nat → Nat → UInt32 → RdRes (Option UInt32)
  | 0, _, _ => .fuel
  | f + 1, i, code =>
    if i < ent.length then                       -- `i < entBody.size()`
      match ent[i]? with                         -- `entBody[i]`
      | none => .oob
      | some c => if c < 0x30 || c > 0x39 then .ok none else decLoopI ent f (i + 1) (code * 10 + (c - 0x30).toUInt32)
    else .ok (some code)

/-- mirrors `appendCharRef(entBody, out)` read by read -/
def appendCharRefI (ent : Bytes) : RdRes (Option Bytes) :=
  if ent.length < 2 then .ok none                -- `if (entBody.size() < 2) return false;`
  else
    match ent[1]? with                           -- `entBody[1] == 'x' || entBody[1] == 'X'`
    | none => .oob
    | some x =>
      match (if x = 0x78 || x = 0x58 then hexLoopI ent (ent.length + 1) 2 0 else decLoopI ent (ent.length + 1) 1 0) with
      | .ok none => .ok none
      | .ok (some code) => .ok (encodeUtf8 code)
      | .oob => .oob
      | .fuel => .fuel

/-- the loop of `decodeEntities` read by read: `i` is the index into `in`, `out` the bytes appended so far -/
def decodeLoopI (inp : Bytes) : Nat → Nat → Bytes → RdRes DecRes
  | 0, _, _ => .fuel
  | f + 1, i, out =>
    if i < inp.length then                       -- `i < in.size()`
      match inp[i]? with                         -- `char ch = in[i];`
      | none => .oob
      | some ch =>
        if ch ≠ 0x26 then decodeLoopI inp f (i + 1) (out ++ [ch])
        else
          match findByte 0x3B (inp.drop (i + 1)) with      -- `in.find(';', i + 1)` (library call)
          | none => .ok (.err .unterminatedEntity i)
          | some k =>
            let ent := (inp.drop (i + 1)).take k           -- `in.substr(i + 1, semi - (i + 1))` (library call, `i + 1 <= size`)
            match predefined ent with
            | some b => decodeLoopI inp f (i + k + 2) (out ++ [b])
            | none =>
              if !ent.isEmpty then                         -- `!ent.empty() &&`
                match ent[0]? with                         -- `ent[0] == '#'`
                | none => .oob
                | some h =>
                  if h = 0x23 then
                    match appendCharRefI ent with
                    | .ok (some u) => decodeLoopI inp f (i + k + 2) (out ++ u)
                    | .ok none => .ok (.err .badCharRef i)
                    | .oob => .oob
                    | .fuel => .fuel
                  else .ok (.err .unknownEntity i)
              else .ok (.err .unknownEntity i)
    else .ok (.ok out)

/-- mirrors `Parser::decodeEntities` read by read (`out.clear()` first: `Gen.Xml.decodeFirstStatement`) -/
def decodeEntitiesI (inp : Bytes) : RdRes DecRes := decodeLoopI inp (inp.length + 1) 0 []

/-- the indexed reads of `decodeEntities` / `appendCharRef` with their guards, as implemented above
(function, read, guard, code between guard and read) -/
def decodeReadSites : List (String × String × String × String) :=
  [("decodeEntities", "in[i]", "i < in.size()", ";) { char ch ="),
   ("decodeEntities", "ent[0]", "!ent.empty()", "&&"),
   ("appendCharRef", "entBody[1]", "entBody.size() < 2", ") { return false; } uint32_t code = 0; if ("),
   ("appendCharRef", "entBody[1]", "entBody.size() < 2", ") { return false; } uint32_t code = 0; if (entBody[1] == 'x' ||"),
   ("appendCharRef", "entBody[i]", "i < entBody.size()", "; ++i) { char c ="),
   ("appendCharRef", "entBody[i]", "i < entBody.size()", "; ++i) { char c =")]

/-! ### SAX -/

/-- the nine members of `struct SaxCallbacks`, in declaration order -/
inductive Slot where
  | onXmlDecl | onDoctype | onStartElement | onEndElement | onEmptyElement | onText | onCData | onComment | onPI
  deriving DecidableEq, Repr

def Slot.all : List Slot :=
  [.onXmlDecl, .onDoctype, .onStartElement, .onEndElement, .onEmptyElement, .onText, .onCData, .onComment, .onPI]

def Slot.cxxName : Slot → String
  | .onXmlDecl => "onXmlDecl" | .onDoctype => "onDoctype" | .onStartElement => "onStartElement"
  | .onEndElement => "onEndElement" | .onEmptyElement => "onEmptyElement" | .onText => "onText" | .onCData => "onCData"
  | .onComment => "onComment" | .onPI => "onPI"

/-- the `switch (t.kind)` of `runSax`: which member a token kind is dispatched to (`Eof`, `Invalid`, `default`: none) -/
def slotOf : Kind → Option Slot
  | .xmlDecl => some .onXmlDecl
  | .doctype => some .onDoctype
  | .startElement => some .onStartElement
  | .endElement => some .onEndElement
  | .emptyElement => some .onEmptyElement
  | .text => some .onText
  | .cdata => some .onCData
  | .comment => some .onComment
  | .pi => some .onPI
  | .eof | .invalid => none

/-- which members hold a callable (`if (cb.onX)`) -/
abbrev Registered := Slot → Bool

/-- one iteration of the `while (parser.next())` loop of `runSax`: the callback that is invoked, if any.  A token whose member is
empty is skipped (an empty `std::function` is never called). -/
def saxDispatch (reg : Registered) (t : Token) : Option (Slot × Token) :=
  match slotOf t.kind with
  | none => none
  | some sl => if reg sl then some (sl, t) else none

/-- mirrors `runSax(parser, cb)`: the callbacks invoked, in order, and the result `parser.error() == nullptr` -/
def runSax (reg : Registered) (o : Options) (bs : Bytes) : List (Slot × Token) × Bool :=
  let r := tokens o bs
  (r.1.filterMap (saxDispatch reg), match r.2 with | .accepted _ _ => true | _ => false)

/-! ### DOM -/

/-- mirrors `class Node` (the `Document` node is the list of top-level nodes) -/
inductive Node where
  | elem (name : Bytes) (attrs : List (Bytes × Bytes)) (children : List Node)
  | text (v : Bytes)
  | cdata (v : Bytes)
  | comment (v : Bytes)
  | pi (name : Bytes) (v : Bytes)
  deriving Repr

/-- an element whose end tag has not been seen: `stack` entry of `DomBuilder::build` with the children attached so far -/
structure Frame where
  name : Bytes
  attrs : List (Bytes × Bytes)
  kids : List Node
  deriving Repr

/-- `doc->children` so far, and the open elements, innermost first -/
structure DomSt where
  top : List Node := []
  open_ : List Frame := []
  deriving Repr

inductive DomRes where
  | doc (children : List Node)
  | null (e : ErrKind) (offset line column : Nat)
  | bad (b : Bad)
  deriving Repr

/-- append a finished node to `stack.back()->children` -/
def DomSt.addChild (d : DomSt) (n : Node) : DomSt :=
  match d.open_ with
  | [] => { d with top := d.top ++ [n] }
  | f :: fs => { d with open_ := { f with kids := f.kids ++ [n] } :: fs }

/-- the attribute loop of the Start/EmptyElement cases: decode every value, stop at the first failure -/
def decodeAttrs (bs : Bytes) : List Attr → Except (ErrKind × Nat) (List (Bytes × Bytes))
  | [] => .ok []
  | a :: r =>
    match decodeEntities (a.value.bytes bs) with
    | .ok v =>
      match decodeAttrs bs r with
      | .ok vs => .ok ((a.name.bytes bs, v) :: vs)
      | .error e => .error e
    | .err e off => .error (e, off)
    | .fuel => .error (.unknownEntity, 0)    -- unreachable (`decodeEntities_ne_fuel`)

/-- one iteration of the `while (parser.next())` loop of `DomBuilder::build`; `inr` = early `return nullptr` -/
def domStep (bs : Bytes) (d : DomSt) (t : Token) : DomSt ⊕ DomRes :=
  match t.kind with
  | .startElement =>
    match decodeAttrs bs t.attrs with
    | .ok as => .inl { d with open_ := ⟨t.name.bytes bs, as, []⟩ :: d.open_ }
    | .error (e, off) => .inr (.null e off 0 0)
  | .emptyElement =>
    match decodeAttrs bs t.attrs with
    | .ok as => .inl (d.addChild (.elem (t.name.bytes bs) as []))
    | .error (e, off) => .inr (.null e off 0 0)
  | .endElement =>
    match d.open_ with
    | [] => .inr (.null .domUnbalancedEnd t.offset t.line t.column)      -- `stack.size() <= 1`
    | f :: fs => .inl ({ d with open_ := fs }.addChild (.elem f.name f.attrs f.kids))
  | .text =>
    match decodeEntities (t.text.bytes bs) with
    | .ok v => if v.isEmpty then .inl d else .inl (d.addChild (.text v))
    | .err e off => .inr (.null e off 0 0)
    | .fuel => .inr (.bad .fuel)
  | .cdata => .inl (d.addChild (.cdata (t.text.bytes bs)))
  | .comment => .inl (d.addChild (.comment (t.text.bytes bs)))
  | .pi => .inl (d.addChild (.pi (t.name.bytes bs) (t.text.bytes bs)))
  | _ => .inl d

/-- the loop over the tokens `next()` returned true for -/
def domFold (bs : Bytes) : DomSt → List Token → DomSt ⊕ DomRes
  | d, [] => .inl d
  | d, t :: ts =>
    match domStep bs d t with
    | .inl d' => domFold bs d' ts
    | .inr r => .inr r

/-- mirrors `DomBuilder::build(parser, &err)`: a function of the pull result -/
def domOf (bs : Bytes) (r : List Token × Outcome) : DomRes :=
  match domFold bs {} r.1 with
  | .inr res => res
  | .inl d =>
    match r.2 with
    | .error e c _ => .null e c.pos c.line c.col         -- `*errOut = *parser.error()`
    | .bad b => .bad b
    | .accepted _ _ =>
      match d.open_ with
      | [] => .doc d.top
      | _ :: _ => .null .domUnclosed 0 0 0               -- `stack.size() != 1`

def domBuild (o : Options) (bs : Bytes) : DomRes := domOf bs (tokens o bs)

/-- what a caller of `DomBuilder::build` sees in a build with `IORA_XML_THROW_ON_ERROR=1`: a returned value, or the exception
`fail()` threw inside `parser.next()` (the error is recorded in the parser before the throw) -/
inductive DomResT where
  | ret (r : DomRes)
  | thrown (e : ErrKind) (c : Cur)
  deriving Repr

/-- mirrors `DomBuilder::build` in a throwing build.  Entity-decoding failures do not go through `fail()`: they still return
`nullptr`; a tokenizer error — which a non-throwing build reports after the loop — leaves `build` as an exception. -/
def domBuildT (o : Options) (bs : Bytes) : DomResT :=
  let r := tokens { o with throwing := true } bs
  match domFold bs {} r.1 with
  | .inr res => .ret res
  | .inl _ =>
    match r.2 with
    | .error e c _ => .thrown e c
    | _ => .ret (domOf bs r)

/-! ### the public `next()` with its two latches -/

/-- a `Parser` object between calls: the tokenizer state plus `_hasError` (with the recorded error) and `_emittedEof` -/
structure PSt where
  st : St
  error : Option (ErrKind × Cur) := none     -- `_hasError` / `_error`
  emittedEof : Bool := false
  deriving Repr

/-- mirrors the public `Parser::next()` including its first two tests: `if (_hasError) return false; if (_emittedEof) return false;` -/
def pnext (o : Options) (p : PSt) : Option Token × PSt :=
  if p.error.isSome then (none, p)
  else if p.emittedEof then (none, p)
  else
    match next o p.st with
    | .tok t s' => (some t, { p with st := s' })
    | .eof _ s' => (none, { p with st := s', emittedEof := true })
    | .err e c => (none, { p with error := some (e, c) })
    | .bad _ => (none, p)

/-- `k` calls of the public `next()`: the tokens of the calls that returned true, and the object afterwards -/
def pcalls (o : Options) : Nat → PSt → List Token × PSt
  | 0, p => ([], p)
  | k + 1, p =>
    match pnext o p with
    | (some t, p') => let (ts, q) := pcalls o k p'; (t :: ts, q)
    | (none, p') => pcalls o k p'

/-! ### the read sites this model implements

One entry per raw read of the input in the C++ tokenizer, in source order: (function, read, guard, the code between guard and read —
which is what makes the guard dominate the read), with a comment saying where this file performs that read under that guard.  `Gen.Xml.readSites` is the same table regenerated from the header on every run
(`Props/C14.lean`, `gen_conformance`): a guard that is dropped, moved or rewritten in the header changes the regenerated table and
the build fails. -/
def readSites : List (String × String × String × String) :=
  [
   -- `next`: `if c.eof then emitEof s c else match c.peek`
   ("next", "peek()", "eof()", ") { emitEof(); return false; } std::size_t startOffset = _cur; std::size_t startLine = _line; std::size_t startCol = _col; char c ="),
   -- `next`: `if c1.eof then .err .eofAfterLt c1 else match c1.peek`
   ("next", "peek()", "eof()", ") { return fail(\"unexpected end after '<'\"); } char n ="),
   -- `Cur.peek` (partial; every caller guards or proves)
   ("peek", "_input[_cur]", "none", ""),
   -- `Cur.adv` (partial; `advN` / `advR` turn `none` into `bad oob`)
   ("get", "_input[_cur++]", "none", ""),
   -- `skipSpaces` = `advWhile isSpace`: `if c.eof then … else match c.peek`
   ("skipSpaces", "peek()", "!eof()", ") { char ch ="),
   -- `wsScan`: `if p.atEnd then … else match p.read`
   ("skipWhitespaceOutsideText", "_input[p]", "p < _input.size()", ") { char ch ="),
   -- `skipWhitespaceOutsideText`: `if p.atEnd then … else match p.read`
   ("skipWhitespaceOutsideText", "_input[p]", "p < _input.size()", "&&"),
   -- `matchLoop`: `if c.beyond i then .ok false else match c.at i`
   ("matchString", "_input[_cur + i]", "_cur + i >= _input.size()", ") { return false; } if ("),
   -- `matchLoopCI`: `if c.beyond i then .ok false else match c.at i`
   ("matchWordCaseInsensitive", "_input[pos + i]", "pos + i >= _input.size()", ") { return false; } char a ="),
   -- `matchWordCI`: `if c.beyond w.length then some 0 else c.at w.length`
   ("matchWordCaseInsensitive", "_input[pos + i]", "pos + i < _input.size()", "?"),
   -- `readName`: `if c.eof then .ok none c else match c.peek`
   ("readName", "peek()", "eof()", "|| !isNameStart("),
   -- `readName`: `advWhile isNameChar`
   ("readName", "peek()", "!eof()", "&& isNameChar("),
   -- `untilScan`: `if l.atEnd then .ok none else … match l.read`
   ("readUntil", "_input[pos++]", "pos >= _input.size()", ") { return false; } if (_input.compare(pos, endSeq.size(), endSeq) == 0) { startOut = _cur; lenOut = pos - _cur; while (_cur < pos + endSeq.size()) { advance(); } return true; } char ch ="),
   -- `readQuotedValue`: `if c.eof then .fail .expectedQuote c else match c.peek`
   ("readQuotedValue", "peek()", "eof()", ") { return fail(\"expected quote\"); } char quote ="),
   -- `readQuotedValue`: `advWhile (· ≠ q)`
   ("readQuotedValue", "peek()", "!eof()", "&&"),
   -- `readAttributes`: `if c1.eof then .fail .eofInAttrs c1 else match c1.peek`
   ("readAttributes", "peek()", "eof()", ") { return fail(\"unexpected end in attributes\"); } char ch ="),
   -- `readAttributes`: `if c3.eof then .fail .expectedEq c3 else match c3.peek`
   ("readAttributes", "peek()", "eof()", "||"),
   -- `doctypeLoop`: `if l.atEnd then .ok l else match l.read`
   ("readDoctype", "_input[pos]", "pos < _input.size()", ") { char ch ="),
   -- `readEndTag`: `if c2.eof then .err .expectedGtEnd c2 else match c2.peek`
   ("readEndTag", "peek()", "eof()", "||"),
   -- `readStartOrEmptyTag`: `match c2.peek` with NO guard — in range only because `readAttributes` returned on `/` or `>` (X2)
   ("readStartOrEmptyTag", "peek()", "none", ""),
   -- `readStartOrEmptyTag`: `if c3.eof then .err .expectedGtStart c3 else match c3.peek`
   ("readStartOrEmptyTag", "peek()", "eof()", "||"),
   -- `textLoop`: `if c.eof then … else match c.peek`
   ("readText", "peek()", "!eof()", "&&")]

/-- every test of an `Options` member in the tokenizer, as this file performs it (regenerated: `Gen.Xml.limitTests`) -/
def limitTests : List (String × String) :=
  [-- `next`: `if o.maxTokens ≠ 0 && s.produced ≥ o.maxTokens then .err .tokenLimit`
   ("next", "_opt.maxTotalTokens != 0 && _producedTokens >= _opt.maxTotalTokens"),
   -- `readName`: `if len > o.maxName`
   ("readName", "len > _opt.maxNameLength"),
   -- `readQuotedValue`: `if out.len > o.maxText then .fail .attrTooLong`
   ("readQuotedValue", "out.size() > _opt.maxTextSpan"),
   -- `readAttributes`: `if acc'.length > o.maxAttrs then .fail .tooManyAttrs`
   ("readAttributes", "attrs.size() > _opt.maxAttrsPerElement"),
   -- `readStartOrEmptyTag`: `if s.depth + 1 > o.maxDepth then .err .depthExceeded`
   ("readStartOrEmptyTag", "_depth + 1 > _opt.maxDepth"),
   -- `textLoop`: `if c.pos - start ≥ o.maxText then .fail .textTooLarge`
   ("readText", "(_cur - start) >= _opt.maxTextSpan")]

/-- mirrors `enum class NodeType` members a token kind is turned into by `DomBuilder::build`, where the node's value comes from, and
the guard on creating it — the table `domStep` implements (regenerated: `Gen.Xml.domCases`).  `decoded:` = `decodeEntities` into a
fresh string (the model's `decodeEntities` starts from the empty output), `raw:` = the slice copied. -/
def domCases : List (String × String × String × String) :=
  [("StartElement", "Element", "decoded:a.value", "-"),           -- `decodeAttrs`, frame pushed
   ("EmptyElement", "Element", "decoded:a.value", "-"),           -- `decodeAttrs`, `.elem … []` attached
   ("EndElement", "-", "-", "-"),                                 -- frame popped and attached
   ("Text", "Text", "decoded:t.text", "!v.empty()"),              -- `if v.isEmpty then d else addChild (.text v)`
   ("CData", "CData", "raw:t.text", "-"),
   ("Comment", "Comment", "raw:t.text", "-"),
   ("ProcessingInstruction", "ProcessingInstruction", "raw:t.text", "-"),
   ("XmlDecl", "-", "-", "-"), ("Doctype", "-", "-", "-"), ("Invalid", "-", "-", "-"), ("Eof", "-", "-", "-"),
   ("default", "-", "-", "-")]                                    -- `| _ => .inl d`

/-- the `switch` of `runSax` as `slotOf` implements it: (case label, member or `-`) in the order of the C++ `case` labels -/
def saxSwitch : List (String × String) :=
  ([Kind.xmlDecl, .doctype, .startElement, .endElement, .emptyElement, .text, .cdata, .comment, .pi, .eof, .invalid].map fun k =>
    (k.cxxName, match slotOf k with | some sl => sl.cxxName | none => "-")) ++ [("default", "-")]

/-- mirrors `Token::splitQName`: position of the first `:` in the name -/
def splitQName (name : Bytes) : Option (Nat × Nat) :=
  match findByte 0x3A name with
  | none => none
  | some k => some (k, name.length - (k + 1))

/-! ### `Node` helpers -/

/-- mirrors `Node::getTextContent`: the values of the direct Text and CData children, concatenated -/
def Node.getTextContent : Node → Bytes
  | .elem _ _ ch => ch.flatMap fun c => match c with
      | .text v => v
      | .cdata v => v
      | _ => []
  | _ => []

/-- mirrors `Node::getAttribute`: the value of the first attribute with that name; `none` = the empty (null) view -/
def Node.getAttribute (n : Node) (name : Bytes) : Option Bytes :=
  match n with
  | .elem _ as _ => (as.find? fun a => a.1 == name).map (·.2)
  | _ => none

/-- mirrors `Node::childByName`: the first direct child that is an element with that name; `none` = `nullptr` -/
def Node.childByName (n : Node) (name : Bytes) : Option Node :=
  match n with
  | .elem _ _ ch => ch.find? fun c => match c with
      | .elem cn _ _ => cn == name
      | _ => false
  | _ => none

/-! ### `Node::~Node` as repaired (FC14a): iterative destruction of a subtree -/

/-- the children a node owns -/
def Node.kids : Node → List Node
  | .elem _ _ ch => ch
  | _ => []

/-- a node with its children taken away (`n->children.clear()`) -/
def Node.shallow : Node → Node
  | .elem n as _ => .elem n as []
  | x => x

/-- what `~Node` lets go out of scope: the node (children already moved out) and `n->children.size()` at that moment — the implicit
member destruction recurses once per remaining child level, so `0` means: no recursion -/
structure Dropped where
  node : Node
  kidsLeft : Nat
  deriving Repr

/-- the `while (!pending.empty())` loop of `~Node`.  `pending` is held back-first (`pending.back()` is the head), so
`for (auto &c : n->children) pending.push_back(std::move(c));` prepends the children reversed.  The fuel is the number of nodes. -/
def destroyLoop : Nat → List Node → List Dropped
  | 0, _ => []
  | _ + 1, [] => []
  | f + 1, n :: rest =>                           -- `n = std::move(pending.back()); pending.pop_back();`
    ⟨n.shallow, 0⟩ :: destroyLoop f (n.kids.reverse ++ rest)

mutual
  /-- number of nodes of a subtree -/
  def Node.size : Node → Nat
    | .elem _ _ ch => 1 + sizeList ch
    | .text _ => 1
    | .cdata _ => 1
    | .comment _ => 1
    | .pi _ _ => 1
  def sizeList : List Node → Nat
    | [] => 0
    | n :: r => n.size + sizeList r
end

/-- mirrors `Node::~Node()`: `pending = std::move(children);` the loop; then the node itself goes (its `children` is moved-from) -/
def Node.destroy (n : Node) : List Dropped := destroyLoop (sizeList n.kids) n.kids ++ [⟨n.shallow, 0⟩]

/-- the body of `~Node` this mirrors (regenerated: `Gen.Xml.nodeDtorBody`) -/
def nodeDtorBody : String :=
  "std::vector<std::unique_ptr<Node>> pending = std::move(children); while (!pending.empty()) { std::unique_ptr<Node> n = std::move(pending.back()); pending.pop_back(); for (auto &c : n->children) { pending.push_back(std::move(c)); } n->children.clear(); }"

end Iora.Xml
