import IoraModel.Model.KvStore
/-!
# The specification of C12: a plain map with a per-key absolute expiry

`Spec = Key → Option (Val × Option Epoch)`.  A TTL deadline is `now + ttl`, saturated at the last instant the clock can
represent (`deadlineAfter`); the `live` around it only matters when the clock itself is already past that instant.  An entry whose expiry has passed is simply absent: `advance` prunes, so
nothing that expired can ever be observed or come back.  `specStep` says what every operation of the store does to this
map, `OutOK` what it may return, `specRead…` what every read path returns.
-/
namespace Iora.Kv

abbrev Ent := Val × Option Int
abbrev Spec := Key → Option Ent

/-- an entry as seen at time `now`: gone once its expiry has passed (`expiry > now` is the liveness test of every reader) -/
def live (now : Int) : Option Ent → Option Ent
  | some (v, some e) => if now < e then some (v, some e) else none
  | some (v, none) => some (v, none)
  | none => none

def Spec.upd (sp : Spec) (k : Key) (x : Option Ent) : Spec := fun k' => if k = k' then x else sp k'

structure SpecSt where
  m : Spec
  now : Int

/-- the reference map: what each operation means -/
def specStep (l : Lim) (s : SpecSt) : Op → SpecSt
  | .set k v => if (validate l k v).isSome then s else { s with m := s.m.upd k (some (v, none)) }
  | .setTtl k v ttl =>
    if ttl ≤ 0 ∨ (validate l k v).isSome then s
    else { s with m := s.m.upd k (live s.now (some (v, some (deadlineAfter l s.now ttl)))) }
  | .setBatch kvs =>
    if batchBad l kvs then s else { s with m := kvs.foldl (fun m x => m.upd x.1 (some (x.2, none))) s.m }
  | .setBatchTtl kvs ttl =>
    if ttl ≤ 0 ∨ batchBad l kvs then s
    else { s with m := kvs.foldl (fun m x => m.upd x.1 (live s.now (some (x.2, some (deadlineAfter l s.now ttl))))) s.m }
  | .get _ => s
  | .remove k => { s with m := s.m.upd k none }
  | .removeWithPrefix p _ => { s with m := fun k => if p.isPrefixOf k then none else s.m k }
  | .clear => { s with m := fun _ => none }
  | .expireAt k t =>
    match s.m k with
    | none => s
    | some (v, _) => { s with m := s.m.upd k (if s.now < t then some (v, some t) else none) }
  | .persist k =>
    match s.m k with
    | none => s
    | some (v, _) => { s with m := s.m.upd k (some (v, none)) }
  | .compact => s
  | .evictFire _ _ => s
  | .reopen => s
  | .advance dt => { m := fun k => live (s.now + dt) (s.m k), now := s.now + dt }

/-- what each operation may return -/
def OutOK (l : Lim) (s : SpecSt) : Op → Out → Prop
  | .set k v, out => out = (match validate l k v with | some e => .err e | none => .ok)
  | .setTtl k v ttl, out =>
    out = (if ttl ≤ 0 then .err .badTtl else match validate l k v with | some e => .err e | none => .ok)
  | .setBatch kvs, out => out = (if kvs.isEmpty then .ok else if batchBad l kvs then .err .badBatch else .ok)
  | .setBatchTtl kvs ttl, out =>
    out = (if ttl ≤ 0 then .err .badTtl else if kvs.isEmpty then .ok else if batchBad l kvs then .err .badBatch else .ok)
  | .get k, out => out = .value ((s.m k).map (·.1))
  | .removeWithPrefix p _, out =>
    ∃ ks : List Key, ks.Nodup ∧ (∀ k, k ∈ ks ↔ (p.isPrefixOf k = true ∧ (s.m k).isSome)) ∧ out = .count ks.length
  | _, out => out = .ok

/-! the read paths on the reference map -/
def specExists (s : SpecSt) (k : Key) : Bool := (s.m k).isSome
def specTtl (s : SpecSt) (k : Key) : Option Int :=
  match s.m k with
  | some (_, some e) => some ((e - s.now) / 1000)
  | _ => none
def specGetBatch (s : SpecSt) (ks : List Key) : List (Key × Val) :=
  ks.filterMap (fun k => (s.m k).map (fun x => (k, x.1)))
/-- `keys` / `keysWithPrefix` return exactly the present keys (with the prefix), each once, in some order -/
def SpecKeys (s : SpecSt) (p : Bytes) (ks : List Key) : Prop :=
  ks.Nodup ∧ ∀ k, k ∈ ks ↔ (p.isPrefixOf k = true ∧ (s.m k).isSome)

def specRun (l : Lim) (s : SpecSt) : List Op → SpecSt
  | [] => s
  | op :: ops => specRun l (specStep l s op) ops

end Iora.Kv
