import IoraModel.Model.HttpCommon
import IoraModel.Gen.Http
/-
Model of the response framing of `include/iora/network/http_client.hpp` (RFC 9112 §6.3/§7.1):
`parseContentLength`, `transferEncodingFinalIsChunked`, `parseHeaderBlock`, `determineFraming`,
`advanceChunked`, `frameResponse` and the receive loop of `executeRequest`.
Every definition mirrors one C++ function.  Offsets into the accumulation buffer are `Nat`s: every
subtraction the code performs on `size_t`/`uint64_t` values is guarded (`buf.size() < dataStart || …`), so it
never wraps; the one place where a 64-bit overflow can happen - `std::from_chars` on the digits - is
modelled explicitly (`parseFullUInt` rejects values `≥ 2^64`).
-/
namespace Iora.Http
open Iora

/-- the `HttpFramingError` thrown, as a small enum (harness maps the message prefix) -/
inductive Kind where
  | statusLine | version | statusCode | obsFold | noColon | dupCL
  | connect | clAndTe | badCL | clList | clTooBig | chunk | cap | overflow
  deriving DecidableEq, Repr

structure Resp where
  status : Nat := 0
  text : Bytes := []
  version : Bytes := []
  headers : Headers := []
  body : Bytes := []
  deriving DecidableEq, Repr

/-! ### parseContentLength / transferEncodingFinalIsChunked -/

/-- the per-element loop of `parseContentLength`: every comma-separated element, OWS-trimmed, must be a full
decimal token, and all must be equal -/
def parseCLElems : List Bytes → Option Nat → Except Kind Nat
  | [], some r => .ok r
  | [], none => .error .badCL          -- "empty Content-Length" (unreachable: `splitOn` never returns [])
  | e :: es, have? =>
    match parseFullUInt 10 (trim e) with
    | none => .error .badCL
    | some v =>
      match have? with
      | some r => if v ≠ r then .error .clList else parseCLElems es (some v)
      | none => parseCLElems es (some v)

/-- mirrors `parseContentLength` -/
def parseContentLength (v : Bytes) : Except Kind Nat := parseCLElems (splitOn 44 v) none

/-- mirrors `transferEncodingFinalIsChunked` -/
def transferEncodingFinalIsChunked (v : Bytes) : Bool :=
  ciEq (lastToken (splitOn 44 v) []) (ascii "chunked")

/-! ### parseHeaderBlock -/

/-- the field-line loop of `parseHeaderBlock` (`clValue` = value of the Content-Length lines seen so far) -/
def parseFieldLines : List Bytes → Option Bytes → Headers → Except Kind Headers
  | [], _, h => .ok h
  | line :: rest, cl, h =>
    match line with
    | [] => parseFieldLines rest cl h                      -- `lineEnd == pos`: skip
    | c0 :: _ =>
      if c0 = 32 ∨ c0 = 9 then .error .obsFold
      else
        match indexOf? (· == 58) line with
        | none => .error .noColon
        | some colon =>
          let name := trim (line.take colon)
          let value := trim (line.drop (colon + 1))
          if ciEq name (ascii "Content-Length") then
            match cl with
            | some old => if value ≠ old then .error .dupCL
                          else parseFieldLines rest (some value) (hdrAdd h name value)
            | none => parseFieldLines rest (some value) (hdrAdd h name value)
          else parseFieldLines rest cl (hdrAdd h name value)

/-- the status-line part of `parseHeaderBlock`: (version, code, reason) -/
def parseStatusLine (sl : Bytes) : Except Kind (Bytes × Nat × Bytes) :=
  if ¬ (ascii "HTTP/").isPrefixOf sl then .error .statusLine
  else
    match indexOf? (· == 32) sl with
    | none => .error .statusLine
    | some sp1 =>
      if sp1 ≤ 5 then .error .statusLine
      else
        let version := (sl.take sp1).drop 5
        if ¬ (Gen.Http.clientVersions.map ascii).contains version then .error .version
        else
          let afterSp := sl.drop (sp1 + 1)
          let (codeTok, text) : Bytes × Bytes :=
            match indexOf? (· == 32) afterSp with
            | none => (afterSp, [])
            | some k => (afterSp.take k, afterSp.drop (k + 1))
          match parseFullUInt 10 codeTok with
          | none => .error .statusCode
          | some code =>
            if code > Gen.Http.clientMaxStatusCode then .error .statusCode
            else .ok (version, code, text)

/-- mirrors `parseHeaderBlock(hs, resp)` (`hs` = bytes before the first CRLFCRLF) -/
def parseHeaderBlock (hs : Bytes) : Except Kind Resp :=
  match splitCRLF hs with
  | [] => .error .statusLine      -- unreachable
  | sl :: lines =>
    match parseStatusLine sl with
    | .error k => .error k
    | .ok (version, code, text) =>
      match parseFieldLines lines none [] with
      | .error k => .error k
      | .ok h => .ok { status := code, text := text, version := version, headers := h, body := [] }

/-! ### determineFraming -/

inductive Mode where
  | noBody | contentLength | chunked | closeDelimited
  deriving DecidableEq, Repr

structure Framing where
  mode : Mode := .closeDelimited
  contentLength : Nat := 0
  deriving DecidableEq, Repr

def isInterim (sc : Nat) : Bool := decide (Gen.Http.clientInterimLo ≤ sc ∧ sc < Gen.Http.clientInterimHi)

/-- mirrors `determineFraming(method, resp, effectiveCap)` in RFC 9112 §6.3 rule order -/
def determineFraming (method : Bytes) (resp : Resp) (cap : Nat) : Except Kind Framing :=
  if method = ascii "CONNECT" then .error .connect
  else if method = ascii "HEAD" ∨ Gen.Http.clientNoBodyStatuses.contains resp.status ∨ isInterim resp.status then
    .ok { mode := .noBody, contentLength := 0 }
  else
    match hdrFind resp.headers (ascii "Transfer-Encoding"), hdrFind resp.headers (ascii "Content-Length") with
    | some _, some _ => .error .clAndTe
    | some te, none =>
      if transferEncodingFinalIsChunked te then .ok { mode := .chunked, contentLength := 0 }
      else .ok { mode := .closeDelimited, contentLength := 0 }
    | none, some cl =>
      match parseContentLength cl with
      | .error k => .error k
      | .ok n => if n > cap then .error .clTooBig else .ok { mode := .contentLength, contentLength := n }
    | none, none => .ok { mode := .closeDelimited, contentLength := 0 }

/-! ### advanceChunked -/

structure ChunkState where
  pos : Nat := 0
  decoded : Bytes := []
  messageEnd : Nat := 0
  deriving DecidableEq, Repr

/-- outcome of one iteration of the `while (true)` loop of `advanceChunked` -/
inductive StepRes where
  | needMore
  | malformed
  | complete (messageEnd : Nat)
  | next (st : ChunkState)
  deriving DecidableEq, Repr

/-- the trailer-section loop (`tp` = start of the current trailer line; `tnl = tp + off` = its LF) -/
def trailerLoop (buf : Bytes) (tp : Nat) : StepRes :=
  if h : tp < buf.length then
    match findAux [10] (buf.drop tp) 0 with
    | none => .needMore
    | some off =>
      if tp + off = 0 ∨ buf[tp + off - 1]? ≠ some 13 then .malformed
      else if tp + off - 1 = tp then .complete (tp + off + 1)
      else trailerLoop buf (tp + off + 1)
  else .needMore
termination_by buf.length - tp
decreasing_by omega

theorem trailerLoop_ne_next (buf : Bytes) (tp : Nat) (st' : ChunkState) : trailerLoop buf tp ≠ .next st' := by
  induction tp using trailerLoop.induct buf with
  | case1 tp h hf => rw [trailerLoop]; simp [h, hf]
  | case2 tp h off hf hm => rw [trailerLoop]; simp only [h, hf, ↓reduceDIte, if_pos hm]; simp
  | case3 tp h off hf hm he => rw [trailerLoop]; simp only [h, hf, ↓reduceDIte, if_neg hm, if_pos he]; simp
  | case4 tp h off hf hm he ih => rw [trailerLoop]; simp only [h, hf, ↓reduceDIte, if_neg hm, if_neg he]; exact ih
  | case5 tp h => rw [trailerLoop]; simp [h]

/-- the chunk-size line at `pos`: everything `advanceChunked` does before it looks at the chunk data -/
inductive SizeLine where
  | noLF                                     -- no `\n` after `pos` yet: NeedMore
  | bad                                      -- Malformed
  | ok (chunkSize dataStart : Nat)
  deriving DecidableEq, Repr

def sizeLine (buf : Bytes) (cap pos : Nat) : SizeLine :=
  match findAux [10] (buf.drop pos) 0 with
  | none => .noLF
  | some off =>
    -- nl = pos + off
    if pos + off = 0 ∨ buf[pos + off - 1]? ≠ some 13 then .bad             -- lone LF
    else
      let line := (buf.drop pos).take (pos + off - 1 - pos)                  -- bytes [p, lineEnd), lineEnd = nl - 1
      let hexRun := line.takeWhile isHexDigit
      if hexRun.isEmpty then .bad                                            -- no chunk-size digits
      else
        match parseFullUInt 16 hexRun with
        | none => .bad                                                       -- overflow
        | some chunkSize =>
          if chunkSize > cap then .bad
          else
            -- after the hex run: `;` (chunk-ext, possibly after BWS) or the CRLF; BWS before the CRLF is malformed
            if chunkExtOk (line.drop hexRun.length) then .ok chunkSize (pos + off + 1) else .bad

/-- one iteration of `advanceChunked`'s outer loop at `st.pos` -/
def chunkStep (buf : Bytes) (cap : Nat) (st : ChunkState) : StepRes :=
  match sizeLine buf cap st.pos with
  | .noLF => .needMore
  | .bad => .malformed
  | .ok chunkSize dataStart =>
    if chunkSize = 0 then trailerLoop buf dataStart
    else if buf.length < dataStart ∨ buf.length - dataStart < chunkSize ∨
            buf.length - dataStart - chunkSize < 2 then .needMore
    else if buf[dataStart + chunkSize]? ≠ some 13 ∨ buf[dataStart + chunkSize + 1]? ≠ some 10 then .malformed
    else .next { pos := dataStart + chunkSize + 2,
                 decoded := st.decoded ++ (buf.drop dataStart).take chunkSize,
                 messageEnd := st.messageEnd }

theorem sizeLine_dataStart (buf : Bytes) (cap pos n ds : Nat) (h : sizeLine buf cap pos = .ok n ds) : pos < ds := by
  unfold sizeLine at h
  split at h
  · cases h
  · simp only at h
    repeat' (split at h)
    all_goals first
      | (cases h; done)
      | (cases h; omega)

theorem chunkStep_next_lt (buf : Bytes) (cap : Nat) (st st' : ChunkState)
    (h : chunkStep buf cap st = .next st') : st.pos < st'.pos := by
  unfold chunkStep at h
  split at h
  · cases h
  · cases h
  · rename_i n ds hsl
    have := sizeLine_dataStart buf cap st.pos n ds hsl
    repeat' (split at h)
    all_goals first
      | (cases h; done)
      | exact absurd h (trailerLoop_ne_next _ _ _)
      | (cases h; dsimp only; omega)

inductive FrameStatus where
  | needMore | complete | malformed
  deriving DecidableEq, Repr

/-- mirrors `advanceChunked(buf, effectiveCap, st)` -/
def advanceChunked (buf : Bytes) (cap : Nat) (st : ChunkState) : FrameStatus × ChunkState :=
  if h : st.pos < buf.length then
    match hs : chunkStep buf cap st with
    | .needMore => (.needMore, st)
    | .malformed => (.malformed, st)
    | .complete me => (.complete, { st with messageEnd := me })
    | .next st' => advanceChunked buf cap st'
  else (.needMore, st)
termination_by buf.length - st.pos
decreasing_by
  have := chunkStep_next_lt buf cap st st' hs
  omega

/-! ### frameResponse and the receive loop -/

structure St where
  data : Bytes := []
  headersDone : Bool := false
  headerScanPos : Nat := 0
  bodyStart : Nat := 0
  resp : Resp := {}
  framing : Framing := {}
  chunk : ChunkState := {}
  forceEvict : Bool := false
  deriving DecidableEq, Repr

inductive Out where
  | needMore
  | complete
  | malformed (k : Kind)
  deriving DecidableEq, Repr

/-- the `switch (framing.mode)` of `frameResponse` -/
def bodyPhase (cap : Nat) (st : St) : St × Out :=
  match st.framing.mode with
  | .noBody =>
    ({ st with resp := { st.resp with body := [] },
               forceEvict := st.forceEvict || decide (st.data.length > st.bodyStart) }, .complete)
  | .contentLength =>
    if st.data.length - st.bodyStart < st.framing.contentLength then (st, .needMore)
    else
      ({ st with resp := { st.resp with body := (st.data.drop st.bodyStart).take st.framing.contentLength },
                 forceEvict := st.forceEvict || decide (st.data.length > st.bodyStart + st.framing.contentLength) },
       .complete)
  | .chunked =>
    match advanceChunked st.data cap st.chunk with
    | (.needMore, cs) => ({ st with chunk := cs }, .needMore)
    | (.malformed, cs) => ({ st with chunk := cs }, .malformed .chunk)
    | (.complete, cs) =>
      ({ st with chunk := cs, resp := { st.resp with body := cs.decoded },
                 forceEvict := st.forceEvict || decide (st.data.length > cs.messageEnd) }, .complete)
  | .closeDelimited => (st, .needMore)

/-- mirrors `frameResponse(method, data, headersDone, headerScanPos, bodyStart, resp, framing, chunkState,
forceEvict, effectiveCap)`; the by-reference parameters are the fields of `St` -/
def frameResponse (method : Bytes) (cap : Nat) (st : St) : St × Out :=
  if st.headersDone then bodyPhase cap st
  else if hl : st.data.length = 0 then ({ st with headerScanPos := 0 }, .needMore)
  else
    match find crlf2 st.data st.headerScanPos with
    | none =>
      ({ st with headerScanPos := if st.data.length ≥ 3 then st.data.length - 3 else 0 }, .needMore)
    | some he =>
      match parseHeaderBlock (st.data.take he) with
      | .error k => (st, .malformed k)
      | .ok resp =>
        if isInterim resp.status then
          frameResponse method cap { st with data := st.data.drop (he + 4), headerScanPos := 0, resp := resp }
        else
          match determineFraming method resp cap with
          | .error k => ({ st with resp := resp }, .malformed k)
          | .ok fr =>
            bodyPhase cap { st with headersDone := true, bodyStart := he + 4, resp := resp, framing := fr,
                                    chunk := { pos := he + 4, decoded := [], messageEnd := 0 } }
termination_by st.data.length
decreasing_by
  simp only [List.length_drop]
  omega

/-- what one turn of the `while (!complete)` loop of `executeRequest` sees from `receiveSync` -/
inductive Recv where
  | data (seg : Bytes)        -- `isOk() && len > 0` (an empty read changes nothing)
  | peerClosed                -- `TransportError::PeerClosed`
  | timeout                   -- `TransportError::Timeout`
  | overflow                  -- `TransportError::BufferOverflow`
  | shuttingDown              -- `TransportError::ShuttingDown`
  | otherError                -- any other error code (last `else if (recvResult.isErr())`)
  deriving DecidableEq, Repr

/-- the non-framing `std::runtime_error`s thrown out of the loop -/
inductive Fail where
  | timeout                   -- "HTTP response timeout"
  | shuttingDown              -- "HTTP transport shutting down before response complete"
  | closedEarly               -- "Connection closed before receiving complete HTTP response"
  deriving DecidableEq, Repr

/-- terminal result of the receive loop: a response, a framing error (`HttpFramingError`), or a non-framing failure -/
inductive LoopOut where
  | more
  | response (r : Resp) (forceEvict : Bool)
  | framingError (k : Kind)
  | failed (f : Fail)
  deriving DecidableEq, Repr

/-- one turn of the receive loop of `executeRequest` (arms in source order) -/
def recvStep (method : Bytes) (cap : Nat) (st : St) : Recv → St × LoopOut
  | .data seg =>
    if seg.isEmpty then (st, .more)
    else
      let st1 := { st with data := st.data ++ seg }
      if st1.data.length > cap then (st1, .framingError .cap)
      else
        match frameResponse method cap st1 with
        | (st2, .needMore) => (st2, .more)
        | (st2, .complete) => (st2, .response st2.resp st2.forceEvict)
        | (st2, .malformed k) => (st2, .framingError k)
  | .timeout => (st, .failed .timeout)
  | .overflow => (st, .framingError .overflow)
  | .shuttingDown => (st, .failed .shuttingDown)
  | .peerClosed =>
    if st.headersDone ∧ st.framing.mode = .closeDelimited then
      (st, .response { st.resp with body := st.data.drop st.bodyStart } true)
    else (st, .failed .closedEarly)
  | .otherError => (st, .failed .closedEarly)

/-- the `while (!complete)` loop of `executeRequest` over a scripted sequence of `receiveSync` results: it stops at the
first terminal outcome (a response is returned, or an exception leaves the loop) -/
def runLoop (method : Bytes) (cap : Nat) : St → List Recv → St × LoopOut
  | st, [] => (st, .more)
  | st, r :: rs =>
    match recvStep method cap st r with
    | (st', .more) => runLoop method cap st' rs
    | res => res

/-! ### around the loop: what `receiveSync` hands out, the cap, the reuse decision -/

/-- `receiveSync(sid, buffer, len = sizeof buffer)` drains at most `sizeof buffer` bytes per call: bytes that arrived together
are seen as successive reads of at most `Gen.Http.clientReadSize` bytes -/
def splitReads (n : Nat) (seg : Bytes) : List Bytes :=
  if h : n = 0 ∨ seg.length ≤ n then [seg] else seg.take n :: splitReads n (seg.drop n)
termination_by seg.length
decreasing_by simp only [List.length_drop]; omega

/-- `effectiveCap = std::max(_config.maxResponseBytes, _config.jsonConfig.maxPayloadSize)` -/
def effectiveCap (maxResponseBytes jsonMaxPayload : Nat) : Nat := max maxResponseBytes jsonMaxPayload

/-- mirrors `responseRequestsClose(resp)`: a `close` token wins, an explicit `keep-alive` keeps, else HTTP/1.0 closes -/
def connTokens (v : Bytes) : List Bytes := ((splitOn 44 v).map (fun e => lower (trim e))).filter (fun t => !t.isEmpty)
def responseRequestsClose (resp : Resp) : Bool :=
  match hdrFind resp.headers (ascii "Connection") with
  | some v =>
    if (connTokens v).contains (ascii "close") then true
    else if (connTokens v).contains (ascii "keep-alive") then false
    else resp.version == ascii "1.0"
  | none => resp.version == ascii "1.0"

/-- the loop over what the engine delivered: each delivery is read in pieces of at most `Gen.Http.clientReadSize` bytes;
`residual` = the response completed before the last piece of its delivery, i.e. received-but-unread bytes stay in the
transport -/
def runPieces (method : Bytes) (cap : Nat) : St → List Bytes → St × LoopOut × Bool
  | st, [] => (st, .more, false)
  | st, p :: ps =>
    match recvStep method cap st (.data p) with
    | (st', .more) => runPieces method cap st' ps
    | (st', o) => (st', o, !ps.isEmpty)

def runScript (method : Bytes) (cap : Nat) : St → List Recv → St × LoopOut × Bool
  | st, [] => (st, .more, false)
  | st, .data seg :: rs =>
    match runPieces method cap st (splitReads Gen.Http.clientReadSize seg) with
    | (st', .more, _) => runScript method cap st' rs
    | res => res
  | st, r :: rs =>
    match recvStep method cap st r with
    | (st', .more) => runScript method cap st' rs
    | (st', o) => (st', o, false)

/-- what `executeRequest` does after the loop: (result, connection dropped?) - every exception drops the connection
(`catch (...) { dropConnection; throw; }`); a response keeps it only if reusable: the client allows reuse, the response does
not ask for close, no surplus was framed, the body was not close-delimited, and the zero-timeout probe
`residualDataPending` finds nothing left in the transport -/
def executeReceive (method : Bytes) (maxResponseBytes jsonMaxPayload : Nat) (reuseConnections : Bool) (script : List Recv) :
    LoopOut × Bool :=
  let cap := effectiveCap maxResponseBytes jsonMaxPayload
  match runScript method cap {} script with
  | (st, .response r ev, residual) =>
    let reusable := reuseConnections && !responseRequestsClose r && !ev &&
      !(decide (st.framing.mode = .closeDelimited)) && !residual
    (.response r ev, !reusable)
  | (_, o, _) => (o, true)

end Iora.Http
