import IoraModel.Gen.Ws
/-
The lock/flag discipline of the WebSocket send paths, as a decidable predicate over the skeleton the translator extracts
from the source text (`Gen.Ws.serverSkeleton`, `Gen.Ws.clientSkeleton`: per function the lock / unlock / read-flag /
write-flag / make / send / return / call / callback events in textual order, each with the mutex held at that point).

It is exactly what the session models assume when they treat `sendText/sendBinary/sendPing` as ONE step
("check the close flag, then hand the frame to the transport") and `sendClose` / the inbound-CLOSE echo as
"flag first, then the close frame":
* `checkedSends`   every send of a data (or ping) frame happens while the mutex has been held continuously since a read of
                   the close flag that is followed by an early `return` — the test and the send are one critical section;
* `closeFlagged`   every send of a CLOSE frame is preceded, in the same function, by a write `flag = true` made under the
                   mutex — so whoever sees the flag clear under the mutex knows no close frame has been handed over yet;
* `flagWritesLocked` every write of the flag is under the mutex;
* `callbacksUnlocked` application callbacks and the calls of `sendClose` are made with no mutex held (re-entrant sends from a
                   callback can neither dead-lock nor observe a half-done close).
-/
namespace Iora.Ws.Skel

abbrev Evt := String × String × String      -- (event, object, mutex held)
abbrev Skeleton := List (String × List Evt)

def dataKinds : List String := ["Text", "Binary", "Ping", "Continuation"]

/-- walk one function: `rd` = the flag has been read under `m` in the current critical section, `rt` = and an early
`return` followed that read -/
def checkedSends (m flag : String) : List Evt → Bool → Bool → Bool
  | [], _, _ => true
  | (k, o, held) :: r, rd, rt =>
    if (k == "unlock" || k == "lock") && o == m then checkedSends m flag r false false
    else if k == "write" && o == flag ++ "=true" then checkedSends m flag r false false
    else if k == "read" && o == flag && held == m then checkedSends m flag r true false
    else if k == "return" && rd && held == m then checkedSends m flag r rd true
    else if k == "send" && dataKinds.contains o then (rd && rt && held == m) && checkedSends m flag r rd rt
    else checkedSends m flag r rd rt

/-- `w` = the flag has been set (under the mutex) earlier in this function -/
def closeFlagged (m flag : String) : List Evt → Bool → Bool
  | [], _ => true
  | (k, o, held) :: r, w =>
    if k == "write" && o == flag ++ "=true" && held == m then closeFlagged m flag r true
    else if k == "send" && o == "Close" then w && closeFlagged m flag r w
    else closeFlagged m flag r w

def flagWritesLocked (m flag : String) (evs : List Evt) : Bool :=
  evs.all (fun (k, o, held) => if k == "write" && (o == flag ++ "=true" || o == flag ++ "=false") then held == m else true)

def callbacksUnlocked (evs : List Evt) : Bool :=
  evs.all (fun (k, _, held) => if k == "callback" || k == "call" then held == "" else true)

def functionOk (m flag : String) (evs : List Evt) : Bool :=
  checkedSends m flag evs false false && closeFlagged m flag evs false && flagWritesLocked m flag evs && callbacksUnlocked evs

/-- the functions the models mirror, in the order the translator emits them -/
def serverFunctions : List String :=
  ["sendText", "sendBinary", "sendPing", "sendClose", "handleFrame", "handleDataFrame", "onUpgradedData"]
def clientFunctions : List String :=
  ["sendText", "sendBinary", "sendPing", "sendClose", "handleFrame", "handleDataFrame", "handleData", "teardownTransport"]

def disciplined (names : List String) (m flag : String) (sk : Skeleton) : Bool :=
  sk.map (·.1) == names && sk.all (fun f => functionOk m flag f.2)

/-- the data-send functions really do send (a skeleton with the send removed would be vacuously disciplined) -/
def sends (sk : Skeleton) (fn kind : String) : Bool :=
  sk.any (fun f => f.1 == fn && f.2.any (fun (k, o, _) => k == "send" && o == kind))

def sendersPresent (sk : Skeleton) : Bool :=
  sends sk "sendText" "Text" && sends sk "sendBinary" "Binary" && sends sk "sendPing" "Ping" && sends sk "sendClose" "Close"

end Iora.Ws.Skel
