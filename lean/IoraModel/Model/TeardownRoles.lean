import IoraModel.Gen.TeardownSkel
/-!
# Thread ROLES that can originate a callback into user code, and stop() (C05, extension round)

`Model/Teardown.lean` knows the I/O thread and the flusher as callback sources.  The engines have more threads than that: every
`TcpEngine` owns a `iora::core::TimerService` (thread "TcpEngineTimer") whose handlers `handleConnectTimeout` /
`handleHandshakeTimeout` / `handleWriteStallTimeout` run ON THE TIMER THREAD, and `shutdownDrain()` closes the sessions without
cancelling their timers (only `closeNow` does): a safety-net timer that was armed when `stop()` ran expires LATER, with the command
queue closed and the I/O thread gone.  This model has the three roles

* `io`    — the lambda handed to `std::thread(` in `start()`: `process()`, socket events, `shutdownDrain()`;
* `timer` — every lambda handed to `_timerService->scheduleAfter(`: its only step is `enqueue(Command::close(sid, …, origin))`;
* `api`   — the caller's own thread inside `start()/connect()/send()/close()/stop()`;

the command queue with its closed flag (mirrors tcp_engine.hpp::enqueue / shutdownDrain / start), the per-session safety-net timers
(mirrors scheduleConnectTimeout / scheduleHandshakeTimeout / scheduleWriteStallTimeout / cancelAllTimers), the staleness guards of
the Close arm of `process()`, and a log of every user callback with the role of the thread that ran it.

What the model TAKES from the regenerated inventory (`Gen/TeardownSkel.lean`, tools/tr_teardownskel.py: every call site of
`_cbs.on*` / `err()` with its member function, `catch`/`body` arm and the thread roles that function is reachable from over the
class-internal call graph; the statements of the timer handlers): `genCfg`.
-/
namespace Iora.TeardownRoles
open Iora.Gen

inductive Role | io | timer | api
  deriving DecidableEq, Repr
inductive Cb | accept | connect | data | close | error
  deriving DecidableEq, Repr
inductive TimerKind | connect | handshake | writeStall
  deriving DecidableEq, Repr

/-- mirrors tcp_engine.hpp::Command (Cmd::Connect / Send / Close with its CloseOrigin / Shutdown) -/
inductive Cmd
  | connect (sid : Nat) (tls : Bool)
  | send (sid : Nat)
  | close (sid : Nat) (origin : Option TimerKind)
  | shutdown
  deriving DecidableEq, Repr

/-- mirrors tcp_engine.hpp::Session — the fields the Close arm of `process()` tests -/
structure Sess where
  sid : Nat
  tls : Bool := false
  connectPending : Bool := true
  handshaking : Bool := false
  wqNonEmpty : Bool := false
  deriving DecidableEq, Repr

/-- socket events the I/O thread dispatches -/
inductive IoEv | connected | handshakeDone | data | stalled | drained | error
  deriving DecidableEq, Repr

/-- what the model takes from the source -/
structure Cfg where
  /-- a TimerService handler reaches a user callback outside `enqueue`'s exception arm: modelled as "a refused enqueue is reported
  through `onError` on the timer thread" -/
  timerCbOnRefusal : Bool
  /-- the exception arm of `enqueue` invokes `onError` on the CALLER's thread (only reachable past the closed test) -/
  enqueueCbOnException : Bool
  /-- `shutdownDrain` cancels the timers of the sessions it closes -/
  drainCancelsTimers : Bool
  deriving DecidableEq, Repr

structure State where
  running : Bool := false                  -- `_running`
  ioAlive : Bool := false                  -- the I/O thread exists
  closed : Bool := false                   -- `_cmdsClosed`
  q : List Cmd := []                       -- `_cmds`
  sessions : List Sess := []               -- `_sessions`
  timers : List (Nat × TimerKind) := []    -- armed, not cancelled, not yet fired (they live in the TimerService, not in the session)
  nextSid : Nat := 1                       -- `_nextSessionId` (never reset)
  joining : Bool := false                  -- an API thread is inside `stop()`, past the CAS
  quiet : Bool := false                    -- ghost: a `stop()` has RETURNED to its non-callback caller with the I/O thread gone, no `start()` since
  log : List (Role × Cb) := []             -- every user callback, with the role of the thread that ran it
  deriving Repr

inductive Step
  | apiStart (fail : Bool)                 -- `start()`; `fail`: a set-up step fails (`err()` on the caller's thread, inside `start()`)
  | apiConnect (tls : Bool) (oom : Bool)
  | apiSend (sid : Nat) (oom : Bool)
  | apiClose (sid : Nat) (oom : Bool)
  | apiStop (oom : Bool)                   -- `stop()`: the CAS and `enqueue(Command::shutdown())`
  | apiStopJoin                            -- … its join returns; `stop()` returns
  | ioProcess (arm : Bool)                 -- `process()`: the first queued command (`arm`: the command leaves a safety-net timer pending)
  | ioEvent (sid : Nat) (ev : IoEv) (arm : Bool)
  | ioDrainClose (sid : Nat)               -- `shutdownDrain()`: one session
  | ioDrainFinish                          -- … closes the queue, reports the residual connects, the thread terminates
  | timerFire (k : Nat) (oom : Bool)       -- the `k`-th armed timer expires: its handler runs on the TimerService thread
  deriving Repr

def cb (s : State) (r : Role) (c : Cb) : State := { s with log := s.log ++ [(r, c)] }

/-- mirrors tcp_engine.hpp::enqueue (both overloads): closed ⇒ refused BEFORE the push; the exception arm (`oom`: `push_back`
throws) reports through `onError` on the caller's thread and refuses -/
def enqueue (cfg : Cfg) (s : State) (r : Role) (c : Cmd) (oom : Bool) : State × Bool :=
  if s.closed then (s, false)
  else if oom then ((if cfg.enqueueCbOnException then cb s r .error else s), false)
  else ({ s with q := s.q ++ [c] }, true)

def cancel (ts : List (Nat × TimerKind)) (sid : Nat) (k : Option TimerKind) : List (Nat × TimerKind) :=
  ts.filter fun t => !(t.1 == sid && (match k with | none => true | some k => t.2 == k))

def findSess (s : State) (sid : Nat) : Option Sess := s.sessions.find? (·.sid == sid)
def dropSess (s : State) (sid : Nat) : List Sess := s.sessions.filter (·.sid != sid)
def setSess (s : State) (x : Sess) : List Sess := s.sessions.map fun y => if y.sid == x.sid then x else y

/-- mirrors tcp_engine.hpp::closeNow — `cancelAllTimers`, erase, `onClose` on the I/O thread -/
def closeNow (s : State) (sid : Nat) : State :=
  cb { s with sessions := dropSess s sid, timers := cancel s.timers sid none } .io .close

/-- mirrors tcp_engine.hpp::process, Close arm — a timer-originated close is dropped when its condition no longer holds -/
def stale (x : Sess) : Option TimerKind → Bool
  | none => false
  | some .connect => !x.connectPending
  | some .handshake => !x.handshaking
  | some .writeStall => !x.wqNonEmpty

/-- mirrors tcp_engine.hpp::process — one command -/
def dispatch (s : State) (c : Cmd) (arm : Bool) : State :=
  match c with
  | .connect sid tls =>
    { s with sessions := s.sessions ++ [{ sid := sid, tls := tls }],
             timers := if arm then s.timers ++ [(sid, .connect)] else s.timers }
  | .send sid =>
    (match findSess s sid with
     | some x => if arm then { s with sessions := setSess s { x with wqNonEmpty := true },
                                      timers := if s.timers.contains (sid, .writeStall) then s.timers else s.timers ++ [(sid, .writeStall)] }
                 else s
     | none => s)
  | .close sid origin =>
    (match findSess s sid with
     | some x => if stale x origin then s else closeNow s sid
     | none => s)
  | .shutdown => { s with running := false }

def doIoEvent (s : State) (sid : Nat) (ev : IoEv) (arm : Bool) : State :=
  match findSess s sid with
  | none => s
  | some x =>
    match ev with
    | .connected =>
      if !x.connectPending || x.handshaking then s
      else if x.tls then
        { s with sessions := setSess s { x with handshaking := true },
                 timers := if arm then s.timers ++ [(sid, .handshake)] else s.timers }
      else cb { s with sessions := setSess s { x with connectPending := false }, timers := cancel s.timers sid (some .connect) } .io .connect
    | .handshakeDone =>
      if !x.handshaking then s
      else cb { s with sessions := setSess s { x with connectPending := false, handshaking := false },
                       timers := cancel (cancel s.timers sid (some .connect)) sid (some .handshake) } .io .connect
    | .data => if x.connectPending then s else cb s .io .data
    | .stalled =>
      if x.connectPending then s
      else { s with sessions := setSess s { x with wqNonEmpty := true },
                    timers := if arm && !s.timers.contains (sid, .writeStall) then s.timers ++ [(sid, .writeStall)] else s.timers }
    | .drained => { s with sessions := setSess s { x with wqNonEmpty := false }, timers := cancel s.timers sid (some .writeStall) }
    | .error => closeNow s sid

/-- residual commands of the shutdown drain: a Connect that never ran gets its `onClose` (every id handed out is reported once) -/
def residualCloses : List Cmd → List (Role × Cb)
  | [] => []
  | .connect _ _ :: rest => (.io, .close) :: residualCloses rest
  | _ :: rest => residualCloses rest

def step (cfg : Cfg) (s : State) : Step → State
  | .apiStart fail =>
    if s.running || s.ioAlive || s.joining then s           -- "already running" / the lifecycle contract (start is not concurrent with stop)
    else if fail then cb { s with quiet := false, closed := false } .api .error
    else { s with running := true, ioAlive := true, closed := false, quiet := false }
  | .apiConnect tls oom =>
    (enqueue cfg { s with nextSid := s.nextSid + 1 } .api (.connect s.nextSid tls) oom).1
  | .apiSend sid oom => (enqueue cfg s .api (.send sid) oom).1
  | .apiClose sid oom => (enqueue cfg s .api (.close sid none) oom).1
  | .apiStop oom =>
    if s.joining then s                                       -- a second stopper loses the CAS and returns at once (not a `quiet` return)
    else if s.running then { (enqueue cfg { s with running := false } .api .shutdown oom).1 with joining := true }
    else if s.ioAlive then s                                  -- CAS lost against the Shutdown command / detach: returns at once
    else { s with quiet := s.closed }                         -- nothing runs: `stop()` returns (a never-started engine, queue open, is not "stopped")
  | .apiStopJoin =>
    if s.joining && !s.ioAlive then { s with joining := false, quiet := true } else s
  | .ioProcess arm =>
    if s.ioAlive then
      match s.q with
      | [] => s
      | c :: rest => dispatch { s with q := rest } c arm
    else s
  | .ioEvent sid ev arm => if s.ioAlive && s.running then doIoEvent s sid ev arm else s
  | .ioDrainClose sid =>
    if s.ioAlive && !s.running then
      match findSess s sid with
      | some _ => cb { s with sessions := dropSess s sid,
                              timers := if cfg.drainCancelsTimers then cancel s.timers sid none else s.timers } .io .close
      | none => s
    else s
  | .ioDrainFinish =>
    if s.ioAlive && !s.running && s.sessions.isEmpty then
      { s with closed := true, q := [], ioAlive := false, log := s.log ++ residualCloses s.q }
    else s
  | .timerFire k oom =>
    match s.timers[k]? with
    | none => s
    | some (sid, kind) =>
      let r := enqueue cfg { s with timers := s.timers.eraseIdx k } .timer (.close sid (some kind)) oom
      if !r.2 && s.closed && cfg.timerCbOnRefusal then cb r.1 .timer .error else r.1

def run (cfg : Cfg) (s : State) : List Step → State
  | [] => s
  | st :: rest => run cfg (step cfg s st) rest

/-! ## instantiation from the regenerated inventory -/

/-- a call site of a user callback that the TimerService role reaches OUTSIDE the exception arm of `enqueue` -/
def timerSiteOutsideEnqueue (x : String × String × String × List String) : Bool :=
  x.2.2.2.contains "timer" && !((x.1 == "enqueue" || x.1 == "enqueue#1") && x.2.2.1 == "catch")

def genCfg : Cfg :=
  { timerCbOnRefusal := TeardownSkel.tcpCallbackSites.any timerSiteOutsideEnqueue ||
                        TeardownSkel.tcpTimerHandlers.any (fun h => h.2.2 != "enqueue-ignored"),
    enqueueCbOnException := TeardownSkel.tcpCallbackSites.any (fun x => (x.1 == "enqueue" || x.1 == "enqueue#1") && x.2.2.1 == "catch"),
    drainCancelsTimers := TeardownSkel.tcpDrainCancelsTimers }

/-- UdpEngine has no TimerService: the same model with no timer ever armed; its inventory must show no timer role at all -/
def udpHasNoTimerRole : Bool :=
  TeardownSkel.udpTimerRoleFns.isEmpty && TeardownSkel.udpTimerHandlers.isEmpty &&
  TeardownSkel.udpCallbackSites.all (fun x => !x.2.2.2.contains "timer")

/-- callbacks the log shows from `k` on -/
def lateOf (s : State) (k : Nat) : List (Role × Cb) := s.log.drop k

end Iora.TeardownRoles
