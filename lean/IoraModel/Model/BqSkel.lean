import IoraModel.Gen.BqSkel
/-!
# Lock / notify discipline of `BlockingQueue` as extracted from the source (DESIGN §2.1, §6.3)

`Gen/BqSkel.lean` lists, per method and in textual order, every event on `_mutex`, the two condition variables and the
two variables read by the wait predicates (`_queue`, `_closed`), with the mutexes held at that point.
`expected` is the skeleton the monitor model (`Model/BlockingQueue.lean`, `fixed = true`) was written against — the
obligation `skeleton_conforms` (by `decide`, in `Props/C10.lean`) fails to build when the source moves a write out of
the lock, drops or reorders a notify, or adds an unknown method.  `disciplined` is the classical sufficient condition for
the absence of lost wake-ups, checked on the extracted skeleton itself.
-/
namespace Iora.BQ

abbrev Ev := String × String × String × String
abbrev Skel := List (String × List Ev)

/-- the wait predicate of a put: `_queue.size() < _maxSize || _closed`, evaluated inside the lambda -/
def putPred : List Ev :=
  [("size", "_queue", "_mutex", "lambda"), ("read", "_maxSize", "_mutex", "lambda"), ("read", "_closed", "_mutex", "lambda")]

def putSkel (w : String) : List Ev :=
  [("lock", "_mutex", "", ""), (w, "_condNotFull", "_mutex", "")] ++ putPred ++
  [("read", "_closed", "_mutex", "if-cond"), ("push", "_queue", "_mutex", ""), ("unlock", "_mutex", "_mutex", ""),
   ("notify_one", "_condNotEmpty", "", "")]

def tryPutSkel : List Ev :=
  [("lock", "_mutex", "", ""), ("read", "_closed", "_mutex", "if-cond"), ("size", "_queue", "_mutex", "if-cond"),
   ("read", "_maxSize", "_mutex", "if-cond"), ("push", "_queue", "_mutex", ""),
   ("unlock", "_mutex", "_mutex", ""), ("notify_one", "_condNotEmpty", "", "")]

/-- after the early `return false` on an empty queue: move the front out, pop it, unlock, ONE UNCONDITIONAL notify_one -/
def takeTail : List Ev :=
  [("empty", "_queue", "_mutex", "if-cond"), ("front", "_queue", "_mutex", ""), ("pop", "_queue", "_mutex", ""),
   ("unlock", "_mutex", "_mutex", ""), ("notify_one", "_condNotFull", "", "")]

def takeSkel (w : String) : List Ev :=
  [("lock", "_mutex", "", ""), (w, "_condNotEmpty", "_mutex", ""), ("empty", "_queue", "_mutex", "lambda"),
   ("read", "_closed", "_mutex", "lambda")] ++ takeTail

def lockedRead (what : List Ev) : List Ev :=
  [("lock", "_mutex", "", "")] ++ what ++ [("unlock", "_mutex", "_mutex", "")]

/-- the skeleton the monitor model mirrors (`queue`, `tryQueue`×4, `dequeue`×2, `tryDequeue`, `close` as repaired, queries,
destructor).  The fourth component is the enclosing control construct: every effect (push, pop, unlock, notify) is at function
level - unconditional once the early returns are passed -, the predicates read `_queue`/`_maxSize`/`_closed` inside the wait
lambda, the guards of the early returns are `if` conditions. -/
def expected : Skel :=
  [("queue#0", putSkel "wait"), ("queue#1", putSkel "wait"),
   ("tryQueue#0", putSkel "wait_for"), ("tryQueue#1", putSkel "wait_for"),
   ("tryQueue#2", tryPutSkel), ("tryQueue#3", tryPutSkel),
   ("dequeue#0", takeSkel "wait"), ("dequeue#1", takeSkel "wait_for"),
   ("tryDequeue#0", [("lock", "_mutex", "", "")] ++ takeTail),
   ("close#0", [("lock", "_mutex", "", ""), ("write", "_closed", "_mutex", "if-cond"), ("unlock", "_mutex", "_mutex", ""),
                ("notify_all", "_condNotEmpty", "", ""), ("notify_all", "_condNotFull", "", "")]),
   ("isClosed#0", [("read", "_closed", "", "")]),
   ("size#0", lockedRead [("size", "_queue", "_mutex", "")]), ("empty#0", lockedRead [("empty", "_queue", "_mutex", "")]),
   ("full#0", lockedRead [("size", "_queue", "_mutex", ""), ("read", "_maxSize", "_mutex", "")]),
   ("capacity#0", [("read", "_maxSize", "", "")]),
   ("~BlockingQueue#0", [("call", "close", "", "")])]

def isWait (k : String) : Bool := k == "wait" || k == "wait_for" || k == "wait_until"
def isNotify (k : String) : Bool := k == "notify_one" || k == "notify_all"

def isQueueRead (k : String) : Bool := k == "size" || k == "empty" || k == "front"

/-- a later UNCONDITIONAL (function-level) notify on `cv` exists in the rest of the method -/
def notifiedLater (cv : String) (all : Bool) (rest : List Ev) : Bool :=
  rest.any (fun e => e.2.1 == cv && e.2.2.2 == "" && (if all then e.1 == "notify_all" else isNotify e.1))

def disciplinedEvents : List Ev → Bool
  | [] => true
  | (k, o, held, g) :: rest =>
    (if k == "write" || k == "push" || k == "pop" then held == "_mutex" else true) &&
    (if isQueueRead k && o == "_queue" then held == "_mutex" else true) &&
    (if isWait k then held == "_mutex" && g == "" else true) &&
    (if k == "push" || k == "pop" || isNotify k then g == "" else true) &&
    (if k == "push" then notifiedLater "_condNotEmpty" false rest else true) &&
    (if k == "pop" then notifiedLater "_condNotFull" false rest else true) &&
    (if k == "write" && o == "_closed" then
        notifiedLater "_condNotEmpty" true rest && notifiedLater "_condNotFull" true rest else true) &&
    disciplinedEvents rest

/-- every write to a variable read by a wait predicate (`_queue`, `_closed`) happens while holding the waiters' mutex and is
followed by a notify of the condition variable whose predicate it can make true; every wait holds the mutex; every access
to the (non-atomic) deque is under the mutex; pushes, pops, waits and notifies are not nested in any `if`/loop (a notify that
depends on a condition - `if (n == _maxSize) notify` - is rejected here) -/
def disciplined (sk : Skel) : Bool := sk.all (fun m => disciplinedEvents m.2)

end Iora.BQ
