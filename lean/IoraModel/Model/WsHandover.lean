import IoraModel.Model.WsServer
/-
The hand-over of a connection from the HTTP request path to the WebSocket path (`http_server.hpp`), as a small-step
model of TWO threads (repair FC18f):

* the POOL thread runs `processHttpRequest` for the extracted Upgrade request: `onUpgradeRequest`
  (`markSessionUpgraded`, `_sessions[sid] = {}`, `_onConnect`), the 101 response, then the drain loop
  (`{ lock; buffer empty ? release the hold : take the buffer } ; onUpgradedData(taken)` repeated);
* the I/O thread keeps delivering reads to `handleIncomingData`, whose first critical section decides: hold the bytes
  back in `SessionInfo::buffer` (an upgrade is pending), route them to `onUpgradedData` (upgraded), or parse HTTP.

The model starts at the point where the request loop has extracted the Upgrade request: in ONE `_sessionMutex` section
it has stored the bytes that followed the request (`trailing`) in the session buffer and put the session id into
`_upgradePending` (pinned by `Gen.Ws.handoverFacts`), and it has left the loop without looking at those bytes.
Every step below is one critical section or one call made with no lock held, so any interleaving of the two threads is a
list of `HStep`s.
-/
namespace Iora.Ws

/-- the pool thread's position in `processHttpRequest` -/
inductive HPc where
  | mark                 -- `onUpgradeRequest`: about to `markSessionUpgraded(sid)`
  | create               -- about to create `_sessions[sid]`
  | connect              -- about to call `_onConnect`
  | respond              -- about to hand the 101 response to the transport
  | drain                -- at the head of the drain loop (one `_sessionMutex` section)
  | feed (d : Bytes)     -- holds `remaining = d`, about to call `onUpgradedData` with no lock held
  | done
  deriving DecidableEq, Repr

structure Hand where
  pc : HPc := .mark
  pending : Bool := true            -- `sid ∈ _upgradePending`
  upgraded : Bool := false          -- `sid ∈ _upgradedSessions`
  httpBuf : Bytes := []             -- `_sessionInfo[sid].buffer`
  sess : Sess := { alive := false } -- `_sessions[sid]` (absent before `create`)
  deriving Repr

inductive HStep where
  | worker               -- the pool thread makes its next step
  | read (d : Bytes)     -- the I/O thread delivers one read to `handleIncomingData`
  deriving Repr

/-- mirrors the head of `handleIncomingData`: hold back while the upgrade is pending (bounded by
`SessionInfo::MAX_BUFFER_SIZE`, beyond it the connection is closed and the read dropped), else route to the upgraded
protocol; a session that is neither is a plain HTTP session (C15, not part of this model) -/
def hRead (maxBuf maxFrame : Nat) (cb : Cbs) (h : Hand) (d : Bytes) : Hand × List Ev :=
  if h.pending then
    if h.httpBuf.length + d.length > maxBuf then (h, [.closeSession])
    else ({ h with httpBuf := h.httpBuf ++ d }, [])
  else if h.upgraded then
    let (s, ev) := onData maxFrame cb h.sess d
    ({ h with sess := s }, ev)
  else (h, [])

/-- one step of the pool thread -/
def hWorker (maxFrame : Nat) (cb : Cbs) (h : Hand) : Hand × List Ev :=
  match h.pc with
  | .mark => ({ h with pc := .create, upgraded := true }, [])
  | .create => ({ h with pc := .connect, sess := {} }, [])
  | .connect => ({ h with pc := .respond }, [.connected])
  | .respond => ({ h with pc := .drain }, [.upgraded])
  | .drain =>
    if h.httpBuf.isEmpty then ({ h with pc := .done, pending := false }, [])   -- hold released in the SAME section
    else ({ h with pc := .feed h.httpBuf, httpBuf := [] }, [])
  | .feed d =>
    let (s, ev) := onData maxFrame cb h.sess d
    ({ h with pc := .drain, sess := s }, ev)
  | .done => (h, [])

def hStep (maxBuf maxFrame : Nat) (cb : Cbs) (h : Hand) : HStep → Hand × List Ev
  | .worker => hWorker maxFrame cb h
  | .read d => hRead maxBuf maxFrame cb h d

def hRun (maxBuf maxFrame : Nat) (cb : Cbs) : Hand → List HStep → Hand × List Ev
  | h, [] => (h, [])
  | h, st :: rest =>
    let (h1, e1) := hStep maxBuf maxFrame cb h st
    let (h2, e2) := hRun maxBuf maxFrame cb h1 rest
    (h2, e1 ++ e2)

/-- the state the request loop leaves: upgrade pending, the bytes that followed the request in the session buffer -/
def hInit (trailing : Bytes) : Hand := { httpBuf := trailing }

/-- the bytes the I/O thread delivers during a schedule, in order -/
def readsOf : List HStep → Bytes
  | [] => []
  | .worker :: r => readsOf r
  | .read d :: r => d ++ readsOf r

/-- bytes taken out of the session buffer by the drain loop and not yet passed on -/
def HPc.inflight : HPc → Bytes
  | .feed d => d
  | _ => []

/-- the connect / 101 events the pool thread has produced when it is at `pc` -/
def HPc.pre : HPc → List Ev
  | .mark => []
  | .create => []
  | .connect => []
  | .respond => [.connected]
  | _ => [.connected, .upgraded]

/-! ### `WebSocketServer::onUpgradeRequest`: which requests are upgraded -/

/-- ASCII lower case (`::tolower` in the C locale) -/
def lowerB (b : Bytes) : Bytes := b.map (fun c => if 65 ≤ c.toNat ∧ c.toNat ≤ 90 then c + 32 else c)

/-- `std::string::find(needle) != npos` -/
def containsSub (hay needle : Bytes) : Bool :=
  match hay with
  | [] => needle.isEmpty
  | _ :: t => needle.isPrefixOf hay || containsSub t needle

/-- the string literals of the checks, as the translator reads them from the source (`"websocket"`, `"upgrade"`, `"13"`) -/
def tokWebsocket : Bytes := Gen.Ws.upgTokWebsocket.map UInt8.ofNat
def tokUpgrade : Bytes := Gen.Ws.upgTokUpgrade.map UInt8.ofNat
def tok13 : Bytes := Gen.Ws.upgTokVersion.map UInt8.ofNat
/-- the statuses answered when the Connection / key / version check fails -/
def upgStatus (i : Nat) : Nat := match Gen.Ws.upgStatuses[i]? with | some s => s | none => 0

inductive UpDecision where
  | notWebSocket            -- `return false`: not ours, the request goes to the normal route dispatch
  | reject (status : Nat)   -- `return true` with an error response; the session is neither marked nor created
  | accept
  deriving DecidableEq, Repr

/-- mirrors the header checks of `onUpgradeRequest`, in their order (no origin callback installed that refuses): the values of
`Upgrade`, `Connection`, `Sec-WebSocket-Key`, `Sec-WebSocket-Version` (empty = header absent) -/
def upgradeDecision (upgradeV connectionV key version : Bytes) : UpDecision :=
  if lowerB upgradeV ≠ tokWebsocket then .notWebSocket
  else if !containsSub (lowerB connectionV) tokUpgrade then .reject (upgStatus 0)
  else if key.isEmpty then .reject (upgStatus 1)
  else if version ≠ tok13 then .reject (upgStatus 2)
  else .accept

/-- ### the UNREPAIRED hand-over (`/repo` before FC18f), kept to state what was wrong

No hold: a read looks only at `_upgradedSessions`; before the mark it is appended to the session buffer (and scanned by
the HTTP request loop — not modelled), after it it goes straight to `onUpgradedData`. The drain is a single take. -/
def oRead (maxFrame : Nat) (cb : Cbs) (h : Hand) (d : Bytes) : Hand × List Ev :=
  if h.upgraded then
    let (s, ev) := onData maxFrame cb h.sess d
    ({ h with sess := s }, ev)
  else ({ h with httpBuf := h.httpBuf ++ d }, [])

def oWorker (maxFrame : Nat) (cb : Cbs) (h : Hand) : Hand × List Ev :=
  match h.pc with
  | .mark => ({ h with pc := .create, upgraded := true }, [])
  | .create => ({ h with pc := .connect, sess := {} }, [])
  | .connect => ({ h with pc := .respond }, [.connected])
  | .respond => ({ h with pc := .drain }, [.upgraded])
  | .drain => if h.httpBuf.isEmpty then ({ h with pc := .done }, []) else ({ h with pc := .feed h.httpBuf, httpBuf := [] }, [])
  | .feed d =>
    let (s, ev) := onData maxFrame cb h.sess d
    ({ h with pc := .done, sess := s }, ev)
  | .done => (h, [])

def oRun (maxFrame : Nat) (cb : Cbs) : Hand → List HStep → Hand × List Ev
  | h, [] => (h, [])
  | h, .worker :: rest =>
    let (h1, e1) := oWorker maxFrame cb h
    let (h2, e2) := oRun maxFrame cb h1 rest
    (h2, e1 ++ e2)
  | h, .read d :: rest =>
    let (h1, e1) := oRead maxFrame cb h d
    let (h2, e2) := oRun maxFrame cb h1 rest
    (h2, e1 ++ e2)

end Iora.Ws
