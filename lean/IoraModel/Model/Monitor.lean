/-!
# Monitors: threads over one or more mutexes and condition variables, "for every schedule" (DESIGN §6.3)

Vocabulary shared by the lock/condvar protocols (C10 blocking queue; reusable by C03 C04 C05 C08 C09 C18).

A *thread* is a program counter over the alphabet of pthread operations (`Op`).  Its behaviour is a `Prog`:
`op loc` is the pthread operation the thread is about to perform in local state `loc`, and `after loc data late`
is the user code that runs once that operation has taken effect, up to (not including) the next pthread operation:
it may read and write the shared data and yields the next local state.  This is exactly the step granularity of
DetSched (harness/detsched): one scheduler step = the effect of the pending operation + the code up to the next
interposed call; code between two pthread calls is atomic (atomics are not preemption points).

`wait cv m` is two steps of the waiting thread — *release-and-sleep* (atomic, as POSIX guarantees) and, after a
wake-up, *re-acquire* — plus the wake-up itself, which is performed by a notifier (`notifyOne` wakes ONE sleeper,
chosen by the schedule; `notifyAll` all), by the scheduler action `timeout` (timed waits only) or by `spurious`.
"Every interleaving" is `∀ sched : List Choice`; a choice that is not enabled is a stutter.

A *lost wake-up* is a reachable state in which a thread is asleep, its wait condition holds, and nothing is left
that will wake it; for a concrete class this is stated over its data (see `Model/BlockingQueue.lean`).
-/
namespace Iora.Monitor

abbrev Tid := Nat
abbrev MutexId := Nat
abbrev CvId := Nat

/-- pthread operation a thread is about to perform -/
inductive Op
  | start
  | lock (m : MutexId)
  | unlock (m : MutexId)
  | wait (cv : CvId) (m : MutexId) (timed : Bool)
  | notifyOne (cv : CvId)
  | notifyAll (cv : CvId)
  | yield
  | done
  deriving DecidableEq, Repr

/-- scheduling status of a thread -/
inductive Status
  /-- runs when scheduled; its pending operation is `prog.op loc` -/
  | ready
  /-- inside `wait cv m`: mutex released, sleeping -/
  | asleep (cv : CvId) (m : MutexId) (timed : Bool)
  /-- woken (by notify / time-out / spuriously), must re-acquire `m`; `to` = woken by time-out -/
  | woken (m : MutexId) (timed : Bool) (to : Bool)
  deriving DecidableEq, Repr

structure TState (L : Type) where
  status : Status
  loc : L

/-- behaviour of the threads: `D` shared data, `L` thread-local state -/
structure Prog (D L : Type) where
  op : L → Op
  /-- user code after the pending operation took effect; `late` is only meaningful after a timed wait: the wait
  returned because its deadline passed -/
  after : L → D → Bool → L × D

structure State (D L : Type) where
  /-- number of threads; thread ids are `0 … n-1` -/
  n : Nat
  data : D
  owner : MutexId → Option Tid
  thr : Tid → TState L

/-- scheduler choices -/
inductive Choice
  /-- thread `t` performs its pending operation; `alt` selects the sleeper a `notifyOne` wakes (a thread id), and for
  the re-acquisition after a timed wait `alt ≠ 0` says that the deadline has passed meanwhile -/
  | run (t : Tid) (alt : Nat)
  /-- the timed wait of sleeping thread `t` times out -/
  | timeout (t : Tid)
  /-- sleeping thread `t` wakes up spuriously -/
  | spurious (t : Tid)
  deriving DecidableEq, Repr

def updT {α : Type} (f : Nat → α) (k : Nat) (x : α) : Nat → α := fun i => if i = k then x else f i

def isAsleepOn {L : Type} (cv : CvId) (ts : TState L) : Bool :=
  match ts.status with
  | .asleep c _ _ => c == cv
  | _ => false

/-- is some thread asleep on `cv`? -/
def anyAsleep {D L : Type} (s : State D L) (cv : CvId) : Bool :=
  (List.range s.n).any (fun t => isAsleepOn cv (s.thr t))

/-- wake one thread (it keeps its local state; it still has to re-acquire its mutex) -/
def wakeT {L : Type} (ts : TState L) (to : Bool) : TState L :=
  match ts.status with
  | .asleep _ m timed => { ts with status := .woken m timed to }
  | _ => ts

def wakeAll {L : Type} (cv : CvId) (thr : Tid → TState L) : Tid → TState L :=
  fun t => if isAsleepOn cv (thr t) then wakeT (thr t) false else thr t

/-- thread `t` (status `ready`) has performed its pending operation: run its user code -/
def runAfter {D L : Type} (P : Prog D L) (s : State D L) (t : Tid) (late : Bool) : State D L :=
  let ts := s.thr t
  let (l', d') := P.after ts.loc s.data late
  { s with data := d', thr := updT s.thr t { status := .ready, loc := l' } }

def step {D L : Type} (P : Prog D L) (s : State D L) : Choice → State D L
  | .timeout t =>
    if t < s.n then
      match (s.thr t).status with
      | .asleep _ _ true => { s with thr := updT s.thr t (wakeT (s.thr t) true) }
      | _ => s
    else s
  | .spurious t =>
    if t < s.n then
      match (s.thr t).status with
      | .asleep _ _ _ => { s with thr := updT s.thr t (wakeT (s.thr t) false) }
      | _ => s
    else s
  | .run t alt =>
    if t < s.n then
      match (s.thr t).status with
      | .asleep _ _ _ => s
      | .woken m timed to =>
        if s.owner m = none then
          runAfter P { s with owner := updT s.owner m (some t) } t (timed && (to || alt != 0))
        else s
      | .ready =>
        match P.op (s.thr t).loc with
        | .start => runAfter P s t false
        | .yield => runAfter P s t false
        | .lock m => if s.owner m = none then runAfter P { s with owner := updT s.owner m (some t) } t false else s
        | .unlock m => runAfter P { s with owner := updT s.owner m none } t false
        | .wait cv m timed =>
          { s with owner := updT s.owner m none, thr := updT s.thr t { (s.thr t) with status := .asleep cv m timed } }
        | .notifyOne cv =>
          if anyAsleep s cv then
            if alt < s.n ∧ isAsleepOn cv (s.thr alt) then
              runAfter P { s with thr := updT s.thr alt (wakeT (s.thr alt) false) } t false
            else s
          else runAfter P s t false
        | .notifyAll cv => runAfter P { s with thr := wakeAll cv s.thr } t false
        | .done => s
    else s

/-- the state reached by a schedule -/
def run {D L : Type} (P : Prog D L) (s : State D L) (sched : List Choice) : State D L := sched.foldl (step P) s

theorem run_nil {D L : Type} (P : Prog D L) (s : State D L) : run P s [] = s := rfl
theorem run_cons {D L : Type} (P : Prog D L) (s : State D L) (c : Choice) (cs : List Choice) :
    run P s (c :: cs) = run P (step P s c) cs := rfl

/-- invariants lift from one step to every schedule -/
theorem inv_run {D L : Type} (P : Prog D L) (Inv : State D L → Prop)
    (hstep : ∀ s c, Inv s → Inv (step P s c)) : ∀ (sched : List Choice) (s : State D L), Inv s → Inv (run P s sched) := by
  intro sched
  induction sched with
  | nil => intro s h; exact h
  | cons c cs ih => intro s h; exact ih _ (hstep s c h)

/-- thread `t` can take a step when scheduled -/
def enabled {D L : Type} (P : Prog D L) (s : State D L) (t : Tid) : Bool :=
  match (s.thr t).status with
  | .asleep _ _ _ => false
  | .woken m _ _ => (s.owner m).isNone
  | .ready =>
    match P.op (s.thr t).loc with
    | .lock m => (s.owner m).isNone
    | .done => false
    | _ => true

/-- no thread can run: every thread is finished, asleep, or waiting for a mutex that will never be released.  (Sleepers
of timed waits could still time out; DetSched reports a dead-lock only when there is no timed sleeper either.) -/
def Deadlocked {D L : Type} (P : Prog D L) (s : State D L) : Prop := ∀ t, t < s.n → enabled P s t = false

instance {D L : Type} (P : Prog D L) (s : State D L) : Decidable (Deadlocked P s) :=
  inferInstanceAs (Decidable (∀ t, t < s.n → enabled P s t = false))

/-! ## Counting threads -/

/-- number of threads `< n` whose state satisfies `p` -/
def cnt {L : Type} (p : TState L → Bool) (thr : Tid → TState L) : Nat → Nat
  | 0 => 0
  | n + 1 => cnt p thr n + (if p (thr n) then 1 else 0)

theorem cnt_congr {L : Type} (p : TState L → Bool) (f g : Tid → TState L) (n : Nat)
    (h : ∀ t, t < n → p (f t) = p (g t)) : cnt p f n = cnt p g n := by
  induction n with
  | zero => rfl
  | succ n ih =>
    simp only [cnt]
    rw [ih (fun t ht => h t (by omega)), h n (by omega)]

theorem cnt_upd {L : Type} (p : TState L → Bool) (f : Tid → TState L) (n t : Nat) (x : TState L) (ht : t < n) :
    cnt p (updT f t x) n + (if p (f t) then 1 else 0) = cnt p f n + (if p x then 1 else 0) := by
  induction n with
  | zero => omega
  | succ n ih =>
    simp only [cnt]
    by_cases e : n = t
    · subst e
      have : cnt p (updT f n x) n = cnt p f n := cnt_congr p _ _ n (fun u hu => by have : u ≠ n := by omega
                                                                                   simp [updT, this])
      rw [this]
      simp [updT]
      omega
    · have := ih (by omega)
      have e2 : updT f t x n = f n := by simp [updT, e]
      rw [e2]
      omega

theorem cnt_upd_ge {L : Type} (p : TState L → Bool) (f : Tid → TState L) (n t : Nat) (x : TState L) (ht : n ≤ t) :
    cnt p (updT f t x) n = cnt p f n :=
  cnt_congr p _ _ n (fun u hu => by have : u ≠ t := by omega
                                    simp [updT, this])

theorem cnt_pos_of {L : Type} (p : TState L → Bool) (f : Tid → TState L) (n t : Nat) (ht : t < n) (h : p (f t) = true) :
    0 < cnt p f n := by
  induction n with
  | zero => omega
  | succ n ih =>
    simp only [cnt]
    by_cases e : t = n
    · subst e; simp [h]
    · have := ih (by omega); omega

theorem exists_of_cnt_pos {L : Type} (p : TState L → Bool) (f : Tid → TState L) (n : Nat) (h : 0 < cnt p f n) :
    ∃ t, t < n ∧ p (f t) = true := by
  induction n with
  | zero => simp [cnt] at h
  | succ n ih =>
    simp only [cnt] at h
    by_cases e : p (f n) = true
    · exact ⟨n, by omega, e⟩
    · simp [e] at h
      obtain ⟨t, ht, hp⟩ := ih h
      exact ⟨t, by omega, hp⟩

theorem cnt_zero {L : Type} (p : TState L → Bool) (f : Tid → TState L) (n : Nat) (h : ∀ t, t < n → p (f t) = false) :
    cnt p f n = 0 := by
  induction n with
  | zero => rfl
  | succ n ih => simp only [cnt]; rw [ih (fun t ht => h t (by omega)), h n (by omega)]; rfl

theorem anyAsleep_iff {D L : Type} (s : State D L) (cv : CvId) :
    anyAsleep s cv = true ↔ ∃ t, t < s.n ∧ isAsleepOn cv (s.thr t) = true := by
  simp [anyAsleep, List.any_eq_true]

/-! ## What one enabled step does (case analysis, once and for all) -/

/-- the enabled transitions of the monitor system, as explicit state updates -/
inductive Tr {D L : Type} (P : Prog D L) (s : State D L) : State D L → Prop
  /-- time-out or spurious wake-up of a sleeper -/
  | wake (t : Tid) (cv : CvId) (m : MutexId) (timed to : Bool) (ht : t < s.n)
      (hs : (s.thr t).status = .asleep cv m timed) :
      Tr P s { s with thr := updT s.thr t { (s.thr t) with status := .woken m timed to } }
  /-- a woken thread re-acquires its mutex and runs on -/
  | reacquire (t : Tid) (m : MutexId) (timed to late : Bool) (ht : t < s.n)
      (hs : (s.thr t).status = .woken m timed to) (hfree : s.owner m = none) :
      Tr P s (runAfter P { s with owner := updT s.owner m (some t) } t late)
  /-- `lock m` succeeds -/
  | lock (t : Tid) (m : MutexId) (ht : t < s.n) (hs : (s.thr t).status = .ready)
      (hop : P.op (s.thr t).loc = .lock m) (hfree : s.owner m = none) :
      Tr P s (runAfter P { s with owner := updT s.owner m (some t) } t false)
  | unlock (t : Tid) (m : MutexId) (ht : t < s.n) (hs : (s.thr t).status = .ready)
      (hop : P.op (s.thr t).loc = .unlock m) :
      Tr P s (runAfter P { s with owner := updT s.owner m none } t false)
  /-- release-and-sleep -/
  | sleep (t : Tid) (cv : CvId) (m : MutexId) (timed : Bool) (ht : t < s.n) (hs : (s.thr t).status = .ready)
      (hop : P.op (s.thr t).loc = .wait cv m timed) :
      Tr P s { s with owner := updT s.owner m none, thr := updT s.thr t { (s.thr t) with status := .asleep cv m timed } }
  /-- `notifyOne` with a sleeper to wake -/
  | notifyWake (t : Tid) (cv : CvId) (u : Tid) (ht : t < s.n) (hs : (s.thr t).status = .ready)
      (hop : P.op (s.thr t).loc = .notifyOne cv) (hu : u < s.n) (hsl : isAsleepOn cv (s.thr u) = true) :
      Tr P s (runAfter P { s with thr := updT s.thr u (wakeT (s.thr u) false) } t false)
  /-- `notifyOne` with nobody asleep on the condition variable -/
  | notifyNone (t : Tid) (cv : CvId) (ht : t < s.n) (hs : (s.thr t).status = .ready)
      (hop : P.op (s.thr t).loc = .notifyOne cv) (hno : ∀ u, u < s.n → isAsleepOn cv (s.thr u) = false) :
      Tr P s (runAfter P s t false)
  | notifyAll (t : Tid) (cv : CvId) (ht : t < s.n) (hs : (s.thr t).status = .ready)
      (hop : P.op (s.thr t).loc = .notifyAll cv) :
      Tr P s (runAfter P { s with thr := wakeAll cv s.thr } t false)
  /-- `start` / `yield`: no effect on mutexes or sleepers -/
  | plain (t : Tid) (ht : t < s.n) (hs : (s.thr t).status = .ready)
      (hop : P.op (s.thr t).loc = .start ∨ P.op (s.thr t).loc = .yield) :
      Tr P s (runAfter P s t false)

theorem wakeT_asleep {L : Type} (ts : TState L) (cv : CvId) (m : MutexId) (timed to : Bool)
    (h : ts.status = .asleep cv m timed) : wakeT ts to = { ts with status := .woken m timed to } := by
  simp [wakeT, h]

/-- every choice either stutters or performs one of the transitions of `Tr` -/
theorem step_tr {D L : Type} (P : Prog D L) (s : State D L) (c : Choice) : step P s c = s ∨ Tr P s (step P s c) := by
  cases c with
  | timeout t =>
    simp only [step]
    split
    · rename_i ht
      split
      · rename_i cv m hst
        right
        rw [wakeT_asleep _ cv m true true hst]
        exact Tr.wake t cv m true true ht hst
      · left; rfl
    · left; rfl
  | spurious t =>
    simp only [step]
    split
    · rename_i ht
      split
      · rename_i cv m timed hst
        right
        rw [wakeT_asleep _ cv m timed false hst]
        exact Tr.wake t cv m timed false ht hst
      · left; rfl
    · left; rfl
  | run t alt =>
    simp only [step]
    split
    · rename_i ht
      split
      · left; rfl
      · rename_i m timed to hst
        split
        · rename_i hfree
          right; exact Tr.reacquire t m timed to _ ht hst hfree
        · left; rfl
      · rename_i hst
        split
        · rename_i hop; right; exact Tr.plain t ht hst (Or.inl hop)
        · rename_i hop; right; exact Tr.plain t ht hst (Or.inr hop)
        · rename_i m hop
          split
          · rename_i hfree; right; exact Tr.lock t m ht hst hop hfree
          · left; rfl
        · rename_i m hop; right; exact Tr.unlock t m ht hst hop
        · rename_i cv m timed hop; right; exact Tr.sleep t cv m timed ht hst hop
        · rename_i cv hop
          split
          · split
            · rename_i hany hpick
              right; exact Tr.notifyWake t cv alt ht hst hop hpick.1 hpick.2
            · left; rfl
          · rename_i hany
            right
            refine Tr.notifyNone t cv ht hst hop ?_
            intro u hu
            cases hsl : isAsleepOn cv (s.thr u) with
            | false => rfl
            | true => exact absurd ((anyAsleep_iff s cv).mpr ⟨u, hu, hsl⟩) hany
        · rename_i cv hop; right; exact Tr.notifyAll t cv ht hst hop
        · left; rfl
    · left; rfl

/-- an invariant preserved by every transition holds after every schedule -/
theorem inv_of_tr {D L : Type} (P : Prog D L) (Inv : State D L → Prop)
    (h : ∀ s s', Inv s → Tr P s s' → Inv s') (sched : List Choice) (s : State D L) (h0 : Inv s) : Inv (run P s sched) := by
  apply inv_run P Inv _ sched s h0
  intro s c hi
  rcases step_tr P s c with e | t
  · rw [e]; exact hi
  · exact h s _ hi t

end Iora.Monitor
