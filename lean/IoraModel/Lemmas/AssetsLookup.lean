import IoraModel.Lemmas.AssetsWalk
/-!
C20: from the walk lemmas to the lookups — what `status`, `canonical`, `readFile` return on canonical absolute paths,
the open-time containment lemma (leaf swap), and the analysis of `weakly_canonical`.
-/
namespace Iora.Assets
open Iora

theorem mem_joinSlash (ns : List Bytes) (x : UInt8) (h : x ∈ joinSlash ns) : x = SLASH ∨ ∃ n ∈ ns, x ∈ n := by
  induction ns with
  | nil => simp [joinSlash] at h
  | cons a rest ih =>
    cases rest with
    | nil => simp [joinSlash] at h; exact Or.inr ⟨a, by simp, h⟩
    | cons b r =>
      have : joinSlash (a :: b :: r) = a ++ SLASH :: joinSlash (b :: r) := by simp [joinSlash]
      rw [this] at h
      simp at h
      rcases h with h | h | h
      · exact Or.inr ⟨a, by simp, h⟩
      · exact Or.inl h
      · rcases ih h with h' | ⟨n, hn, hx⟩
        · exact Or.inl h'
        · exact Or.inr ⟨n, by simp at hn ⊢; exact Or.inr hn, hx⟩

theorem renderLoc_eq (L : Loc) : renderLoc L = renderAbs L.reverse := rfl

theorem renderAbs_no_nul (ns : List Bytes) (h : ∀ n ∈ ns, (0 : UInt8) ∉ n) : (0 : UInt8) ∉ renderAbs ns := by
  intro hm
  simp [renderAbs] at hm
  rcases hm with hm | hm
  · simp [SLASH] at hm
  · rcases mem_joinSlash ns 0 hm with h' | ⟨n, hn, hx⟩
    · simp [SLASH] at h'
    · exact h n hn hx

theorem renderLoc_no_nul (L : Loc) (h : LocOK L) : (0 : UInt8) ∉ renderLoc L :=
  renderAbs_no_nul _ (fun n hn => (h n (by simpa using hn)).2)

/-- a system call on an absolute NUL-free path -/
theorem kwalk_abs (fs : Fs) (fol : Bool) (p : Bytes) (h0 : (0 : UInt8) ∉ p) (ha : isAbs p = true) :
    kwalk fs fol p =
      if p.length ≥ PATH_MAX then .error .ENAMETOOLONG
      else walk fs (walkFuel fs (comps p)) SYMLOOP [] (comps p) fol (trailSlash p) := by
  unfold kwalk
  simp only [cstr_of_no_nul p h0, ha, ↓reduceIte]
  have : p.isEmpty = false := by
    cases p with
    | nil => simp [isAbs] at ha
    | cons c cs => simp
  simp [this]

theorem get_root (fs : Fs) : fs.get [] = some .dir := by simp [Fs.get]
theorem locOK_nil : LocOK [] := by intro n hn; simp at hn

/-- what a successful system call on an absolute NUL-free path returns -/
theorem kwalk_abs_ok (fs : Fs) (fol : Bool) (p : Bytes) (h0 : (0 : UInt8) ∉ p) (ha : isAbs p = true) (L : Loc) (e : Entry)
    (h : kwalk fs fol p = .ok (L, e)) :
    fs.get L = some e ∧ LocOK L ∧ (fol = true → ∀ t, e ≠ .link t) ∧
      walk fs (walkFuel fs (comps p)) SYMLOOP [] (comps p) fol (trailSlash p) = .ok (L, e) := by
  rw [kwalk_abs fs fol p h0 ha] at h
  split at h
  · cases h
  · have hg := walk_get fs _ _ _ _ _ _ _ _ (get_root fs) h
    exact ⟨hg.1, walk_ok fs _ _ _ _ _ _ _ _ locOK_nil (comps_todoOK p h0) h, hg.2, h⟩

/-- ### Open-time containment (the leaf lemma at the level of `readFile`)
`readFile` (= `open(O_RDONLY|O_NOFOLLOW)` + read) on the canonical name of a location whose PARENT is a real directory
returns bytes only if that very location holds a regular file with these bytes — whatever else the file system contains. -/
theorem readFile_at_loc (fs : Fs) (L : Loc) (d : Bytes) (hL : LocOK L)
    (hpar : fs.get L.tail = some .dir) (h : readFile fs (renderLoc L) = some d) : fs.get L = some (.file d) := by
  by_cases hne : L = []
  · subst hne
    simp [readFile, kwalk, renderLoc, cstr, joinSlash, SLASH, PATH_MAX, comps, splitSlash, isAbs, walkFuel, walk_succ, walkStep] at h
  unfold readFile at h
  have hnf : (!Gen.Assets.openNoFollow) = false := by decide
  rw [hnf] at h
  split at h
  · rename_i l d' hk
    injection h with h
    subst h
    obtain ⟨_, _, _, hw⟩ := kwalk_abs_ok fs false (renderLoc L) (renderLoc_no_nul L hL) (by simp [renderLoc, isAbs]) l (.file d') hk
    have hnames : ∀ n ∈ L.reverse, IsName n := fun n hn => (hL n (by simpa using hn)).1.1
    rw [renderLoc_eq, show comps (renderAbs L.reverse) = L.reverse from comps_renderAbs _ hnames,
      trailSlash_renderAbs _ hnames (by simpa using hne)] at hw
    cases L with
    | nil => exact absurd rfl hne
    | cons last up =>
      simp only [List.reverse_cons] at hw
      have hp : ∀ n ∈ up.reverse, Plain n := fun n hn => (hL n (by simp at hn; simp [hn])).1
      have := walk_leaf fs up.reverse last [] _ _ l d' hp (hL last (by simp)).1 (by simpa using hpar) hw
      simp at this
      rw [← this.1]
      exact this.2
  · cases h

theorem walk_nil_nofile (fs : Fs) (f b : Nat) (cur : Loc) (fol tr : Bool) : NoFile (walk fs f b cur [] fol tr) := by
  intro l d
  cases f with
  | zero => simp [walk]
  | succ f => simp [walk_succ, walkStep]

/-! ### the candidate path `<prefix>/<name>` -/

theorem name_not_abs (name : Bytes) (h : lexicallyRejected name = false) : isAbs name = false := by
  have := (lexicallyRejected_iff name).mp h
  simp only [isAbs]
  cases name with
  | nil => simp
  | cons c cs =>
    simp at this ⊢
    intro e; exact this.1 (by simp [e, SLASH])

theorem pathAppend_name (pre name : Bytes) (hpre : pre ≠ []) (h : lexicallyRejected name = false) :
    pathAppend pre name = if trailSlash pre then pre ++ name else pre ++ SLASH :: name := by
  unfold pathAppend hasFilename
  have hne : pre.isEmpty = false := by cases pre <;> simp_all
  simp only [name_not_abs name h, hne, Bool.or_self, Bool.false_eq_true, ↓reduceIte, Bool.not_false, Bool.true_and]
  cases trailSlash pre <;> simp

theorem trailSlash_split (pre : Bytes) (h : trailSlash pre = true) : ∃ q, pre = q ++ [SLASH] := by
  unfold trailSlash at h
  cases hl : pre.getLast? with
  | none => simp [hl] at h
  | some x =>
    simp [hl] at h
    subst h
    obtain ⟨q, hq⟩ := List.getLast?_eq_some_iff.mp hl
    exact ⟨q, hq⟩

theorem comps_candidate (pre name : Bytes) (hpre : pre ≠ []) (h : lexicallyRejected name = false) :
    comps (pathAppend pre name) = comps pre ++ comps name := by
  rw [pathAppend_name pre name hpre h]
  split
  · rename_i ht
    obtain ⟨q, hq⟩ := trailSlash_split pre ht
    subst hq
    rw [List.append_assoc, List.singleton_append, comps_append, comps_append_trail]
  · rw [comps_append]

theorem isAbs_append (pre q : Bytes) (h : isAbs pre = true) : isAbs (pre ++ q) = true := by
  cases pre with
  | nil => simp [isAbs] at h
  | cons c cs => simpa [isAbs] using h

theorem isAbs_candidate (pre name : Bytes) (hpre : pre ≠ []) (h : lexicallyRejected name = false) (ha : isAbs pre = true) :
    isAbs (pathAppend pre name) = true := by
  rw [pathAppend_name pre name hpre h]
  split <;> exact isAbs_append _ _ ha

theorem no_nul_candidate (pre name : Bytes) (hpre : pre ≠ []) (h : lexicallyRejected name = false) (h0 : (0 : UInt8) ∉ pre) :
    (0 : UInt8) ∉ pathAppend pre name := by
  have hn := ((lexicallyRejected_iff name).mp h).2.1
  rw [pathAppend_name pre name hpre h]
  split
  · simp [h0, hn]
  · simp [h0, hn, SLASH]

theorem no_dotdot_candidate (pre name : Bytes) (hpre : pre ≠ []) (h : lexicallyRejected name = false)
    (hdd : dotdot ∉ comps pre) : dotdot ∉ comps (pathAppend pre name) := by
  rw [comps_candidate pre name hpre h]
  have hn := ((lexicallyRejected_iff name).mp h).2.2.2
  intro hm
  simp at hm
  rcases hm with hm | hm
  · exact hdd hm
  · simp only [comps, List.mem_filter] at hm
    exact hn hm.1

/-- the candidate of an EMPTY-tailed name ends in a slash -/
theorem trail_candidate_of_no_comps (pre name : Bytes) (hpre : pre ≠ []) (h : lexicallyRejected name = false)
    (hc : comps name = []) : trailSlash (pathAppend pre name) = true := by
  -- a name without components is made of slashes only; it does not start with one, so it is empty
  have hname : name = [] := by
    cases name with
    | nil => rfl
    | cons c cs =>
      have h1 := ((lexicallyRejected_iff (c :: cs)).mp h).1
      have hcs : c ≠ SLASH := by intro e; apply h1; simp [e, SLASH]
      simp only [comps, splitSlash, hcs, ↓reduceIte] at hc
      cases hsp : splitSlash cs with
      | nil => exact absurd hsp (splitSlash_ne_nil cs)
      | cons x xs => simp [hsp, consHead] at hc
  subst hname
  rw [pathAppend_name pre [] hpre h]
  split
  · simpa using ‹trailSlash pre = true›
  · simp [trailSlash]

/-! ### `weakly_canonical`: the two branches -/

/-- **The non-existing-tail branch never yields a regular file** (proved in `Lemmas/AssetsWc.lean`; stated here as the
interface the lookups need): for an absolute NUL-free path without `..` that does not exist, the result of
`weakly_canonical` does not name a regular file in the same file system — whether a final link is followed or not. -/
def WcMissingNoFile : Prop :=
  ∀ (fs : Fs) (p r : Bytes), isAbs p = true → (0 : UInt8) ∉ p → dotdot ∉ comps p → status fs p = .notFound →
    weaklyCanonical fs p = .ok r → ∀ fol, NoFile (kwalk fs fol r)

theorem status_found_iff (fs : Fs) (p : Bytes) (L : Loc) (e : Entry) :
    status fs p = .found L e ↔ kwalk fs true p = .ok (L, e) := by
  unfold status
  cases hk : kwalk fs true p with
  | ok x => obtain ⟨l, e'⟩ := x; simp
  | error er => cases er <;> simp

theorem wc_cases (fs : Fs) (p r : Bytes) (h : weaklyCanonical fs p = .ok r) :
    (∃ L e, kwalk fs true p = .ok (L, e) ∧ r = renderLoc L) ∨ status fs p = .notFound := by
  unfold weaklyCanonical at h
  split at h
  · rename_i L e hs
    left
    have hk := (status_found_iff fs p L e).mp hs
    simp [canonical, hk] at h
    exact ⟨L, e, hk, h.symm⟩
  · cases h
  · right; assumption

theorem isRegularFile_iff (fs : Fs) (p : Bytes) :
    isRegularFile fs p = true ↔ ∃ L d, kwalk fs true p = .ok (L, .file d) := by
  unfold isRegularFile
  constructor
  · intro h
    split at h
    · rename_i L d hs; exact ⟨L, d, (status_found_iff fs p L _).mp hs⟩
    · cases h
  · rintro ⟨L, d, hk⟩
    rw [(status_found_iff fs p L _).mpr hk]

def DirsPreserved (fsR fsO : Fs) : Prop := ∀ l, fsR.get l = some .dir → fsO.get l = some .dir

theorem dirsPreserved_refl (fs : Fs) : DirsPreserved fs fs := fun _ h => h

/-- a regular-file test on the canonical name of a location says what the location holds -/
theorem isRegularFile_canon (fs : Fs) (L : Loc) (e : Entry) (hL : LocOK L) (hg : fs.get L = some e)
    (hnl : ∀ t, e ≠ .link t) (h : isRegularFile fs (renderLoc L) = true) : ∃ d, e = .file d := by
  obtain ⟨l, d, hk⟩ := (isRegularFile_iff fs _).mp h
  obtain ⟨_, _, _, hw⟩ := kwalk_abs_ok fs true (renderLoc L) (renderLoc_no_nul L hL) (by simp [renderLoc, isAbs]) l _ hk
  have hnames : ∀ n ∈ L.reverse, IsName n := fun n hn => (hL n (by simpa using hn)).1.1
  rw [renderLoc_eq, show comps (renderAbs L.reverse) = L.reverse from comps_renderAbs _ hnames] at hw
  cases L with
  | nil => exact absurd hw (walk_nil_nofile fs _ _ _ _ _ l d)
  | cons last up =>
    have hp : ∀ n ∈ up.reverse, Plain n := fun n hn => (hL n (by simp at hn; simp [hn])).1
    have hl : Plain last := (hL last (by simp)).1
    have hdir : fs.get (up.reverse.reverse ++ []) = some .dir := by simpa using get_parent hg
    simp only [List.reverse_cons] at hw
    obtain ⟨f', hf'⟩ := walk_through_dirs fs up.reverse [] _ _ [last] true _ _ hp hdir hw
    simp only [List.reverse_reverse, List.append_nil] at hf'
    cases f' with
    | zero => simp [walk] at hf'
    | succ f' =>
      rw [walk_succ] at hf'
      by_cases hlen : last.length > NAME_MAX
      · simp [walkStep, hl.2.1, hl.2.2, hlen] at hf'
      cases e with
      | file d' => exact ⟨d', rfl⟩
      | link t => exact absurd rfl (hnl t)
      | dir =>
        simp [walkStep, hl.2.1, hl.2.2, hlen, hg] at hf'
        cases f' with
        | zero => simp [walk] at hf'
        | succ f'' => simp [walk_succ, walkStep] at hf'

/-! ### resolve, check, open: the common core of the three lookups -/

theorem joinSlash_snoc_append (ns : List Bytes) (last sfx : Bytes) :
    joinSlash (ns ++ [last]) ++ sfx = joinSlash (ns ++ [last ++ sfx]) := by
  induction ns with
  | nil => simp [joinSlash]
  | cons a rest ih =>
    have h1 : ∀ x : Bytes, joinSlash (a :: (rest ++ [x])) = a ++ SLASH :: joinSlash (rest ++ [x]) :=
      fun x => joinSlash_cons a _ (by simp)
    simp only [List.cons_append, h1, List.append_assoc, List.cons_append, ih]

theorem gz_plain (last : Name) (h : Plain last ∧ (0 : UInt8) ∉ last) :
    Plain (last ++ Gen.Assets.gzSuffix) ∧ (0 : UInt8) ∉ (last ++ Gen.Assets.gzSuffix) := by
  obtain ⟨⟨⟨hne, hsl⟩, _, _⟩, h0⟩ := h
  have hlen : 0 < last.length := List.length_pos_iff.mpr hne
  refine ⟨⟨⟨by simp [hne], ?_⟩, ?_, ?_⟩, ?_⟩
  · intro hm; simp [Gen.Assets.gzSuffix, SLASH] at hm; exact hsl (by simpa [SLASH] using hm)
  · intro e
    have := congrArg List.length e
    simp [Gen.Assets.gzSuffix, dot] at this
  · intro e
    have := congrArg List.length e
    simp [Gen.Assets.gzSuffix, dotdot] at this
  · intro hm; simp [Gen.Assets.gzSuffix] at hm; exact h0 hm

theorem resolve_open (hT : WcMissingNoFile) (fsR fsO : Fs) (pre base : Bytes) (bn : List Name) (name resolved : Bytes)
    (hpa : isAbs pre = true) (hp0 : (0 : UInt8) ∉ pre) (hpd : dotdot ∉ comps pre) (hpne : pre ≠ [])
    (hb : base = renderAbs bn) (hbn : ∀ n ∈ bn, Plain n)
    (hn : lexicallyRejected name = false)
    (hw : weaklyCanonical fsR (pathAppend pre name) = .ok resolved)
    (hc : isContained base resolved = true) (hr : isRegularFile fsR resolved = true) (hd : DirsPreserved fsR fsO) :
    ∃ last up d0, resolved = renderLoc (last :: up) ∧ LocOK (last :: up) ∧
      kwalk fsR true (pathAppend pre name) = .ok (last :: up, .file d0) ∧ fsR.get (last :: up) = some (.file d0) ∧
      bn <+: (last :: up).reverse ∧
      (∀ d, readFile fsO resolved = some d → fsO.get (last :: up) = some (.file d)) ∧
      (∀ g, readFile fsO (resolved ++ Gen.Assets.gzSuffix) = some g →
        fsO.get ((last ++ Gen.Assets.gzSuffix) :: up) = some (.file g)) ∧
      LocOK ((last ++ Gen.Assets.gzSuffix) :: up) := by
  have ha := isAbs_candidate pre name hpne hn hpa
  have h0 := no_nul_candidate pre name hpne hn hp0
  have hdd := no_dotdot_candidate pre name hpne hn hpd
  rcases wc_cases fsR _ _ hw with ⟨L, e, hk, hres⟩ | hnf
  · obtain ⟨hg, hL, hnl, _⟩ := kwalk_abs_ok fsR true _ h0 ha L e hk
    subst hres
    obtain ⟨d0, he⟩ := isRegularFile_canon fsR L e hL hg (hnl rfl) hr
    subst he
    cases L with
    | nil => simp [Fs.get] at hg
    | cons last up =>
      have hpre : bn <+: (last :: up).reverse := by
        rw [hb, renderLoc_eq] at hc
        exact (isContained_canonical bn _ hbn (fun n hn' => (hL n (by simp at hn'; simp; exact hn'.symm)).1)).mp hc
      have hparR : fsR.get up = some .dir := get_parent hg
      have hparO : fsO.get up = some .dir := hd _ hparR
      have hgzL : LocOK ((last ++ Gen.Assets.gzSuffix) :: up) := by
        intro n hn'
        simp at hn'
        rcases hn' with hn' | hn'
        · subst hn'; exact gz_plain last (hL last (by simp))
        · exact hL n (by simp [hn'])
      refine ⟨last, up, d0, rfl, hL, hk, hg, hpre, ?_, ?_, hgzL⟩
      · intro d hrd
        exact readFile_at_loc fsO _ d hL (by simpa using hparO) hrd
      · intro g hrg
        have : renderLoc (last :: up) ++ Gen.Assets.gzSuffix = renderLoc ((last ++ Gen.Assets.gzSuffix) :: up) := by
          simp only [renderLoc, List.reverse_cons, List.cons_append, joinSlash_snoc_append]
        rw [this] at hrg
        exact readFile_at_loc fsO _ g hgzL (by simpa using hparO) hrg
  · exfalso
    obtain ⟨L, d, hk⟩ := (isRegularFile_iff fsR resolved).mp hr
    exact hT fsR _ _ ha h0 hdd hnf hw true L d hk

/-! ### the filesystem-mode lookups -/

/-- `d` is the content of a regular file that lives strictly below the directory named `bn` -/
def Inside (fs : Fs) (bn : List Name) (d : Bytes) : Prop :=
  ∃ L : Loc, fs.get L = some (.file d) ∧ bn <+: L.reverse ∧ L.reverse ≠ bn

structure RootOK (root : Bytes) (bn : List Name) : Prop where
  eq : root = renderAbs bn
  plain : ∀ n ∈ bn, Plain n ∧ (0 : UInt8) ∉ n

theorem RootOK.abs {root bn} (h : RootOK root bn) : isAbs root = true := by rw [h.eq]; exact isAbs_renderAbs bn
theorem RootOK.ne {root bn} (h : RootOK root bn) : root ≠ [] := by rw [h.eq]; simp [renderAbs]
theorem RootOK.no_nul {root bn} (h : RootOK root bn) : (0 : UInt8) ∉ root := by
  rw [h.eq]; exact renderAbs_no_nul bn (fun n hn => (h.plain n hn).2)
theorem RootOK.comps {root bn} (h : RootOK root bn) : comps root = bn := by
  rw [h.eq]; exact comps_renderAbs bn (fun n hn => (h.plain n hn).1.1)
theorem RootOK.no_dotdot {root bn} (h : RootOK root bn) : dotdot ∉ Iora.Assets.comps root := by
  rw [h.comps]; intro hm; exact (h.plain _ hm).1.2.2 rfl

/-- a name looked up below a root never resolves to the root itself when the root is a regular file -/
theorem strict_of_candidate (fs : Fs) (root : Bytes) (bn : List Name) (hroot : RootOK root bn) (name : Bytes)
    (hn : lexicallyRejected name = false) (last : Name) (up : Loc) (d0 : Bytes)
    (hk : kwalk fs true (pathAppend root name) = .ok (last :: up, .file d0)) : (last :: up).reverse ≠ bn := by
  intro heq
  have ha := isAbs_candidate root name hroot.ne hn hroot.abs
  have h0 := no_nul_candidate root name hroot.ne hn hroot.no_nul
  obtain ⟨hg, hL, _, hw⟩ := kwalk_abs_ok fs true _ h0 ha _ _ hk
  rw [comps_candidate root name hroot.ne hn, hroot.comps, ← heq, List.reverse_cons, List.append_assoc,
    List.singleton_append] at hw
  have hp : ∀ n ∈ up.reverse, Plain n := fun n hn' => (hL n (by simp at hn'; simp [hn'])).1
  have := walk_over_file fs up.reverse last (comps name) _ _ true _ d0 _ hp (hL last (by simp)).1 (by simpa using hg) hw
  have ht := trail_candidate_of_no_comps root name hroot.ne hn this.1
  rw [ht] at this
  exact absurd this.2 (by simp)

theorem prefix_of_prefix_snoc_ne {α} (a xs : List α) (x : α) (h : a <+: xs ++ [x]) (hne : xs ++ [x] ≠ a) : a <+: xs := by
  obtain ⟨t, ht⟩ := h
  rcases List.eq_nil_or_concat t with rfl | ⟨t', y, rfl⟩
  · simp at ht; exact absurd ht.symm hne
  · rw [List.concat_eq_append, ← List.append_assoc] at ht
    have := List.append_inj' ht (by simp)
    exact ⟨t', this.1⟩

theorem lookup_mem {β} (l : List (Bytes × β)) (k : Bytes) (v : β) (h : l.lookup k = some v) : (k, v) ∈ l := by
  induction l with
  | nil => simp at h
  | cons x xs ih =>
    obtain ⟨k', v'⟩ := x
    simp only [List.lookup] at h
    split at h
    · rename_i heq
      simp at heq; injection h with h; subst h; subst heq; simp
    · exact List.mem_cons_of_mem _ (ih h)

/-- the result of `resolve_open`, packaged for a root that is also the candidate prefix (filesystem mode) -/
theorem resolve_open_inside (hT : WcMissingNoFile) (fsR fsO : Fs) (root : Bytes) (bn : List Name) (hroot : RootOK root bn)
    (name resolved : Bytes) (hn : lexicallyRejected name = false)
    (hw : weaklyCanonical fsR (pathAppend root name) = .ok resolved)
    (hc : isContained root resolved = true) (hr : isRegularFile fsR resolved = true) (hd : DirsPreserved fsR fsO) :
    (∃ d0, Inside fsR bn d0) ∧ (∀ d, readFile fsO resolved = some d → Inside fsO bn d) ∧
      (∀ g, readFile fsO (resolved ++ Gen.Assets.gzSuffix) = some g → Inside fsO bn g) := by
  obtain ⟨last, up, d0, hres, hL, hk, hg, hpre, hrd, hrg, hgzL⟩ :=
    resolve_open hT fsR fsO root root bn name resolved hroot.abs hroot.no_nul hroot.no_dotdot hroot.ne hroot.eq
      (fun n hn' => (hroot.plain n hn').1) hn hw hc hr hd
  have hstrict := strict_of_candidate fsR root bn hroot name hn last up d0 hk
  refine ⟨⟨d0, last :: up, hg, hpre, hstrict⟩, ?_, ?_⟩
  · intro d hd'
    exact ⟨last :: up, hrd d hd', hpre, hstrict⟩
  · intro g hg'
    refine ⟨(last ++ Gen.Assets.gzSuffix) :: up, hrg g hg', ?_, ?_⟩
    · have : bn <+: up.reverse := prefix_of_prefix_snoc_ne bn up.reverse last (by simpa using hpre) (by simpa using hstrict)
      simp only [List.reverse_cons]
      exact List.IsPrefix.trans this (List.prefix_append _ _)
    · have hp : bn <+: up.reverse := prefix_of_prefix_snoc_ne bn up.reverse last (by simpa using hpre) (by simpa using hstrict)
      intro e
      have h1 := hp.length_le
      have h2 := congrArg List.length e
      simp at h1 h2
      omega

/-- what counts as acceptable bytes for a cache entry / a blob -/
def EntryGood (P : Bytes → Prop) (e : CacheEntry) : Prop := P e.bytes ∧ ∀ g, e.gz = some g → P g
def BlobGood (P : Bytes → Prop) (b : Blob) : Prop := P b.bytes ∧ ∀ g, b.gz = some g → P g

theorem buildEntry_good (P : Bytes → Prop) (fs : Fs) (resolved : Bytes) (e : CacheEntry)
    (h1 : ∀ d, readFile fs resolved = some d → P d)
    (h2 : ∀ g, readFile fs (resolved ++ Gen.Assets.gzSuffix) = some g → P g)
    (h : buildEntry fs resolved = some e) : EntryGood P e := by
  unfold buildEntry at h
  split at h
  · cases h
  · rename_i b hb
    injection h with h
    subst h
    refine ⟨h1 b hb, ?_⟩
    intro g hg
    simp only at hg
    split at hg
    · exact h2 g hg
    · cases hg

/-- **One filesystem-mode static lookup.** Whatever predicate `P` holds of every content that is inside the root at open
time and of everything already cached, holds of the bytes (and gzip bytes) served, and of the cache afterwards; and the
name was re-validated against the CURRENT file system (it names a regular file inside the root) — also on a cache hit. -/
theorem getStaticFilesystemAt_good (hT : WcMissingNoFile) (P : Bytes → Prop) (fsR fsO : Fs) (st : FsState) (path : Bytes)
    (bn : List Name) (hroot : RootOK st.staticsRoot bn) (hd : DirsPreserved fsR fsO)
    (hn : lexicallyRejected path = false) (hP : ∀ d, Inside fsO bn d → P d)
    (hcache : ∀ k e, (k, e) ∈ st.staticCache → EntryGood P e) :
    (∀ b, (getStaticFilesystemAt fsR fsO st path).1 = .found b → BlobGood P b ∧ ∃ d0, Inside fsR bn d0) ∧
    (∀ k e, (k, e) ∈ (getStaticFilesystemAt fsR fsO st path).2.staticCache → EntryGood P e) ∧
    (getStaticFilesystemAt fsR fsO st path).2.staticsRoot = st.staticsRoot ∧
    (getStaticFilesystemAt fsR fsO st path).2.templatesRoot = st.templatesRoot ∧
    (getStaticFilesystemAt fsR fsO st path).2.templateCache = st.templateCache := by
  unfold getStaticFilesystemAt
  simp only
  split
  · exact ⟨(by intro b h; cases h), hcache, rfl, rfl, rfl⟩
  rename_i resolved hw
  split
  · exact ⟨(by intro b h; cases h), hcache, rfl, rfl, rfl⟩
  rename_i hc
  split
  · exact ⟨(by intro b h; cases h), hcache, rfl, rfl, rfl⟩
  rename_i hr
  simp only [Bool.not_eq_true] at hc hr
  simp only [Bool.not_eq_eq_eq_not] at hc hr
  obtain ⟨hcur, h1, h2⟩ := resolve_open_inside hT fsR fsO st.staticsRoot bn hroot path resolved hn hw hc hr hd
  have hfresh : ∀ e, buildEntry fsO resolved = some e → EntryGood P e := fun e he =>
    buildEntry_good P fsO resolved e (fun d h => hP d (h1 d h)) (fun g h => hP g (h2 g h)) he
  split
  · split
    · exact ⟨(by intro b h; cases h), hcache, rfl, rfl, rfl⟩
    · rename_i e he
      refine ⟨?_, hcache, rfl, rfl, rfl⟩
      intro b h; injection h with h; subst h
      exact ⟨hfresh e he, hcur⟩
  · split
    · rename_i e he
      refine ⟨?_, hcache, rfl, rfl, rfl⟩
      intro b h; injection h with h; subst h
      exact ⟨hcache _ _ (lookup_mem _ _ _ he), hcur⟩
    · split
      · exact ⟨(by intro b h; cases h), hcache, rfl, rfl, rfl⟩
      · rename_i e he
        refine ⟨?_, ?_, rfl, rfl, rfl⟩
        · intro b h; injection h with h; subst h
          exact ⟨hfresh e he, hcur⟩
        · intro k e' hm
          simp at hm
          rcases hm with ⟨rfl, rfl⟩ | hm
          · exact hfresh _ he
          · exact hcache _ _ hm

/-- **One filesystem-mode template lookup** (same shape as the static one; the base is the templates root). -/
theorem getTemplateFilesystemAt_good (hT : WcMissingNoFile) (P : Bytes → Prop) (fsR fsO : Fs) (st : FsState) (name : Bytes)
    (bn : List Name) (hroot : RootOK st.templatesRoot bn) (hd : DirsPreserved fsR fsO)
    (hn : lexicallyRejected name = false) (hP : ∀ d, Inside fsO bn d → P d)
    (hcache : ∀ k d, (k, d) ∈ st.templateCache → P d) :
    (∀ d, (getTemplateFilesystemAt fsR fsO st name).1 = some d → P d ∧ ∃ d0, Inside fsR bn d0) ∧
    (∀ k d, (k, d) ∈ (getTemplateFilesystemAt fsR fsO st name).2.templateCache → P d) ∧
    (getTemplateFilesystemAt fsR fsO st name).2.staticsRoot = st.staticsRoot ∧
    (getTemplateFilesystemAt fsR fsO st name).2.templatesRoot = st.templatesRoot ∧
    (getTemplateFilesystemAt fsR fsO st name).2.staticCache = st.staticCache := by
  unfold getTemplateFilesystemAt
  simp only
  split
  · exact ⟨(by intro b h; cases h), hcache, rfl, rfl, rfl⟩
  rename_i resolved hw
  split
  · exact ⟨(by intro b h; cases h), hcache, rfl, rfl, rfl⟩
  rename_i hc
  split
  · exact ⟨(by intro b h; cases h), hcache, rfl, rfl, rfl⟩
  rename_i hr
  simp only [Bool.not_eq_true] at hc hr
  simp only [Bool.not_eq_eq_eq_not] at hc hr
  obtain ⟨hcur, h1, _⟩ := resolve_open_inside hT fsR fsO st.templatesRoot bn hroot name resolved hn hw hc hr hd
  split
  · rename_i d he
    refine ⟨?_, hcache, rfl, rfl, rfl⟩
    intro b h; injection h with h; subst h
    exact ⟨hcache _ _ (lookup_mem _ _ _ he), hcur⟩
  · split
    · exact ⟨(by intro b h; cases h), hcache, rfl, rfl, rfl⟩
    · rename_i d he
      refine ⟨?_, ?_, rfl, rfl, rfl⟩
      · intro b h; injection h with h; subst h
        exact ⟨hP _ (h1 _ he), hcur⟩
      · intro k d' hm
        simp at hm
        rcases hm with ⟨rfl, rfl⟩ | hm
        · exact hP _ (h1 _ he)
        · exact hcache _ _ hm

/-! ### embedded mode -/

/-- **Embedded mode, static lookup.** Bytes come from the compile-time registry entry of exactly this path, or — for a path of the
externalised set — from a regular file strictly inside EXTERNAL_DIR (here: an absolute, NUL-free, `..`-free EXTERNAL_DIR that
`weakly_canonical` resolves to the canonical directory `bn`, which is a directory at open time). -/
theorem getStaticEmbeddedAt_good (hT : WcMissingNoFile) (fsR fsO : Fs) (r : Registry) (path : Bytes) (b : Blob)
    (hn : lexicallyRejected path = false) (hd : DirsPreserved fsR fsO)
    (h : getStaticEmbeddedAt fsR fsO r path = .found b) :
    (∃ a ∈ r.statics, a.path = path ∧ b.bytes = a.bytes ∧ b.gz = a.gz) ∨
    (isExternalPath r path = true ∧
      ∀ bn, isAbs r.externalDir = true → (0 : UInt8) ∉ r.externalDir → dotdot ∉ comps r.externalDir →
        weaklyCanonical fsR r.externalDir = .ok (renderAbs bn) → (∀ n ∈ bn, Plain n) →
        fsO.get bn.reverse = some .dir → BlobGood (Inside fsO bn) b) := by
  unfold getStaticEmbeddedAt at h
  split at h
  · rename_i a ha
    left
    injection h with h; subst h
    unfold findStatic at ha
    split at ha
    · rename_i a' rest hdw
      split at ha
      · rename_i hpath
        injection ha with ha; subst ha
        refine ⟨a', ?_, hpath, rfl, rfl⟩
        have : a' ∈ r.statics.dropWhile (fun a => bytesLt a.path path) := by rw [hdw]; simp
        exact (List.dropWhile_sublist _).subset this
      · cases ha
    · cases ha
  · right
    split at h
    · rename_i hext
      simp only [Bool.and_eq_true, Bool.not_eq_true', List.isEmpty_eq_false_iff] at hext
      refine ⟨hext.2, ?_⟩
      intro bn hea he0 hedd hbase hbn hdir
      rw [hbase] at h
      simp only at h
      split at h
      · cases h
      rename_i resolved hw
      split at h
      · cases h
      rename_i hc
      split at h
      · cases h
      rename_i hr
      simp only [Bool.not_eq_true] at hc hr
      simp only [Bool.not_eq_eq_eq_not] at hc hr
      split at h
      · cases h
      rename_i e he
      injection h with h; subst h
      obtain ⟨last, up, d0, hres, hL, hk, hg, hpre, hrd, hrg, hgzL⟩ :=
        resolve_open hT fsR fsO r.externalDir (renderAbs bn) bn path resolved hea he0 hedd hext.1 rfl hbn hn hw hc hr hd
      have hstrict : ∀ (L : Loc) (d : Bytes), fsO.get L = some (.file d) → L.reverse ≠ bn := by
        intro L d hL' e'
        rw [← e', List.reverse_reverse, hL'] at hdir
        cases hdir
      have hgood : EntryGood (Inside fsO bn) e := by
        apply buildEntry_good (Inside fsO bn) fsO resolved e _ _ he
        · intro d hd'
          exact ⟨_, hrd d hd', hpre, hstrict _ _ (hrd d hd')⟩
        · intro g hg'
          have hs := hstrict _ _ (hrd e.bytes (by
            unfold buildEntry at he
            split at he
            · cases he
            · rename_i b' hb'; injection he with he; subst he; exact hb'))
          have hp : bn <+: up.reverse := prefix_of_prefix_snoc_ne bn up.reverse last (by simpa using hpre) (by simpa using hs)
          refine ⟨_, hrg g hg', ?_, hstrict _ _ (hrg g hg')⟩
          simp only [List.reverse_cons]
          exact List.IsPrefix.trans hp (List.prefix_append _ _)
      exact hgood
    · cases h

end Iora.Assets
