import IoraModel.Lemmas.AssetsFuel
import IoraModel.Lemmas.AssetsRead
/-!
C20: from the walk lemmas to the lookups — what `status`, `canonical`, `readFile` return on canonical absolute paths,
the open-time containment lemma (leaf swap), and the analysis of `weakly_canonical`.
-/
namespace Iora.Assets
open Iora

theorem mem_joinSlash (ns : List Bytes) (x : UInt8) (h : x ∈ joinSlash ns) : x = SLASH ∨ ∃ n ∈ ns, x ∈ n := by
  induction ns with
  | nil => simp [joinSlash] at h
  | cons a rest ih =>
    cases rest with
    | nil => simp [joinSlash] at h; exact Or.inr ⟨a, by simp, h⟩
    | cons b r =>
      have : joinSlash (a :: b :: r) = a ++ SLASH :: joinSlash (b :: r) := by simp [joinSlash]
      rw [this] at h
      simp at h
      rcases h with h | h | h
      · exact Or.inr ⟨a, by simp, h⟩
      · exact Or.inl h
      · rcases ih h with h' | ⟨n, hn, hx⟩
        · exact Or.inl h'
        · exact Or.inr ⟨n, by simp at hn ⊢; exact Or.inr hn, hx⟩

theorem renderLoc_eq (L : Loc) : renderLoc L = renderAbs L.reverse := rfl

theorem renderAbs_no_nul (ns : List Bytes) (h : ∀ n ∈ ns, (0 : UInt8) ∉ n) : (0 : UInt8) ∉ renderAbs ns := by
  intro hm
  simp [renderAbs] at hm
  rcases hm with hm | hm
  · simp [SLASH] at hm
  · rcases mem_joinSlash ns 0 hm with h' | ⟨n, hn, hx⟩
    · simp [SLASH] at h'
    · exact h n hn hx

theorem renderLoc_no_nul (L : Loc) (h : LocOK L) : (0 : UInt8) ∉ renderLoc L :=
  renderAbs_no_nul _ (fun n hn => (h n (by simpa using hn)).2)

/-- a system call on an absolute NUL-free path -/
theorem kwalk_abs (fs : Fs) (fol : Bool) (p : Bytes) (h0 : (0 : UInt8) ∉ p) (ha : isAbs p = true) :
    kwalk fs fol p =
      if p.length ≥ PATH_MAX then .error .ENAMETOOLONG
      else walk fs (walkFuel fs (comps p)) SYMLOOP [] (comps p) fol (trailSlash p) := by
  unfold kwalk
  simp only [cstr_of_no_nul p h0, ha, ↓reduceIte]
  have : p.isEmpty = false := by
    cases p with
    | nil => simp [isAbs] at ha
    | cons c cs => simp
  simp [this]

theorem get_root (fs : Fs) : fs.get [] = some .dir := by simp [Fs.get]
theorem locOK_nil : LocOK [] := by intro n hn; simp at hn

/-- what a successful system call on an absolute NUL-free path returns -/
theorem kwalk_abs_ok (fs : Fs) (fol : Bool) (p : Bytes) (h0 : (0 : UInt8) ∉ p) (ha : isAbs p = true) (L : Loc) (e : Entry)
    (h : kwalk fs fol p = .ok (L, e)) :
    fs.get L = some e ∧ LocOK L ∧ (fol = true → ∀ t, e ≠ .link t) ∧
      walk fs (walkFuel fs (comps p)) SYMLOOP [] (comps p) fol (trailSlash p) = .ok (L, e) := by
  rw [kwalk_abs fs fol p h0 ha] at h
  split at h
  · cases h
  · have hg := walk_get fs _ _ _ _ _ _ _ _ (get_root fs) h
    exact ⟨hg.1, walk_ok fs _ _ _ _ _ _ _ _ locOK_nil (comps_todoOK p h0) h, hg.2, h⟩

/-- ### Open-time containment (the leaf lemma at the level of `readFile`)
`readFile` (= `open(O_RDONLY|O_NOFOLLOW)` + read) on the canonical name of a location whose PARENT is a real directory
returns bytes only if that very location holds a regular file with these bytes — whatever else the file system contains. -/
theorem readFile_at_loc (fs : Fs) (L : Loc) (d : Bytes) (hL : LocOK L)
    (hpar : fs.get L.tail = some .dir) (h : readFile fs (renderLoc L) = some d) : fs.get L = some (.file d) := by
  by_cases hne : L = []
  · subst hne
    simp [readFile_eq, kwalk, renderLoc, cstr, joinSlash, SLASH, PATH_MAX, comps, splitSlash, isAbs, walkFuel, walk_succ, walkStep] at h
  rw [readFile_eq] at h
  have hnf : (!Gen.Assets.openNoFollow) = false := by decide
  rw [hnf] at h
  split at h
  · rename_i l d' hk
    injection h with h
    subst h
    obtain ⟨_, _, _, hw⟩ := kwalk_abs_ok fs false (renderLoc L) (renderLoc_no_nul L hL) (by simp [renderLoc, isAbs]) l (.file d') hk
    have hnames : ∀ n ∈ L.reverse, IsName n := fun n hn => (hL n (by simpa using hn)).1.1
    rw [renderLoc_eq, show comps (renderAbs L.reverse) = L.reverse from comps_renderAbs _ hnames,
      trailSlash_renderAbs _ hnames (by simpa using hne)] at hw
    cases L with
    | nil => exact absurd rfl hne
    | cons last up =>
      simp only [List.reverse_cons] at hw
      have hp : ∀ n ∈ up.reverse, Plain n := fun n hn => (hL n (by simp at hn; simp [hn])).1
      have := walk_leaf fs up.reverse last [] _ _ l d' hp (hL last (by simp)).1 (by simpa using hpar) hw
      simp at this
      rw [← this.1]
      exact this.2
  · cases h

theorem walk_nil_nofile (fs : Fs) (f b : Nat) (cur : Loc) (fol tr : Bool) : NoFile (walk fs f b cur [] fol tr) := by
  intro l d
  cases f with
  | zero => simp [walk]
  | succ f => simp [walk_succ, walkStep]

/-! ### the candidate path `<prefix>/<name>` -/

theorem name_not_abs (name : Bytes) (h : lexicallyRejected name = false) : isAbs name = false := by
  have := (lexicallyRejected_iff name).mp h
  simp only [isAbs]
  cases name with
  | nil => simp
  | cons c cs =>
    simp at this ⊢
    intro e; exact this.1 (by simp [e, SLASH])

theorem pathAppend_name (pre name : Bytes) (hpre : pre ≠ []) (h : lexicallyRejected name = false) :
    pathAppend pre name = if trailSlash pre then pre ++ name else pre ++ SLASH :: name := by
  unfold pathAppend hasFilename
  have hne : pre.isEmpty = false := by cases pre <;> simp_all
  simp only [name_not_abs name h, hne, Bool.or_self, Bool.false_eq_true, ↓reduceIte, Bool.not_false, Bool.true_and]
  cases trailSlash pre <;> simp

theorem trailSlash_split (pre : Bytes) (h : trailSlash pre = true) : ∃ q, pre = q ++ [SLASH] := by
  unfold trailSlash at h
  cases hl : pre.getLast? with
  | none => simp [hl] at h
  | some x =>
    simp [hl] at h
    subst h
    obtain ⟨q, hq⟩ := List.getLast?_eq_some_iff.mp hl
    exact ⟨q, hq⟩

theorem comps_candidate (pre name : Bytes) (hpre : pre ≠ []) (h : lexicallyRejected name = false) :
    comps (pathAppend pre name) = comps pre ++ comps name := by
  rw [pathAppend_name pre name hpre h]
  split
  · rename_i ht
    obtain ⟨q, hq⟩ := trailSlash_split pre ht
    subst hq
    rw [List.append_assoc, List.singleton_append, comps_append, comps_append_trail]
  · rw [comps_append]

theorem isAbs_append (pre q : Bytes) (h : isAbs pre = true) : isAbs (pre ++ q) = true := by
  cases pre with
  | nil => simp [isAbs] at h
  | cons c cs => simpa [isAbs] using h

theorem isAbs_candidate (pre name : Bytes) (hpre : pre ≠ []) (h : lexicallyRejected name = false) (ha : isAbs pre = true) :
    isAbs (pathAppend pre name) = true := by
  rw [pathAppend_name pre name hpre h]
  split <;> exact isAbs_append _ _ ha

theorem no_nul_candidate (pre name : Bytes) (hpre : pre ≠ []) (h : lexicallyRejected name = false) (h0 : (0 : UInt8) ∉ pre) :
    (0 : UInt8) ∉ pathAppend pre name := by
  have hn := ((lexicallyRejected_iff name).mp h).2.1
  rw [pathAppend_name pre name hpre h]
  split
  · simp [h0, hn]
  · simp [h0, hn, SLASH]

theorem no_dotdot_candidate (pre name : Bytes) (hpre : pre ≠ []) (h : lexicallyRejected name = false)
    (hdd : dotdot ∉ comps pre) : dotdot ∉ comps (pathAppend pre name) := by
  rw [comps_candidate pre name hpre h]
  have hn := ((lexicallyRejected_iff name).mp h).2.2.2
  intro hm
  simp at hm
  rcases hm with hm | hm
  · exact hdd hm
  · simp only [comps, List.mem_filter] at hm
    exact hn hm.1

/-- the candidate of an EMPTY-tailed name ends in a slash -/
theorem trail_candidate_of_no_comps (pre name : Bytes) (hpre : pre ≠ []) (h : lexicallyRejected name = false)
    (hc : comps name = []) : trailSlash (pathAppend pre name) = true := by
  -- a name without components is made of slashes only; it does not start with one, so it is empty
  have hname : name = [] := by
    cases name with
    | nil => rfl
    | cons c cs =>
      have h1 := ((lexicallyRejected_iff (c :: cs)).mp h).1
      have hcs : c ≠ SLASH := by intro e; apply h1; simp [e, SLASH]
      simp only [comps, splitSlash, hcs, ↓reduceIte] at hc
      cases hsp : splitSlash cs with
      | nil => exact absurd hsp (splitSlash_ne_nil cs)
      | cons x xs => simp [hsp, consHead] at hc
  subst hname
  rw [pathAppend_name pre [] hpre h]
  split
  · simpa using ‹trailSlash pre = true›
  · simp [trailSlash]

/-! ### `weakly_canonical`: the two branches -/

/-- **The non-existing-tail branch never yields a regular file** (proved in `Lemmas/AssetsWc.lean`; stated here as the
interface the lookups need): for an absolute NUL-free path without `..` that does not exist, the result of
`weakly_canonical` does not name a regular file in the same file system — whether a final link is followed or not. -/
def WcMissingNoFile : Prop :=
  ∀ (fs : Fs) (p r : Bytes), isAbs p = true → (0 : UInt8) ∉ p → dotdot ∉ comps p → status fs p = .notFound →
    weaklyCanonical fs p = .ok r → ∀ fol, NoFile (kwalk fs fol r)

theorem status_found_iff (fs : Fs) (p : Bytes) (L : Loc) (e : Entry) :
    status fs p = .found L e ↔ kwalk fs true p = .ok (L, e) := by
  unfold status
  cases hk : kwalk fs true p with
  | ok x => obtain ⟨l, e'⟩ := x; simp
  | error er => cases er <;> simp

theorem wc_cases (fs : Fs) (p r : Bytes) (h : weaklyCanonical fs p = .ok r) :
    (∃ L e, kwalk fs true p = .ok (L, e) ∧ r = renderLoc L) ∨ status fs p = .notFound := by
  unfold weaklyCanonical at h
  split at h
  · rename_i L e hs
    left
    have hk := (status_found_iff fs p L e).mp hs
    simp [canonical, hk] at h
    exact ⟨L, e, hk, h.symm⟩
  · cases h
  · right; assumption

theorem isRegularFile_iff (fs : Fs) (p : Bytes) :
    isRegularFile fs p = true ↔ ∃ L d, kwalk fs true p = .ok (L, .file d) := by
  unfold isRegularFile
  constructor
  · intro h
    split at h
    · rename_i L d hs; exact ⟨L, d, (status_found_iff fs p L _).mp hs⟩
    · cases h
  · rintro ⟨L, d, hk⟩
    rw [(status_found_iff fs p L _).mpr hk]

def DirsPreserved (fsR fsO : Fs) : Prop := ∀ l, fsR.get l = some .dir → fsO.get l = some .dir

theorem dirsPreserved_refl (fs : Fs) : DirsPreserved fs fs := fun _ h => h

/-- a regular-file test on the canonical name of a location says what the location holds -/
theorem isRegularFile_canon (fs : Fs) (L : Loc) (e : Entry) (hL : LocOK L) (hg : fs.get L = some e)
    (hnl : ∀ t, e ≠ .link t) (h : isRegularFile fs (renderLoc L) = true) : ∃ d, e = .file d := by
  obtain ⟨l, d, hk⟩ := (isRegularFile_iff fs _).mp h
  obtain ⟨_, _, _, hw⟩ := kwalk_abs_ok fs true (renderLoc L) (renderLoc_no_nul L hL) (by simp [renderLoc, isAbs]) l _ hk
  have hnames : ∀ n ∈ L.reverse, IsName n := fun n hn => (hL n (by simpa using hn)).1.1
  rw [renderLoc_eq, show comps (renderAbs L.reverse) = L.reverse from comps_renderAbs _ hnames] at hw
  cases L with
  | nil => exact absurd hw (walk_nil_nofile fs _ _ _ _ _ l d)
  | cons last up =>
    have hp : ∀ n ∈ up.reverse, Plain n := fun n hn => (hL n (by simp at hn; simp [hn])).1
    have hl : Plain last := (hL last (by simp)).1
    have hdir : fs.get (up.reverse.reverse ++ []) = some .dir := by simpa using get_parent hg
    simp only [List.reverse_cons] at hw
    obtain ⟨f', hf'⟩ := walk_through_dirs fs up.reverse [] _ _ [last] true _ _ hp hdir hw
    simp only [List.reverse_reverse, List.append_nil] at hf'
    cases f' with
    | zero => simp [walk] at hf'
    | succ f' =>
      rw [walk_succ] at hf'
      by_cases hlen : last.length > NAME_MAX
      · simp [walkStep, hl.2.1, hl.2.2, hlen] at hf'
      cases e with
      | file d' => exact ⟨d', rfl⟩
      | link t => exact absurd rfl (hnl t)
      | dir =>
        simp [walkStep, hl.2.1, hl.2.2, hlen, hg] at hf'
        cases f' with
        | zero => simp [walk] at hf'
        | succ f'' => simp [walk_succ, walkStep] at hf'

/-! ### helpers for the lookups -/

theorem joinSlash_snoc_append (ns : List Bytes) (last sfx : Bytes) :
    joinSlash (ns ++ [last]) ++ sfx = joinSlash (ns ++ [last ++ sfx]) := by
  induction ns with
  | nil => simp [joinSlash]
  | cons a rest ih =>
    have h1 : ∀ x : Bytes, joinSlash (a :: (rest ++ [x])) = a ++ SLASH :: joinSlash (rest ++ [x]) :=
      fun x => joinSlash_cons a _ (by simp)
    simp only [List.cons_append, h1, List.append_assoc, List.cons_append, ih]

theorem gz_plain (last : Name) (h : Plain last ∧ (0 : UInt8) ∉ last) :
    Plain (last ++ Gen.Assets.gzSuffix) ∧ (0 : UInt8) ∉ (last ++ Gen.Assets.gzSuffix) := by
  obtain ⟨⟨⟨hne, hsl⟩, _, _⟩, h0⟩ := h
  have hlen : 0 < last.length := List.length_pos_iff.mpr hne
  refine ⟨⟨⟨by simp [hne], ?_⟩, ?_, ?_⟩, ?_⟩
  · intro hm; simp [Gen.Assets.gzSuffix, SLASH] at hm; exact hsl (by simpa [SLASH] using hm)
  · intro e
    have := congrArg List.length e
    simp [Gen.Assets.gzSuffix, dot] at this
  · intro e
    have := congrArg List.length e
    simp [Gen.Assets.gzSuffix, dotdot] at this
  · intro hm; simp [Gen.Assets.gzSuffix] at hm; exact h0 hm

/-! ### the filesystem-mode lookups -/

/-- `d` is the content of a regular file that lives strictly below the directory named `bn` -/
def Inside (fs : Fs) (bn : List Name) (d : Bytes) : Prop :=
  ∃ L : Loc, fs.get L = some (.file d) ∧ bn <+: L.reverse ∧ L.reverse ≠ bn

structure RootOK (root : Bytes) (bn : List Name) : Prop where
  eq : root = renderAbs bn
  plain : ∀ n ∈ bn, Plain n ∧ (0 : UInt8) ∉ n

theorem RootOK.abs {root bn} (h : RootOK root bn) : isAbs root = true := by rw [h.eq]; exact isAbs_renderAbs bn
theorem RootOK.ne {root bn} (h : RootOK root bn) : root ≠ [] := by rw [h.eq]; simp [renderAbs]
theorem RootOK.no_nul {root bn} (h : RootOK root bn) : (0 : UInt8) ∉ root := by
  rw [h.eq]; exact renderAbs_no_nul bn (fun n hn => (h.plain n hn).2)
theorem RootOK.comps {root bn} (h : RootOK root bn) : comps root = bn := by
  rw [h.eq]; exact comps_renderAbs bn (fun n hn => (h.plain n hn).1.1)
theorem RootOK.no_dotdot {root bn} (h : RootOK root bn) : dotdot ∉ Iora.Assets.comps root := by
  rw [h.comps]; intro hm; exact (h.plain _ hm).1.2.2 rfl

/-- a name looked up below a root never resolves to the root itself when the root is a regular file -/
theorem strict_of_candidate (fs : Fs) (root : Bytes) (bn : List Name) (hroot : RootOK root bn) (name : Bytes)
    (hn : lexicallyRejected name = false) (last : Name) (up : Loc) (d0 : Bytes)
    (hk : kwalk fs true (pathAppend root name) = .ok (last :: up, .file d0)) : (last :: up).reverse ≠ bn := by
  intro heq
  have ha := isAbs_candidate root name hroot.ne hn hroot.abs
  have h0 := no_nul_candidate root name hroot.ne hn hroot.no_nul
  obtain ⟨hg, hL, _, hw⟩ := kwalk_abs_ok fs true _ h0 ha _ _ hk
  rw [comps_candidate root name hroot.ne hn, hroot.comps, ← heq, List.reverse_cons, List.append_assoc,
    List.singleton_append] at hw
  have hp : ∀ n ∈ up.reverse, Plain n := fun n hn' => (hL n (by simp at hn'; simp [hn'])).1
  have := walk_over_file fs up.reverse last (comps name) _ _ true _ d0 _ hp (hL last (by simp)).1 (by simpa using hg) hw
  have ht := trail_candidate_of_no_comps root name hroot.ne hn this.1
  rw [ht] at this
  exact absurd this.2 (by simp)

theorem prefix_of_prefix_snoc_ne {α} (a xs : List α) (x : α) (h : a <+: xs ++ [x]) (hne : xs ++ [x] ≠ a) : a <+: xs := by
  obtain ⟨t, ht⟩ := h
  rcases List.eq_nil_or_concat t with rfl | ⟨t', y, rfl⟩
  · simp at ht; exact absurd ht.symm hne
  · rw [List.concat_eq_append, ← List.append_assoc] at ht
    have := List.append_inj' ht (by simp)
    exact ⟨t', this.1⟩

theorem lookup_mem {β} (l : List (Bytes × β)) (k : Bytes) (v : β) (h : l.lookup k = some v) : (k, v) ∈ l := by
  induction l with
  | nil => simp at h
  | cons x xs ih =>
    obtain ⟨k', v'⟩ := x
    simp only [List.lookup] at h
    split at h
    · rename_i heq
      simp at heq; injection h with h; subst h; subst heq; simp
    · exact List.mem_cons_of_mem _ (ih h)

/-- the result of `resolve_open`, packaged for a root that is also the candidate prefix (filesystem mode) -/
def EntryGood (P : Bytes → Prop) (e : CacheEntry) : Prop := P e.bytes ∧ ∀ g, e.gz = some g → P g
def BlobGood (P : Bytes → Prop) (b : Blob) : Prop := P b.bytes ∧ ∀ g, b.gz = some g → P g


end Iora.Assets
