import IoraModel.Lemmas.TpWorkersStep
/-!
# C09 — what "a join loop has completed" means: the queue is empty, every worker has left (no task in hand), nobody is
about to create a worker — and it stays so.  Together with the controller invariant: `stop()` (ok), `shutdown()` and
the destructor return only in such a state (P2), and no task body starts afterwards (P3).
-/
namespace Iora.ThreadPool

/-- the state of a pool whose join loop has completed -/
structure Quiet (s : St) : Prop where
  tasks : s.sh.tasks = []
  thr : ∀ (t : Nat) (th : Thread), s.thr[t]? = some th →
      atCreate th = false ∧ (isWorker th = true → goneW th = true)

def QOk (s : St) : Prop := s.sh.quiesced = true → Quiet s

theorem goneW_tailW (th : Thread) (h : goneW th = true) : tailW th = true := by
  cases th with
  | worker w => cases w <;> simp [goneW] at h <;> rfl
  | main pc r => simp [goneW] at h
  | sub x => simp [goneW] at h

theorem qok_of_eff (cfg : Cfg) (s : St) (sh' : Shared) (t : Tid) (th th' : Thread) (post : Post) (alt : Nat) (l : List Thread)
    (hinv : WInv s) (hmx : MutexOk s) (hq : QOk s) (hget : s.thr[t]? = some th) (hnf : isFinished th = false)
    (hen : locksM th = true → s.sh.owner = none)
    (hqs : s.sh.quiesced = true → s.sh.shutdown = true)
    (hcq : ∀ r, th = .main .cC r → s.sh.quiesced = false)
    (hnotgt : ∀ r, th = .main .jL r → ∀ (j : Nat) (x : Thread) (w : Tid), s.thr[j]? = some x → targetOf x ≠ some w)
    (hnr : restartTh th = false)
    (heff : StepEff cfg s.sh s.thr.length t th alt sh' th' post)
    (hts : ThreadsStep s.thr l t th' post)
    (hfresh : ∀ nt, post = .spawn nt → isFresh nt = true) :
    QOk { sh := sh', thr := l } := by
  -- the generic argument: the pool was quiet before, tasks unchanged, the acting thread stays in its class
  have keep : s.sh.quiesced = true → sh'.tasks = s.sh.tasks → (∀ nt, post = .spawn nt → isWorker nt = false) →
      (atCreate th' = false ∧ (isWorker th' = true → goneW th' = true)) → Quiet { sh := sh', thr := l } := by
    intro hq0 ht hnw hself
    have Q := hq hq0
    refine ⟨by simp only [ht]; exact Q.tasks, ?_⟩
    intro j y hy
    rcases hts.new j y hy with ⟨_, e2⟩ | ⟨_, x, hx, hwf⟩ | ⟨nt, hnt, _, e⟩
    · rw [e2]
      exact ⟨hself.1, hself.2⟩
    · have hc := wokeFrom_class hwf
      have Qx := Q.thr j x hx
      exact ⟨by rw [hc.2.2.2.1]; exact Qx.1, by rw [hc.1, hc.2.2.1]; exact Qx.2⟩
    · have hc := fresh_class nt (hfresh nt hnt)
      rw [e]
      refine ⟨hc.2.2.1, ?_⟩
      intro hw; rw [hnw nt hnt] at hw; cases hw
  have Qth : s.sh.quiesced = true → atCreate th = false ∧ (isWorker th = true → goneW th = true) :=
    fun h => (hq h).thr t th hget
  intro hq'
  simp only [] at hq'
  cases heff with
  | quiet h hp hc hc' hw htail hgone htgt hdone =>
    have hq0 : s.sh.quiesced = true := by rw [← h.quiesced]; exact hq'
    exact keep hq0 h.tasks (fun nt e => (hp nt e).1) ⟨hc', by rw [hw, hgone]; exact (Qth hq0).2⟩
  | push cid hs ht h2 h3 h4 hp hc hc' hw htail hgone htgt hdone hl =>
    have hq0 : s.sh.quiesced = true := by rw [← h4]; exact hq'
    rw [hqs hq0] at hs; cases hs
  | create hc hc' h1 ht h3 h4 hp hw htail hgone htgt hdone =>
    have hq0 : s.sh.quiesced = true := by rw [← h4]; exact hq'
    rcases hc with e | ⟨r, e⟩
    · rw [(Qth hq0).1] at e; cases e
    · have := hcq r e; rw [hq0] at this; cases this
  | exitIdle h hp hth he hs hw =>
    have hq0 : s.sh.quiesced = true := by rw [← h.quiesced]; exact hq'
    have := goneW_tailW th ((Qth hq0).2 hth.1)
    rw [hth.2.1] at this; cases this
  | exitShutdown h hp hth he hs hw =>
    have hq0 : s.sh.quiesced = true := by rw [← h.quiesced]; exact hq'
    have := goneW_tailW th ((Qth hq0).2 hth.1)
    rw [hth.2.1] at this; cases this
  | pop id ht h2 h3 h4 hp hth hw =>
    have hq0 : s.sh.quiesced = true := by rw [← h4]; exact hq'
    have := goneW_tailW th ((Qth hq0).2 hth.1)
    rw [hth.2.1] at this; cases this
  | selfErase hth hw h1 ht h3 h4 hp =>
    have hq0 : s.sh.quiesced = true := by rw [← h4]; exact hq'
    have := (Qth hq0).2 (by rw [hth]; rfl)
    rw [hth] at this; simp [goneW] at this
  | finishW hth hw h hp =>
    have hq0 : s.sh.quiesced = true := by rw [← h.quiesced]; exact hq'
    exact keep hq0 h.tasks (fun nt e => by rw [hp] at e; cases e) (by rw [hw]; exact ⟨rfl, fun _ => rfl⟩)
  | pick r hth hw ha h1 ht h3 h4 hp =>
    have hq0 : s.sh.quiesced = true := by rw [← h4]; exact hq'
    exact keep hq0 h1 (fun nt e => by rw [hp] at e; cases e) (by rw [hw]; exact ⟨rfl, fun e => by simp [isWorker] at e⟩)
  | joined w r hth hw h hp =>
    have hq0 : s.sh.quiesced = true := by rw [← h.quiesced]; exact hq'
    exact keep hq0 h.tasks (fun nt e => by rw [hp] at e; cases e) (by rw [hw]; exact ⟨rfl, fun e => by simp [isWorker] at e⟩)
  | setShut r r' hth hw hs h1 ht h3 h4 hp =>
    have hq0 : s.sh.quiesced = true := by rw [← h4]; exact hq'
    rw [hqs hq0] at hs; cases hs
  | restart hth => rw [hnr] at hth; cases hth
  | quiesce r hth hw he h1 ht h3 h4 hp =>
    by_cases hq0 : s.sh.quiesced = true
    · exact keep hq0 h1 (fun nt e => by rw [hp] at e; cases e) (by rw [hw]; exact ⟨rfl, fun e => by simp [isWorker] at e⟩)
    · -- the join loop has just found `_threads` empty while holding the mutex
      have hown : s.sh.owner = none := hen (by rw [hth]; rfl)
      have no_target : ∀ w, ¬ isTarget s.thr w := by
        intro w ⟨j, x, hx, htg⟩
        exact hnotgt r hth j x w hx htg
      have no_create : ∀ (j : Nat) (x : Thread), s.thr[j]? = some x → atCreate x = false := by
        intro j x hx
        cases hc : atCreate x with
        | false => rfl
        | true =>
          have := hmx j x hx (atCreate_holds x hc)
          rw [hown] at this; cases this
      have tasks_empty : s.sh.tasks = [] := by
        cases hts' : s.sh.tasks with
        | nil => rfl
        | cons a rest =>
          exfalso
          rcases hinv.guard (by rw [hts']; simp) with ⟨w, x, _, hg⟩ | ⟨j, x, hx, g1⟩
          · rcases hg.2.2 with r1 | r1
            · rw [he] at r1; cases r1
            · exact no_target w r1
          · rw [no_create j x hx] at g1; cases g1
      refine ⟨by simp only [h1]; exact tasks_empty, ?_⟩
      intro j y hy
      rcases hts.new j y hy with ⟨_, e2⟩ | ⟨ne, x, hx, hwf⟩ | ⟨nt, hnt, _, _⟩
      · rw [e2, hw]; exact ⟨rfl, fun e => by simp [isWorker] at e⟩
      · have hc := wokeFrom_class hwf
        refine ⟨by rw [hc.2.2.2.1]; exact no_create j x hx, ?_⟩
        · rw [hc.1, hc.2.2.1]
          intro hwk
          by_cases hd : x = .worker .done
          · rw [hd]; rfl
          · rcases hinv.reg j x hx hwk hd with r1 | r1 | r1
            · rw [he] at r1; cases r1
            · exact absurd r1 (no_target j)
            · rw [r1]; rfl
      · rw [hp] at hnt; cases hnt

end Iora.ThreadPool
