import IoraModel.Lemmas.TimerService
/-!
Lemmas about `drain` for property C08: (1) after a SUCCESSFUL drain nothing ever starts again; (2) without a `drain(timeout > 0)`
sweep every issued one-shot timer is pending, collected, or was cancelled by a `cancel` that answered `true` (the partial form of
clause S3b; the full clause is refuted by a drain that times out, finding FC08a).
-/
namespace Iora.Tsvc

/-! ### while a drain is in progress the service is neither Running nor accepting -/

def DrainBusy (s : Svc) : Prop := s.dpc ≠ .idle → s.life ≠ .running ∧ s.accepting = false

theorem drainBusy_step (L : Limits) (s : Svc) (op : Op) (d : DrainBusy s) : DrainBusy (step L s op).1 := by
  unfold DrainBusy at d ⊢
  cases op with
  | schedAt now tp =>
    simp only [step, scheduleAt]
    split
    · exact d
    · split
      · exact d
      · split <;> exact d
  | schedPer now iv =>
    simp only [step, schedulePeriodic]
    split
    · exact d
    · split
      · exact d
      · split
        · exact d
        · split <;> exact d
  | cancel id => simp only [step, cancel, cancelWith]; split <;> exact d
  | collect now ax => simp only [step, collect]; split <;> exact d
  | hstart =>
    simp only [step, hstart]
    split
    · exact d
    · split
      · exact d
      · split <;> exact d
  | hend => simp only [step, hend]; split <;> exact d
  | loopExit => simp only [step, loopExit]; split <;> exact d
  | drainGate =>
    simp only [step, drainGate]
    split
    · intro _; exact ⟨by simp, rfl⟩
    · exact d
  | drainSweep now t =>
    simp only [step, drainSweep]
    split
    · exact d
    · rename_i hg
      have := d (by simp at hg; rw [hg]; simp)
      split <;> exact fun _ => this
  | drainDone =>
    simp only [step, drainDone]
    split
    · intro h; simp at h
    · exact d
  | drainTimeout =>
    simp only [step, drainTimeout]
    split
    · rename_i hg
      have := d (by rw [hg.1]; simp)
      exact fun _ => this
    · exact d
  | drainRestore =>
    simp only [step, drainRestore]
    split
    · exact d
    · split
      · intro h; simp at h
      · intro h; simp at h
  | stopFlag =>
    simp only [step, stopFlag]
    split
    · intro h; exact ⟨(d h).1, rfl⟩
    · exact d
  | stopHalt => simp only [step, stopHalt]; split <;> exact d
  | stopFinish =>
    simp only [step, stopFinish]
    split
    · intro _; exact ⟨by simp, rfl⟩
    · exact d

theorem drainBusy_runFrom (L : Limits) : ∀ (ops : List Op) (s : Svc) (h : Hist), DrainBusy s → DrainBusy (runFrom L s h ops).1
  | [], _, _, d => d
  | op :: ops, s, h, d => drainBusy_runFrom L ops _ _ (drainBusy_step L s op d)

theorem drainBusy_run (L : Limits) (ops : List Op) : DrainBusy (run L ops).1 :=
  drainBusy_runFrom L ops _ _ (by intro h; simp at h)

/-! ### after a successful drain -/

/-- the state a successful `drain()` leaves: not accepting, not Running, no drain in progress, no live record, nothing waiting or running -/
structure Quiet (s : Svc) : Prop where
  acc : s.accepting = false
  nr : s.life ≠ .running
  dp : s.dpc = .idle
  lv : ∀ r ∈ s.records, r.canceled = true
  rd : s.ready = []
  inf : s.inflight = none

/-- with every record cancelled the collect loop hands nothing over and re-arms nothing -/
theorem collectLoop_allcanc (now : Int) : ∀ (f : Nat) (c : CL), (∀ r ∈ c.records, r.canceled = true) →
    (collectLoop now f c).out = c.out ∧ ∀ r ∈ (collectLoop now f c).records, r.canceled = true
  | 0, c, h => ⟨rfl, h⟩
  | f + 1, c, h => by
    unfold collectLoop
    split
    · exact ⟨rfl, h⟩
    · split
      · exact ⟨rfl, h⟩
      · split
        · exact collectLoop_allcanc now f _ h
        · rename_i rc hfind
          have hcan := h rc (findRec_some hfind).1
          have hrecs : ∀ r ∈ eraseRec c.records rc.id, r.canceled = true := fun r hr => h r (mem_eraseRec.mp hr).1
          simp only [hcan, Bool.not_true, Bool.false_eq_true, if_false, Bool.and_false]
          split
          · exact collectLoop_allcanc now f _ hrecs
          · exact collectLoop_allcanc now f _ hrecs

theorem quiet_step (L : Limits) (s : Svc) (op : Op) (q : Quiet s) : Quiet (step L s op).1 ∧ startedOf (op, (step L s op).2) = [] := by
  cases op with
  | schedAt now tp => simp [step, scheduleAt, q.acc, startedOf]; exact q
  | schedPer now iv => simp [step, schedulePeriodic, q.acc, startedOf]; exact q
  | cancel id =>
    have hrecs : ∀ r ∈ s.records.map (markCanceled id), r.canceled = true := by
      intro r hr
      obtain ⟨r0, h0, rfl⟩ := List.mem_map.mp hr
      exact markCanceled_keeps id r0 (q.lv r0 h0)
    simp only [step, cancel, cancelWith]
    split <;> exact ⟨⟨q.acc, q.nr, q.dp, hrecs, q.rd, q.inf⟩, rfl⟩
  | collect now ax =>
    simp only [step, collect]
    split
    · exact ⟨q, rfl⟩
    · obtain ⟨h1, h2⟩ := collectLoop_allcanc now collectFuel { records := s.records, periodic := s.periodic, heap := s.heap } q.lv
      exact ⟨⟨q.acc, q.nr, q.dp, h2, by simpa using h1, q.inf⟩, rfl⟩
  | hstart => simp [step, hstart, q.inf, q.rd, startedOf]; exact q
  | hend => simp [step, hend, q.inf, startedOf]; exact q
  | loopExit => simp only [step, loopExit]; split <;> exact ⟨⟨q.acc, q.nr, q.dp, q.lv, q.rd, q.inf⟩, rfl⟩
  | drainGate =>
    simp only [step, drainGate]
    split
    · rename_i hg; exact absurd hg.1 q.nr
    · exact ⟨q, rfl⟩
  | drainSweep now t => simp [step, drainSweep, q.dp, startedOf]; exact q
  | drainDone => simp [step, drainDone, q.dp, startedOf]; exact q
  | drainTimeout => simp [step, drainTimeout, q.dp, startedOf]; exact q
  | drainRestore => simp [step, drainRestore, q.dp, startedOf]; exact q
  | stopFlag => simp only [step, stopFlag]; split <;> exact ⟨⟨by first | rfl | exact q.acc, q.nr, q.dp, q.lv, q.rd, q.inf⟩, rfl⟩
  | stopHalt => simp only [step, stopHalt]; split <;> exact ⟨⟨q.acc, q.nr, q.dp, q.lv, q.rd, q.inf⟩, rfl⟩
  | stopFinish =>
    simp only [step, stopFinish]
    split
    · exact ⟨⟨rfl, by simp, q.dp, q.lv, q.rd, q.inf⟩, rfl⟩
    · exact ⟨q, rfl⟩

theorem quiet_trace (L : Limits) : ∀ (ops : List Op) (s : Svc), Quiet s → started (trace L s ops) = []
  | [], _, _ => by simp [trace, started]
  | op :: ops, s, q => by
    obtain ⟨q', hst⟩ := quiet_step L s op q
    simp only [trace, started, List.flatMap_cons]
    rw [hst]
    simpa [started] using quiet_trace L ops _ q'

theorem liveCount_zero {s : Svc} (h : liveCount s = 0) : ∀ r ∈ s.records, r.canceled = true := by
  intro r hr
  cases hc : r.canceled
  · exfalso
    have : r ∈ s.records.filter (fun r => !r.canceled) := List.mem_filter.mpr ⟨hr, by simp [hc]⟩
    unfold liveCount at h
    rw [List.eq_nil_of_length_eq_zero h] at this
    cases this
  · rfl

/-- a successful `drainDone` in a reachable state leaves a quiet service -/
theorem drainDone_quiet (s : Svc) (w : Wf s) (d : DrainBusy s) (h : (drainDone s).2 = true) : Quiet (drainDone s).1 := by
  unfold drainDone at h ⊢
  split
  · rename_i hg
    have hp := hg.2
    simp only [drainPred, Bool.and_eq_true, beq_iff_eq] at hp
    have hb := d (by rw [hg.1]; simp)
    have hacc := w.acct
    rw [hp.2] at hacc
    have h1 : s.ready.length = 0 := by omega
    have h2 : s.inflight.toList.length = 0 := by omega
    refine ⟨hb.2, hb.1, rfl, liveCount_zero hp.1, List.eq_nil_of_length_eq_zero h1, ?_⟩
    cases hin : s.inflight with
    | none => rfl
    | some x => rw [hin] at h2; simp at h2
  · rename_i hg; simp [hg] at h

/-! ### one-shot timers without a drain sweep -/

theorem issued1_snoc (h : Hist) (x : Op × Out) : issued1 (h ++ [x]) = issued1 h ++ issued1Of x := by simp [issued1]
theorem userCancelled_snoc (h : Hist) (x : Op × Out) : userCancelled (h ++ [x]) = userCancelled h ++ userCancelledOf x := by simp [userCancelled]

/-- as long as no sweep has run: a cancelled record was cancelled by a `cancel` that answered `true`, and every issued one-shot id
still has its record, or was collected, or was cancelled that way -/
structure NoLoss (s : Svc) (h : Hist) : Prop where
  u1 : ∀ r ∈ s.records, r.canceled = true → r.id ∈ userCancelled h
  u2 : ∀ id ∈ issued1 h, (∃ r ∈ s.records, r.id = id) ∨ id ∈ (collected h).map (·.id) ∨ id ∈ userCancelled h

theorem collectLoop_cancsub (now : Int) (P : Rec → Prop) : ∀ (f : Nat) (c : CL), (∀ r ∈ c.records, r.canceled = true → P r) →
    ∀ r ∈ (collectLoop now f c).records, r.canceled = true → P r
  | 0, c, h => h
  | f + 1, c, h => by
    unfold collectLoop
    split
    · exact h
    · split
      · exact h
      · split
        · exact collectLoop_cancsub now P f _ h
        · rename_i rc hfind
          have hrecs : ∀ r ∈ eraseRec c.records rc.id, r.canceled = true → P r := fun r hr => h r (mem_eraseRec.mp hr).1
          cases hcan : rc.canceled
          · simp only [Bool.not_false, if_true, Bool.and_true]
            split
            · exact collectLoop_cancsub now P f _ hrecs
            · split
              · apply collectLoop_cancsub now P f
                intro r hr hc
                simp only [List.mem_append, List.mem_singleton] at hr
                rcases hr with hr | rfl
                · exact hrecs r hr hc
                · cases hc
              · exact collectLoop_cancsub now P f _ hrecs
          · simp only [Bool.not_true, Bool.false_eq_true, if_false, Bool.and_false]
            split
            · exact collectLoop_cancsub now P f _ hrecs
            · exact collectLoop_cancsub now P f _ hrecs

theorem noLoss_step (L : Limits) (s : Svc) (h : Hist) (op : Op) (w : Wf s) (i : HI s h) (n : NoLoss s h)
    (hop : ∀ now t, op = .drainSweep now t → t ≤ 0) : NoLoss (step L s op).1 (h ++ [(op, (step L s op).2)]) := by
  have same : ∀ (s' : Svc) (out : Out), s'.records = s.records → issued1Of (op, out) = [] → collectedOf (op, out) = [] →
      NoLoss s' (h ++ [(op, out)]) := by
    intro s' out h1 h2 h3
    refine ⟨?_, ?_⟩
    · intro r hr hc; rw [userCancelled_snoc]; exact List.mem_append_left _ (n.u1 r (h1 ▸ hr) hc)
    · intro id hid
      rw [issued1_snoc, h2, List.append_nil] at hid
      rw [collected_snoc, h3, List.append_nil, userCancelled_snoc, h1]
      rcases n.u2 id hid with h' | h' | h'
      · exact Or.inl h'
      · exact Or.inr (Or.inl h')
      · exact Or.inr (Or.inr (List.mem_append_left _ h'))
  cases op with
  | schedAt now tp =>
    simp only [step, scheduleAt]
    split
    · exact same _ _ rfl (by simp [issued1Of]) rfl
    · split
      · exact same _ _ rfl (by simp [issued1Of]) rfl
      · split
        · exact same _ _ rfl (by simp [issued1Of]) rfl
        · refine ⟨?_, ?_⟩
          · intro r hr hc
            simp only [List.mem_append, List.mem_singleton] at hr
            rw [userCancelled_snoc]
            rcases hr with hr | rfl
            · exact List.mem_append_left _ (n.u1 r hr hc)
            · cases hc
          · intro id hid
            rw [issued1_snoc] at hid
            simp only [issued1Of, Nat.add_eq_zero_iff, Nat.succ_ne_self, and_false, if_false, List.mem_append, List.mem_singleton] at hid
            rw [collected_snoc, userCancelled_snoc]
            simp only [collectedOf, userCancelledOf, List.append_nil]
            rcases hid with hid | rfl
            · rcases n.u2 id hid with ⟨r, hr, hrid⟩ | h' | h'
              · exact Or.inl ⟨r, List.mem_append_left _ hr, hrid⟩
              · exact Or.inr (Or.inl h')
              · exact Or.inr (Or.inr h')
            · exact Or.inl ⟨_, List.mem_append_right _ (List.mem_singleton.mpr rfl), rfl⟩
  | schedPer now iv =>
    simp only [step, schedulePeriodic]
    split
    · exact same _ _ rfl rfl rfl
    · split
      · exact same _ _ rfl rfl rfl
      · split
        · exact same _ _ rfl rfl rfl
        · split
          · exact same _ _ rfl rfl rfl
          · refine ⟨?_, ?_⟩
            · intro r hr hc
              simp only [List.mem_append, List.mem_singleton] at hr
              rw [userCancelled_snoc]
              rcases hr with hr | rfl
              · exact List.mem_append_left _ (n.u1 r hr hc)
              · cases hc
            · intro id hid
              rw [issued1_snoc] at hid
              simp only [issued1Of, List.append_nil] at hid
              rw [collected_snoc, userCancelled_snoc]
              simp only [collectedOf, userCancelledOf, List.append_nil]
              rcases n.u2 id hid with ⟨r, hr, hrid⟩ | h' | h'
              · exact Or.inl ⟨r, List.mem_append_left _ hr, hrid⟩
              · exact Or.inr (Or.inl h')
              · exact Or.inr (Or.inr h')
  | cancel id =>
    -- which records does the cancel newly mark?  only a live record with this id, and then the answer is `true`
    have hans : ∀ r0 ∈ s.records, (markCanceled id r0).canceled = true → r0.canceled = true ∨ (r0.id = id ∧ (cancel s id).2 = true) := by
      intro r0 h0 hc
      cases hc0 : r0.canceled
      · right
        have hid : r0.id = id := by
          unfold markCanceled at hc
          split at hc
          · rename_i hcond; simp only [Bool.and_eq_true, beq_iff_eq] at hcond; exact hcond.1
          · rw [hc0] at hc; cases hc
        refine ⟨hid, ?_⟩
        unfold cancel cancelWith
        simp only
        cases hp : findPer s.periodic id with
        | some pt => rfl
        | none =>
          simp only
          cases hf : findRec s.records id with
          | none => exact absurd hid (findRec_none hf r0 h0)
          | some rc =>
            obtain ⟨hrc, hrcid⟩ := findRec_some hf
            have : r0 = rc := rec_unique w.core.rnd h0 hrc (hid.trans hrcid.symm)
            subst this
            simp [hc0]
      · exact Or.inl rfl
    have hu2 : ∀ (uc : List Nat), (∀ x ∈ userCancelled h, x ∈ uc) → ∀ id' ∈ issued1 h,
        (∃ r ∈ s.records.map (markCanceled id), r.id = id') ∨ id' ∈ (collected h).map (·.id) ∨ id' ∈ uc := by
      intro uc huc id' hid
      rcases n.u2 id' hid with ⟨r, hr, hrid⟩ | h' | h'
      · exact Or.inl ⟨markCanceled id r, List.mem_map_of_mem hr, (markCanceled_id id r).1.trans hrid⟩
      · exact Or.inr (Or.inl h')
      · exact Or.inr (Or.inr (huc _ h'))
    have key : ∀ (s' : Svc) (b : Bool), s'.records = s.records.map (markCanceled id) → b = (cancel s id).2 →
        NoLoss s' (h ++ [(.cancel id, .bool b)]) := by
      intro s' b hrec hb
      refine ⟨?_, ?_⟩
      · intro r hr hc
        rw [hrec] at hr
        obtain ⟨r0, h0, rfl⟩ := List.mem_map.mp hr
        rw [userCancelled_snoc, (markCanceled_id id r0).1]
        rcases hans r0 h0 hc with h' | ⟨hid, htrue⟩
        · exact List.mem_append_left _ (n.u1 r0 h0 h')
        · rw [hb, htrue, hid]
          exact List.mem_append_right _ (by simp [userCancelledOf])
      · intro id' hid
        rw [issued1_snoc] at hid
        simp only [issued1Of, List.append_nil] at hid
        rw [collected_snoc, userCancelled_snoc, hrec]
        simp only [collectedOf, List.append_nil]
        exact hu2 _ (fun x hx => List.mem_append_left _ hx) id' hid
    simp only [step]
    unfold cancel cancelWith
    simp only
    cases hp : findPer s.periodic id with
    | some pt => exact key _ true rfl (by unfold cancel cancelWith; simp [hp])
    | none => exact key _ _ rfl (by unfold cancel cancelWith; simp [hp])
  | collect now ax =>
    simp only [step, collect]
    split
    · exact same _ _ rfl rfl rfl
    · have sp := collect_spec s h now w i
      refine ⟨?_, ?_⟩
      · intro r hr hc
        rw [userCancelled_snoc]
        simp only [userCancelledOf, List.append_nil]
        exact collectLoop_cancsub now (fun r => r.id ∈ userCancelled h) collectFuel
          { records := s.records, periodic := s.periodic, heap := s.heap } n.u1 r hr hc
      · intro id hid
        rw [issued1_snoc] at hid
        simp only [issued1Of, List.append_nil] at hid
        rw [collected_snoc, userCancelled_snoc]
        simp only [collectedOf, userCancelledOf, List.append_nil, List.map_append, List.mem_append]
        rcases n.u2 id hid with ⟨r, hr, hrid⟩ | h' | h'
        · rcases sp.acct r hr with h1 | ⟨_, h1⟩ | ⟨hc, _⟩
          · exact Or.inl ⟨r, h1, hrid⟩
          · exact Or.inr (Or.inl (Or.inr (List.mem_map.mpr ⟨r.hnd, h1, hrid⟩)))
          · exact Or.inr (Or.inr (hrid ▸ n.u1 r hr hc))
        · exact Or.inr (Or.inl (Or.inl h'))
        · exact Or.inr (Or.inr h')
  | hstart =>
    simp only [step, hstart]
    split
    · exact same _ _ rfl rfl rfl
    · split
      · exact same _ _ rfl rfl rfl
      · split <;> exact same _ _ rfl rfl rfl
  | hend => simp only [step, hend]; split <;> exact same _ _ rfl rfl rfl
  | loopExit => simp only [step, loopExit]; split <;> exact same _ _ rfl rfl rfl
  | drainGate => simp only [step, drainGate]; split <;> exact same _ _ rfl rfl rfl
  | drainSweep now t =>
    have ht := hop now t rfl
    simp only [step, drainSweep]
    split
    · exact same _ _ rfl rfl rfl
    · split
      · rename_i hpos; omega
      · exact same _ _ rfl rfl rfl
  | drainDone => simp only [step, drainDone]; split <;> exact same _ _ rfl rfl rfl
  | drainTimeout => simp only [step, drainTimeout]; split <;> exact same _ _ rfl rfl rfl
  | drainRestore =>
    simp only [step, drainRestore]
    split
    · exact same _ _ rfl rfl rfl
    · split <;> exact same _ _ rfl rfl rfl
  | stopFlag => simp only [step, stopFlag]; split <;> exact same _ _ rfl rfl rfl
  | stopHalt => simp only [step, stopHalt]; split <;> exact same _ _ rfl rfl rfl
  | stopFinish => simp only [step, stopFinish]; split <;> exact same _ _ rfl rfl rfl

theorem noLoss_runFrom (L : Limits) : ∀ (ops : List Op) (s : Svc) (h : Hist), Wf s → HI s h → NoLoss s h → noSweep ops →
    NoLoss (runFrom L s h ops).1 (runFrom L s h ops).2
  | [], _, _, _, _, n, _ => n
  | op :: ops, s, h, w, i, n, hns =>
    noLoss_runFrom L ops _ _ (wf_step L s op w) (hi_step L s h op w i)
      (noLoss_step L s h op w i n (fun now t he => hns op List.mem_cons_self now t he))
      (fun op' hm => hns op' (List.mem_cons_of_mem _ hm))

theorem noLoss_run (L : Limits) (ops : List Op) (hns : noSweep ops) : NoLoss (run L ops).1 (run L ops).2 :=
  noLoss_runFrom L ops _ _ Wf.init HI.init ⟨by simp, by simp [issued1]⟩ hns

end Iora.Tsvc
