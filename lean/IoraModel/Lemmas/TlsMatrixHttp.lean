import IoraModel.Lemmas.TlsPlan
/-! C07: the whole HttpClient matrix (2160 cells), decided by kernel evaluation; cells inside the carve-out of the
recorded finding F20-http (`HttpCell.nameUnchecked`) are exempt from the `↔`, not from version / never-plain. -/
namespace Iora.Tls
set_option maxRecDepth 100000 in
theorem http_matrix_eval : HttpCell.allShared = true := by decide +kernel
theorem http_matrix : ∀ c : HttpCell, httpCellOk c = true := HttpCell.allShared_iff.mp http_matrix_eval
end Iora.Tls
