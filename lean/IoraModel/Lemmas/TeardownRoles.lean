import IoraModel.Model.TeardownRoles
/-!
Lemmas about `Model/TeardownRoles.lean`: the lifecycle invariant, "no callback from ANY thread role once stop() has returned",
the role table (a callback of role r is logged only by a step of role r), and the refutation witness for a timer handler that
reports a refused enqueue through a user callback (seed C05-d).
-/
namespace Iora.TeardownRoles

/-- the lifecycle fields the invariant speaks about -/
structure Life where
  running : Bool
  ioAlive : Bool
  closed : Bool
  joining : Bool
  quiet : Bool
  deriving DecidableEq

def life (s : State) : Life := ⟨s.running, s.ioAlive, s.closed, s.joining, s.quiet⟩

def Inv (s : State) : Prop :=
  (s.quiet = true → s.ioAlive = false ∧ s.closed = true ∧ s.running = false ∧ s.joining = false) ∧
  (s.joining = true → s.running = false) ∧
  (s.joining = true → s.ioAlive = false → s.closed = true) ∧
  (s.running = true → s.ioAlive = true)

theorem inv_init : Inv {} := by simp [Inv]

/-! ### the helpers touch neither the lifecycle flags (except `dispatch` on Shutdown) nor, where stated, the log -/

theorem cb_life (s : State) (r : Role) (c : Cb) : life (cb s r c) = life s := rfl

theorem enqueue_life (cfg : Cfg) (s : State) (r : Role) (c : Cmd) (oom : Bool) : life (enqueue cfg s r c oom).1 = life s := by
  unfold enqueue; split
  · rfl
  · split
    · split <;> rfl
    · rfl

theorem enqueue_closed_log (cfg : Cfg) (s : State) (r : Role) (c : Cmd) (oom : Bool) (h : s.closed = true) :
    (enqueue cfg s r c oom) = (s, false) := by
  simp [enqueue, h]

theorem closeNow_life (s : State) (sid : Nat) : life (closeNow s sid) = life s := rfl

theorem dispatch_life (s : State) (c : Cmd) (arm : Bool) :
    (dispatch s c arm).ioAlive = s.ioAlive ∧ (dispatch s c arm).closed = s.closed ∧ (dispatch s c arm).joining = s.joining ∧
    (dispatch s c arm).quiet = s.quiet ∧ ((dispatch s c arm).running = true → s.running = true) := by
  cases c with
  | connect sid tls => simp [dispatch]
  | send sid =>
    simp only [dispatch]
    split
    · split <;> simp
    · simp
  | close sid origin =>
    simp only [dispatch]
    split
    · split
      · simp
      · simp [closeNow, cb]
    · simp
  | shutdown => simp [dispatch]

theorem doIoEvent_life (s : State) (sid : Nat) (ev : IoEv) (arm : Bool) : life (doIoEvent s sid ev arm) = life s := by
  unfold doIoEvent
  split
  · rfl
  · cases ev <;> simp only <;> (repeat' split) <;> rfl

/-! ### the invariant -/

theorem inv_step (cfg : Cfg) (s : State) (st : Step) (h : Inv s) : Inv (step cfg s st) := by
  obtain ⟨h1, h2, h3, h4⟩ := h
  cases st with
  | apiStart fail =>
    simp only [step]
    split
    · exact ⟨h1, h2, h3, h4⟩
    · rename_i hg
      simp only [Bool.or_eq_true, not_or, Bool.not_eq_true] at hg
      split
      · simp [Inv, cb, hg.1.1, hg.1.2, hg.2]
      · simp [Inv, hg.2]
  | apiConnect tls oom =>
    have e := enqueue_life cfg { s with nextSid := s.nextSid + 1 } .api (.connect s.nextSid tls) oom
    simp only [life, Life.mk.injEq] at e
    simp only [step, Inv, e.1, e.2.1, e.2.2.1, e.2.2.2.1, e.2.2.2.2]; exact ⟨h1, h2, h3, h4⟩
  | apiSend sid oom =>
    have e := enqueue_life cfg s .api (.send sid) oom
    simp only [life, Life.mk.injEq] at e
    simp only [step, Inv, e.1, e.2.1, e.2.2.1, e.2.2.2.1, e.2.2.2.2]; exact ⟨h1, h2, h3, h4⟩
  | apiClose sid oom =>
    have e := enqueue_life cfg s .api (.close sid none) oom
    simp only [life, Life.mk.injEq] at e
    simp only [step, Inv, e.1, e.2.1, e.2.2.1, e.2.2.2.1, e.2.2.2.2]; exact ⟨h1, h2, h3, h4⟩
  | apiStop oom =>
    simp only [step]
    split
    · exact ⟨h1, h2, h3, h4⟩
    · rename_i hj
      split
      · rename_i hr
        have e := enqueue_life cfg { s with running := false } .api .shutdown oom
        simp only [life, Life.mk.injEq] at e
        have hio := h4 hr
        have hq : s.quiet = false := by
          cases hqq : s.quiet with
          | false => rfl
          | true => have := (h1 hqq).2.2.1; simp [hr] at this
        simp only [Inv]
        refine ⟨?_, ?_, ?_, ?_⟩ <;> intro hh <;> simp_all
      · split
        · exact ⟨h1, h2, h3, h4⟩
        · rename_i hr hio
          simp only [Bool.not_eq_true] at hj hr hio
          simp only [Inv]
          refine ⟨?_, ?_, ?_, ?_⟩ <;> intro hh <;> simp_all
  | apiStopJoin =>
    simp only [step]
    split
    · rename_i hg
      simp only [Bool.and_eq_true, Bool.not_eq_true', ] at hg
      have hc := h3 hg.1 hg.2
      have hr := h2 hg.1
      simp [Inv, hg.2, hc, hr]
    · exact ⟨h1, h2, h3, h4⟩
  | ioProcess arm =>
    simp only [step]
    split
    · rename_i hio
      split
      · exact ⟨h1, h2, h3, h4⟩
      · rename_i c rest hq
        have d := dispatch_life { s with q := rest } c arm
        simp only at d
        obtain ⟨d1, d2, d3, d4, d5⟩ := d
        refine ⟨?_, ?_, ?_, ?_⟩
        · intro hqq; rw [d4] at hqq; have := (h1 hqq).1; simp [hio] at this
        · intro hjj; rw [d3] at hjj
          cases hrr : (dispatch { s with q := rest } c arm).running with
          | false => rfl
          | true => have := d5 hrr; have := h2 hjj; simp_all
        · intro hjj hii; rw [d1] at hii; simp [hio] at hii
        · intro hrr; rw [d1]; exact hio
    · exact ⟨h1, h2, h3, h4⟩
  | ioEvent sid ev arm =>
    simp only [step]
    split
    · have e := doIoEvent_life s sid ev arm
      simp only [life, Life.mk.injEq] at e
      simp only [Inv, e.1, e.2.1, e.2.2.1, e.2.2.2.1, e.2.2.2.2]; exact ⟨h1, h2, h3, h4⟩
    · exact ⟨h1, h2, h3, h4⟩
  | ioDrainClose sid =>
    simp only [step]
    split
    · split
      · simp only [Inv, cb]; exact ⟨h1, h2, h3, h4⟩
      · exact ⟨h1, h2, h3, h4⟩
    · exact ⟨h1, h2, h3, h4⟩
  | ioDrainFinish =>
    simp only [step]
    split
    · rename_i hg
      simp only [Bool.and_eq_true, Bool.not_eq_true'] at hg
      have hq : s.quiet = false := by
        cases hqq : s.quiet with
        | false => rfl
        | true => have := (h1 hqq).1; simp [hg.1.1] at this
      simp [Inv, hq, hg.1.2]
    · exact ⟨h1, h2, h3, h4⟩
  | timerFire k oom =>
    simp only [step]
    split
    · exact ⟨h1, h2, h3, h4⟩
    · rename_i sid kind hk
      have e := enqueue_life cfg { s with timers := s.timers.eraseIdx k } .timer (.close sid (some kind)) oom
      simp only [life, Life.mk.injEq] at e
      have : Inv (enqueue cfg { s with timers := s.timers.eraseIdx k } .timer (.close sid (some kind)) oom).1 := by
        simp only [Inv, e.1, e.2.1, e.2.2.1, e.2.2.2.1, e.2.2.2.2]; exact ⟨h1, h2, h3, h4⟩
      split
      · exact this
      · exact this

theorem inv_run (cfg : Cfg) (steps : List Step) (s : State) (h : Inv s) : Inv (run cfg s steps) := by
  induction steps generalizing s with
  | nil => exact h
  | cons st rest ih => exact ih _ (inv_step cfg s st h)

/-- states reachable from a freshly constructed engine under any schedule of the three roles -/
def Reach (cfg : Cfg) (s : State) : Prop := ∃ steps, s = run cfg {} steps

theorem inv_reach (cfg : Cfg) (s : State) (h : Reach cfg s) : Inv s := by
  obtain ⟨steps, rfl⟩ := h
  exact inv_run cfg steps {} inv_init

/-! ### T5 over all roles -/

def isStart : Step → Bool
  | .apiStart _ => true
  | _ => false

/-- once a `stop()` has returned (I/O thread gone, queue closed) no step of ANY role other than a new `start()` logs a callback,
and the state stays quiet — provided the timer handlers do not report a refused enqueue -/
theorem quiet_step_silent (cfg : Cfg) (hT : cfg.timerCbOnRefusal = false) (s : State) (h : Inv s) (hq : s.quiet = true)
    (st : Step) (hs : isStart st = false) :
    (step cfg s st).log = s.log ∧ (step cfg s st).quiet = true := by
  obtain ⟨hio, hc, hr, hj⟩ := h.1 hq
  cases st with
  | apiStart fail => simp [isStart] at hs
  | apiConnect tls oom =>
    simp only [step]
    rw [enqueue_closed_log cfg _ .api _ oom (by exact hc)]
    exact ⟨rfl, hq⟩
  | apiSend sid oom =>
    simp only [step]
    rw [enqueue_closed_log cfg _ .api _ oom (by exact hc)]
    exact ⟨rfl, hq⟩
  | apiClose sid oom =>
    simp only [step]
    rw [enqueue_closed_log cfg _ .api _ oom (by exact hc)]
    exact ⟨rfl, hq⟩
  | apiStop oom => simp [step, hj, hr, hio, hc, hq]
  | apiStopJoin => simp [step, hj, hq]
  | ioProcess arm => simp [step, hio, hq]
  | ioEvent sid ev arm => simp [step, hio, hq]
  | ioDrainClose sid => simp [step, hio, hq]
  | ioDrainFinish => simp [step, hio, hq]
  | timerFire k oom =>
    simp only [step]
    split
    · exact ⟨rfl, hq⟩
    · rename_i sid kind hk
      rw [enqueue_closed_log cfg _ .timer _ oom (by exact hc)]
      simp [hT, hq]

/-- … hence for every continuation without a `start()` -/
theorem quiet_run_silent (cfg : Cfg) (hT : cfg.timerCbOnRefusal = false) (steps : List Step) (s : State) (h : Inv s)
    (hq : s.quiet = true) (hs : steps.all (fun st => !isStart st) = true) :
    (run cfg s steps).log = s.log ∧ (run cfg s steps).quiet = true := by
  induction steps generalizing s with
  | nil => exact ⟨rfl, hq⟩
  | cons st rest ih =>
    simp only [List.all_cons, Bool.and_eq_true, Bool.not_eq_true'] at hs
    have a := quiet_step_silent cfg hT s h hq st hs.1
    have b := ih (step cfg s st) (inv_step cfg s st h) a.2 hs.2
    exact ⟨by simp only [run]; rw [b.1, a.1], by simp only [run]; exact b.2⟩

/-! ### the role table -/

def roleOf : Step → Role
  | .apiStart _ | .apiConnect _ _ | .apiSend _ _ | .apiClose _ _ | .apiStop _ | .apiStopJoin => .api
  | .ioProcess _ | .ioEvent _ _ _ | .ioDrainClose _ | .ioDrainFinish => .io
  | .timerFire _ _ => .timer

theorem residualCloses_io (q : List Cmd) : ∀ e ∈ residualCloses q, e.1 = Role.io := by
  induction q with
  | nil => simp [residualCloses]
  | cons c rest ih =>
    cases c <;> simp only [residualCloses] <;> (try exact ih)
    intro e he
    simp only [List.mem_cons] at he
    rcases he with rfl | he
    · rfl
    · exact ih e he

theorem enqueue_log (cfg : Cfg) (s : State) (r : Role) (c : Cmd) (oom : Bool) :
    ∃ l, (enqueue cfg s r c oom).1.log = s.log ++ l ∧ (∀ e ∈ l, e.1 = r) ∧ (s.closed = true → l = []) := by
  unfold enqueue
  split
  · exact ⟨[], by simp, by simp, by simp⟩
  · rename_i hc
    split
    · split
      · exact ⟨[(r, .error)], rfl, by simp, by intro h; simp [h] at hc⟩
      · exact ⟨[], by simp, by simp, by simp⟩
    · exact ⟨[], by simp, by simp, by simp⟩

theorem dispatch_log (s : State) (c : Cmd) (arm : Bool) :
    ∃ l, (dispatch s c arm).log = s.log ++ l ∧ ∀ e ∈ l, e.1 = Role.io := by
  cases c with
  | connect sid tls => exact ⟨[], by simp [dispatch], by simp⟩
  | send sid =>
    simp only [dispatch]
    split
    · split <;> exact ⟨[], by simp, by simp⟩
    · exact ⟨[], by simp, by simp⟩
  | close sid origin =>
    simp only [dispatch]
    split
    · split
      · exact ⟨[], by simp, by simp⟩
      · exact ⟨[(.io, .close)], by simp [closeNow, cb], by simp⟩
    · exact ⟨[], by simp, by simp⟩
  | shutdown => exact ⟨[], by simp [dispatch], by simp⟩

theorem log_same (s' s0 : State) (h : s'.log = s0.log) : ∃ l, s'.log = s0.log ++ l ∧ ∀ e ∈ l, e.1 = Role.io :=
  ⟨[], by simp [h], by simp⟩
theorem log_cb (s' s0 : State) (c : Cb) (h : s'.log = s0.log) : ∃ l, (cb s' .io c).log = s0.log ++ l ∧ ∀ e ∈ l, e.1 = Role.io :=
  ⟨[(.io, c)], by simp [cb, h], by simp⟩

theorem doIoEvent_log (s : State) (sid : Nat) (ev : IoEv) (arm : Bool) :
    ∃ l, (doIoEvent s sid ev arm).log = s.log ++ l ∧ ∀ e ∈ l, e.1 = Role.io := by
  unfold doIoEvent
  split
  · exact log_same _ _ rfl
  · cases ev <;> simp only <;> (repeat' split) <;>
      first
      | exact log_same _ _ rfl
      | exact log_cb _ s _ rfl

/-- every step extends the log by callbacks of ITS OWN role only; an I/O-role step logs nothing once the I/O thread has terminated -/
theorem step_log_role (cfg : Cfg) (s : State) (st : Step) :
    ∃ l, (step cfg s st).log = s.log ++ l ∧ (∀ e ∈ l, e.1 = roleOf st) ∧ (roleOf st = .io → s.ioAlive = false → l = []) := by
  cases st with
  | apiStart fail =>
    simp only [step]
    split
    · exact ⟨[], by simp, by simp, by simp [roleOf]⟩
    · split
      · exact ⟨[(.api, .error)], by simp [cb], by simp [roleOf], by simp [roleOf]⟩
      · exact ⟨[], by simp, by simp, by simp [roleOf]⟩
  | apiConnect tls oom =>
    obtain ⟨l, h1, h2, _⟩ := enqueue_log cfg { s with nextSid := s.nextSid + 1 } .api (.connect s.nextSid tls) oom
    exact ⟨l, by simpa [step] using h1, by simpa [roleOf] using h2, by simp [roleOf]⟩
  | apiSend sid oom =>
    obtain ⟨l, h1, h2, _⟩ := enqueue_log cfg s .api (.send sid) oom
    exact ⟨l, by simpa [step] using h1, by simpa [roleOf] using h2, by simp [roleOf]⟩
  | apiClose sid oom =>
    obtain ⟨l, h1, h2, _⟩ := enqueue_log cfg s .api (.close sid none) oom
    exact ⟨l, by simpa [step] using h1, by simpa [roleOf] using h2, by simp [roleOf]⟩
  | apiStop oom =>
    simp only [step]
    split
    · exact ⟨[], by simp, by simp, by simp [roleOf]⟩
    · split
      · obtain ⟨l, h1, h2, _⟩ := enqueue_log cfg { s with running := false } .api .shutdown oom
        exact ⟨l, by simpa using h1, by simpa [roleOf] using h2, by simp [roleOf]⟩
      · split <;> exact ⟨[], by simp, by simp, by simp [roleOf]⟩
  | apiStopJoin =>
    simp only [step]
    split <;> exact ⟨[], by simp, by simp, by simp [roleOf]⟩
  | ioProcess arm =>
    simp only [step]
    split
    · rename_i hio
      split
      · exact ⟨[], by simp, by simp, by simp⟩
      · rename_i c rest hq
        obtain ⟨l, h1, h2⟩ := dispatch_log { s with q := rest } c arm
        exact ⟨l, by simpa using h1, by simpa [roleOf] using h2, by intro _ h; simp [hio] at h⟩
    · exact ⟨[], by simp, by simp, by simp⟩
  | ioEvent sid ev arm =>
    simp only [step]
    split
    · rename_i hg
      obtain ⟨l, h1, h2⟩ := doIoEvent_log s sid ev arm
      exact ⟨l, h1, by simpa [roleOf] using h2, by intro _ h; simp [h] at hg⟩
    · exact ⟨[], by simp, by simp, by simp⟩
  | ioDrainClose sid =>
    simp only [step]
    split
    · rename_i hg
      split
      · exact ⟨[(.io, .close)], by simp [cb], by simp [roleOf], by intro _ h; simp [h] at hg⟩
      · exact ⟨[], by simp, by simp, by simp⟩
    · exact ⟨[], by simp, by simp, by simp⟩
  | ioDrainFinish =>
    simp only [step]
    split
    · rename_i hg
      exact ⟨residualCloses s.q, by simp, by simpa [roleOf] using residualCloses_io s.q, by intro _ h; simp [h] at hg⟩
    · exact ⟨[], by simp, by simp, by simp⟩
  | timerFire k oom =>
    simp only [step]
    split
    · exact ⟨[], by simp, by simp, by simp [roleOf]⟩
    · rename_i sid kind hk
      obtain ⟨l, h1, h2, _⟩ := enqueue_log cfg { s with timers := s.timers.eraseIdx k } .timer (.close sid (some kind)) oom
      simp only at h1
      split
      · exact ⟨l ++ [(.timer, .error)], by simp [cb, h1], by
          intro e he'; simp only [List.mem_append, List.mem_singleton] at he'
          rcases he' with h | rfl
          · simpa [roleOf] using h2 e h
          · rfl, by simp [roleOf]⟩
      · exact ⟨l, h1, by simpa [roleOf] using h2, by simp [roleOf]⟩

/-! ### the Close arm of `process()` guards a stale timer close -/

theorem stale_timer_close_dropped (s : State) (sid : Nat) (k : TimerKind) (arm : Bool)
    (h : match findSess s sid with | none => True | some x => stale x (some k) = true) :
    dispatch s (.close sid (some k)) arm = s := by
  simp only [dispatch]
  split
  · rename_i x hx; rw [hx] at h; simp [h]
  · rfl

/-! ### the witness: a timer handler that reports the refusal (seed C05-d) -/

/-- start; connect (TLS); the Connect command runs and leaves the connect-timeout timer armed; stop(): CAS + Shutdown, the I/O thread
processes it, the drain closes the session (its timer stays armed), closes the queue, terminates; the join returns -/
def witnessPrefix : List Step :=
  [.apiStart false, .apiConnect true false, .ioProcess true, .apiStop false, .ioProcess false, .ioDrainClose 1, .ioDrainFinish, .apiStopJoin]

theorem witness_prefix_quiet (cfg : Cfg) (hd : cfg.drainCancelsTimers = false) :
    (run cfg {} witnessPrefix).quiet = true ∧ (run cfg {} witnessPrefix).timers = [(1, .connect)] ∧
    (run cfg {} witnessPrefix).log = [(.io, .close)] ∧ (run cfg {} witnessPrefix).closed = true := by
  obtain ⟨a, b, c⟩ := cfg
  simp only at hd
  subst hd
  cases a <;> cases b <;> decide

theorem witness_late_callback (cfg : Cfg) (hd : cfg.drainCancelsTimers = false) (hT : cfg.timerCbOnRefusal = true) :
    (step cfg (run cfg {} witnessPrefix) (.timerFire 0 false)).log = [(.io, .close), (.timer, .error)] := by
  obtain ⟨a, b, c⟩ := cfg
  simp only at hd hT
  subst hd; subst hT
  cases b <;> decide

end Iora.TeardownRoles
