import IoraModel.Lemmas.TcpSession
/-! Extension-round lemmas for C01: whole-history read side (delivered = received; draining the environment), the same-buffer
retry obligation of `SSL_write`, the batch order of `EventBatchProcessor`. -/
namespace Iora.Tcp

/-! ## whole histories: every chunk `recv`/`SSL_read` returned was handed to the data callback, once, in order -/

@[simp] theorem cn_deliveredRev (s : St) (w : Why) : (closeNow s w).1.deliveredRev = s.deliveredRev := by
  unfold closeNow; split <;> rfl
@[simp] theorem cn_receivedRev (s : St) (w : Why) : (closeNow s w).1.receivedRev = s.receivedRev := by
  unfold closeNow; split <;> rfl

/-- `deliveredRev = receivedRev`, and it grows exactly by the step's `deliver` outputs -/
def RdInv (s s' : St) (outs : List Out) : Prop :=
  s'.deliveredRev = (deliveries outs).reverse ++ s.deliveredRev ∧ s'.receivedRev = (deliveries outs).reverse ++ s.receivedRev

theorem rdInv_refl (s : St) : RdInv s s [] := ⟨rfl, rfl⟩

theorem deliveries_append (a b : List Out) : deliveries (a ++ b) = deliveries a ++ deliveries b := by
  induction a with
  | nil => rfl
  | cons o a ih => cases o <;> simp [deliveries, ih]

theorem rdInv_trans {s s1 s2 : St} {o1 o2 : List Out} (h1 : RdInv s s1 o1) (h2 : RdInv s1 s2 o2) : RdInv s s2 (o1 ++ o2) := by
  unfold RdInv at *
  rw [deliveries_append, List.reverse_append, h2.1, h2.2, h1.1, h1.2]
  simp

theorem rdInv_silent {s s' : St} {o : List Out} (hd : s'.deliveredRev = s.deliveredRev) (hr : s'.receivedRev = s.receivedRev)
    (ho : deliveries o = []) : RdInv s s' o := by
  unfold RdInv; rw [ho, hd, hr]; simp

theorem ui_rd (cfg : Cfg) (s : St) : RdInv s (updateInterest cfg s).1 (updateInterest cfg s).2 :=
  rdInv_silent (by simp) (by simp) (deliveries_ui cfg s)

theorem cn_rd (s : St) (w : Why) : RdInv s (closeNow s w).1 (closeNow s w).2 :=
  rdInv_silent (by simp) (by simp) (deliveries_cn s w)

theorem rdInv_pre {s s' : St} {o : List Out} (pre : List Out) (hp : deliveries pre = []) (h : RdInv s s' o) :
    RdInv s s' (pre ++ o) := by
  unfold RdInv at *; rw [deliveries_append, hp]; simpa using h

theorem rdInv_cons {s s' : St} {o : List Out} (x : Out) (hx : deliveries [x] = []) (h : RdInv s s' o) :
    RdInv s s' (x :: o) := rdInv_pre [x] hx h

theorem readAvail_rd (cfg : Cfg) : ∀ (rs : List RAns) (s : St), RdInv s (readAvail cfg s rs).1.1 (readAvail cfg s rs).1.2
  | [], s => rdInv_silent rfl rfl rfl
  | a :: rest, s => by
    unfold readAvail
    simp only
    split
    · split
      · rename_i bs _ _
        have ih := readAvail_rd cfg rest { s with receivedRev := bs :: s.receivedRev, deliveredRev := bs :: s.deliveredRev }
        unfold RdInv at *
        simp only [deliveries, List.reverse_cons, List.append_assoc, List.singleton_append]
        exact ⟨ih.1, ih.2⟩
      · unfold RdInv; simp [deliveries]
    · exact rdInv_silent rfl rfl rfl
    · exact rdInv_cons _ rfl (rdInv_silent (by simp) (by simp) (deliveries_ui _ _))
    · exact rdInv_cons _ rfl (cn_rd _ _)
    · exact rdInv_cons _ rfl (cn_rd _ _)

/-- no read-side effect at all -/
def Silent (s : St) (r : R) : Prop :=
  r.1.deliveredRev = s.deliveredRev ∧ r.1.receivedRev = s.receivedRev ∧ deliveries r.2 = []

theorem silent_rd {s : St} {r : R} (h : Silent s r) : RdInv s r.1 r.2 := rdInv_silent h.1 h.2.1 h.2.2

theorem ui_silent (cfg : Cfg) (s : St) : Silent s (updateInterest cfg s) := ⟨by simp, by simp, deliveries_ui cfg s⟩
theorem cn_silent (s : St) (w : Why) : Silent s (closeNow s w) := ⟨by simp, by simp, deliveries_cn s w⟩

theorem enqueueTail_silent (cfg : Cfg) (s : St) (p : Bytes) : Silent s (enqueueTail cfg s p) := by
  unfold enqueueTail
  simp only
  split
  · split
    · exact cn_silent _ _
    · exact ui_silent _ _
  · exact ui_silent _ _

theorem silent_cons {s : St} {r : R} (x : Out) (hx : deliveries [x] = []) (h : Silent s r) : Silent s (r.1, x :: r.2) := by
  refine ⟨h.1, h.2.1, ?_⟩
  have := deliveries_append [x] r.2
  simp only [List.singleton_append] at this
  rw [this, hx, h.2.2]; rfl

theorem doSend_silent (cfg : Cfg) (s : St) (p : Bytes) (a : WAns) : Silent s (doSend cfg s p a) := by
  unfold doSend
  simp only
  split
  · exact ⟨rfl, rfl, rfl⟩
  · split
    · exact ui_silent _ _
    · split
      · split
        · split
          · exact silent_cons _ rfl (ui_silent cfg _)
          · exact ⟨rfl, rfl, rfl⟩
        · exact silent_cons _ rfl (enqueueTail_silent cfg _ p)
        · exact silent_cons _ rfl (cn_silent _ _)
      · exact enqueueTail_silent cfg _ p

theorem writeLoop_deliveries (ssl : Bool) : ∀ (q : List Bytes) (as : List WAns), deliveries (writeLoop ssl q as).outs = []
  | [], _ => rfl
  | d :: rest, as => by
    unfold writeLoop
    simp only
    split
    · split
      · rfl
      · simp only [deliveries]; exact writeLoop_deliveries ssl rest as.tail
    · rfl
    · rfl

theorem silent_pre {s : St} {r : R} (pre : List Out) (hp : deliveries pre = []) (h : Silent s r) : Silent s (r.1, pre ++ r.2) := by
  refine ⟨h.1, h.2.1, ?_⟩
  rw [deliveries_append, hp, h.2.2]; rfl

theorem writePending_silent (cfg : Cfg) (s : St) (ws : List WAns) : Silent s (writePending cfg s ws) := by
  unfold writePending
  simp only
  split
  · exact silent_pre _ (writeLoop_deliveries _ _ _) (cn_silent _ _)
  · exact silent_pre _ (writeLoop_deliveries _ _ _) (ui_silent cfg _)
  · exact silent_pre _ (writeLoop_deliveries _ _ _) (ui_silent cfg _)
  · exact silent_pre _ (writeLoop_deliveries _ _ _) (ui_silent cfg _)

theorem connectCheck_silent (s : St) (c : CAns) : Silent s (connectCheck s c) := by
  unfold connectCheck
  split
  · exact ⟨rfl, rfl, rfl⟩
  · split
    · exact ⟨rfl, rfl, rfl⟩
    · split
      · exact ⟨rfl, rfl, rfl⟩
      · exact ⟨rfl, rfl, rfl⟩
      · exact silent_cons _ rfl (cn_silent _ _)

theorem driveHandshake_rd (cfg : Cfg) (s : St) (h : HAns) (rs : List RAns) :
    RdInv s (driveHandshake cfg s h rs).1.1.1 (driveHandshake cfg s h rs).1.1.2 := by
  unfold driveHandshake
  split
  · simp only
    refine rdInv_cons _ rfl (rdInv_cons _ rfl ?_)
    have h1 : RdInv s (updateInterest cfg { s with tls := .open, tlsWantWrite := false, connectPending := false }).1
        (updateInterest cfg { s with tls := .open, tlsWantWrite := false, connectPending := false }).2 :=
      rdInv_silent (by simp) (by simp) (deliveries_ui _ _)
    exact rdInv_trans h1 (readAvail_rd cfg rs _)
  · exact rdInv_cons _ rfl (rdInv_silent (by simp) (by simp) (deliveries_ui _ _))
  · exact rdInv_cons _ rfl (rdInv_silent (by simp) (by simp) (deliveries_ui _ _))
  · exact rdInv_cons _ rfl (rdInv_silent (by simp) (by simp) (deliveries_cn _ _))

theorem onSessionIo_rd (cfg : Cfg) (s : St) (ev : Ev) (rs : List RAns) (ws : List WAns) :
    RdInv s (onSessionIo cfg s ev rs ws).1 (onSessionIo cfg s ev rs ws).2 := by
  unfold onSessionIo
  split
  · exact rdInv_refl s
  · split
    · exact cn_rd _ _
    · have h1 : RdInv s (if ev.inn = true then (readAvail cfg s rs).1 else (s, [])).1
          (if ev.inn = true then (readAvail cfg s rs).1 else (s, [])).2 := by
        split
        · exact readAvail_rd cfg rs s
        · exact rdInv_refl s
      simp only
      generalize (if ev.inn = true then (readAvail cfg s rs).1 else (s, [])) = r1 at h1 ⊢
      split
      · exact h1
      · split
        · exact rdInv_trans h1 (silent_rd (writePending_silent cfg r1.1 ws))
        · exact h1

theorem onSession_rd (cfg : Cfg) (s : St) (ev : Ev) (soOk : Bool) (c : CAns) (h : HAns)
    (rs : List RAns) (ws : List WAns) : RdInv s (onSession cfg s ev soOk c h rs ws).1 (onSession cfg s ev soOk c h rs ws).2 := by
  have hpre : deliveries (if ev.out = true then [Out.soError] else []) = [] := by split <;> rfl
  unfold onSession
  split
  · exact rdInv_refl s
  · split
    · exact rdInv_cons _ rfl (cn_rd _ _)
    · simp only
      split
      · split
        · rw [List.append_assoc]
          exact rdInv_pre _ hpre (rdInv_trans (driveHandshake_rd cfg s h rs) (onSessionIo_rd cfg _ ev _ ws))
        · exact rdInv_pre _ hpre (driveHandshake_rd cfg s h rs)
      · split
        · split
          · refine rdInv_pre _ hpre (rdInv_cons _ rfl (rdInv_cons _ rfl ?_))
            exact rdInv_trans (silent_rd (ui_silent cfg _)) (onSessionIo_rd cfg _ ev rs ws)
          · exact rdInv_pre _ hpre (rdInv_cons _ rfl (onSessionIo_rd cfg s ev rs ws))
          · exact rdInv_pre _ hpre (rdInv_cons _ rfl (cn_rd _ _))
        · exact rdInv_pre _ hpre (onSessionIo_rd cfg s ev rs ws)

theorem step_rd (cfg : Cfg) (s : St) (i : In) : RdInv s (step cfg s i).1 (step cfg s i).2 := by
  cases i with
  | cmdSend p a =>
    show RdInv s (if p.isEmpty then (s, []) else doSend cfg s p a).1 (if p.isEmpty then (s, []) else doSend cfg s p a).2
    split
    · exact rdInv_refl s
    · exact silent_rd (doSend_silent cfg s p a)
  | cmdClose w o =>
    show RdInv s (if closeGuardSkips s o then (s, []) else closeNow s w).1 (if closeGuardSkips s o then (s, []) else closeNow s w).2
    split
    · exact rdInv_refl s
    · exact cn_rd s w
  | shutdown residual =>
    have := cn_rd s .shutdown
    exact this
  | connectCheck c => exact silent_rd (connectCheck_silent s c)
  | event ev soOk c h rs ws => exact onSession_rd cfg s ev soOk c h rs ws

theorem run_rd (cfg : Cfg) : ∀ (is : List In) (s : St), RdInv s (run cfg s is).1 (run cfg s is).2
  | [], s => rdInv_refl s
  | i :: is, s => rdInv_trans (step_rd cfg s i) (run_rd cfg is _)

/-! ## draining the environment: one `readAvail` call with the drain loop takes everything, buffered plaintext included -/
namespace Rd

theorem chunksF_flatten (cap : Nat) (hc : 0 < cap) : ∀ (f : Nat) (b : Bytes), b.length ≤ f → (chunksF cap f b).flatten = b
  | 0, b, h => by
    have : b = [] := List.length_eq_zero_iff.mp (by omega)
    simp [chunksF, this]
  | f + 1, b, h => by
    unfold chunksF
    split
    · rename_i he; simp at he; simp [he]
    · rename_i he
      have hpos : 0 < b.length := by
        cases b with
        | nil => simp at he
        | cons _ _ => simp
      have hl : (b.drop cap).length ≤ f := by rw [List.length_drop]; omega
      simp [chunksF_flatten cap hc f _ hl]

theorem chunksF_ne (cap : Nat) (hc : 0 < cap) : ∀ (f : Nat) (b : Bytes), ∀ c ∈ chunksF cap f b, c ≠ []
  | 0, _, c, h => by simp [chunksF] at h
  | f + 1, b, c, h => by
    unfold chunksF at h
    split at h
    · simp at h
    · rename_i he
      rcases List.mem_cons.mp h with h1 | h1
      · rw [h1]
        cases b with
        | nil => simp at he
        | cons x xs =>
          cases cap with
          | zero => omega
          | succ k => simp
      · exact chunksF_ne cap hc f _ c h1

theorem chunks_flatten (cap : Nat) (hc : 0 < cap) (b : Bytes) : (chunks cap b).flatten = b :=
  chunksF_flatten cap hc _ b (Nat.le_refl _)

theorem chunks_ne (cap : Nat) (hc : 0 < cap) (b : Bytes) : ∀ c ∈ chunks cap b, c ≠ [] := chunksF_ne cap hc _ b

theorem dataPrefix_datas (ssl : Bool) (blk : RAns) (hb : ∀ bs, classifyR ssl blk ≠ .got bs) :
    ∀ (cs : List Bytes), (∀ c ∈ cs, c ≠ []) →
      dataPrefix ssl (cs.map RAns.data ++ [blk]) = cs ∧ afterData ssl (cs.map RAns.data ++ [blk]) = [blk]
  | [], _ => by
    simp only [List.map_nil, List.nil_append, dataPrefix, afterData]
    cases h : classifyR ssl blk with
    | got bs => exact absurd h (hb bs)
    | _ => simp
  | c :: cs, hne => by
    have hc : c ≠ [] := hne c (by simp)
    have hcl : classifyR ssl (.data c) = .got c := by
      cases c with
      | nil => exact absurd rfl hc
      | cons _ _ => simp [classifyR]
    have ih := dataPrefix_datas ssl blk hb cs (fun x hx => hne x (by simp [hx]))
    simp only [List.map_cons, List.cons_append, dataPrefix, afterData, hcl]
    exact ⟨by rw [ih.1], ih.2⟩

theorem answers_spec (ssl : Bool) (cap : Nat) (hc : 0 < cap) (e : Env) :
    (dataPrefix ssl (e.answers ssl cap)).flatten = e.content ∧
    afterData ssl (e.answers ssl cap) = [if ssl then .wantR else .again] := by
  have hne : ∀ c ∈ chunks cap e.buf ++ (e.kern.map (chunks cap)).flatten, c ≠ [] := by
    intro c hcm
    rcases List.mem_append.mp hcm with h | h
    · exact chunks_ne cap hc _ c h
    · obtain ⟨l, hl, hcl⟩ := List.mem_flatten.mp h
      obtain ⟨r, _, hr⟩ := List.mem_map.mp hl
      rw [← hr] at hcl
      exact chunks_ne cap hc _ c hcl
  have hb : ∀ bs, classifyR ssl (if ssl then RAns.wantR else RAns.again) ≠ .got bs := by
    intro bs; cases ssl <;> simp [classifyR]
  have h := dataPrefix_datas ssl _ hb _ hne
  unfold Env.answers
  rw [h.1, h.2]
  refine ⟨?_, rfl⟩
  rw [List.flatten_append, chunks_flatten cap hc]
  unfold Env.content
  congr 1
  induction e.kern with
  | nil => rfl
  | cons r rs ih => simp [List.flatten_append, chunks_flatten cap hc, ih]

end Rd

/-! ## the buffer of a write that was refused is the buffer of the next write (OpenSSL's moving-buffer rule) -/

/-- the buffer of the first `::send` / `SSL_write` in an output list -/
def firstWrite : List Out → Option Bytes
  | [] => none
  | .write _ b :: _ => some b
  | _ :: os => firstWrite os

theorem firstWrite_append (a b : List Out) :
    firstWrite (a ++ b) = match firstWrite a with | some x => some x | none => firstWrite b := by
  induction a with
  | nil => cases h : firstWrite b <;> simp [firstWrite, h]
  | cons o a ih => cases o <;> simp [firstWrite, ih]

theorem firstWrite_append_none {a b : List Out} (h : firstWrite a = none) : firstWrite (a ++ b) = firstWrite b := by
  rw [firstWrite_append, h]

/-- no write call; the session is closed afterwards or its queue (and open/closed state) is untouched -/
def Quiet (s : St) (r : R) : Prop :=
  firstWrite r.2 = none ∧ (r.1.closed = true ∨ (r.1.closed = s.closed ∧ r.1.wq = s.wq))

theorem quiet_refl (s : St) : Quiet s (s, []) := ⟨rfl, Or.inr ⟨rfl, rfl⟩⟩

theorem ui_fw (cfg : Cfg) (s : St) : firstWrite (updateInterest cfg s).2 = none := by
  unfold updateInterest; split <;> rfl
theorem cn_fw (s : St) (w : Why) : firstWrite (closeNow s w).2 = none := by
  unfold closeNow; split <;> rfl

theorem ui_quiet (cfg : Cfg) (s : St) : Quiet s (updateInterest cfg s) := ⟨ui_fw cfg s, Or.inr ⟨by simp, by simp⟩⟩
theorem cn_quiet (s : St) (w : Why) : Quiet s (closeNow s w) := ⟨cn_fw s w, Or.inl (by simp)⟩

theorem quiet_congr {s s0 : St} {r : R} (hc : s.closed = s0.closed) (hq : s.wq = s0.wq) (h : Quiet s r) : Quiet s0 r := by
  unfold Quiet at *; rw [← hc, ← hq]; exact h

theorem quiet_pre {s : St} {r : R} (pre : List Out) (hp : firstWrite pre = none) (h : Quiet s r) : Quiet s (r.1, pre ++ r.2) :=
  ⟨by rw [firstWrite_append_none hp]; exact h.1, h.2⟩

theorem quiet_cons {s : St} {r : R} (x : Out) (hx : firstWrite [x] = none) (h : Quiet s r) : Quiet s (r.1, x :: r.2) :=
  quiet_pre [x] hx h

theorem quiet_cons' {s s' : St} {o : List Out} (x : Out) (hx : firstWrite [x] = none) (h : Quiet s (s', o)) :
    Quiet s (s', x :: o) := quiet_cons (r := (s', o)) x hx h

/-- a closed session stays closed and quiet -/
theorem closed_stays {s : St} {r : R} (h : Quiet s r) (hc : s.closed = true) : r.1.closed = true := by
  rcases h.2 with h1 | h1
  · exact h1
  · rw [h1.1]; exact hc

theorem quiet_seq {s : St} {r1 r2 : R} (h1 : Quiet s r1) (h2 : Quiet r1.1 r2) : Quiet s (r2.1, r1.2 ++ r2.2) := by
  refine ⟨by rw [firstWrite_append_none h1.1]; exact h2.1, ?_⟩
  rcases h1.2 with hc | ⟨hc, hq⟩
  · exact Or.inl (closed_stays (r := r2) h2 hc)
  · rcases h2.2 with h | ⟨h, h'⟩
    · exact Or.inl h
    · exact Or.inr ⟨by rw [h, hc], by rw [h', hq]⟩

theorem readAvail_quiet (cfg : Cfg) : ∀ (rs : List RAns) (s : St), Quiet s (readAvail cfg s rs).1
  | [], s => ⟨rfl, Or.inr ⟨rfl, rfl⟩⟩
  | a :: rest, s => by
    unfold readAvail
    simp only
    split
    · split
      · rename_i bs _ _
        have ih := readAvail_quiet cfg rest { s with receivedRev := bs :: s.receivedRev, deliveredRev := bs :: s.deliveredRev }
        exact quiet_cons (.read (s.tls == .open) cfg.ioReadChunk) rfl (quiet_cons (.deliver bs) rfl (quiet_congr (s0 := s) rfl rfl ih))
      · exact ⟨rfl, Or.inr ⟨rfl, rfl⟩⟩
    · exact ⟨rfl, Or.inr ⟨rfl, rfl⟩⟩
    · exact quiet_cons (.read (s.tls == .open) cfg.ioReadChunk) rfl (quiet_congr (s0 := s) rfl rfl (ui_quiet _ _))
    · exact quiet_cons (.read (s.tls == .open) cfg.ioReadChunk) rfl (cn_quiet _ _)
    · exact quiet_cons (.read (s.tls == .open) cfg.ioReadChunk) rfl (cn_quiet _ _)

theorem driveHandshake_quiet (cfg : Cfg) (s : St) (h : HAns) (rs : List RAns) :
    Quiet s (driveHandshake cfg s h rs).1.1 := by
  unfold driveHandshake
  split
  · simp only
    refine quiet_cons' .handshake rfl (quiet_cons' .connected rfl ?_)
    have h1 : Quiet s (updateInterest cfg { s with tls := .open, tlsWantWrite := false, connectPending := false }) :=
      quiet_congr (s0 := s) rfl rfl (ui_quiet cfg _)
    exact quiet_seq h1 (readAvail_quiet cfg rs _)
  · exact quiet_cons .handshake rfl (quiet_congr (s0 := s) rfl rfl (ui_quiet cfg _))
  · exact quiet_cons .handshake rfl (quiet_congr (s0 := s) rfl rfl (ui_quiet cfg _))
  · exact quiet_cons .handshake rfl (cn_quiet _ _)

theorem connectCheck_quiet (s : St) (c : CAns) : Quiet s (connectCheck s c) := by
  unfold connectCheck
  split
  · exact quiet_refl s
  · split
    · exact quiet_refl s
    · split
      · exact ⟨rfl, Or.inr ⟨rfl, rfl⟩⟩
      · exact ⟨rfl, Or.inr ⟨rfl, rfl⟩⟩
      · exact quiet_cons .soError rfl (cn_quiet _ _)

/-- the retry obligation for one step result: from an open session whose queue front is `b`, the first write (if any) passes `b`;
with no write, the session is closed afterwards or `b` is still the front -/
def FrontOK (b : Bytes) (s : St) (r : R) : Prop :=
  s.closed = false → s.wq.head? = some b →
    firstWrite r.2 = some b ∨ (firstWrite r.2 = none ∧ (r.1.closed = true ∨ (r.1.closed = false ∧ r.1.wq.head? = some b)))

theorem quiet_front {b : Bytes} {s : St} {r : R} (h : Quiet s r) : FrontOK b s r := by
  intro hc hq
  refine Or.inr ⟨h.1, ?_⟩
  rcases h.2 with h1 | ⟨h1, h2⟩
  · exact Or.inl h1
  · exact Or.inr ⟨by rw [h1, hc], by rw [h2, hq]⟩

theorem head_append_of_head {b p : Bytes} {q : List Bytes} (h : q.head? = some b) : (q ++ [p]).head? = some b := by
  cases q with
  | nil => simp at h
  | cons x xs => simpa using h

theorem enqueueTail_front (cfg : Cfg) (hcob : cfg.closeOnBackpressure = true) (b : Bytes) (s : St) (p : Bytes) :
    FrontOK b s (enqueueTail cfg s p) := by
  intro hc hq
  unfold enqueueTail
  simp only [hcob, if_true]
  split
  · exact Or.inr ⟨cn_fw _ _, Or.inl (by simp)⟩
  · exact Or.inr ⟨ui_fw _ _, Or.inr ⟨by simpa using hc, by rw [ui_wq]; exact head_append_of_head hq⟩⟩

theorem doSend_front (cfg : Cfg) (hcob : cfg.closeOnBackpressure = true) (b : Bytes) (s : St) (p : Bytes) (a : WAns) :
    FrontOK b s (doSend cfg s p a) := by
  intro hc hq
  have hne : s.wq.isEmpty = false := by
    cases hw : s.wq with
    | nil => rw [hw] at hq; simp at hq
    | cons _ _ => rfl
  unfold doSend
  simp only
  split
  · rename_i h; simp [hc] at h
  · split
    · exact Or.inr ⟨ui_fw _ _, Or.inr ⟨by simpa using hc, by rw [ui_wq]; exact head_append_of_head hq⟩⟩
    · split
      · rename_i h; simp [hne] at h
      · exact enqueueTail_front cfg hcob b _ p hc hq

theorem writeLoop_first (ssl : Bool) (d : Bytes) (rest : List Bytes) (as : List WAns) :
    firstWrite (writeLoop ssl (d :: rest) as).outs = some d := by
  unfold writeLoop
  simp only
  split
  · split <;> rfl
  · rfl
  · rfl

theorem writePending_front (cfg : Cfg) (b : Bytes) (s : St) (ws : List WAns) : FrontOK b s (writePending cfg s ws) := by
  intro _ hq
  left
  cases hw : s.wq with
  | nil => rw [hw] at hq; simp at hq
  | cons d rest =>
    rw [hw] at hq
    have hd : d = b := by simpa using hq
    have h1 := writeLoop_first (s.tls == .open) d rest ws
    unfold writePending
    simp only [hw]
    split <;> (rw [firstWrite_append, h1, hd])

theorem onSessionIo_front (cfg : Cfg) (b : Bytes) (s : St) (ev : Ev) (rs : List RAns) (ws : List WAns) :
    FrontOK b s (onSessionIo cfg s ev rs ws) := by
  intro hc hq
  unfold onSessionIo
  split
  · rename_i h; rw [hc] at h; cases h
  · split
    · exact Or.inr ⟨cn_fw _ _, Or.inl (by simp)⟩
    · have h1 : Quiet s (if ev.inn = true then (readAvail cfg s rs).1 else (s, [])) := by
        split
        · exact readAvail_quiet cfg rs s
        · exact quiet_refl s
      simp only
      generalize (if ev.inn = true then (readAvail cfg s rs).1 else (s, [])) = r1 at h1 ⊢
      split
      · rename_i hcl
        exact Or.inr ⟨h1.1, Or.inl hcl⟩
      · rename_i hcl
        have hcl' : r1.1.closed = false := by simpa using hcl
        have hq1 : r1.1.wq.head? = some b := by
          rcases h1.2 with h | ⟨_, h⟩
          · rw [h] at hcl'; cases hcl'
          · rw [h]; exact hq
        split
        · rcases writePending_front cfg b r1.1 ws hcl' hq1 with h | ⟨h, h'⟩
          · left; rw [firstWrite_append_none h1.1]; exact h
          · right; exact ⟨by rw [firstWrite_append_none h1.1]; exact h, h'⟩
        · exact Or.inr ⟨h1.1, Or.inr ⟨hcl', hq1⟩⟩

theorem front_pre {b : Bytes} {s : St} {r : R} (pre : List Out) (hp : firstWrite pre = none) (h : FrontOK b s r) :
    FrontOK b s (r.1, pre ++ r.2) := by
  intro hc hq
  rcases h hc hq with h1 | ⟨h1, h2⟩
  · left; rw [firstWrite_append_none hp]; exact h1
  · right; exact ⟨by rw [firstWrite_append_none hp]; exact h1, h2⟩

theorem front_pre' {b : Bytes} {s s' : St} {o : List Out} (pre : List Out) (hp : firstWrite pre = none)
    (h : FrontOK b s (s', o)) : FrontOK b s (s', pre ++ o) := front_pre (r := (s', o)) pre hp h

/-- a quiet prefix followed by a step that honours the front (and is silent on a closed session) -/
theorem front_seq {b : Bytes} {s : St} {r1 r2 : R} (h1 : Quiet s r1) (h2 : FrontOK b r1.1 r2)
    (h2c : r1.1.closed = true → firstWrite r2.2 = none ∧ r2.1.closed = true) : FrontOK b s (r2.1, r1.2 ++ r2.2) := by
  intro hc hq
  rcases h1.2 with hcl | ⟨hcl, hwq⟩
  · have := h2c hcl
    exact Or.inr ⟨by rw [firstWrite_append_none h1.1]; exact this.1, Or.inl this.2⟩
  · have := h2 (by rw [hcl, hc]) (by rw [hwq, hq])
    rcases this with h | ⟨h, h'⟩
    · left; rw [firstWrite_append_none h1.1]; exact h
    · right; exact ⟨by rw [firstWrite_append_none h1.1]; exact h, h'⟩

theorem onSessionIo_closed (cfg : Cfg) (s : St) (ev : Ev) (rs : List RAns) (ws : List WAns) (hc : s.closed = true) :
    onSessionIo cfg s ev rs ws = (s, []) := by
  simp [onSessionIo, hc]

theorem onSession_front (cfg : Cfg) (b : Bytes) (s : St) (ev : Ev) (soOk : Bool) (c : CAns) (h : HAns)
    (rs : List RAns) (ws : List WAns) : FrontOK b s (onSession cfg s ev soOk c h rs ws) := by
  have hpre : firstWrite (if ev.out = true then [Out.soError] else []) = none := by split <;> rfl
  have hio : ∀ (x : St) (rs' : List RAns), x.closed = true →
      firstWrite (onSessionIo cfg x ev rs' ws).2 = none ∧ (onSessionIo cfg x ev rs' ws).1.closed = true := by
    intro x rs' hx; rw [onSessionIo_closed cfg x ev rs' ws hx]; exact ⟨rfl, hx⟩
  unfold onSession
  split
  · exact quiet_front (quiet_refl s)
  · split
    · exact quiet_front (quiet_cons .soError rfl (cn_quiet _ _))
    · simp only
      split
      · split
        · rw [List.append_assoc]
          exact front_pre _ hpre (front_seq (driveHandshake_quiet cfg s h rs) (onSessionIo_front cfg b _ ev _ ws) (hio _ _))
        · exact front_pre _ hpre (quiet_front (driveHandshake_quiet cfg s h rs))
      · split
        · split
          · refine front_pre' _ hpre ?_
            have hq1 : Quiet s ((updateInterest cfg { s with connectPending := false }).1,
                Out.soError :: Out.connected :: (updateInterest cfg { s with connectPending := false }).2) :=
              quiet_cons .soError rfl (quiet_cons .connected rfl (quiet_congr (s0 := s) rfl rfl (ui_quiet cfg _)))
            exact front_seq hq1 (onSessionIo_front cfg b _ ev rs ws) (hio _ _)
          · exact front_pre _ hpre (front_pre [.soError] rfl (onSessionIo_front cfg b s ev rs ws))
          · exact front_pre _ hpre (quiet_front (quiet_cons .soError rfl (cn_quiet _ _)))
        · exact front_pre _ hpre (onSessionIo_front cfg b s ev rs ws)

theorem step_front (cfg : Cfg) (hcob : cfg.closeOnBackpressure = true) (b : Bytes) (s : St) (i : In) :
    FrontOK b s (step cfg s i) := by
  cases i with
  | cmdSend p a =>
    show FrontOK b s (if p.isEmpty then (s, []) else doSend cfg s p a)
    split
    · exact quiet_front (quiet_refl s)
    · exact doSend_front cfg hcob b s p a
  | cmdClose w o =>
    show FrontOK b s (if closeGuardSkips s o then (s, []) else closeNow s w)
    split
    · exact quiet_front (quiet_refl s)
    · exact quiet_front (cn_quiet s w)
  | shutdown residual =>
    intro _ _
    exact Or.inr ⟨cn_fw s .shutdown, Or.inl (by show (closeNow s .shutdown).1.closed = true; simp)⟩
  | connectCheck c => exact quiet_front (connectCheck_quiet s c)
  | event ev soOk c h rs ws => exact onSession_front cfg b s ev soOk c h rs ws

theorem run_closed_outs (cfg : Cfg) : ∀ (is : List In) (s : St), s.closed = true → (run cfg s is).2 = []
  | [], _, _ => rfl
  | i :: is, s, hc => by
    have h := step_closed cfg s i hc
    simp only [run, h.1, run_closed_outs cfg is _ h.2.1, List.append_nil]

theorem run_front (cfg : Cfg) (hcob : cfg.closeOnBackpressure = true) (b : Bytes) : ∀ (is : List In) (s : St),
    s.closed = false → s.wq.head? = some b → firstWrite (run cfg s is).2 = none ∨ firstWrite (run cfg s is).2 = some b
  | [], _, _, _ => Or.inl rfl
  | i :: is, s, hc, hq => by
    simp only [run]
    rcases step_front cfg hcob b s i hc hq with h | ⟨h, h'⟩
    · right; rw [firstWrite_append, h]
    · rw [firstWrite_append_none h]
      rcases h' with hcl | ⟨hcl, hq'⟩
      · left; rw [run_closed_outs cfg is _ hcl]; rfl
      · exact run_front cfg hcob b is _ hcl hq'

/-- a refused direct write leaves the payload as the queue front (or the session closed) -/
theorem doSend_block_front (cfg : Cfg) (hcob : cfg.closeOnBackpressure = true) (s : St) (p : Bytes) (a : WAns) (tw : Bool) (hc : s.closed = false)
    (hh : s.tls ≠ .handshake) (hq : s.wq = []) (hb : classifyW (s.tls == .open) a = .block tw) :
    (doSend cfg s p a).2.head? = some (.write (s.tls == .open) p) ∧
    ((doSend cfg s p a).1.closed = true ∨ (doSend cfg s p a).1.wq = [p]) := by
  unfold doSend
  simp only [hc, hh, hq, hb, List.isEmpty_nil, if_true, if_false, Bool.false_eq_true]
  refine ⟨rfl, ?_⟩
  unfold enqueueTail
  simp only [noteWrite, List.nil_append, hcob, if_true]
  split
  · left; simp
  · right; simp

/-- a drain loop that stops on a refusal leaves the refused buffer at the front; it was the last write issued -/
theorem writeLoop_block_front (ssl : Bool) : ∀ (q : List Bytes) (as : List WAns) (tw : Bool),
    (writeLoop ssl q as).stop = .blocked tw →
    ∃ d rest, (writeLoop ssl q as).wq = d :: rest ∧ (writeLoop ssl q as).outs.getLast? = some (.write ssl d)
  | [], _, _, h => by simp [writeLoop] at h
  | d :: rest, as, tw, h => by
    unfold writeLoop at h ⊢
    simp only at h ⊢
    split at h
    · split at h
      · simp at h
      · rename_i n _ _
        obtain ⟨d', rest', h1, h2⟩ := writeLoop_block_front ssl rest as.tail tw h
        rename_i hcl hlt
        simp only [hcl, hlt, if_false]
        refine ⟨d', rest', h1, ?_⟩
        rw [List.getLast?_cons, h2]; rfl
    · rename_i hcl
      simp only [hcl]
      exact ⟨d, rest, rfl, rfl⟩
    · simp at h

/-! ## `EventBatchProcessor::processBatch`: a per-fd order-preserving permutation -/

theorem batchOrder_perm {α : Type} (special : α → Bool) (evs : List α) : (batchOrder special evs).Perm evs := by
  unfold batchOrder
  induction evs with
  | nil => simp
  | cons e es ih =>
    by_cases h : special e
    · simp only [List.filter_cons, h, if_true, Bool.not_true, Bool.false_eq_true, if_false, List.cons_append]
      exact List.Perm.cons e ih
    · simp only [List.filter_cons, h, Bool.false_eq_true, if_false, Bool.not_false, if_true]
      exact (List.perm_middle).trans (List.Perm.cons e ih)

/-- the events of any class `p` that lies wholly on one side (all special or all not special) keep their relative order -/
theorem batchOrder_filter {α : Type} (special p : α → Bool) (evs : List α)
    (hside : (∀ e, p e = true → special e = true) ∨ (∀ e, p e = true → special e = false)) :
    (batchOrder special evs).filter p = evs.filter p := by
  unfold batchOrder
  rw [List.filter_append, List.filter_filter, List.filter_filter]
  rcases hside with h | h
  · have h1 : (evs.filter fun a => p a && special a) = evs.filter p := by
      apply List.filter_congr; intro e _
      cases hp : p e
      · simp
      · simp [h e hp]
    have h2 : (evs.filter fun a => p a && !special a) = [] := by
      apply List.filter_eq_nil_iff.mpr; intro e _
      cases hp : p e
      · simp
      · simp [h e hp]
    rw [h1, h2]; simp
  · have h1 : (evs.filter fun a => p a && special a) = [] := by
      apply List.filter_eq_nil_iff.mpr; intro e _
      cases hp : p e
      · simp
      · simp [h e hp]
    have h2 : (evs.filter fun a => p a && !special a) = evs.filter p := by
      apply List.filter_congr; intro e _
      cases hp : p e
      · simp
      · simp [h e hp]
    rw [h1, h2]; simp

end Iora.Tcp
