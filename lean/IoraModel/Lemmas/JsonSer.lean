import IoraModel.Lemmas.JsonSpec
/-! Lemmas for J3/J2 (C13): the serializer's output is the rendering of a syntax tree that denotes the value. -/
namespace Iora.Json.Spec
open Iora Iora.Json

/-! ### escaping -/

/-- the string item `_escapeString` emits for one byte -/
def escItem (b : UInt8) : StrItem :=
  if b = 0x22 then .esc .quote else if b = 0x5C then .esc .backslash else if b = 0x08 then .esc .b else if b = 0x0C then .esc .f
  else if b = 0x0A then .esc .n else if b = 0x0D then .esc .r else if b = 0x09 then .esc .t
  else if h : b.toNat < 32 then
    .u ⟨0, false⟩ ⟨0, false⟩ ⟨⟨b.toNat / 16, by omega⟩, false⟩ ⟨⟨b.toNat % 16, by omega⟩, false⟩
  else .raw b

/-- a `\u` item that is not a high surrogate stands alone -/
theorem denoteItems_u_single (a1 a2 a3 a4 : HexDigit) (tl : List StrItem) (h : isHigh (codeUnit a1 a2 a3 a4) = false) :
    denoteItems (.u a1 a2 a3 a4 :: tl) = loneUnit (codeUnit a1 a2 a3 a4) ++ denoteItems tl := by
  cases tl with
  | nil => simp [denoteItems]
  | cons i tl' => cases i <;> simp [denoteItems, h]

/-- the four facts about `escItem b`, as a Boolean so that all 256 bytes can be checked by evaluation -/
def escCheck (b : UInt8) : Bool :=
  ((escItem b).render == escapeByte b) && (denoteItems [escItem b] == [b]) &&
  (match escItem b with
   | .raw c => c != 0x22 && c != 0x5C
   | .esc _ => true
   | .u a1 a2 a3 a4 => !isHigh (codeUnit a1 a2 a3 a4))

set_option maxRecDepth 100000 in
theorem escCheck_table : ∀ n, n < 256 → escCheck (b8 n) = true := by decide +kernel

theorem escItem_spec (b : UInt8) :
    (escItem b).render = escapeByte b ∧ (escItem b).ok ∧
    (∀ a1 a2 a3 a4, escItem b = .u a1 a2 a3 a4 → isHigh (codeUnit a1 a2 a3 a4) = false) ∧
    denoteItems [escItem b] = [b] := by
  have h := escCheck_table b.toNat b.toNat_lt
  rw [b8_of_toNat] at h
  simp only [escCheck, Bool.and_eq_true, beq_iff_eq] at h
  obtain ⟨⟨h1, h2⟩, h3⟩ := h
  refine ⟨h1, ?_, ?_, h2⟩
  · cases he : escItem b with
    | raw c => rw [he] at h3; simpa [StrItem.ok] using h3
    | esc e => trivial
    | u a1 a2 a3 a4 => trivial
  · intro a1 a2 a3 a4 he
    rw [he] at h3
    simpa using h3

theorem denoteItems_escItem_cons (b : UInt8) (tl : List StrItem) : denoteItems (escItem b :: tl) = b :: denoteItems tl := by
  obtain ⟨-, -, hu, hd⟩ := escItem_spec b
  cases he : escItem b with
  | raw c => rw [he] at hd; simp only [denoteItems, List.cons.injEq, and_true] at hd; simp [denoteItems, hd]
  | esc e => rw [he] at hd; simp only [denoteItems, List.cons.injEq, and_true] at hd; simp [denoteItems, hd]
  | u a1 a2 a3 a4 =>
    have hh := hu a1 a2 a3 a4 he
    rw [he] at hd
    rw [denoteItems_u_single _ _ _ _ _ hh] at hd ⊢
    simp only [denoteItems, List.append_nil] at hd
    rw [hd]; rfl

theorem escItems_spec (s : Bytes) :
    renderItems (s.map escItem) = s.flatMap escapeByte ∧ (∀ i ∈ s.map escItem, i.ok) ∧ denoteItems (s.map escItem) = s := by
  induction s with
  | nil => simp [renderItems, denoteItems]
  | cons b s ih =>
    obtain ⟨h1, h2, -, -⟩ := escItem_spec b
    refine ⟨?_, ?_, ?_⟩
    · simp only [List.map_cons, renderItems_cons, h1, ih.1, List.flatMap_cons]
    · intro i hi
      simp only [List.map_cons, List.mem_cons] at hi
      rcases hi with rfl | hi
      · exact h2
      · exact ih.2.1 i hi
    · simp only [List.map_cons, denoteItems_escItem_cons, ih.2.2]

theorem renderString_escItems (s : Bytes) : renderString (s.map escItem) = escapeString s := by
  simp [renderString, escapeString, (escItems_spec s).1]


/-! ### strictness of the strings the serializer writes (F2) -/

/-- per byte: a raw item is the byte itself, `≥ 0x20`, not `"`/`\`; bytes `≥ 0x80` are always raw -/
def escStrictCheck (b : UInt8) : Bool :=
  (match escItem b with
   | .raw c => c == b && decide (32 ≤ b.toNat) && b != 0x22 && b != 0x5C
   | _ => true) &&
  (decide (b.toNat < 128) || (match escItem b with | .raw c => c == b | _ => false))

set_option maxRecDepth 100000 in
theorem escStrictCheck_table : ∀ n, n < 256 → escStrictCheck (b8 n) = true := by decide +kernel

theorem escItem_raw {b c : UInt8} (h : escItem b = .raw c) : c = b ∧ 32 ≤ b.toNat ∧ b ≠ 0x22 ∧ b ≠ 0x5C := by
  have ht := escStrictCheck_table b.toNat b.toNat_lt
  rw [b8_of_toNat] at ht
  simp only [escStrictCheck, h, Bool.and_eq_true, beq_iff_eq, decide_eq_true_eq, bne_iff_ne, ne_eq] at ht
  exact ⟨ht.1.1.1.1, ht.1.1.1.2, ht.1.1.2, ht.1.2⟩

theorem escItem_high {b : UInt8} (h : 128 ≤ b.toNat) : escItem b = .raw b := by
  have ht := escStrictCheck_table b.toNat b.toNat_lt
  rw [b8_of_toNat] at ht
  simp only [escStrictCheck, Bool.and_eq_true, Bool.or_eq_true, decide_eq_true_eq] at ht
  rcases ht.2 with h' | h'
  · omega
  · cases he : escItem b with
    | raw c => rw [he] at h'; simp only [beq_iff_eq] at h'; rw [h']
    | esc e => rw [he] at h'; cases h'
    | u a1 a2 a3 a4 => rw [he] at h'; cases h'

theorem utf8Encode_ascii (c : Char) (h : c.val.toNat < 128) : String.utf8EncodeChar c = [UInt8.ofNat c.val.toNat] := by
  unfold String.utf8EncodeChar
  simp only
  rw [if_pos (by omega)]

theorem utf8Encode_high (c : Char) (h : 128 ≤ c.val.toNat) : ∀ b ∈ String.utf8EncodeChar c, 128 ≤ b.toNat := by
  unfold String.utf8EncodeChar
  simp only
  intro b hb
  split at hb
  · omega
  · split at hb
    · simp only [List.mem_cons, List.not_mem_nil, or_false] at hb
      rcases hb with rfl | rfl <;> simp only [UInt8.toNat_ofNat'] <;> omega
    · split at hb
      · simp only [List.mem_cons, List.not_mem_nil, or_false] at hb
        rcases hb with rfl | rfl | rfl <;> simp only [UInt8.toNat_ofNat'] <;> omega
      · simp only [List.mem_cons, List.not_mem_nil, or_false] at hb
        rcases hb with rfl | rfl | rfl | rfl <;> simp only [UInt8.toNat_ofNat'] <;> omega

theorem map_escItem_high (bs : Bytes) (h : ∀ b ∈ bs, 128 ≤ b.toNat) : bs.map escItem = bs.map StrItem.raw := by
  induction bs with
  | nil => rfl
  | cons b bs ih =>
    simp only [List.map_cons, escItem_high (h b (by simp)), ih (fun b' hb' => h b' (by simp [hb']))]

/-- the items `_escapeString` writes for well-formed UTF-8 are RFC 8259 `*char` in the strict sense -/
theorem strictItems_escItems (cs : List Char) : StrictItems ((cs.flatMap String.utf8EncodeChar).map escItem) := by
  induction cs with
  | nil => exact .nil
  | cons c cs ih =>
    simp only [List.flatMap_cons, List.map_append]
    by_cases h : c.val.toNat < 128
    · rw [utf8Encode_ascii c h]
      simp only [List.map_cons, List.map_nil, List.singleton_append]
      have hb : (UInt8.ofNat c.val.toNat).toNat = c.val.toNat := by simp only [UInt8.toNat_ofNat']; omega
      cases he : escItem (UInt8.ofNat c.val.toNat) with
      | esc e => exact .esc e ih
      | u a1 a2 a3 a4 => exact .u a1 a2 a3 a4 ih
      | raw b =>
        obtain ⟨rfl, h1, h2, h3⟩ := escItem_raw he
        have := StrictItems.char c (tl := (cs.flatMap String.utf8EncodeChar).map escItem) (by omega)
          (by intro e; apply h2; rw [eq_iff_toNat, hb, e]; rfl) (by intro e; apply h3; rw [eq_iff_toNat, hb, e]; rfl) ih
        rw [utf8Encode_ascii c h] at this
        simpa using this
    · have hh : 128 ≤ c.val.toNat := by omega
      rw [map_escItem_high _ (utf8Encode_high c hh)]
      exact .char c (by omega) (by omega) (by omega) ih

theorem strictItems_of_valid (s : Bytes) (h : ValidUtf8 s) : StrictItems (s.map escItem) := by
  obtain ⟨cs, rfl⟩ := h
  exact strictItems_escItems cs

/-- the strict grammar is inside what J1 covers -/
theorem strictItems_ok {s : List StrItem} (h : StrictItems s) : ∀ i ∈ s, i.ok := by
  induction h with
  | nil => intro i hi; cases hi
  | esc e _ ih => intro i hi; simp only [List.mem_cons] at hi; rcases hi with rfl | hi; exact trivial; exact ih i hi
  | u a1 a2 a3 a4 _ ih => intro i hi; simp only [List.mem_cons] at hi; rcases hi with rfl | hi; exact trivial; exact ih i hi
  | char c h1 h2 h3 _ ih =>
    intro i hi
    simp only [List.mem_append, List.mem_map] at hi
    rcases hi with ⟨b, hb, rfl⟩ | hi
    · simp only [StrItem.ok]
      by_cases h : c.val.toNat < 128
      · rw [utf8Encode_ascii c h] at hb
        simp only [List.mem_singleton] at hb
        subst hb
        have hb : (UInt8.ofNat c.val.toNat).toNat = c.val.toNat := by simp only [UInt8.toNat_ofNat']; omega
        constructor <;> (intro e; rw [eq_iff_toNat, hb] at e; first | exact h2 e | exact h3 e)
      · have := utf8Encode_high c (by omega) b hb
        constructor <;> (intro e; subst e; simp at this)
    · exact ih i hi

/-! ### `_formatDouble` -/

theorem digits_no_marker (ds : Bytes) (h : ∀ d ∈ ds, isDigit d = true) : hasMarker ds = false := by
  unfold hasMarker
  rw [List.any_eq_false]
  intro d hd
  have := (isDigit_iff d).mp (h d hd)
  simp only [Gen.Json.fmtMarkers, List.contains_cons, List.contains_nil, Bool.or_false, Bool.or_eq_true, beq_iff_eq, not_or]
  omega

theorem hasMarker_append (a b : Bytes) : hasMarker (a ++ b) = (hasMarker a || hasMarker b) := by
  simp [hasMarker, List.any_append]

/-- the `find_first_of(".eE")` test of `_formatDouble` decides exactly "the token has a fraction or an exponent" -/
theorem hasMarker_render (n : SNum) (hok : n.ok) : hasMarker n.render = n.isFloat := by
  have hsign : hasMarker (if n.neg then [0x2D] else []) = false := by cases n.neg <;> decide
  have hint : hasMarker (natToDec n.int) = false := digits_no_marker _ (natToDec_digits n.int)
  have hfrac : hasMarker n.renderFrac = n.frac.isSome := by
    unfold SNum.renderFrac
    cases hf : n.frac with
    | none => rfl
    | some ds => simp [hasMarker, Gen.Json.fmtMarkers]
  have hexp : hasMarker n.renderExp = n.exp.isSome := by
    unfold SNum.renderExp
    cases he : n.exp with
    | none => rfl
    | some x =>
      obtain ⟨u, sg, ds⟩ := x
      cases u <;> simp [hasMarker, Gen.Json.fmtMarkers]
  simp only [SNum.render, hasMarker_append, hsign, hint, hfrac, hexp, Bool.false_or, SNum.isFloat]

theorem dblEq_eq {ops : FloatOps} (hl : LibcOk ops) (p : Nat) (d : UInt64) (hlo : Gen.Json.fmtPrecLo ≤ p) (hhi : p ≤ Gen.Json.fmtPrecHi)
    (h : dblEq (ops.strtod (ops.printfG p d)) d = true) : ops.strtod (ops.printfG p d) = d := by
  simp only [dblEq, Bool.and_eq_true, Bool.or_eq_true, beq_iff_eq] at h
  rcases h.2 with h' | h'
  · exact h'
  · exact hl.zeroSign p d hlo hhi h'.2 h'.1

/-- the precision loop returns the text of one of the precisions tried, and that text reads back as `d` -/
theorem fmtSearch_spec {ops : FloatOps} (hl : LibcOk ops) (d : UInt64) (hd : isFiniteBits d = true) :
    ∀ (k p : Nat), Gen.Json.fmtPrecLo ≤ p → p + k = Gen.Json.fmtPrecHi →
      (∃ q, Gen.Json.fmtPrecLo ≤ q ∧ q ≤ Gen.Json.fmtPrecHi ∧ fmtSearch ops d k p = ops.printfG q d) ∧
      ops.strtod (fmtSearch ops d k p) = d := by
  intro k
  induction k with
  | zero =>
    intro p hp hk
    simp only [Nat.add_zero] at hk
    subst hk
    exact ⟨⟨_, hp, Nat.le_refl _, rfl⟩, hl.exactHi d hd⟩
  | succ k ih =>
    intro p hp hk
    simp only [fmtSearch]
    split
    · rename_i he
      exact ⟨⟨p, hp, by omega, rfl⟩, dblEq_eq hl p d hp (by omega) he⟩
    · exact ih (p + 1) (by omega) (by omega)

/-- **`_formatDouble` round-trips** (the repo's own logic, from the four libc facts): for every finite double the output is a JSON
    number token WITH a fraction or an exponent (so that it re-parses on the floating path) that `strtod` reads back as `d` -/
theorem formatDouble_roundtrips {ops : FloatOps} (hl : LibcOk ops) (d : UInt64) (hd : isFiniteBits d = true) :
    ∃ n : SNum, n.ok ∧ n.isFloat = true ∧ n.render = formatDouble ops d ∧ ops.strtod (formatDouble ops d) = d := by
  obtain ⟨⟨q, hq1, hq2, hs⟩, hrt⟩ := fmtSearch_spec hl d hd (Gen.Json.fmtPrecHi - Gen.Json.fmtPrecLo) Gen.Json.fmtPrecLo
    (Nat.le_refl _) (by decide)
  obtain ⟨n, hok, hr⟩ := hl.shape q d hq1 hq2 hd
  simp only [formatDouble, hd, Bool.not_true, Bool.false_eq_true, ↓reduceIte]
  rw [hs, ← hr] at hrt ⊢
  rw [hasMarker_render n hok]
  cases hf : n.isFloat with
  | true => exact ⟨n, hok, hf, by simp, by simpa using hrt⟩
  | false =>
    simp only [Bool.false_eq_true, ↓reduceIte]
    have hfe : n.frac = none ∧ n.exp = none := by
      simpa [SNum.isFloat, Bool.or_eq_false_iff] using hf
    refine ⟨{ n with frac := some [0x30] }, ?_, ?_, ?_, ?_⟩
    · refine ⟨?_, hok.2⟩
      intro ds h
      simp only [Option.some.injEq] at h
      subst h
      exact ⟨by simp, by simp [isDigit]⟩
    · simp [SNum.isFloat]
    · simp [SNum.render, SNum.renderFrac, SNum.renderExp, hfe.1, hfe.2, Gen.Json.fmtSuffix, b8]
    · rw [hl.dotZero n hok hf]; exact hrt

/-! ### white space emitted by the serializer -/

def indW (wi : Ws) (n : Nat) : Ws := (List.replicate n wi).flatten
def nlW (o : Opts) : Ws := if o.pretty then [.lf] else []
def indWo (o : Opts) (wi : Ws) (n : Nat) : Ws := if o.pretty then indW wi n else []
def spW (o : Opts) : Ws := if o.pretty then [.sp] else []

theorem indW_render (o : Opts) (wi : Ws) (h : wi.render = o.indent) (n : Nat) : (indW wi n).render = indentN o n := by
  induction n with
  | zero => simp [indW, indentN, Ws.render]
  | succ n ih =>
    simp only [indW, indentN, List.replicate_succ, List.flatten_cons] at ih ⊢
    rw [ws_render_append, ih, h]

theorem indWo_render (o : Opts) (wi : Ws) (h : wi.render = o.indent) (n : Nat) : (indWo o wi n).render = ind o n := by
  unfold indWo ind; split
  · exact indW_render o wi h n
  · rfl

theorem nlW_render (o : Opts) : (nlW o).render = nl o := by
  unfold nlW nl; split <;> rfl

theorem spW_render (o : Opts) : (spW o).render = (if o.pretty then [0x20] else []) := by
  unfold spW; split <;> rfl

/-! ### syntax trees of serialized values -/

theorem SElems.render_cons_ne (w1 : Ws) (v : SVal) (w2 : Ws) (tl : SElems) (h : tl ≠ .nil) :
    (SElems.cons w1 v w2 tl).render = w1.render ++ v.render ++ w2.render ++ 0x2C :: tl.render := by
  cases tl with
  | nil => exact absurd rfl h
  | cons _ _ _ _ => rfl

theorem SMembers.render_cons_ne (w1 : Ws) (k : List StrItem) (w2 w3 : Ws) (v : SVal) (w4 : Ws) (tl : SMembers) (h : tl ≠ .nil) :
    (SMembers.cons w1 k w2 w3 v w4 tl).render
      = w1.render ++ renderString k ++ w2.render ++ [0x3A] ++ w3.render ++ v.render ++ w4.render ++ 0x2C :: tl.render := by
  cases tl with
  | nil => exact absurd rfl h
  | cons _ _ _ _ _ _ _ => rfl

theorem insertOrAssign_not_mem (k : Bytes) (v : Json) (acc : List (Bytes × Json)) (h : k ∉ acc.map Prod.fst) :
    insertOrAssign k v acc = acc ++ [(k, v)] := by
  induction acc with
  | nil => rfl
  | cons m acc ih =>
    obtain ⟨k', v'⟩ := m
    simp only [List.map_cons, List.mem_cons, not_or] at h
    simp only [insertOrAssign]
    rw [if_neg (fun e => h.1 e.symm), ih h.2]
    rfl

section
variable (ops : FloatOps) (o : Opts) (wi : Ws)

def SerStmt (v : Json) : Prop :=
  ∀ depth, v.Good → ∃ t : SVal, t.render = serialize ops o depth v ∧ t.ok ∧ t.denote ops = v ∧
    (∀ lim d, v.within lim 0 d → t.fits lim d) ∧ (v.utf8 → t.strict)

def SerListStmt (xs : List Json) : Prop :=
  xs ≠ [] → ∀ depth (wl : Ws), Json.GoodList xs →
    ∃ es : SElems, es ≠ .nil ∧ es.render = wl.render ++ serElems ops o depth xs ++ ind o depth ∧ es.ok ∧ es.denote ops = xs ∧
      es.length = xs.length ∧ (∀ lim d, Json.withinList lim 0 d xs → es.fits lim d) ∧ (Json.utf8List xs → es.strict)

def SerMemStmt (ms : List (Bytes × Json)) : Prop :=
  ms ≠ [] → ∀ depth (wl : Ws), Json.GoodMembers ms →
    ∃ tms : SMembers, tms ≠ .nil ∧ tms.render = wl.render ++ joinMembers o depth (serMembers ops o depth ms) ++ ind o depth ∧
      tms.ok ∧ (∀ acc, (acc.map Prod.fst ++ ms.map Prod.fst).Nodup → tms.denote ops acc = acc ++ ms) ∧
      tms.length = ms.length ∧ (∀ lim d, Json.withinMembers lim 0 d ms → tms.fits lim d) ∧ (Json.utf8Members ms → tms.strict)

theorem ser_null : SerStmt ops o .null := fun _ _ =>
  ⟨.null, by simp [SVal.render, serialize], trivial, rfl, fun lim d h => by simpa [Json.within, SVal.fits] using h, fun _ => by simp [SVal.strict]⟩

theorem ser_bool (b : Bool) : SerStmt ops o (.bool b) := by
  intro _ _
  cases b with
  | true => exact ⟨.true, by simp [SVal.render, serialize], trivial, rfl, fun lim d h => by simpa [Json.within, SVal.fits] using h, fun _ => by simp [SVal.strict]⟩
  | false => exact ⟨.false, by simp [SVal.render, serialize], trivial, rfl, fun lim d h => by simpa [Json.within, SVal.fits] using h, fun _ => by simp [SVal.strict]⟩

theorem ser_int (i : Int) : SerStmt ops o (.int i) := by
  intro _ hg
  simp only [Json.Good] at hg
  refine ⟨.num ⟨decide (i < 0), i.natAbs, none, none⟩, ?_, ?_, ?_, fun lim d h => by simpa [Json.within, SVal.fits] using h, fun _ => by simp [SVal.strict]⟩
  · simp only [SVal.render, SNum.render, SNum.renderFrac, SNum.renderExp, List.append_nil, serialize, intToDec]
    by_cases h : i < 0 <;> simp [h]
  · simp [SVal.ok, SNum.ok]
  · simp only [SVal.denote, SNum.denote, SNum.isFloat, Option.isSome_none, Bool.or_self, Bool.false_eq_true, ↓reduceIte]
    have e : (if decide (i < 0) = true then -((i.natAbs : Nat) : Int) else (i.natAbs : Int)) = i := by
      by_cases h : i < 0 <;> simp [h] <;> omega
    rw [e, if_pos hg]

theorem ser_dbl (hl : LibcOk ops) (d : UInt64) : SerStmt ops o (.dbl d) := by
  intro _ hg
  simp only [Json.Good] at hg
  obtain ⟨n, hok, hf, hr, hs⟩ := formatDouble_roundtrips hl d hg
  refine ⟨.num n, by simp [SVal.render, serialize, hr], hok, ?_, fun lim d h => by simpa [Json.within, SVal.fits] using h, fun _ => by simp [SVal.strict]⟩
  simp [SVal.denote, SNum.denote, hf, hr, hs]

theorem ser_str (s : Bytes) : SerStmt ops o (.str s) := by
  intro _ _
  obtain ⟨-, h2, h3⟩ := escItems_spec s
  refine ⟨.str (s.map escItem), by simp [SVal.render, serialize, renderString_escItems], h2, by simp [SVal.denote, h3], ?_, ?_⟩
  · intro lim d h
    simpa [Json.within, SVal.fits, h3] using h
  · intro hu
    simp only [Json.utf8] at hu
    simp only [SVal.strict]
    exact strictItems_of_valid s hu

variable (hind : wi.render = o.indent)
include hind

theorem ser_list_cons (x : Json) (xs : List Json) (hx : SerStmt ops o x) (hxs : SerListStmt ops o xs) :
    SerListStmt ops o (x :: xs) := by
  intro _ depth wl hg
  simp only [Json.GoodList] at hg
  obtain ⟨t, htr, htok, htd, htf, hts⟩ := hx (depth + 1) hg.1
  cases xs with
  | nil =>
    refine ⟨.cons (wl ++ indWo o wi (depth + 1)) t (nlW o ++ indWo o wi depth) .nil, by simp, ?_, ?_, ?_, rfl, ?_, ?_⟩
    · simp [SElems.render, ws_render_append, indWo_render o wi hind, nlW_render, htr, serElems, List.append_assoc]
    · simp [SElems.ok, htok]
    · simp [SElems.denote, htd]
    · intro lim d h
      simp only [Json.withinList] at h
      simp [SElems.fits, htf lim d h.1]
    · intro hu
      simp only [Json.utf8List] at hu
      simp only [SElems.strict]
      exact ⟨hts hu.1, trivial⟩
  | cons y ys =>
    obtain ⟨tl, hne, hr, hok, hd, hl, hf, hs⟩ := hxs (by simp) depth (nlW o) hg.2
    refine ⟨.cons (wl ++ indWo o wi (depth + 1)) t [] tl, by simp, ?_, ?_, ?_, ?_, ?_, ?_⟩
    · rw [SElems.render_cons_ne _ _ _ _ hne, hr]
      simp [ws_render_append, indWo_render o wi hind, nlW_render, htr, serElems, List.append_assoc, ws_render_nil]
    · simp [SElems.ok, htok, hok]
    · simp [SElems.denote, htd, hd]
    · simp [SElems.length, hl]
    · intro lim d h
      simp only [Json.withinList] at h
      simp only [SElems.fits]
      exact ⟨htf lim d h.1, hf lim d h.2⟩
    · intro hu
      simp only [Json.utf8List] at hu
      simp only [SElems.strict]
      exact ⟨hts hu.1, hs hu.2⟩

theorem ser_arr (xs : List Json) (hxs : SerListStmt ops o xs) : SerStmt ops o (.arr xs) := by
  intro depth hg
  simp only [Json.Good] at hg
  cases xs with
  | nil =>
    refine ⟨.arr [] .nil, by simp [SVal.render, SElems.render, serialize, ws_render_nil], trivial, by simp [SVal.denote, SElems.denote], ?_,
      fun _ => by simp [SVal.strict, SElems.strict]⟩
    intro lim d h
    simp only [Json.within] at h
    simp [SVal.fits, SElems.length, SElems.fits, h.1]
  | cons x xs =>
    obtain ⟨es, hne, hr, hok, hd, hl, hf, hs⟩ := hxs (by simp) depth (nlW o) hg
    refine ⟨.arr [] es, ?_, hok, by simp [SVal.denote, hd], ?_, ?_⟩
    · simp [SVal.render, hr, serialize, ws_render_nil, nlW_render, List.append_assoc]
    · intro lim d h
      simp only [Json.within] at h
      simp only [SVal.fits]
      exact ⟨h.1, by rw [hl]; exact h.2.1, hf lim (d + 1) h.2.2⟩
    · intro hu
      simp only [Json.utf8] at hu
      simp only [SVal.strict]
      exact hs hu

theorem ser_mem_cons (k : Bytes) (v : Json) (ms : List (Bytes × Json)) (hv : SerStmt ops o v) (hms : SerMemStmt ops o ms) :
    SerMemStmt ops o ((k, v) :: ms) := by
  intro _ depth wl hg
  simp only [Json.GoodMembers] at hg
  obtain ⟨t, htr, htok, htd, htf, hts⟩ := hv (depth + 1) hg.1
  obtain ⟨-, hk2, hk3⟩ := escItems_spec k
  cases ms with
  | nil =>
    refine ⟨.cons (wl ++ indWo o wi (depth + 1)) (k.map escItem) [] (spW o) t (nlW o ++ indWo o wi depth) .nil, by simp, ?_, ?_, ?_, rfl, ?_, ?_⟩
    · simp [SMembers.render, ws_render_append, indWo_render o wi hind, nlW_render, spW_render, htr, serMembers, joinMembers,
        renderString_escItems, List.append_assoc, ws_render_nil]
    · simp only [SMembers.ok]; exact ⟨hk2, htok, trivial⟩
    · intro acc hnd
      have hk : k ∉ acc.map Prod.fst := by
        simp only [List.map_cons, List.map_nil] at hnd
        have := (List.nodup_append.mp hnd).2.2
        intro hmem
        exact this k hmem k (by simp) rfl
      simp [SMembers.denote, hk3, htd, insertOrAssign_not_mem k v acc hk]
    · intro lim d h
      simp only [Json.withinMembers] at h
      simp only [SMembers.fits, hk3]
      exact ⟨by simpa using h.1, htf lim d h.2.1, trivial⟩
    · intro hu
      simp only [Json.utf8Members] at hu
      simp only [SMembers.strict]
      exact ⟨strictItems_of_valid k hu.1, hts hu.2.1, trivial⟩
  | cons m ms' =>
    obtain ⟨tl, hne, hr, hok, hd, hl, hf, hs⟩ := hms (by simp) depth (nlW o) hg.2
    refine ⟨.cons (wl ++ indWo o wi (depth + 1)) (k.map escItem) [] (spW o) t [] tl, by simp, ?_, ?_, ?_, ?_, ?_, ?_⟩
    · rw [SMembers.render_cons_ne _ _ _ _ _ _ _ hne, hr]
      obtain ⟨k', v'⟩ := m
      simp [ws_render_append, indWo_render o wi hind, nlW_render, spW_render, htr, serMembers, joinMembers,
        renderString_escItems, List.append_assoc, ws_render_nil]
    · simp only [SMembers.ok]; exact ⟨hk2, htok, hok⟩
    · intro acc hnd
      have hk : k ∉ acc.map Prod.fst := by
        have := (List.nodup_append.mp hnd).2.2
        intro hmem
        exact this k hmem k (by simp) rfl
      have hnd' : ((acc ++ [(k, v)]).map Prod.fst ++ (m :: ms').map Prod.fst).Nodup := by
        simpa [List.append_assoc] using hnd
      simp only [SMembers.denote, hk3, htd, insertOrAssign_not_mem k v acc hk]
      rw [hd _ hnd']
      simp
    · simp [SMembers.length, hl]
    · intro lim d h
      simp only [Json.withinMembers] at h
      simp only [SMembers.fits, hk3]
      exact ⟨by simpa using h.1, htf lim d h.2.1, hf lim d h.2.2⟩
    · intro hu
      simp only [Json.utf8Members] at hu
      simp only [SMembers.strict]
      exact ⟨strictItems_of_valid k hu.1, hts hu.2.1, hs hu.2.2⟩

theorem ser_obj (hns : o.sortKeys = false) (ms : List (Bytes × Json)) (hms : SerMemStmt ops o ms) : SerStmt ops o (.obj ms) := by
  intro depth hg
  simp only [Json.Good] at hg
  cases ms with
  | nil =>
    refine ⟨.obj [] .nil, by simp [SVal.render, SMembers.render, serialize, ws_render_nil], trivial,
      by simp [SVal.denote, SMembers.denote], ?_, fun _ => by simp [SVal.strict, SMembers.strict]⟩
    intro lim d h
    simp only [Json.within] at h
    simp [SVal.fits, SMembers.length, SMembers.fits, h.1]
  | cons m ms' =>
    obtain ⟨tms, hne, hr, hok, hd, hl, hf, hs⟩ := hms (by simp) depth (nlW o) hg.2
    refine ⟨.obj [] tms, ?_, hok, ?_, ?_, ?_⟩
    · simp [SVal.render, hr, serialize, hns, ws_render_nil, nlW_render, List.append_assoc]
    · simp only [SVal.denote]
      rw [hd [] (by simpa using hg.1)]
      simp
    · intro lim d h
      simp only [Json.within] at h
      simp only [SVal.fits]
      exact ⟨h.1, by rw [hl]; exact h.2.1, hf lim (d + 1) h.2.2⟩
    · intro hu
      simp only [Json.utf8] at hu
      simp only [SVal.strict]
      exact hs hu

/-- **J3** for the unsorted serializer: the output is the rendering of a well-formed syntax tree denoting the value -/
theorem serialize_tree (hl : LibcOk ops) (hns : o.sortKeys = false) (v : Json) : SerStmt ops o v :=
  Json.rec (motive_1 := SerStmt ops o) (motive_2 := SerListStmt ops o) (motive_3 := SerMemStmt ops o)
    (motive_4 := fun kv => SerStmt ops o kv.2)
    (ser_null ops o) (ser_bool ops o) (ser_int ops o) (ser_dbl ops o hl) (ser_str ops o)
    (fun xs ih => ser_arr ops o wi hind xs ih) (fun ms ih => ser_obj ops o wi hind hns ms ih)
    (fun h => absurd rfl h) (fun x xs ihx ihxs => ser_list_cons ops o wi hind x xs ihx ihxs)
    (fun h => absurd rfl h) (fun kv ms ihkv ihms => by obtain ⟨k, v⟩ := kv; exact ser_mem_cons ops o wi hind k v ms ihkv ihms)
    (fun _ _ ih => ih) v

end

/-- **J2** (unsorted): parsing the serialized text of a good value within the limits gives the value back -/
theorem parse_serialize (ops : FloatOps) (hl : LibcOk ops) (lim : Limits) (o : Opts) (wi : Ws) (hind : wi.render = o.indent)
    (hns : o.sortKeys = false) (v : Json) (hg : v.Good) (hw : v.within lim 0 0) :
    parse ops lim (serialize ops o 0 v) = .ok v := by
  obtain ⟨t, hr, hok, hd, hf, -⟩ := serialize_tree ops o wi hind hl hns v 0 hg
  have := parse_render ops lim ⟨[], t, []⟩ hok (hf lim 0 hw)
  simpa [SText.render, SText.denote, ws_render_nil, hr, hd] using this

/-! ### the libc hypotheses are satisfiable (non-vacuity of `LibcOk`) -/

/-- leading ASCII digits -/
def leadDigits : Bytes → Bytes
  | [] => []
  | b :: r => if isDigit b then b :: leadDigits r else []

theorem leadDigits_append (ds x : Bytes) (hd : ∀ d ∈ ds, isDigit d = true) (hx : NoDigitHead x) : leadDigits (ds ++ x) = ds := by
  induction ds with
  | nil =>
    cases x with
    | nil => rfl
    | cons b r => simp [leadDigits, hx b r rfl]
  | cons d ds ih =>
    simp only [List.cons_append, leadDigits, hd d (by simp), ↓reduceIte, ih (fun d' hd' => hd d' (by simp [hd']))]

/-- a toy libc: a double is printed as the decimal numeral of its bit pattern followed by `e0`, and read back from the leading digits -/
def toyOps : FloatOps :=
  { strtod := fun tok => UInt64.ofNat (decVal (leadDigits tok)),
    printfG := fun _ d => natToDec d.toNat ++ [0x65, 0x30] }

theorem toy_read (d : UInt64) (p : Nat) : toyOps.strtod (toyOps.printfG p d) = d := by
  simp only [toyOps]
  rw [leadDigits_append _ _ (natToDec_digits _) (by intro b r e; simp only [List.cons.injEq] at e; obtain ⟨rfl, -⟩ := e; rfl),
    decVal_natToDec]
  simp

theorem libcOk_toy : LibcOk toyOps where
  shape := by
    intro p d _ _ _
    refine ⟨⟨false, d.toNat, none, some (false, none, [0x30])⟩, ?_, ?_⟩
    · refine ⟨by simp, ?_⟩
      intro u sg ds h
      simp only [Option.some.injEq, Prod.mk.injEq] at h
      obtain ⟨-, -, rfl⟩ := h
      exact ⟨by simp, by simp [isDigit]⟩
    · simp [SNum.render, SNum.renderFrac, SNum.renderExp, toyOps]
  exactHi := fun d _ => toy_read d _
  zeroSign := fun p d _ _ _ _ => toy_read d p
  dotZero := by
    intro n hok hf
    have hfe : n.frac = none ∧ n.exp = none := by simpa [SNum.isFloat, Bool.or_eq_false_iff] using hf
    have hr : n.render = (if n.neg then [0x2D] else []) ++ natToDec n.int := by
      simp [SNum.render, SNum.renderFrac, SNum.renderExp, hfe.1, hfe.2]
    rw [hr]
    simp only [toyOps, Gen.Json.fmtSuffix, List.map_cons, List.map_nil]
    cases n.neg with
    | true => simp [leadDigits, isDigit]
    | false =>
      simp only [Bool.false_eq_true, ↓reduceIte, List.nil_append]
      rw [leadDigits_append _ _ (natToDec_digits _) (by intro b r e; simp only [List.cons.injEq] at e; obtain ⟨rfl, -⟩ := e; rfl)]
      have := leadDigits_append (natToDec n.int) [] (natToDec_digits _) (by intro b r e; cases e)
      rw [List.append_nil] at this
      rw [this]

end Iora.Json.Spec
