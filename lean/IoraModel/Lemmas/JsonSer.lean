import IoraModel.Lemmas.JsonSpec
/-! Lemmas for J3/J2 (C13): the serializer's output is the rendering of a syntax tree that denotes the value. -/
namespace Iora.Json.Spec
open Iora Iora.Json

/-! ### escaping -/

/-- the string item `_escapeString` emits for one byte -/
def escItem (b : UInt8) : StrItem :=
  if b = 0x22 then .esc .quote else if b = 0x5C then .esc .backslash else if b = 0x08 then .esc .b else if b = 0x0C then .esc .f
  else if b = 0x0A then .esc .n else if b = 0x0D then .esc .r else if b = 0x09 then .esc .t
  else if h : b.toNat < 32 then
    .u ⟨0, false⟩ ⟨0, false⟩ ⟨⟨b.toNat / 16, by omega⟩, false⟩ ⟨⟨b.toNat % 16, by omega⟩, false⟩
  else .raw b

/-- a `\u` item that is not a high surrogate stands alone -/
theorem denoteItems_u_single (a1 a2 a3 a4 : HexDigit) (tl : List StrItem) (h : isHigh (codeUnit a1 a2 a3 a4) = false) :
    denoteItems (.u a1 a2 a3 a4 :: tl) = loneUnit (codeUnit a1 a2 a3 a4) ++ denoteItems tl := by
  cases tl with
  | nil => simp [denoteItems]
  | cons i tl' => cases i <;> simp [denoteItems, h]

/-- the four facts about `escItem b`, as a Boolean so that all 256 bytes can be checked by evaluation -/
def escCheck (b : UInt8) : Bool :=
  ((escItem b).render == escapeByte b) && (denoteItems [escItem b] == [b]) &&
  (match escItem b with
   | .raw c => c != 0x22 && c != 0x5C
   | .esc _ => true
   | .u a1 a2 a3 a4 => !isHigh (codeUnit a1 a2 a3 a4))

set_option maxRecDepth 100000 in
theorem escCheck_table : ∀ n, n < 256 → escCheck (b8 n) = true := by decide +kernel

theorem escItem_spec (b : UInt8) :
    (escItem b).render = escapeByte b ∧ (escItem b).ok ∧
    (∀ a1 a2 a3 a4, escItem b = .u a1 a2 a3 a4 → isHigh (codeUnit a1 a2 a3 a4) = false) ∧
    denoteItems [escItem b] = [b] := by
  have h := escCheck_table b.toNat b.toNat_lt
  rw [b8_of_toNat] at h
  simp only [escCheck, Bool.and_eq_true, beq_iff_eq] at h
  obtain ⟨⟨h1, h2⟩, h3⟩ := h
  refine ⟨h1, ?_, ?_, h2⟩
  · cases he : escItem b with
    | raw c => rw [he] at h3; simpa [StrItem.ok] using h3
    | esc e => trivial
    | u a1 a2 a3 a4 => trivial
  · intro a1 a2 a3 a4 he
    rw [he] at h3
    simpa using h3

theorem denoteItems_escItem_cons (b : UInt8) (tl : List StrItem) : denoteItems (escItem b :: tl) = b :: denoteItems tl := by
  obtain ⟨-, -, hu, hd⟩ := escItem_spec b
  cases he : escItem b with
  | raw c => rw [he] at hd; simp only [denoteItems, List.cons.injEq, and_true] at hd; simp [denoteItems, hd]
  | esc e => rw [he] at hd; simp only [denoteItems, List.cons.injEq, and_true] at hd; simp [denoteItems, hd]
  | u a1 a2 a3 a4 =>
    have hh := hu a1 a2 a3 a4 he
    rw [he] at hd
    rw [denoteItems_u_single _ _ _ _ _ hh] at hd ⊢
    simp only [denoteItems, List.append_nil] at hd
    rw [hd]; rfl

theorem escItems_spec (s : Bytes) :
    renderItems (s.map escItem) = s.flatMap escapeByte ∧ (∀ i ∈ s.map escItem, i.ok) ∧ denoteItems (s.map escItem) = s := by
  induction s with
  | nil => simp [renderItems, denoteItems]
  | cons b s ih =>
    obtain ⟨h1, h2, -, -⟩ := escItem_spec b
    refine ⟨?_, ?_, ?_⟩
    · simp only [List.map_cons, renderItems_cons, h1, ih.1, List.flatMap_cons]
    · intro i hi
      simp only [List.map_cons, List.mem_cons] at hi
      rcases hi with rfl | hi
      · exact h2
      · exact ih.2.1 i hi
    · simp only [List.map_cons, denoteItems_escItem_cons, ih.2.2]

theorem renderString_escItems (s : Bytes) : renderString (s.map escItem) = escapeString s := by
  simp [renderString, escapeString, (escItems_spec s).1]


/-! ### white space emitted by the serializer -/

def indW (wi : Ws) (n : Nat) : Ws := (List.replicate n wi).flatten
def nlW (o : Opts) : Ws := if o.pretty then [.lf] else []
def indWo (o : Opts) (wi : Ws) (n : Nat) : Ws := if o.pretty then indW wi n else []
def spW (o : Opts) : Ws := if o.pretty then [.sp] else []

theorem indW_render (o : Opts) (wi : Ws) (h : wi.render = o.indent) (n : Nat) : (indW wi n).render = indentN o n := by
  induction n with
  | zero => simp [indW, indentN, Ws.render]
  | succ n ih =>
    simp only [indW, indentN, List.replicate_succ, List.flatten_cons] at ih ⊢
    rw [ws_render_append, ih, h]

theorem indWo_render (o : Opts) (wi : Ws) (h : wi.render = o.indent) (n : Nat) : (indWo o wi n).render = ind o n := by
  unfold indWo ind; split
  · exact indW_render o wi h n
  · rfl

theorem nlW_render (o : Opts) : (nlW o).render = nl o := by
  unfold nlW nl; split <;> rfl

theorem spW_render (o : Opts) : (spW o).render = (if o.pretty then [0x20] else []) := by
  unfold spW; split <;> rfl

/-! ### syntax trees of serialized values -/

theorem SElems.render_cons_ne (w1 : Ws) (v : SVal) (w2 : Ws) (tl : SElems) (h : tl ≠ .nil) :
    (SElems.cons w1 v w2 tl).render = w1.render ++ v.render ++ w2.render ++ 0x2C :: tl.render := by
  cases tl with
  | nil => exact absurd rfl h
  | cons _ _ _ _ => rfl

theorem SMembers.render_cons_ne (w1 : Ws) (k : List StrItem) (w2 w3 : Ws) (v : SVal) (w4 : Ws) (tl : SMembers) (h : tl ≠ .nil) :
    (SMembers.cons w1 k w2 w3 v w4 tl).render
      = w1.render ++ renderString k ++ w2.render ++ [0x3A] ++ w3.render ++ v.render ++ w4.render ++ 0x2C :: tl.render := by
  cases tl with
  | nil => exact absurd rfl h
  | cons _ _ _ _ _ _ _ => rfl

theorem insertOrAssign_not_mem (k : Bytes) (v : Json) (acc : List (Bytes × Json)) (h : k ∉ acc.map Prod.fst) :
    insertOrAssign k v acc = acc ++ [(k, v)] := by
  induction acc with
  | nil => rfl
  | cons m acc ih =>
    obtain ⟨k', v'⟩ := m
    simp only [List.map_cons, List.mem_cons, not_or] at h
    simp only [insertOrAssign]
    rw [if_neg (fun e => h.1 e.symm), ih h.2]
    rfl

section
variable (ops : FloatOps) (o : Opts) (wi : Ws)

def SerStmt (v : Json) : Prop :=
  ∀ depth, v.Good ops → ∃ t : SVal, t.render = serialize ops o depth v ∧ t.ok ∧ t.denote ops = v ∧
    ∀ lim d, v.within lim 0 d → t.fits lim d

def SerListStmt (xs : List Json) : Prop :=
  xs ≠ [] → ∀ depth (wl : Ws), Json.GoodList ops xs →
    ∃ es : SElems, es ≠ .nil ∧ es.render = wl.render ++ serElems ops o depth xs ++ ind o depth ∧ es.ok ∧ es.denote ops = xs ∧
      es.length = xs.length ∧ ∀ lim d, Json.withinList lim 0 d xs → es.fits lim d

def SerMemStmt (ms : List (Bytes × Json)) : Prop :=
  ms ≠ [] → ∀ depth (wl : Ws), Json.GoodMembers ops ms →
    ∃ tms : SMembers, tms ≠ .nil ∧ tms.render = wl.render ++ joinMembers o depth (serMembers ops o depth ms) ++ ind o depth ∧
      tms.ok ∧ (∀ acc, (acc.map Prod.fst ++ ms.map Prod.fst).Nodup → tms.denote ops acc = acc ++ ms) ∧
      tms.length = ms.length ∧ ∀ lim d, Json.withinMembers lim 0 d ms → tms.fits lim d

theorem ser_null : SerStmt ops o .null := fun _ _ =>
  ⟨.null, by simp [SVal.render, serialize], trivial, rfl, fun lim d h => by simpa [Json.within, SVal.fits] using h⟩

theorem ser_bool (b : Bool) : SerStmt ops o (.bool b) := by
  intro _ _
  cases b with
  | true => exact ⟨.true, by simp [SVal.render, serialize], trivial, rfl, fun lim d h => by simpa [Json.within, SVal.fits] using h⟩
  | false => exact ⟨.false, by simp [SVal.render, serialize], trivial, rfl, fun lim d h => by simpa [Json.within, SVal.fits] using h⟩

theorem ser_int (i : Int) : SerStmt ops o (.int i) := by
  intro _ hg
  simp only [Json.Good] at hg
  refine ⟨.num ⟨decide (i < 0), i.natAbs, none, none⟩, ?_, ?_, ?_, fun lim d h => by simpa [Json.within, SVal.fits] using h⟩
  · simp only [SVal.render, SNum.render, SNum.renderFrac, SNum.renderExp, List.append_nil, serialize, intToDec]
    by_cases h : i < 0 <;> simp [h]
  · simp [SVal.ok, SNum.ok]
  · simp only [SVal.denote, SNum.denote, SNum.isFloat, Option.isSome_none, Bool.or_self, Bool.false_eq_true, ↓reduceIte]
    have e : (if decide (i < 0) = true then -((i.natAbs : Nat) : Int) else (i.natAbs : Int)) = i := by
      by_cases h : i < 0 <;> simp [h] <;> omega
    rw [e, if_pos hg]

theorem ser_dbl (d : UInt64) : SerStmt ops o (.dbl d) := by
  intro _ hg
  simp only [Json.Good] at hg
  obtain ⟨n, hok, hf, hr, hs⟩ := hg
  refine ⟨.num n, by simp [SVal.render, serialize, hr], hok, ?_, fun lim d h => by simpa [Json.within, SVal.fits] using h⟩
  simp [SVal.denote, SNum.denote, hf, hr, hs]

theorem ser_str (s : Bytes) : SerStmt ops o (.str s) := by
  intro _ _
  obtain ⟨-, h2, h3⟩ := escItems_spec s
  refine ⟨.str (s.map escItem), by simp [SVal.render, serialize, renderString_escItems], h2, by simp [SVal.denote, h3], ?_⟩
  intro lim d h
  simpa [Json.within, SVal.fits, h3] using h

variable (hind : wi.render = o.indent)
include hind

theorem ser_list_cons (x : Json) (xs : List Json) (hx : SerStmt ops o x) (hxs : SerListStmt ops o xs) :
    SerListStmt ops o (x :: xs) := by
  intro _ depth wl hg
  simp only [Json.GoodList] at hg
  obtain ⟨t, htr, htok, htd, htf⟩ := hx (depth + 1) hg.1
  cases xs with
  | nil =>
    refine ⟨.cons (wl ++ indWo o wi (depth + 1)) t (nlW o ++ indWo o wi depth) .nil, by simp, ?_, ?_, ?_, rfl, ?_⟩
    · simp [SElems.render, ws_render_append, indWo_render o wi hind, nlW_render, htr, serElems, List.append_assoc]
    · simp [SElems.ok, htok]
    · simp [SElems.denote, htd]
    · intro lim d h
      simp only [Json.withinList] at h
      simp [SElems.fits, htf lim d h.1]
  | cons y ys =>
    obtain ⟨tl, hne, hr, hok, hd, hl, hf⟩ := hxs (by simp) depth (nlW o) hg.2
    refine ⟨.cons (wl ++ indWo o wi (depth + 1)) t [] tl, by simp, ?_, ?_, ?_, ?_, ?_⟩
    · rw [SElems.render_cons_ne _ _ _ _ hne, hr]
      simp [ws_render_append, indWo_render o wi hind, nlW_render, htr, serElems, List.append_assoc, ws_render_nil]
    · simp [SElems.ok, htok, hok]
    · simp [SElems.denote, htd, hd]
    · simp [SElems.length, hl]
    · intro lim d h
      simp only [Json.withinList] at h
      simp only [SElems.fits]
      exact ⟨htf lim d h.1, hf lim d h.2⟩

theorem ser_arr (xs : List Json) (hxs : SerListStmt ops o xs) : SerStmt ops o (.arr xs) := by
  intro depth hg
  simp only [Json.Good] at hg
  cases xs with
  | nil =>
    refine ⟨.arr [] .nil, by simp [SVal.render, SElems.render, serialize, ws_render_nil], trivial, by simp [SVal.denote, SElems.denote], ?_⟩
    intro lim d h
    simp only [Json.within] at h
    simp [SVal.fits, SElems.length, SElems.fits, h.1]
  | cons x xs =>
    obtain ⟨es, hne, hr, hok, hd, hl, hf⟩ := hxs (by simp) depth (nlW o) hg
    refine ⟨.arr [] es, ?_, hok, by simp [SVal.denote, hd], ?_⟩
    · simp [SVal.render, hr, serialize, ws_render_nil, nlW_render, List.append_assoc]
    · intro lim d h
      simp only [Json.within] at h
      simp only [SVal.fits]
      exact ⟨h.1, by rw [hl]; exact h.2.1, hf lim (d + 1) h.2.2⟩

theorem ser_mem_cons (k : Bytes) (v : Json) (ms : List (Bytes × Json)) (hv : SerStmt ops o v) (hms : SerMemStmt ops o ms) :
    SerMemStmt ops o ((k, v) :: ms) := by
  intro _ depth wl hg
  simp only [Json.GoodMembers] at hg
  obtain ⟨t, htr, htok, htd, htf⟩ := hv (depth + 1) hg.1
  obtain ⟨-, hk2, hk3⟩ := escItems_spec k
  cases ms with
  | nil =>
    refine ⟨.cons (wl ++ indWo o wi (depth + 1)) (k.map escItem) [] (spW o) t (nlW o ++ indWo o wi depth) .nil, by simp, ?_, ?_, ?_, rfl, ?_⟩
    · simp [SMembers.render, ws_render_append, indWo_render o wi hind, nlW_render, spW_render, htr, serMembers, joinMembers,
        renderString_escItems, List.append_assoc, ws_render_nil]
    · simp only [SMembers.ok]; exact ⟨hk2, htok, trivial⟩
    · intro acc hnd
      have hk : k ∉ acc.map Prod.fst := by
        simp only [List.map_cons, List.map_nil] at hnd
        have := (List.nodup_append.mp hnd).2.2
        intro hmem
        exact this k hmem k (by simp) rfl
      simp [SMembers.denote, hk3, htd, insertOrAssign_not_mem k v acc hk]
    · intro lim d h
      simp only [Json.withinMembers] at h
      simp only [SMembers.fits, hk3]
      exact ⟨by simpa using h.1, htf lim d h.2.1, trivial⟩
  | cons m ms' =>
    obtain ⟨tl, hne, hr, hok, hd, hl, hf⟩ := hms (by simp) depth (nlW o) hg.2
    refine ⟨.cons (wl ++ indWo o wi (depth + 1)) (k.map escItem) [] (spW o) t [] tl, by simp, ?_, ?_, ?_, ?_, ?_⟩
    · rw [SMembers.render_cons_ne _ _ _ _ _ _ _ hne, hr]
      obtain ⟨k', v'⟩ := m
      simp [ws_render_append, indWo_render o wi hind, nlW_render, spW_render, htr, serMembers, joinMembers,
        renderString_escItems, List.append_assoc, ws_render_nil]
    · simp only [SMembers.ok]; exact ⟨hk2, htok, hok⟩
    · intro acc hnd
      have hk : k ∉ acc.map Prod.fst := by
        have := (List.nodup_append.mp hnd).2.2
        intro hmem
        exact this k hmem k (by simp) rfl
      have hnd' : ((acc ++ [(k, v)]).map Prod.fst ++ (m :: ms').map Prod.fst).Nodup := by
        simpa [List.append_assoc] using hnd
      simp only [SMembers.denote, hk3, htd, insertOrAssign_not_mem k v acc hk]
      rw [hd _ hnd']
      simp
    · simp [SMembers.length, hl]
    · intro lim d h
      simp only [Json.withinMembers] at h
      simp only [SMembers.fits, hk3]
      exact ⟨by simpa using h.1, htf lim d h.2.1, hf lim d h.2.2⟩

theorem ser_obj (hns : o.sortKeys = false) (ms : List (Bytes × Json)) (hms : SerMemStmt ops o ms) : SerStmt ops o (.obj ms) := by
  intro depth hg
  simp only [Json.Good] at hg
  cases ms with
  | nil =>
    refine ⟨.obj [] .nil, by simp [SVal.render, SMembers.render, serialize, ws_render_nil], trivial,
      by simp [SVal.denote, SMembers.denote], ?_⟩
    intro lim d h
    simp only [Json.within] at h
    simp [SVal.fits, SMembers.length, SMembers.fits, h.1]
  | cons m ms' =>
    obtain ⟨tms, hne, hr, hok, hd, hl, hf⟩ := hms (by simp) depth (nlW o) hg.2
    refine ⟨.obj [] tms, ?_, hok, ?_, ?_⟩
    · simp [SVal.render, hr, serialize, hns, ws_render_nil, nlW_render, List.append_assoc]
    · simp only [SVal.denote]
      rw [hd [] (by simpa using hg.1)]
      simp
    · intro lim d h
      simp only [Json.within] at h
      simp only [SVal.fits]
      exact ⟨h.1, by rw [hl]; exact h.2.1, hf lim (d + 1) h.2.2⟩

/-- **J3** for the unsorted serializer: the output is the rendering of a well-formed syntax tree denoting the value -/
theorem serialize_tree (hns : o.sortKeys = false) (v : Json) : SerStmt ops o v :=
  Json.rec (motive_1 := SerStmt ops o) (motive_2 := SerListStmt ops o) (motive_3 := SerMemStmt ops o)
    (motive_4 := fun kv => SerStmt ops o kv.2)
    (ser_null ops o) (ser_bool ops o) (ser_int ops o) (ser_dbl ops o) (ser_str ops o)
    (fun xs ih => ser_arr ops o wi hind xs ih) (fun ms ih => ser_obj ops o wi hind hns ms ih)
    (fun h => absurd rfl h) (fun x xs ihx ihxs => ser_list_cons ops o wi hind x xs ihx ihxs)
    (fun h => absurd rfl h) (fun kv ms ihkv ihms => by obtain ⟨k, v⟩ := kv; exact ser_mem_cons ops o wi hind k v ms ihkv ihms)
    (fun _ _ ih => ih) v

end

/-- **J2** (unsorted): parsing the serialized text of a good value within the limits gives the value back -/
theorem parse_serialize (ops : FloatOps) (lim : Limits) (o : Opts) (wi : Ws) (hind : wi.render = o.indent)
    (hns : o.sortKeys = false) (v : Json) (hg : v.Good ops) (hw : v.within lim 0 0) :
    parse ops lim (serialize ops o 0 v) = .ok v := by
  obtain ⟨t, hr, hok, hd, hf⟩ := serialize_tree ops o wi hind hns v 0 hg
  have := parse_render ops lim ⟨[], t, []⟩ hok (hf lim 0 hw)
  simpa [SText.render, SText.denote, ws_render_nil, hr, hd] using this

end Iora.Json.Spec
