import IoraModel.Lemmas.WsStream
import IoraModel.Lemmas.WsClient
set_option linter.unusedSimpArgs false
set_option linter.unusedVariables false
/-! Every frame an endpoint hands to the transport is well-formed (W1 at the level of the send API). -/
namespace Iora.Ws
open Iora

/-- the application's text/binary payloads are shorter than 2^64 bytes (what a `size_t` can express) -/
def Send.Small : Send → Prop
  | .text bs => bs.length < 2 ^ 64
  | .binary bs => bs.length < 2 ^ 64
  | .ping _ => True
  | .close _ _ => True

def Cbs.Small (cb : Cbs) : Prop :=
  (∀ a ∈ cb.onText, a.Small) ∧ (∀ a ∈ cb.onBinary, a.Small) ∧ (∀ a ∈ cb.onClose, a.Small) ∧ (∀ a ∈ cb.onError, a.Small)

def CCbs.Small (cb : CCbs) : Prop :=
  (∀ a ∈ cb.onText, a.Small) ∧ (∀ a ∈ cb.onBinary, a.Small) ∧ (∀ a ∈ cb.onClose, a.Small) ∧ (∀ a ∈ cb.onError, a.Small)

def AppOp.Small : AppOp → Prop
  | .sendText bs => (Send.text bs).Small
  | .sendBinary bs => (Send.binary bs).Small
  | _ => True

def COp.Small : COp → Prop
  | .sendText bs => (Send.text bs).Small
  | .sendBinary bs => (Send.binary bs).Small
  | _ => True

theorem backoff_le (r : Bytes) : ∀ n, backoff r n ≤ n := by
  intro n
  induction n with
  | zero => simp [backoff]
  | succ n ih =>
    unfold backoff
    split
    · split
      · omega
      · omega
    · omega

theorem closeReasonLen_le (r : Bytes) : closeReasonLen r ≤ Gen.Ws.closeReasonMax ∨ closeReasonLen r = r.length ∧ r.length ≤ Gen.Ws.closeReasonMax := by
  unfold closeReasonLen
  split
  · exact .inl (backoff_le r _)
  · exact .inr ⟨rfl, by omega⟩

theorem closeBody_length (c : Nat) (r : Bytes) : (closeBody c r).length ≤ Gen.Ws.maxControlPayload := by
  simp only [closeBody, List.length_cons, List.length_take]
  have : Gen.Ws.closeReasonMax = 123 := rfl
  have : Gen.Ws.maxControlPayload = 125 := rfl
  rcases closeReasonLen_le r with h | ⟨h, h'⟩ <;> omega

theorem makeClose_WF (c : Nat) (r : Bytes) : (makeClose c r).WF :=
  ⟨by simp [makeClose], by simp [makeClose, zeroKey], by intro; rfl,
   by have := closeBody_length c r; have : Gen.Ws.maxControlPayload = 125 := rfl; simp only [makeClose]; omega,
   by intro; exact ⟨rfl, closeBody_length c r⟩⟩

theorem mkFrame_WF (op : Nat) (pl : Bytes) (h16 : op < 16) (hl : pl.length < 2 ^ 64)
    (hc : isControl op = true → pl.length ≤ Gen.Ws.maxControlPayload) : (mkFrame op true pl).WF :=
  ⟨h16, by simp [mkFrame, zeroKey], by intro; rfl, hl, fun h => ⟨rfl, hc h⟩⟩

/-- every frame send among the events is the serialisation of a well-formed frame -/
def SentWF (evs : List Ev) : Prop := ∀ w, Ev.sent w ∈ evs → ∃ f : Frame, f.WF ∧ w = serialize f

theorem SentWF_nil : SentWF [] := by intro w h; cases h
theorem SentWF_append {a b : List Ev} (ha : SentWF a) (hb : SentWF b) : SentWF (a ++ b) := by
  intro w h
  rcases List.mem_append.mp h with h | h
  · exact ha w h
  · exact hb w h
theorem SentWF_one (f : Frame) (h : f.WF) : SentWF [.sent (serialize f)] := by
  intro w hw
  simp only [List.mem_singleton, Ev.sent.injEq] at hw
  exact ⟨f, h, hw⟩
theorem SentWF_other (e : Ev) (h : ∀ w, e ≠ .sent w) : SentWF [e] := by
  intro w hw
  simp only [List.mem_singleton] at hw
  exact absurd hw.symm (h w)
theorem SentWF_cons_other (e : Ev) (evs : List Ev) (h : ∀ w, e ≠ .sent w) (he : SentWF evs) : SentWF (e :: evs) :=
  SentWF_append (a := [e]) (SentWF_other e h) he

theorem sendClose_sentWF (s : Sess) (c : Nat) (r : Bytes) : SentWF (sendClose s c r).2 :=
  SentWF_one _ (makeClose_WF c r)

theorem isControl_iff (op : Nat) : isControl op = true ↔ (op = 8 ∨ op = 9 ∨ op = 10) := isControl_false_or op

theorem appSend_sentWF (s : Sess) (op : Nat) (pl : Bytes) (h16 : op < 16) (hl : pl.length < 2 ^ 64)
    (hc : isControl op = true → pl.length ≤ Gen.Ws.maxControlPayload) : SentWF (appSend s op pl).2 := by
  unfold appSend
  split
  · exact SentWF_nil
  · exact SentWF_one _ (mkFrame_WF op pl h16 hl hc)

theorem sendStep_sentWF (s : Sess) (a : Send) (h : a.Small) : SentWF (sendStep s a).2 := by
  cases a with
  | text bs => exact appSend_sentWF s 1 bs (by omega) h (by intro hc; rw [isControl_iff] at hc; omega)
  | binary bs => exact appSend_sentWF s 2 bs (by omega) h (by intro hc; rw [isControl_iff] at hc; omega)
  | ping bs =>
    simp only [sendStep, sendPing]
    split
    · exact SentWF_nil
    · rename_i hg
      have h1 : Gen.Ws.serverPingMax = 125 := rfl
      have h2 : Gen.Ws.maxControlPayload = 125 := rfl
      exact appSend_sentWF s 9 bs (by omega) (by omega) (by intro; omega)
  | close c r => exact sendClose_sentWF s c r

theorem runSends_sentWF : ∀ (as : List Send) (s : Sess), (∀ a ∈ as, a.Small) → SentWF (runSends s as).2 := by
  intro as
  induction as with
  | nil => intro s _; exact SentWF_nil
  | cons a as ih =>
    intro s h
    simp only [runSends]
    exact SentWF_append (sendStep_sentWF s a (h a (List.mem_cons_self ..))) (ih _ (fun b hb => h b (List.mem_cons_of_mem _ hb)))

theorem fire_sentWF (s : Sess) (e : Ev) (sc : List Send) (he : ∀ w, e ≠ .sent w) (h : ∀ a ∈ sc, a.Small) :
    SentWF (fire s e sc).2 := by
  simp only [fire]
  exact SentWF_cons_other e _ he (runSends_sentWF sc s h)

theorem deliver_sentWF (cb : Cbs) (hcb : cb.Small) (s : Sess) (op : Nat) (pl : Bytes) : SentWF (deliver cb s op pl).2 := by
  unfold deliver
  split
  · split
    · exact sendClose_sentWF _ _ _
    · exact fire_sentWF _ _ _ (by intro w h; cases h) hcb.1
  · split
    · exact fire_sentWF _ _ _ (by intro w h; cases h) hcb.2.1
    · exact SentWF_nil

theorem failSession_sentWF (cb : Cbs) (hcb : cb.Small) (s : Sess) (c : Nat) (r : Bytes) : SentWF (failSession cb s c r).2 := by
  simp only [failSession]
  exact SentWF_append (SentWF_append (sendClose_sentWF s c r) (fire_sentWF _ _ _ (by intro w h; cases h) hcb.2.2.2))
    (SentWF_other _ (by intro w h; cases h))

theorem handleDataFrame_sentWF (max : Nat) (cb : Cbs) (hcb : cb.Small) (s : Sess) (f : Frame) :
    SentWF (handleDataFrame max cb s f).2 := by
  unfold handleDataFrame
  split
  · exact SentWF_nil
  · simp only
    split
    · exact failSession_sentWF cb hcb _ _ _
    · split
      · exact deliver_sentWF cb hcb _ _ _
      · exact SentWF_nil

/-- a ping the parser accepted carries at most 125 bytes -/
def PingSmall (f : Frame) : Prop := f.opcode = 9 → f.payload.length ≤ Gen.Ws.maxControlPayload

theorem handleFrame_sentWF (max : Nat) (cb : Cbs) (hcb : cb.Small) (s : Sess) (f : Frame) (hp : PingSmall f) :
    SentWF (handleFrame max cb s f).2 := by
  unfold handleFrame
  split
  · exact handleDataFrame_sentWF max cb hcb s f
  · split
    · rename_i h9
      have h2 : Gen.Ws.maxControlPayload = 125 := rfl
      have := hp h9
      exact SentWF_one _ (mkFrame_WF 10 f.payload (by omega) (by omega) (fun _ => this))
    · split
      · exact SentWF_nil
      · split
        · simp only
          refine SentWF_append (SentWF_append ?_ (fire_sentWF _ _ _ (by intro w h; cases h) hcb.2.2.1)) (SentWF_other _ (by intro w h; cases h))
          split
          · exact SentWF_one _ (makeClose_WF _ _)
          · exact SentWF_nil
        · simp only
          exact SentWF_append (sendClose_sentWF _ _ _) (fire_sentWF _ _ _ (by intro w h; cases h) hcb.2.2.2)

theorem parse_ping_small (max : Nat) (d : Bytes) (f : Frame) (n : Nat) (h : parse max d = .frame f n) : PingSmall f := by
  intro h9
  match d with
  | [] => simp [parse] at h
  | [_] => simp [parse] at h
  | b0 :: b1 :: rest =>
    simp only [parse] at h
    split at h
    · cases h; simp
    · split at h
      · cases h
      · rename_i hctl
        cases he : readExt (b1.toNat % 128) rest with
        | none => simp [he] at h
        | some v =>
          obtain ⟨len, e, r1⟩ := v
          simp only [he] at h
          split at h
          · cases h
          · cases hk : readKey (decide (b1.toNat ≥ 128)) r1 with
            | none => simp [hk] at h
            | some w =>
              obtain ⟨k, ke, r2⟩ := w
              simp only [hk] at h
              cases ht : takeN len r2 with
              | none => simp [ht] at h
              | some u =>
                obtain ⟨pl, r3⟩ := u
                simp only [ht] at h
                cases h
                obtain ⟨h1, h2⟩ := takeN_some ht
                simp only at h9
                have hc : isControl (b0.toNat % 16) = true := by rw [h9]; decide
                simp only [hc, Bool.true_and, Bool.or_eq_true, decide_eq_true_eq, Bool.not_eq_true', not_or, Nat.not_lt] at hctl
                have hl7 : b1.toNat % 128 ≤ Gen.Ws.maxControlPayload := hctl.1
                have h125 : Gen.Ws.maxControlPayload = 125 := rfl
                have hlen : len = b1.toNat % 128 := by
                  unfold readExt at he
                  have h16 : Gen.Ws.len16Marker = 126 := rfl
                  have h64 : Gen.Ws.len64Marker = 127 := rfl
                  rw [if_neg (by omega), if_neg (by omega)] at he
                  cases he; rfl
                have : (if decide (b1.toNat ≥ 128) = true then xorMask k pl else pl).length = len := by
                  split <;> simp [xorMask_length, h1]
                simp only [this]
                omega

theorem loop_sentWF (max : Nat) (cb : Cbs) (hcb : cb.Small) : ∀ (fuel : Nat) (s : Sess) (d : Bytes),
    SentWF (loop max cb fuel s d).2.1 := by
  intro fuel
  induction fuel with
  | zero => intro s d; exact SentWF_nil
  | succ fuel ih =>
    intro s d
    unfold loop
    split
    · exact SentWF_nil
    · split
      · exact SentWF_nil
      · exact failSession_sentWF cb hcb _ _ _
      · exact failSession_sentWF cb hcb _ _ _
      · rename_i f n hp
        exact SentWF_append (handleFrame_sentWF max cb hcb s f (parse_ping_small max d f n hp)) (ih _ _)

theorem onData_sentWF (max : Nat) (cb : Cbs) (hcb : cb.Small) (s : Sess) (data : Bytes) : SentWF (onData max cb s data).2 := by
  unfold onData
  split
  · exact SentWF_nil
  · have h := loop_sentWF max cb hcb ((s.buffer ++ data).length + 1) { s with buffer := [] } (s.buffer ++ data)
    simp only
    rcases hL : loop max cb ((s.buffer ++ data).length + 1) { s with buffer := [] } (s.buffer ++ data) with ⟨s1, ev, r⟩
    rw [hL] at h
    cases r <;> exact h

theorem step_sentWF (max : Nat) (cb : Cbs) (hcb : cb.Small) (s : Sess) (op : AppOp) (h : op.Small) : SentWF (step max cb s op).2 := by
  cases op with
  | data bs => exact onData_sentWF max cb hcb s bs
  | sendClose c r => exact sendStep_sentWF s _ trivial
  | sendText bs => exact sendStep_sentWF s _ h
  | sendBinary bs => exact sendStep_sentWF s _ h
  | sendPing bs => exact sendStep_sentWF s _ trivial
  | transportClosed => exact SentWF_nil

theorem run_sentWF (max : Nat) (cb : Cbs) : ∀ (ops : List AppOp) (s : Sess), cb.Small → (∀ op ∈ ops, op.Small) →
    SentWF (run max cb s ops).2 := by
  intro ops
  induction ops with
  | nil => intro s _ _; exact SentWF_nil
  | cons op ops ih =>
    intro s hcb h
    simp only [run]
    exact SentWF_append (step_sentWF max cb hcb s op (h op (List.mem_cons_self ..))) (ih _ hcb (fun o ho => h o (List.mem_cons_of_mem _ ho)))

/-! ### client -/

/-- every frame the client sends would be well-formed under any 4-byte mask key -/
def CSentWF (evs : List CEv) : Prop :=
  ∀ op fin pl, CEv.sent op fin pl ∈ evs → ∀ key : Bytes, key.length = 4 → (Frame.mk fin op true key pl).WF

theorem CSentWF_nil : CSentWF [] := by intro op fin pl h; cases h
theorem CSentWF_append {a b : List CEv} (ha : CSentWF a) (hb : CSentWF b) : CSentWF (a ++ b) := by
  intro op fin pl h
  rcases List.mem_append.mp h with h | h
  · exact ha op fin pl h
  · exact hb op fin pl h
theorem CSentWF_one (op : Nat) (pl : Bytes) (h16 : op < 16) (hl : pl.length < 2 ^ 64)
    (hc : isControl op = true → pl.length ≤ Gen.Ws.maxControlPayload) : CSentWF [.sent op true pl] := by
  intro op' fin' pl' hm key hk
  simp only [List.mem_singleton, CEv.sent.injEq] at hm
  obtain ⟨rfl, rfl, rfl⟩ := hm
  exact ⟨h16, hk, (by intro h; cases h), hl, fun h => ⟨rfl, hc h⟩⟩
theorem CSentWF_other (e : CEv) (h : ∀ op fin pl, e ≠ .sent op fin pl) : CSentWF [e] := by
  intro op fin pl hm
  simp only [List.mem_singleton] at hm
  exact absurd hm.symm (h op fin pl)

theorem cSendClose_sentWF (s : CSess) (c : Nat) (r : Bytes) : CSentWF (cSendClose s c r).2 := by
  have := closeBody_length c r
  have h2 : Gen.Ws.maxControlPayload = 125 := rfl
  exact CSentWF_one 8 _ (by omega) (by omega) (fun _ => this)

theorem cSend_sentWF (s : CSess) (op : Nat) (pl : Bytes) (h16 : op < 16) (hl : pl.length < 2 ^ 64)
    (hc : isControl op = true → pl.length ≤ Gen.Ws.maxControlPayload) : CSentWF (cSend s op pl).2 := by
  unfold cSend
  split
  · exact CSentWF_nil
  · split
    · exact CSentWF_nil
    · exact CSentWF_one op pl h16 hl hc

theorem cSendStep_sentWF (s : CSess) (a : Send) (h : a.Small) : CSentWF (cSendStep s a).2 := by
  cases a with
  | text bs => exact cSend_sentWF s 1 bs (by omega) h (by intro hc; rw [isControl_iff] at hc; omega)
  | binary bs => exact cSend_sentWF s 2 bs (by omega) h (by intro hc; rw [isControl_iff] at hc; omega)
  | ping bs =>
    simp only [cSendStep, cSendPing]
    split
    · exact CSentWF_nil
    · rename_i hg
      have h1 : Gen.Ws.clientPingMax = 125 := rfl
      have h2 : Gen.Ws.maxControlPayload = 125 := rfl
      exact cSend_sentWF s 9 bs (by omega) (by omega) (by intro; omega)
  | close c r => exact cSendClose_sentWF s c r

theorem cRunSends_sentWF : ∀ (as : List Send) (s : CSess), (∀ a ∈ as, a.Small) → CSentWF (cRunSends s as).2 := by
  intro as
  induction as with
  | nil => intro s _; exact CSentWF_nil
  | cons a as ih =>
    intro s h
    simp only [cRunSends]
    exact CSentWF_append (cSendStep_sentWF s a (h a (List.mem_cons_self ..))) (ih _ (fun b hb => h b (List.mem_cons_of_mem _ hb)))

theorem cFire_sentWF (s : CSess) (e : CEv) (sc : List Send) (he : ∀ op fin pl, e ≠ .sent op fin pl) (h : ∀ a ∈ sc, a.Small) :
    CSentWF (cFire s e sc).2 := by
  simp only [cFire]
  exact CSentWF_append (a := [e]) (CSentWF_other e he) (cRunSends_sentWF sc s h)

theorem cDeliver_sentWF (cb : CCbs) (hcb : cb.Small) (s : CSess) (op : Nat) (pl : Bytes) : CSentWF (cDeliver cb s op pl).2 := by
  unfold cDeliver
  split
  · split
    · exact cSendClose_sentWF _ _ _
    · exact cFire_sentWF _ _ _ (by intro a b c h; cases h) hcb.1
  · split
    · exact cFire_sentWF _ _ _ (by intro a b c h; cases h) hcb.2.1
    · exact CSentWF_nil

theorem cFail_sentWF (cb : CCbs) (hcb : cb.Small) (s : CSess) (tl : Bool) : CSentWF (cFail cb s tl).2 := by
  simp only [cFail]
  exact CSentWF_append (cSendClose_sentWF _ _ _) (cFire_sentWF _ _ _ (by intro a b c h; cases h) hcb.2.2.2)

theorem cHandleFrame_sentWF (cfg : CCfg) (hcb : cfg.cb.Small) (s : CSess) (f : Frame) (hp : PingSmall f) :
    CSentWF (cHandleFrame cfg s f).2 := by
  unfold cHandleFrame
  split
  · unfold cHandleDataFrame
    simp only
    split
    · exact cFail_sentWF cfg.cb hcb _ _
    · split
      · exact cDeliver_sentWF cfg.cb hcb _ _ _
      · exact CSentWF_nil
  · split
    · rename_i h9
      have h2 : Gen.Ws.maxControlPayload = 125 := rfl
      have := hp h9
      exact CSentWF_one 10 f.payload (by omega) (by omega) (fun _ => this)
    · split
      · exact CSentWF_nil
      · split
        · simp only
          refine CSentWF_append ?_ (cFire_sentWF _ _ _ (by intro a b c h; cases h) hcb.2.2.1)
          split
          · exact cSendClose_sentWF _ _ _
          · exact CSentWF_nil
        · exact CSentWF_nil

theorem cLoop_sentWF (cfg : CCfg) (hcb : cfg.cb.Small) : ∀ (fuel : Nat) (s : CSess) (d : Bytes),
    CSentWF (cLoop cfg fuel s d).2.1 := by
  intro fuel
  induction fuel with
  | zero => intro s d; exact CSentWF_nil
  | succ fuel ih =>
    intro s d
    unfold cLoop
    split
    · exact CSentWF_nil
    · split
      · exact CSentWF_nil
      · exact cFail_sentWF cfg.cb hcb _ _
      · exact cFail_sentWF cfg.cb hcb _ _
      · rename_i f n hp
        simp only
        have h1 := cHandleFrame_sentWF cfg hcb s f (parse_ping_small cfg.max d f n hp)
        split
        · exact h1
        · exact CSentWF_append h1 (ih _ _)

theorem cFrames_sentWF (cfg : CCfg) (hcb : cfg.cb.Small) (s : CSess) (d : Bytes) : CSentWF (cFrames cfg s d).2 := by
  unfold cFrames
  split
  · exact CSentWF_nil
  · have h := cLoop_sentWF cfg hcb (d.length + 1) s d
    rcases hL : cLoop cfg (d.length + 1) s d with ⟨s1, ev, r⟩
    rw [hL] at h
    simp only
    cases r <;> exact h

theorem cOnData_sentWF (cfg : CCfg) (hcb : cfg.cb.Small) (s : CSess) (data : Bytes) : CSentWF (cOnData cfg s data).2 := by
  unfold cOnData
  simp only
  split
  · exact cFrames_sentWF cfg hcb _ _
  · have hs := cHandshake_spec cfg { s with buffer := [] } (s.buffer ++ data)
    cases hh : cHandshake cfg { s with buffer := [] } (s.buffer ++ data) with
    | wait s1 => exact CSentWF_nil
    | failed s1 ev =>
      rw [hh] at hs
      simp only
      rw [hs.2]
      exact CSentWF_other _ (by intro a b c h; cases h)
    | ok s1 ev rest =>
      rw [hh] at hs
      simp only
      rw [hs.2]
      exact CSentWF_append (CSentWF_other _ (by intro a b c h; cases h)) (cFrames_sentWF cfg hcb _ _)

theorem cRun_sentWF (cfg : CCfg) : ∀ (ops : List COp) (s : CSess), cfg.cb.Small → (∀ op ∈ ops, op.Small) →
    CSentWF (cRun cfg s ops).2 := by
  intro ops
  induction ops with
  | nil => intro s _ _; exact CSentWF_nil
  | cons op ops ih =>
    intro s hcb h
    simp only [cRun]
    refine CSentWF_append ?_ (ih _ hcb (fun o ho => h o (List.mem_cons_of_mem _ ho)))
    have hop := h op (List.mem_cons_self ..)
    cases op with
    | data bs => exact cOnData_sentWF cfg hcb s bs
    | sendClose c r => exact cSendStep_sentWF s _ trivial
    | sendText bs => exact cSendStep_sentWF s _ hop
    | sendBinary bs => exact cSendStep_sentWF s _ hop
    | sendPing bs => exact cSendStep_sentWF s _ trivial
    | disconnect c r =>
      simp only [cStep, cDisconnect]
      split
      · exact cSendStep_sentWF s (.close c r) trivial
      · exact CSentWF_nil

/-- once the upgrade has completed it stays completed -/
theorem cRun_upgraded (cfg : CCfg) : ∀ (ops : List COp) (s : CSess), CBounded cfg s → s.upgraded = true →
    (cRun cfg s ops).1.upgraded = true := by
  intro ops
  induction ops with
  | nil => intro s _ h; exact h
  | cons op ops ih =>
    intro s hb h
    simp only [cRun]
    apply ih _ (cStep_bounded cfg s op hb)
    cases op with
    | data bs =>
      simp only [cStep, cOnData_upgraded cfg s bs h]
      rw [(cFrames_bounded cfg { s with buffer := [] } (s.buffer ++ bs) rfl hb.2.2).2.2]
      exact h
    | sendClose c r => simp only [cStep]; rw [(cSendStep_same s _).2.2.2.2.2.2]; exact h
    | sendText bs => simp only [cStep]; rw [(cSendStep_same s _).2.2.2.2.2.2]; exact h
    | sendBinary bs => simp only [cStep]; rw [(cSendStep_same s _).2.2.2.2.2.2]; exact h
    | sendPing bs => simp only [cStep]; rw [(cSendStep_same s _).2.2.2.2.2.2]; exact h
    | disconnect c r => simp only [cStep, cDisconnect]; split <;> simpa [cSendClose] using h

end Iora.Ws
