import IoraModel.Model.WsFrame
set_option linter.unusedSimpArgs false
/-! Helper lemmas about the WebSocket frame codec model (no property statements here). -/
namespace Iora.Ws
open Iora

theorem xorMask_length : ∀ (k xs : Bytes), (xorMask k xs).length = xs.length := by
  intro k xs
  induction xs generalizing k with
  | nil => cases k <;> simp [xorMask]
  | cons x xs ih =>
    cases k with
    | nil => simp [xorMask]
    | cons k0 ks => simp [xorMask, ih]

theorem xorMask_involutive : ∀ (k xs : Bytes), xorMask k (xorMask k xs) = xs := by
  intro k xs
  induction xs generalizing k with
  | nil => cases k <;> simp [xorMask]
  | cons x xs ih =>
    cases k with
    | nil => simp [xorMask]
    | cons k0 ks =>
      simp only [xorMask, ih]
      congr 1
      rw [UInt8.xor_assoc, UInt8.xor_self, UInt8.xor_zero]

/-- well-formed frames: what `serialize` can be asked to emit and `parse` will accept -/
structure Frame.WF (f : Frame) : Prop where
  op : f.opcode < 16
  key4 : f.key.length = 4
  keyZero : f.masked = false → f.key = zeroKey
  len : f.payload.length < 2 ^ 64
  control : isControl f.opcode = true → f.fin = true ∧ f.payload.length ≤ Gen.Ws.maxControlPayload

theorem hdr0 (op : Nat) (fin : Bool) (hop : op < 16) :
    (op + if fin = true then 128 else 0) % 256 % 16 = op ∧
    ((op + if fin = true then 128 else 0) % 256 / 16) % 8 = 0 ∧
    decide ((op + if fin = true then 128 else 0) % 256 ≥ 128) = fin := by
  cases fin <;> simp <;> omega


theorem isControl_false_or (op : Nat) : isControl op = true ↔ (op = 8 ∨ op = 9 ∨ op = 10) := by
  simp [isControl, Gen.Ws.controlOpcodes]

theorem roundtrip (max : Nat) (f : Frame) (x : Bytes) (h : f.WF) (hmax : f.payload.length ≤ max) :
    parse max (serialize f ++ x) = .frame f (serialize f).length := by
  obtain ⟨fin, op, masked, key, pl⟩ := f
  obtain ⟨hop, hk4, hkz, hlen, hctl⟩ := h
  dsimp only at hop hk4 hkz hlen hctl hmax
  simp only [Gen.Ws.maxControlPayload] at hctl
  obtain ⟨e1, e2, e3⟩ := hdr0 op fin hop
  have hc : (isControl op && (decide (pl.length > Gen.Ws.maxControlPayload) || !fin)) = false := by
    cases hic : isControl op with
    | false => simp
    | true =>
      obtain ⟨h1, h2⟩ := hctl hic
      simp [h1, Gen.Ws.maxControlPayload]; omega
  have hc' : pl.length ≤ 125 → (isControl op && (decide (pl.length > Gen.Ws.maxControlPayload) || !fin)) = false := fun _ => hc
  cases masked with
  | false =>
    have hkey : key = zeroKey := hkz rfl
    subst hkey
    by_cases h1 : pl.length ≤ 125
    · have e4 : pl.length % 256 % 128 = pl.length := by omega
      have e5 : ¬ (pl.length % 256 ≥ 128) := by omega
      simp [serialize, parse, readExt, readKey, Gen.Ws.serMax7, h1, e1, e2, e3, e4, e5, hc, Gen.Ws.len16Marker, Gen.Ws.len64Marker,
        show ¬ pl.length = 126 by omega, show ¬ pl.length = 127 by omega, show ¬ pl.length > max by omega,
        takeN_left pl x rfl]
      omega
    · have hnc : isControl op = false := by
        cases hic : isControl op with
        | false => rfl
        | true => have := (hctl hic).2; omega
      by_cases h2 : pl.length ≤ 65535
      · have e4 : (0 + 126) % 256 % 128 = 126 := by decide
        have e6 : beNat (be16 pl.length) = pl.length := beNat_be16 _ (by omega)
        simp [serialize, parse, readExt, readKey, Gen.Ws.serMax7, Gen.Ws.serMax16, h1, h2, e1, e2, e3, hc, hnc, Gen.Ws.len16Marker, Gen.Ws.len64Marker,
          takeN_left (n := 2) (be16 pl.length) (pl ++ x) rfl, e6, show ¬ pl.length > max by omega, takeN_left pl x rfl]
        omega
      · have e6 : beNat (be64 pl.length) = pl.length := beNat_be64 _ hlen
        simp [serialize, parse, readExt, readKey, Gen.Ws.serMax7, Gen.Ws.serMax16, h1, h2, e1, e2, e3, hc, hnc, Gen.Ws.len16Marker, Gen.Ws.len64Marker,
          takeN_left (n := 8) (be64 pl.length) (pl ++ x) rfl, e6, show ¬ pl.length > max by omega, takeN_left pl x rfl]
        omega
  | true =>
    have hx : takeN pl.length (xorMask key pl ++ x) = some (xorMask key pl, x) := takeN_left _ _ (xorMask_length key pl)
    have hk : ∀ r, takeN 4 (key ++ r) = some (key, r) := fun r => takeN_left key r hk4
    by_cases h1 : pl.length ≤ 125
    · have e4 : (128 + pl.length) % 256 % 128 = pl.length := by omega
      have e5 : (128 + pl.length) % 256 ≥ 128 := by omega
      simp [serialize, parse, readExt, readKey, Gen.Ws.serMax7, h1, e1, e2, e3, e4, e5, hc, Gen.Ws.len16Marker, Gen.Ws.len64Marker,
        show ¬ pl.length = 126 by omega, show ¬ pl.length = 127 by omega, show ¬ pl.length > max by omega,
        hk, hx, xorMask_involutive, xorMask_length, hk4]
      omega
    · have hnc : isControl op = false := by
        cases hic : isControl op with
        | false => rfl
        | true => have := (hctl hic).2; omega
      by_cases h2 : pl.length ≤ 65535
      · have e6 : beNat (be16 pl.length) = pl.length := beNat_be16 _ (by omega)
        simp [serialize, parse, readExt, readKey, Gen.Ws.serMax7, Gen.Ws.serMax16, h1, h2, e1, e2, e3, hc, hnc, Gen.Ws.len16Marker, Gen.Ws.len64Marker,
          takeN_left (n := 2) (be16 pl.length) (key ++ (xorMask key pl ++ x)) rfl, e6, show ¬ pl.length > max by omega,
          hk, hx, xorMask_involutive, xorMask_length, hk4]
        omega
      · have e6 : beNat (be64 pl.length) = pl.length := beNat_be64 _ hlen
        simp [serialize, parse, readExt, readKey, Gen.Ws.serMax7, Gen.Ws.serMax16, h1, h2, e1, e2, e3, hc, hnc, Gen.Ws.len16Marker, Gen.Ws.len64Marker,
          takeN_left (n := 8) (be64 pl.length) (key ++ (xorMask key pl ++ x)) rfl, e6, show ¬ pl.length > max by omega,
          hk, hx, xorMask_involutive, xorMask_length, hk4]
        omega



theorem readExt_append {l7 : Nat} {rest : Bytes} {len e : Nat} {r : Bytes} (x : Bytes)
    (h : readExt l7 rest = some (len, e, r)) : readExt l7 (rest ++ x) = some (len, e, r ++ x) := by
  unfold readExt at *
  split at h
  · split at h
    · cases h
    · rename_i a r' ht
      cases h
      simp [takeN_append x ht, *]
  · split at h
    · split at h
      · cases h
      · rename_i a r' ht
        cases h
        simp [takeN_append x ht, *, Gen.Ws.len64Marker, Gen.Ws.len16Marker]
    · cases h; simp [*]

theorem readExt_spec {l7 : Nat} {rest : Bytes} {len e : Nat} {r : Bytes}
    (h : readExt l7 rest = some (len, e, r)) : rest.length = e + r.length ∧ e ≤ 8 ∧ (l7 < 128 → len < 2 ^ 64) := by
  unfold readExt at h
  split at h
  · split at h
    · cases h
    · rename_i a r' ht
      cases h
      obtain ⟨h1, h2⟩ := takeN_some ht
      have := beNat_lt a
      rw [h1] at this
      subst h2
      simp; omega
  · split at h
    · split at h
      · cases h
      · rename_i a r' ht
        cases h
        obtain ⟨h1, h2⟩ := takeN_some ht
        have := beNat_lt a
        rw [h1] at this
        subst h2
        simp; omega
    · cases h; simp; omega

theorem readKey_append {m : Bool} {r1 : Bytes} {k : Bytes} {e : Nat} {r : Bytes} (x : Bytes)
    (h : readKey m r1 = some (k, e, r)) : readKey m (r1 ++ x) = some (k, e, r ++ x) := by
  unfold readKey at *
  split at h
  · split at h
    · cases h
    · rename_i a r' ht
      cases h
      simp [takeN_append x ht, *]
  · cases h; simp [*]

theorem readKey_spec {m : Bool} {r1 : Bytes} {k : Bytes} {e : Nat} {r : Bytes}
    (h : readKey m r1 = some (k, e, r)) : r1.length = e + r.length ∧ e ≤ 4 ∧ k.length = 4 := by
  unfold readKey at h
  split at h
  · split at h
    · cases h
    · rename_i a r' ht
      cases h
      obtain ⟨h1, h2⟩ := takeN_some ht
      subst h2
      simp [h1]
  · cases h; simp [zeroKey]

/-- first byte carries no RSV bit (or the buffer is empty) -/
def NoRsv : Bytes → Prop
  | [] => True
  | b0 :: _ => (b0.toNat / 16) % 8 = 0

/-- **Extension stability**: once `parse` has an answer other than "incomplete", more bytes do not change it. -/
theorem parse_stable (max : Nat) (d x : Bytes) (hr : NoRsv d) (h : parse max d ≠ .incomplete) :
    parse max (d ++ x) = parse max d := by
  match d, hr with
  | [], _ => simp [parse] at h
  | [_], _ => simp [parse] at h
  | b0 :: b1 :: rest, hr =>
    simp only [NoRsv] at hr
    simp only [List.cons_append, parse, hr, ne_eq, not_true_eq_false, ↓reduceIte] at h ⊢
    split
    · rfl
    · rename_i hc
      simp only [hc] at h
      cases he : readExt (b1.toNat % 128) rest with
      | none => simp [he] at h
      | some v =>
        obtain ⟨len, e, r1⟩ := v
        simp only [he, readExt_append x he] at h ⊢
        split
        · rfl
        · rename_i hm
          simp only [hm, ↓reduceIte] at h
          cases hk : readKey (decide (b1.toNat ≥ 128)) r1 with
          | none => simp [hk] at h
          | some w =>
            obtain ⟨k, ke, r2⟩ := w
            simp only [hk, readKey_append x hk] at h ⊢
            cases ht : takeN len r2 with
            | none => simp [ht] at h
            | some u =>
              obtain ⟨pl, r3⟩ := u
              simp only [takeN_append x ht]

/-- a returned frame lies inside the buffer: consumed ≤ size, and the allocation (payload) ≤ available and ≤ max -/
theorem parse_frame_bounds (max : Nat) (d : Bytes) (f : Frame) (n : Nat) (h : parse max d = .frame f n) :
    2 ≤ n ∧ n ≤ d.length ∧ f.payload.length + 2 ≤ n ∧ f.payload.length ≤ max := by
  match d with
  | [] => simp [parse] at h
  | [_] => simp [parse] at h
  | b0 :: b1 :: rest =>
    simp only [parse] at h
    split at h
    · cases h; simp
    · split at h
      · cases h
      · cases he : readExt (b1.toNat % 128) rest with
        | none => simp [he] at h
        | some v =>
          obtain ⟨len, e, r1⟩ := v
          simp only [he] at h
          split at h
          · cases h
          · rename_i hm
            cases hk : readKey (decide (b1.toNat ≥ 128)) r1 with
            | none => simp [hk] at h
            | some w =>
              obtain ⟨k, ke, r2⟩ := w
              simp only [hk] at h
              cases ht : takeN len r2 with
              | none => simp [ht] at h
              | some u =>
                obtain ⟨pl, r3⟩ := u
                simp only [ht] at h
                cases h
                obtain ⟨h1, h2⟩ := takeN_some ht
                obtain ⟨h3, _, _⟩ := readExt_spec he
                obtain ⟨h4, _, _⟩ := readKey_spec hk
                subst h2
                simp only [List.length_append] at h4
                have : (if decide (b1.toNat ≥ 128) = true then xorMask k pl else pl).length = len := by
                  split <;> simp [xorMask_length, h1]
                simp only [this, List.length_cons]
                omega

/-- an incomplete buffer is short: fewer than `14 + max` bytes -/
theorem parse_incomplete_short (max : Nat) (d : Bytes) (hr : NoRsv d) (h : parse max d = .incomplete) :
    d.length < 14 + max := by
  match d, hr with
  | [], _ => simp; omega
  | [_], _ => simp; omega
  | b0 :: b1 :: rest, hr =>
    simp only [NoRsv] at hr
    simp only [parse, hr, ne_eq, not_true_eq_false, ↓reduceIte] at h
    split at h
    · cases h
    · cases he : readExt (b1.toNat % 128) rest with
      | none =>
        -- the extended length itself is incomplete: fewer than 8 bytes after the 2-byte header
        unfold readExt at he
        split at he
        · split at he
          · rename_i ht; unfold takeN at ht; split at ht
            · simp; omega
            · cases ht
          · cases he
        · split at he
          · split at he
            · rename_i ht; unfold takeN at ht; split at ht
              · simp; omega
              · cases ht
            · cases he
          · cases he
      | some v =>
        obtain ⟨len, e, r1⟩ := v
        simp only [he] at h
        split at h
        · cases h
        · rename_i hm
          obtain ⟨h3, he8, _⟩ := readExt_spec he
          cases hk : readKey (decide (b1.toNat ≥ 128)) r1 with
          | none =>
            unfold readKey at hk
            split at hk
            · split at hk
              · rename_i ht; unfold takeN at ht; split at ht
                · simp; omega
                · cases ht
              · cases hk
            · cases hk
          | some w =>
            obtain ⟨k, ke, r2⟩ := w
            simp only [hk] at h
            obtain ⟨h4, hk4, _⟩ := readKey_spec hk
            cases ht : takeN len r2 with
            | none =>
              unfold takeN at ht; split at ht
              · simp; omega
              · cases ht
            | some u => simp [ht] at h

end Iora.Ws

namespace Iora.Ws
open Iora

theorem serialize_head (f : Frame) :
    ∃ t, serialize f = b8 (f.opcode + (if f.fin then 128 else 0)) :: t := by
  unfold serialize
  simp only
  split <;> split <;> (try split) <;> simp

theorem noRsv_of_prefix_serialize (f : Frame) (h : f.WF) (p x : Bytes) (hp : p ++ x = serialize f) : NoRsv p := by
  obtain ⟨t, ht⟩ := serialize_head f
  rw [ht] at hp
  match p with
  | [] => trivial
  | b0 :: p' =>
    simp only [List.cons_append, List.cons.injEq] at hp
    obtain ⟨h0, _⟩ := hp
    subst h0
    simp only [NoRsv, b8_toNat]
    exact (hdr0 f.opcode f.fin h.op).2.1

theorem prefix_incomplete (max : Nat) (f : Frame) (h : f.WF) (hmax : f.payload.length ≤ max)
    (p x : Bytes) (hx : x ≠ []) (hp : p ++ x = serialize f) : parse max p = .incomplete := by
  apply Classical.byContradiction
  intro hne
  have hr := noRsv_of_prefix_serialize f h p x hp
  have hs := parse_stable max p x hr hne
  have hrt := roundtrip max f [] h hmax
  rw [List.append_nil, ← hp] at hrt
  rw [hrt] at hs
  have := parse_frame_bounds max p f (p ++ x).length hs.symm
  have hxl : 0 < x.length := List.length_pos_iff.mpr hx
  simp at this
  omega

end Iora.Ws
