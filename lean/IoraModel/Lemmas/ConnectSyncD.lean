import IoraModel.Lemmas.ConnectSyncBase
namespace Iora.ConnectSync
set_option linter.unusedSimpArgs false
set_option linter.unusedVariables false

theorem doWake_spur {s : State} (h : Inv s) (c sid : Nat) (a : Bool) (hpc : (s.callers c).pc = .parked sid a) (hl : s.lock = none) (hdn : (s.callers c).done = none) (hsd : s.shuttingDown = false) :
    Inv ({ s with callers := setC s.callers c { s.callers c with pc := .parked sid false } }) := by
  have hatt : att (s.callers c).pc = some sid := by simp [hpc, att]
  have hwt : waiting (s.callers c).pc = some sid := by simp [hpc, waiting]
  constructor
  case F_log => first | exact h.F_log | (pick h [F_log]; inv_grind [evSid])
  case F_att => first | exact h.F_att | (pick h [F_att]; inv_grind)
  case F_pend => first | exact h.F_pend | (pick h [F_pend]; inv_grind)
  case F_fifo => first | exact h.F_fifo | (pick h [F_fifo]; inv_grind [cmdSid])
  case F_eng => first | exact h.F_eng | (pick h [F_eng]; inv_grind)
  case F_io => first | exact h.F_io | (pick h [F_io]; inv_grind [ioSid])
  case U_att => first | exact h.U_att | (pick h [U_att]; inv_grind)
  case A_cr => first | exact h.A_cr | (pick h [A_cr]; inv_grind)
  case U_cr => first | exact h.U_cr | (pick h [U_cr]; inv_grind)
  case RC => first | exact h.RC | (pick h [RC]; inv_grind)
  case E2 => first | exact h.E2 | (pick h [E2]; inv_grind)
  case K => first | exact h.K | (pick h [K]; inv_grind)
  case S1 => first | exact h.S1 | (pick h [S1]; inv_grind)
  case REG => first | exact h.REG | (pick h [REG]; inv_grind)
  case ACC => first | exact h.ACC | (pick h [ACC]; inv_grind)
  case P1 => first | exact h.P1 | (pick h [P1]; inv_grind)
  case P2 => first | exact h.P2 | (pick h [P2]; inv_grind)
  case P3 => first | exact h.P3 | (pick h [P3]; inv_grind)
  case P4 => first | exact h.P4 | (pick h [P4]; inv_grind)
  case P5 => first | exact h.P5 | (pick h [P5]; inv_grind)
  case P8 => first | exact h.P8 | (pick h [P8]; inv_grind)
  case D1 => first | exact h.D1 | (pick h [D1]; inv_grind)
  case E3 => first | exact h.E3 | (pick h [E3]; inv_grind)
  case E5 => first | exact h.E5 | (pick h [E5]; inv_grind)
  case H1 => first | exact h.H1 | (pick h [H1]; inv_grind)
  case H2 => first | exact h.H2 | (pick h [H2]; inv_grind)
  case E1 => first | exact h.E1 | (pick h [E1]; inv_grind)
  case E6 => first | exact h.E6 | (pick h [E6]; inv_grind)
  case R1 => first | exact h.R1 | (pick h [R1]; inv_grind)
  case T1 => first | exact h.T1 | (pick h [T1]; inv_grind)
  case FIX => first | exact h.FIX | (pick h [FIX]; inv_grind)
  case T3a => first | exact h.T3a | (pick h [T3a]; inv_grind)
  case T6a => first | exact h.T6a | (pick h [T6a]; inv_grind)
  case T6b => first | exact h.T6b | (pick h [T6b]; inv_grind)
  case G1 => first | exact h.G1 | (pick h [G1]; inv_grind)
  case G2 => first | exact h.G2 | (pick h [G2]; inv_grind)
  case T4 => first | exact h.T4 | (pick h [T4]; inv_grind)
  case Q1 => first | exact h.Q1 | (pick h [Q1]; inv_grind)
  case Q3 => first | exact h.Q3 | (pick h [Q3]; inv_grind)
  case ORD => first | exact h.ORD | (pick h [ORD]; inv_grind)
  case W => first | exact h.W | (pick h [W]; inv_grind)

theorem doWake_done {s : State} (h : Inv s) (c sid : Nat) (a : Bool) (r : Res) (hpc : (s.callers c).pc = .parked sid a) (hl : s.lock = none) (hd : (s.callers c).done = some r) :
    Inv (ret { s with activeConnects := s.activeConnects - 1 } c (some sid) r) := by
  have hatt : att (s.callers c).pc = some sid := by simp [hpc, att]
  have hwt : waiting (s.callers c).pc = some sid := by simp [hpc, waiting]
  have hP4 := h.P4 c r hd
  rw [hpc] at hP4
  obtain ⟨sid', a', hP4a, hP4b, hP4c⟩ := hP4
  cases hP4a
  unfold ret
  constructor
  case F_log => first | exact h.F_log | (pick h [F_log, F_att]; ret_grind [evSid])
  case F_att => first | exact h.F_att | (pick h [F_att]; ret_grind)
  case F_pend => first | exact h.F_pend | (pick h [F_pend]; ret_grind)
  case F_fifo => first | exact h.F_fifo | (pick h [F_fifo]; ret_grind [cmdSid])
  case F_eng => first | exact h.F_eng | (pick h [F_eng]; ret_grind)
  case F_io => first | exact h.F_io | (pick h [F_io]; ret_grind [ioSid])
  case U_att => first | exact h.U_att | (pick h [U_att]; ret_grind)
  case A_cr => first | exact h.A_cr | (pick h [A_cr]; ret_grind)
  case U_cr => first | exact h.U_cr | (pick h [U_cr]; ret_grind)
  case RC => first | exact h.RC | (pick h [RC]; ret_grind)
  case E2 => first | exact h.E2 | (pick h [E2]; ret_grind)
  case K => first | exact h.K | (pick h [K]; ret_grind)
  case S1 => first | exact h.S1 | (pick h [S1]; ret_grind)
  case REG => first | exact h.REG | (pick h [REG]; ret_grind)
  case ACC => first | exact h.ACC | (pick h [ACC]; ret_grind)
  case P1 => first | exact h.P1 | (pick h [P1]; ret_grind)
  case P2 => first | exact h.P2 | (pick h [P2]; ret_grind)
  case P3 => first | exact h.P3 | (pick h [P3]; ret_grind)
  case P4 => first | exact h.P4 | (pick h [P4]; ret_grind)
  case P5 => first | exact h.P5 | (pick h [P5]; ret_grind)
  case P8 => first | exact h.P8 | (pick h [P8]; ret_grind)
  case D1 => first | exact h.D1 | (pick h [D1]; ret_grind)
  case E3 => first | exact h.E3 | (pick h [E3]; ret_grind)
  case E5 => first | exact h.E5 | (pick h [E5]; ret_grind)
  case H1 => first | exact h.H1 | (pick h [H1]; ret_grind)
  case H2 => first | exact h.H2 | (pick h [H2]; ret_grind)
  case E1 => first | exact h.E1 | (pick h [E1]; ret_grind)
  case E6 => first | exact h.E6 | (pick h [E6]; ret_grind)
  case R1 => first | exact h.R1 | (pick h [R1, A_cr]; ret_grind)
  case T1 => first | exact h.T1 | (pick h [T1, E2, U_cr, A_cr, E1]; ret_grind)
  case FIX => first | exact h.FIX | (pick h [FIX, P8]; ret_grind)
  case T3a => first | exact h.T3a | (pick h [T3a]; ret_grind)
  case T6a => first | exact h.T6a | (pick h [T6a]; ret_grind)
  case T6b => first | exact h.T6b | (pick h [T6b]; ret_grind)
  case G1 => first | exact h.G1 | (pick h [G1]; ret_grind)
  case G2 => first | exact h.G2 | (pick h [G2]; ret_grind)
  case T4 => first | exact h.T4 | (pick h [T4]; ret_grind)
  case Q1 => first | exact h.Q1 | (pick h [Q1]; ret_grind)
  case Q3 => first | exact h.Q3 | (pick h [Q3]; ret_grind)
  case ORD => first | exact h.ORD | (pick h [ORD]; ret_grind)
  case W => first | exact h.W | (pick h [W]; ret_grind)

theorem doWake_sd {s : State} (h : Inv s) (c sid : Nat) (a : Bool) (hpc : (s.callers c).pc = .parked sid a) (hl : s.lock = none) (hdn : (s.callers c).done = none) (hsd : s.shuttingDown = true) :
    Inv (ret { s with pend := setP s.pend sid (some { owner := c, abandoned := true }), activeConnects := s.activeConnects - 1 } c (some sid) (.err .shuttingDown)) := by
  have hatt : att (s.callers c).pc = some sid := by simp [hpc, att]
  have hwt : waiting (s.callers c).pc = some sid := by simp [hpc, waiting]
  have hp := h.P3 c sid hwt hdn
  unfold ret
  constructor
  case F_log => first | exact h.F_log | (pick h [F_log, F_att]; ret_grind [evSid])
  case F_att => first | exact h.F_att | (pick h [F_att]; ret_grind)
  case F_pend => first | exact h.F_pend | (pick h [F_pend]; ret_grind)
  case F_fifo => first | exact h.F_fifo | (pick h [F_fifo]; ret_grind [cmdSid])
  case F_eng => first | exact h.F_eng | (pick h [F_eng]; ret_grind)
  case F_io => first | exact h.F_io | (pick h [F_io]; ret_grind [ioSid])
  case U_att => first | exact h.U_att | (pick h [U_att]; ret_grind)
  case A_cr => first | exact h.A_cr | (pick h [A_cr]; ret_grind)
  case U_cr => first | exact h.U_cr | (pick h [U_cr]; ret_grind)
  case RC => first | exact h.RC | (pick h [RC]; ret_grind)
  case E2 => first | exact h.E2 | (pick h [E2]; ret_grind)
  case K => first | exact h.K | (pick h [K]; ret_grind)
  case S1 => first | exact h.S1 | (pick h [S1]; ret_grind)
  case REG => first | exact h.REG | (pick h [REG]; ret_grind)
  case ACC => first | exact h.ACC | (pick h [ACC]; ret_grind)
  case P1 => first | exact h.P1 | (pick h [P1]; ret_grind)
  case P2 => first | exact h.P2 | (pick h [P2]; ret_grind)
  case P3 => first | exact h.P3 | (pick h [P3]; ret_grind)
  case P4 => first | exact h.P4 | (pick h [P4]; ret_grind)
  case P5 => first | exact h.P5 | (pick h [P5]; ret_grind)
  case P8 => first | exact h.P8 | (pick h [P8]; ret_grind)
  case D1 => first | exact h.D1 | (pick h [D1]; ret_grind)
  case E3 => first | exact h.E3 | (pick h [E3]; ret_grind)
  case E5 => first | exact h.E5 | (pick h [E5]; ret_grind)
  case H1 => first | exact h.H1 | (pick h [H1]; ret_grind)
  case H2 => first | exact h.H2 | (pick h [H2]; ret_grind)
  case E1 => first | exact h.E1 | (pick h [E1]; ret_grind)
  case E6 => first | exact h.E6 | (pick h [E6]; ret_grind)
  case R1 => first | exact h.R1 | (pick h [R1, A_cr]; ret_grind)
  case T1 => first | exact h.T1 | (pick h [T1]; ret_grind)
  case FIX => first | exact h.FIX | (pick h [FIX, P8]; ret_grind)
  case T3a => first | exact h.T3a | (pick h [T3a]; ret_grind)
  case T6a => first | exact h.T6a | (pick h [T6a]; ret_grind)
  case T6b => first | exact h.T6b | (pick h [T6b]; ret_grind)
  case G1 => first | exact h.G1 | (pick h [G1]; ret_grind)
  case G2 => first | exact h.G2 | (pick h [G2]; ret_grind)
  case T4 => first | exact h.T4 | (pick h [T4]; ret_grind)
  case Q1 => first | exact h.Q1 | (pick h [Q1]; ret_grind)
  case Q3 => first | exact h.Q3 | (pick h [Q3]; ret_grind)
  case ORD => first | exact h.ORD | (pick h [ORD]; ret_grind)
  case W => first | exact h.W | (pick h [W]; ret_grind)

theorem doWake_to {s : State} (h : Inv s) (c sid : Nat) (a : Bool) (hpc : (s.callers c).pc = .parked sid a) (hl : s.lock = none) (hdn : (s.callers c).done = none) (hsd : s.shuttingDown = false) :
    Inv ({ s with pend := setP s.pend sid (some { owner := c, abandoned := true }), callers := setC s.callers c { s.callers c with pc := .closing sid } }) := by
  have hatt : att (s.callers c).pc = some sid := by simp [hpc, att]
  have hwt : waiting (s.callers c).pc = some sid := by simp [hpc, waiting]
  have hp := h.P3 c sid hwt hdn
  constructor
  case F_log => first | exact h.F_log | (pick h [F_log]; inv_grind [evSid])
  case F_att => first | exact h.F_att | (pick h [F_att]; inv_grind)
  case F_pend => first | exact h.F_pend | (pick h [F_pend]; inv_grind)
  case F_fifo => first | exact h.F_fifo | (pick h [F_fifo]; inv_grind [cmdSid])
  case F_eng => first | exact h.F_eng | (pick h [F_eng]; inv_grind)
  case F_io => first | exact h.F_io | (pick h [F_io]; inv_grind [ioSid])
  case U_att => first | exact h.U_att | (pick h [U_att]; inv_grind)
  case A_cr => first | exact h.A_cr | (pick h [A_cr]; inv_grind)
  case U_cr => first | exact h.U_cr | (pick h [U_cr]; inv_grind)
  case RC => first | exact h.RC | (pick h [RC]; inv_grind)
  case E2 => first | exact h.E2 | (pick h [E2]; inv_grind)
  case K => first | exact h.K | (pick h [K]; inv_grind)
  case S1 => first | exact h.S1 | (pick h [S1]; inv_grind)
  case REG => first | exact h.REG | (pick h [REG]; inv_grind)
  case ACC => first | exact h.ACC | (pick h [ACC]; inv_grind)
  case P1 => first | exact h.P1 | (pick h [P1]; inv_grind)
  case P2 => first | exact h.P2 | (pick h [P2]; inv_grind)
  case P3 => first | exact h.P3 | (pick h [P3]; inv_grind)
  case P4 => first | exact h.P4 | (pick h [P4]; inv_grind)
  case P5 => first | exact h.P5 | (pick h [P5]; inv_grind)
  case P8 => first | exact h.P8 | (pick h [P8]; inv_grind)
  case D1 => first | exact h.D1 | (pick h [D1]; inv_grind)
  case E3 => first | exact h.E3 | (pick h [E3]; inv_grind)
  case E5 => first | exact h.E5 | (pick h [E5]; inv_grind)
  case H1 => first | exact h.H1 | (pick h [H1]; inv_grind)
  case H2 => first | exact h.H2 | (pick h [H2]; inv_grind)
  case E1 => first | exact h.E1 | (pick h [E1]; inv_grind)
  case E6 => first | exact h.E6 | (pick h [E6]; inv_grind)
  case R1 => first | exact h.R1 | (pick h [R1]; inv_grind)
  case T1 => first | exact h.T1 | (pick h [T1]; inv_grind)
  case FIX => first | exact h.FIX | (pick h [FIX]; inv_grind)
  case T3a => first | exact h.T3a | (pick h [T3a]; inv_grind)
  case T6a => first | exact h.T6a | (pick h [T6a]; inv_grind)
  case T6b => first | exact h.T6b | (pick h [T6b]; inv_grind)
  case G1 => first | exact h.G1 | (pick h [G1]; inv_grind)
  case G2 => first | exact h.G2 | (pick h [G2]; inv_grind)
  case T4 => first | exact h.T4 | (pick h [T4]; inv_grind)
  case Q1 => first | exact h.Q1 | (pick h [Q1]; inv_grind)
  case Q3 => first | exact h.Q3 | (pick h [Q3]; inv_grind)
  case ORD => first | exact h.ORD | (pick h [ORD]; inv_grind)
  case W => first | exact h.W | (pick h [W]; inv_grind)

theorem doWake_inv {s : State} (h : Inv s) (c : Nat) (t : Bool) : Inv (doWake s c t) := by
  unfold doWake
  split
  · rename_i sid a hpc hl
    split
    · unfold afterWait
      dsimp only
      split
      · rename_i r hd; exact doWake_done h c sid a r hpc hl hd
      · rename_i hdn
        have hp := h.P3 c sid (by simp [hpc, waiting]) hdn
        simp only [hp]
        split
        · rename_i hsd; exact doWake_sd h c sid a hpc hl hdn hsd
        · rename_i hsd; exact doWake_to h c sid a hpc hl hdn (by simpa using hsd)
    · rename_i hcond
      simp at hcond
      exact doWake_spur h c sid a hpc hl (by simpa using hcond.1.1) hcond.1.2
  · exact h


end Iora.ConnectSync
