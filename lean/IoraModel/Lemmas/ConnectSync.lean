import IoraModel.Lemmas.ConnectSyncA
import IoraModel.Lemmas.ConnectSyncB
import IoraModel.Lemmas.ConnectSyncC
import IoraModel.Lemmas.ConnectSyncD
import IoraModel.Lemmas.ConnectSyncE
import IoraModel.Lemmas.ConnectSyncF
import IoraModel.Lemmas.ConnectSyncR
/-! Invariants of the C04 model (`Model/ConnectSync.lean`), preserved by every step of every schedule.

The definitions, the invariant `Inv`, `Inv_init` and the helper lemmas/tactics are in `Lemmas/ConnectSyncBase.lean`; the sixteen
per-step preservation lemmas `doX_inv` (each assembled from one lemma per branch of the step function) are in
`Lemmas/ConnectSyncA.lean` … `ConnectSyncF.lean`. -/
namespace Iora.ConnectSync
set_option linter.unusedSimpArgs false
set_option linter.unusedVariables false

theorem step_inv {s : State} (h : Inv s) (st : Step) : Inv (step s st) := by
  cases st with
  | call c w => exact doCall_inv h c w
  | cancel c => exact doCancel_inv h c
  | cEnter c => exact doEnter_inv h c
  | cConnect c => exact doConnect_inv h c
  | cRefuse c => exact doRefuse_inv h c
  | cRegister c => exact doRegister_inv h c
  | cPark c => exact doPark_inv h c
  | cWake c t => exact doWake_inv h c t
  | cClose c => exact doClose_inv h c
  | cRelock c => exact doRelock_inv h c
  | wLoop c d => exact doWLoop_inv h c d
  | ioPop b => exact doPop_inv h b
  | ioComplete sid => exact doComplete_inv h sid
  | ioFail sid => exact doFail_inv h sid
  | ioPeerClose sid => exact doPeerClose_inv h sid
  | timerClose sid => exact doFail_inv h sid
  | ioStep => exact doIoStep_inv h
  | fence => exact doFence_inv h

theorem run_inv : ∀ (steps : List Step) (s : State), Inv s → Inv (run s steps) := by
  intro steps
  induction steps with
  | nil => intro s h; exact h
  | cons st rest ih => intro s h; exact ih _ (step_inv h st)

theorem reachable_inv (steps : List Step) : Inv (run init steps) := run_inv steps init Inv_init

/-! ## small computations used by the step-bound theorems of `Props/C04.lean` -/
theorem ret_returned (s : State) (c : Nat) (o : Option Nat) (r : Res) :
    ((ret s c o r).callers c).pc = .finished ∨ ((ret s c o r).callers c).pc = .wloop := by
  simp only [ret, setC_same]
  exact retPc_cases _ _

theorem doClose_of_returned (s : State) (c : Nat) (h : (s.callers c).pc = .finished ∨ (s.callers c).pc = .wloop) :
    doClose s c = s := by
  unfold doClose
  rcases h with h | h <;> simp [h]

theorem doRelock_of_returned (s : State) (c : Nat) (h : (s.callers c).pc = .finished ∨ (s.callers c).pc = .wloop) :
    doRelock s c = s := by
  unfold doRelock
  rcases h with h | h <;> simp [h]

end Iora.ConnectSync
