import IoraModel.Model.TimingWheel
/-!
Helper lemmas about `Model/TimingWheel.lean` (property C08).

The central notion is the multiset of `(id, deadline)` pairs of the linked entries (`keys`): every internal wheel
operation (`insertEntry`, the detach/re-insert loops of `collectFromBucket` and `cascadeDown`, the tick loop of
`advance`) only moves entries between buckets or hands them to `toFire`, so `keys (entries ++ fired)` is preserved
up to permutation.  Conservation (W1), cancel semantics (W2) and the deadline guards (W3, W5) are read off from that.
-/
namespace Iora.Wheel

def key (e : Entry) : Nat × Int := (e.id, e.deadline)

/-- `(id, deadline)` of everything a loop state `(wheel, toFire)` holds -/
def keysOf (s : Wheel × List Entry) : List (Nat × Int) := (s.1.entries ++ s.2).map key

def ids (w : Wheel) : List Nat := w.entries.map (·.id)

/-- the fields no internal wheel operation touches -/
structure SameCtl (w w' : Wheel) : Prop where
  nextId : w'.nextId = w.nextId
  accepting : w'.accepting = w.accepting
  state : w'.state = w.state
  curLen : w'.cur.length = w.cur.length

theorem SameCtl.refl (w : Wheel) : SameCtl w w := ⟨rfl, rfl, rfl, rfl⟩
theorem SameCtl.trans {a b c : Wheel} (h1 : SameCtl a b) (h2 : SameCtl b c) : SameCtl a c :=
  ⟨h2.nextId.trans h1.nextId, h2.accepting.trans h1.accepting, h2.state.trans h1.state, h2.curLen.trans h1.curLen⟩

/-- an entry may be handed to `fireCallback` at `now`: level 0 at most one tick early, higher levels not early at all -/
def Due (c : Cfg) (now : Int) (e : Entry) : Prop :=
  (e.level = 0 ∧ e.deadline - now ≤ c.tick * nsPerMs) ∨ (0 < e.level ∧ e.deadline ≤ now)

theorem Due.not_early {c : Cfg} {now : Int} {e : Entry} (h0 : 0 ≤ c.tick) (h : Due c now e) :
    e.deadline - now ≤ c.tick * nsPerMs := by
  rcases h with ⟨_, h⟩ | ⟨_, h⟩
  · exact h
  · have : 0 ≤ c.tick * nsPerMs := Int.mul_nonneg h0 (by decide)
    omega

/-! ### `insertEntry` -/

theorem climb_lt (c : Cfg) : ∀ (f lvl t : Nat), lvl < c.levels → (climb c f lvl t).1 < c.levels
  | 0, _, _, h => h
  | f + 1, lvl, t, h => by
    unfold climb
    split
    · rename_i hc
      exact climb_lt c f (lvl + 1) (t / c.slots) hc.1
    · exact h

theorem insertEntry_spec (c : Cfg) (w : Wheel) (id : Nat) (dl d : Int) :
    ∃ l b, insertEntry c w id dl d = { w with entries := w.entries ++ [⟨id, dl, l, b⟩] } ∧ (0 < c.levels → l < c.levels) := by
  unfold insertEntry
  simp only
  split
  · exact ⟨0, _, rfl, fun h => h⟩
  · exact ⟨_, _, rfl, fun h => climb_lt c _ _ _ h⟩

theorem insertEntry_ctl (c : Cfg) (w : Wheel) (id : Nat) (dl d : Int) : SameCtl w (insertEntry c w id dl d) := by
  obtain ⟨l, b, h, _⟩ := insertEntry_spec c w id dl d
  rw [h]; exact ⟨rfl, rfl, rfl, rfl⟩

theorem insertEntry_la (c : Cfg) (w : Wheel) (id : Nat) (dl d : Int) : (insertEntry c w id dl d).lastAdvance = w.lastAdvance := by
  obtain ⟨l, b, h, _⟩ := insertEntry_spec c w id dl d
  rw [h]

theorem insertEntry_keys (c : Cfg) (w : Wheel) (id : Nat) (dl d : Int) :
    (insertEntry c w id dl d).entries.map key = w.entries.map key ++ [(id, dl)] := by
  obtain ⟨l, b, h, _⟩ := insertEntry_spec c w id dl d
  rw [h]; simp [key]

theorem insertEntry_levels (c : Cfg) (w : Wheel) (id : Nat) (dl d : Int) (hl : 0 < c.levels)
    (h : ∀ e ∈ w.entries, e.level < c.levels) : ∀ e ∈ (insertEntry c w id dl d).entries, e.level < c.levels := by
  obtain ⟨l, b, he, hlt⟩ := insertEntry_spec c w id dl d
  rw [he]
  intro e hm
  simp only [List.mem_append, List.mem_singleton] at hm
  rcases hm with hm | hm
  · exact h e hm
  · subst hm; exact hlt hl

/-! ### `unlink` -/

theorem unlink_some {id : Nat} : ∀ {l : List Entry} {x : Entry} {r : List Entry},
    unlink id l = some (x, r) → x.id = id ∧ x ∈ l ∧ l.Perm (x :: r) ∧ r.Sublist l
  | [], _, _, h => by simp [unlink] at h
  | e :: es, x, r, h => by
    unfold unlink at h
    split at h
    · rename_i he
      cases h
      exact ⟨he, List.mem_cons_self, List.Perm.refl _, List.sublist_cons_self _ _⟩
    · split at h
      · cases h
      · rename_i x' r' hu
        cases h
        obtain ⟨h1, h2, h3, h4⟩ := unlink_some hu
        exact ⟨h1, List.mem_cons_of_mem _ h2, ((List.Perm.cons e h3).trans (List.Perm.swap _ _ _)), h4.cons₂ e⟩

theorem unlink_none {id : Nat} : ∀ {l : List Entry}, unlink id l = none ↔ id ∉ l.map (·.id)
  | [] => by simp [unlink]
  | e :: es => by
    unfold unlink
    split
    · rename_i he
      simp [he]
    · rename_i he
      have ih := @unlink_none id es
      split
      · rename_i hu
        simp only [List.map_cons, List.mem_cons, not_or, true_iff]
        exact ⟨fun h => he h.symm, ih.mp hu⟩
      · rename_i x r hu
        simp only [List.map_cons, List.mem_cons, not_or, false_iff, reduceCtorEq]
        intro h
        rw [ih.mpr h.2] at hu
        cases hu

/-! ### the loop relation -/

/-- what one piece of `advance` may do to the loop state `(wheel, toFire)` -/
structure Tr (c : Cfg) (now : Int) (s s' : Wheel × List Entry) : Prop where
  perm : (keysOf s').Perm (keysOf s)
  due : ∀ e ∈ s'.2, e ∈ s.2 ∨ Due c now e
  ctl : SameCtl s.1 s'.1
  lvl : 0 < c.levels → (∀ e ∈ s.1.entries, e.level < c.levels) → ∀ e ∈ s'.1.entries, e.level < c.levels
  la : s'.1.lastAdvance = s.1.lastAdvance

theorem Tr.refl (c : Cfg) (now : Int) (s : Wheel × List Entry) : Tr c now s s :=
  ⟨List.Perm.refl _, fun _ h => Or.inl h, SameCtl.refl _, fun _ h => h, rfl⟩

theorem Tr.trans {c : Cfg} {now : Int} {a b d : Wheel × List Entry} (h1 : Tr c now a b) (h2 : Tr c now b d) : Tr c now a d :=
  ⟨h2.perm.trans h1.perm,
   fun e he => (h2.due e he).elim (fun h => h1.due e h) Or.inr,
   h1.ctl.trans h2.ctl,
   fun hl h => h2.lvl hl (h1.lvl hl h),
   h2.la.trans h1.la⟩

/-- the second loop of `collectFromBucket` / `cascadeDown` over a detached list `P` (all of whose entries satisfy `Q`):
`one` decides, per entry, between `toFire` (only if `Due`) and re-insertion -/
theorem fold_spec (c : Cfg) (now : Int) (one : Wheel × List Entry → Entry → Wheel × List Entry) (Q : Entry → Prop)
    (hone : ∀ s e, Q e → (one s e = (s.1, s.2 ++ [e]) ∧ Due c now e) ∨
                   (∃ d, one s e = (insertEntry c s.1 e.id e.deadline d, s.2))) :
    ∀ (P : List Entry) (s : Wheel × List Entry), (∀ e ∈ P, Q e) →
      (keysOf (P.foldl one s)).Perm (keysOf s ++ P.map key) ∧
      (∀ e ∈ (P.foldl one s).2, e ∈ s.2 ∨ Due c now e) ∧
      SameCtl s.1 (P.foldl one s).1 ∧
      (0 < c.levels → (∀ e ∈ s.1.entries, e.level < c.levels) → ∀ e ∈ (P.foldl one s).1.entries, e.level < c.levels) ∧
      (P.foldl one s).1.lastAdvance = s.1.lastAdvance
  | [], s, _ => by
    simp only [List.foldl_nil, List.map_nil, List.append_nil]
    exact ⟨List.Perm.refl _, fun _ h => Or.inl h, SameCtl.refl _, fun _ h => h, trivial⟩
  | e :: P, s, hQ => by
    simp only [List.foldl_cons]
    have hQ' : ∀ x ∈ P, Q x := fun x hx => hQ x (List.mem_cons_of_mem _ hx)
    rcases hone s e (hQ e List.mem_cons_self) with ⟨h, hd⟩ | ⟨d, h⟩
    · -- fired
      rw [h]
      obtain ⟨ih1, ih2, ih3, ih4, ih5⟩ := fold_spec c now one Q hone P (s.1, s.2 ++ [e]) hQ'
      refine ⟨?_, ?_, ih3, ih4, ih5⟩
      · refine ih1.trans ?_
        rw [List.perm_iff_count]
        intro a
        simp only [keysOf, List.map_append, List.map_cons, List.map_nil, List.count_append, List.count_cons, List.count_nil]
        omega
      · intro x hx
        rcases ih2 x hx with hx | hx
        · simp only [List.mem_append, List.mem_singleton] at hx
          rcases hx with hx | hx
          · exact Or.inl hx
          · subst hx; exact Or.inr hd
        · exact Or.inr hx
    · -- re-inserted
      rw [h]
      obtain ⟨ih1, ih2, ih3, ih4, ih5⟩ := fold_spec c now one Q hone P (insertEntry c s.1 e.id e.deadline d, s.2) hQ'
      refine ⟨?_, ?_, ?_, ?_, ?_⟩
      · refine ih1.trans ?_
        rw [List.perm_iff_count]
        intro a
        simp only [keysOf, List.map_append, insertEntry_keys, List.map_cons, List.map_nil, List.count_append, List.count_cons, List.count_nil, key]
        omega
      · intro x hx
        rcases ih2 x hx with hx | hx
        · exact Or.inl hx
        · exact Or.inr hx
      · exact (insertEntry_ctl c s.1 _ _ _).trans ih3
      · intro hl hs
        exact ih4 hl (insertEntry_levels c s.1 _ _ _ hl hs)
      · rw [ih5]; exact insertEntry_la c s.1 _ _ _

theorem collectOne_shape (c : Cfg) (now : Int) (s : Wheel × List Entry) (e : Entry) (h0 : e.level = 0) :
    (collectOne c now s e = (s.1, s.2 ++ [e]) ∧ Due c now e) ∨
    (∃ d, collectOne c now s e = (insertEntry c s.1 e.id e.deadline d, s.2)) := by
  unfold collectOne
  split
  · exact Or.inr ⟨_, rfl⟩
  · exact Or.inl ⟨rfl, Or.inl ⟨h0, by omega⟩⟩

theorem cascadeOne_shape (c : Cfg) (now : Int) (s : Wheel × List Entry) (e : Entry) (h0 : 0 < e.level) :
    (cascadeOne c now s e = (s.1, s.2 ++ [e]) ∧ Due c now e) ∨
    (∃ d, cascadeOne c now s e = (insertEntry c s.1 e.id e.deadline d, s.2)) := by
  unfold cascadeOne
  split
  · rename_i h; exact Or.inl ⟨rfl, Or.inr ⟨h0, h⟩⟩
  · exact Or.inr ⟨_, rfl⟩

/-! ### detach, `collectFromBucket`, `cascadeDown`, the tick loop, `advance` -/

theorem detach_keys (w : Wheel) (l b : Nat) (f : List Entry) :
    (keysOf ((detach w l b).2, f) ++ (detach w l b).1.map key).Perm (keysOf (w, f)) := by
  have h := ((List.filter_append_perm (inBucket l b) w.entries).map key)
  rw [List.perm_iff_count] at h ⊢
  intro a
  have ha := h a
  simp only [detach, keysOf, List.map_append, List.count_append] at ha ⊢
  omega

theorem detach_mem (w : Wheel) (l b : Nat) : ∀ e ∈ (detach w l b).1, e.level = l := by
  intro e he
  simp only [detach, List.mem_filter, inBucket, Bool.and_eq_true, beq_iff_eq] at he
  exact he.2.1

theorem detach_sub (w : Wheel) (l b : Nat) : ∀ e ∈ (detach w l b).2.entries, e ∈ w.entries := by
  intro e he
  simp only [detach, List.mem_filter] at he
  exact he.1

theorem bucket_tr (c : Cfg) (now : Int) (one : Wheel × List Entry → Entry → Wheel × List Entry) (l b : Nat)
    (hone : ∀ s e, e.level = l → (one s e = (s.1, s.2 ++ [e]) ∧ Due c now e) ∨
                   (∃ d, one s e = (insertEntry c s.1 e.id e.deadline d, s.2)))
    (s : Wheel × List Entry) :
    Tr c now s ((detach s.1 l b).1.foldl one ((detach s.1 l b).2, s.2)) := by
  obtain ⟨h1, h2, h3, h4, h5⟩ := fold_spec c now one (fun e => e.level = l) hone (detach s.1 l b).1 ((detach s.1 l b).2, s.2) (detach_mem s.1 l b)
  refine ⟨h1.trans (detach_keys s.1 l b s.2), h2, ?_, ?_, ?_⟩
  · exact (⟨rfl, rfl, rfl, rfl⟩ : SameCtl s.1 (detach s.1 l b).2).trans h3
  · intro hl hs
    exact h4 hl (fun e he => hs e (detach_sub s.1 l b e he))
  · rw [h5]; rfl

theorem collectFromBucket_tr (c : Cfg) (now : Int) (s : Wheel × List Entry) : Tr c now s (collectFromBucket c now s) :=
  bucket_tr c now (collectOne c now) 0 _ (fun s e h => collectOne_shape c now s e h) s

theorem setCur_tr (c : Cfg) (now : Int) (w : Wheel) (f : List Entry) (l v : Nat) : Tr c now (w, f) (setCur w l v, f) :=
  ⟨List.Perm.refl _, fun _ h => Or.inl h, ⟨rfl, rfl, rfl, by simp [setCur]⟩, fun _ h => h, rfl⟩

theorem cascadeDown_tr (c : Cfg) (now : Int) : ∀ (fuel lvl : Nat) (s : Wheel × List Entry), 0 < lvl → Tr c now s (cascadeDown c now fuel lvl s)
  | 0, _, s, _ => Tr.refl c now s
  | fuel + 1, lvl, s, hl => by
    unfold cascadeDown
    split
    · exact Tr.refl c now s
    · have h1 := bucket_tr c now (cascadeOne c now) lvl (curAt s.1 lvl % c.slots)
        (fun s e h => cascadeOne_shape c now s e (by omega)) s
      simp only
      generalize (List.foldl (cascadeOne c now) ((detach s.1 lvl (curAt s.1 lvl % c.slots)).2, s.2)
        (detach s.1 lvl (curAt s.1 lvl % c.slots)).1) = s1 at h1 ⊢
      have h2 := h1.trans (setCur_tr c now s1.1 s1.2 lvl (curAt s1.1 lvl + 1))
      split
      · exact h2.trans (cascadeDown_tr c now fuel (lvl + 1) _ (by omega))
      · exact h2

theorem tickOnce_tr (c : Cfg) (now : Int) (s : Wheel × List Entry) : Tr c now s (tickOnce c now s) := by
  unfold tickOnce
  have h1 := collectFromBucket_tr c now s
  simp only
  generalize collectFromBucket c now s = s1 at h1 ⊢
  have h2 := h1.trans (setCur_tr c now s1.1 s1.2 0 (curAt s1.1 0 + 1))
  split
  · exact h2.trans (cascadeDown_tr c now c.levels 1 _ (by omega))
  · exact h2

theorem tickLoop_tr (c : Cfg) (now : Int) : ∀ (n : Nat) (s : Wheel × List Entry), Tr c now s (tickLoop c now n s)
  | 0, s => Tr.refl c now s
  | n + 1, s => (tickOnce_tr c now s).trans (tickLoop_tr c now n _)

/-- `advance` as a whole: nothing is lost or duplicated, deadlines are untouched, every fired entry passed its guard -/
theorem advance_spec (c : Cfg) (w : Wheel) (now : Int) :
    (((advance c w now).1.entries ++ (advance c w now).2).map key).Perm (w.entries.map key) ∧
    (∀ e ∈ (advance c w now).2, Due c now e) ∧
    SameCtl w (advance c w now).1 ∧
    (0 < c.levels → (∀ e ∈ w.entries, e.level < c.levels) → ∀ e ∈ (advance c w now).1.entries, e.level < c.levels) ∧
    (advance c w now).1.lastAdvance = some now := by
  have h := tickLoop_tr c now (ticksToProcess c w now) ({ w with lastAdvance := some now }, [])
  refine ⟨?_, ?_, ?_, ?_, ?_⟩
  · have := h.perm
    simpa [keysOf, advance] using this
  · intro e he
    rcases h.due e he with h' | h'
    · cases h'
    · exact h'
  · exact (⟨rfl, rfl, rfl, rfl⟩ : SameCtl w { w with lastAdvance := some now }).trans h.ctl
  · exact fun hl hs => h.lvl hl hs
  · exact h.la

/-! ### histories -/

theorem issued_snoc (h : Hist) (x : Op × Out) : issued (h ++ [x]) = issued h ++ issuedOf x := by simp [issued]
theorem left_snoc (h : Hist) (x : Op × Out) : left (h ++ [x]) = left h ++ leftOf x := by simp [left]
theorem fired_snoc (h : Hist) (x : Op × Out) : fired (h ++ [x]) = fired h ++ firedOf x := by simp [fired]
theorem lastDeadline_snoc (h : Hist) (x : Op × Out) : lastDeadline (h ++ [x]) = deadlineUpd (lastDeadline h) x := by
  simp [lastDeadline, List.foldl_append]

theorem insertSorted_perm (e : Entry) : ∀ l : List Entry, (insertSorted e l).Perm (e :: l)
  | [] => List.Perm.refl _
  | x :: xs => by
    unfold insertSorted
    split
    · exact List.Perm.refl _
    · exact ((insertSorted_perm e xs).cons x).trans (List.Perm.swap _ _ _)

theorem sortByDeadline_perm : ∀ l : List Entry, (sortByDeadline l).Perm l
  | [] => List.Perm.refl _
  | x :: xs => by
    show (insertSorted x (sortByDeadline xs)).Perm (x :: xs)
    exact (insertSorted_perm x _).trans ((sortByDeadline_perm xs).cons x)

/-- the entries `drain` hands out are exactly the linked entries -/
theorem drain_perm (w : Wheel) (now : Int) (b : Nat) :
    ((drain w now b).2.fired ++ (drain w now b).2.remaining ++ (drain w now b).2.cancelled).Perm w.entries := by
  simp only [drain, List.take_append_drop]
  exact (List.filter_append_perm _ _).trans (sortByDeadline_perm _)

theorem drain_fired_due (w : Wheel) (now : Int) (b : Nat) : ∀ e ∈ (drain w now b).2.fired, e ∈ w.entries ∧ e.deadline ≤ now := by
  intro e he
  simp only [drain] at he
  have h1 := (List.take_sublist b _).subset he
  simp only [List.mem_filter, decide_eq_true_eq] at h1
  exact ⟨(sortByDeadline_perm _).subset h1.1, h1.2⟩

/-- invariant of every reachable `(wheel, history)` -/
structure Inv (c : Cfg) (w : Wheel) (h : Hist) : Prop where
  /-- conservation: pending ids and ids that left are exactly the issued ids -/
  perm : (ids w ++ left h).Perm (issued h)
  nodup : (issued h).Nodup
  fresh : ∀ i ∈ issued h, 0 < i ∧ i < w.nextId
  pos : 0 < w.nextId
  /-- every linked entry carries the deadline its latest successful (re)schedule asked for -/
  dl : ∀ e ∈ w.entries, lastDeadline h e.id = some e.deadline
  curLen : w.cur.length = c.levels
  lvl : 0 < c.levels → ∀ e ∈ w.entries, e.level < c.levels
  acc : w.accepting = true → w.state = .running

theorem Inv.init (c : Cfg) : Inv c (Wheel.init c) [] :=
  ⟨by simp [ids, Wheel.init, left, issued], by simp [issued], by simp [issued], by simp [Wheel.init],
   by simp [Wheel.init], by simp [Wheel.init], by simp [Wheel.init], by simp [Wheel.init]⟩

theorem Inv.ids_nodup {c : Cfg} {w : Wheel} {h : Hist} (i : Inv c w h) : (ids w ++ left h).Nodup :=
  i.perm.nodup_iff.mpr i.nodup

theorem Inv.ids_lt {c : Cfg} {w : Wheel} {h : Hist} (i : Inv c w h) : ∀ x ∈ ids w, x < w.nextId :=
  fun x hx => (i.fresh x (i.perm.subset (List.mem_append_left _ hx))).2

/-- a step whose answer is neither an id nor a successful reschedule leaves `lastDeadline` alone -/
theorem deadlineUpd_other (d : Nat → Option Int) (x : Op × Out)
    (h1 : ∀ n, x.2 ≠ .id n) (h2 : x.2 ≠ .bool true) : deadlineUpd d x = d := by
  obtain ⟨op, out⟩ := x
  cases out with
  | id n => exact absurd rfl (h1 n)
  | bool b =>
    cases b
    · cases op <;> rfl
    · exact absurd rfl h2
  | ok => cases op <;> rfl
  | fired es => cases op <;> rfl
  | drained d => cases op <;> rfl
  | cleared es => cases op <;> rfl

theorem ids_perm_of_keys {A B : List Entry} (h : (A.map key).Perm (B.map key)) : (A.map (·.id)).Perm (B.map (·.id)) := by
  have := h.map Prod.fst
  simpa [List.map_map, Function.comp_def, key] using this

theorem mem_of_keys {A B : List Entry} (h : (A.map key).Perm (B.map key)) {e : Entry} (he : e ∈ A) :
    ∃ e0 ∈ B, e0.id = e.id ∧ e0.deadline = e.deadline := by
  have : key e ∈ B.map key := h.subset (List.mem_map_of_mem he)
  obtain ⟨e0, h0, hk⟩ := List.mem_map.mp this
  simp only [key, Prod.mk.injEq] at hk
  exact ⟨e0, h0, hk.1, hk.2⟩

theorem inv_step (c : Cfg) (w : Wheel) (h : Hist) (op : Op) (i : Inv c w h) :
    Inv c (step c w op).1 (h ++ [(op, (step c w op).2)]) := by
  cases op with
  | start now =>
    simp only [step, start]
    split
    · exact ⟨by simpa [issued_snoc, left_snoc, issuedOf, leftOf, ids] using i.perm, by simpa [issued_snoc, issuedOf] using i.nodup,
             by simpa [issued_snoc, issuedOf] using i.fresh, i.pos,
             by rw [lastDeadline_snoc, deadlineUpd_other _ _ (by simp) (by simp)]; exact i.dl, i.curLen, i.lvl, fun _ => rfl⟩
    · exact ⟨by simpa [issued_snoc, left_snoc, issuedOf, leftOf, ids] using i.perm, by simpa [issued_snoc, issuedOf] using i.nodup,
             by simpa [issued_snoc, issuedOf] using i.fresh, i.pos,
             by rw [lastDeadline_snoc, deadlineUpd_other _ _ (by simp) (by simp)]; exact i.dl, i.curLen, i.lvl, i.acc⟩
  | sched now d =>
    simp only [step, schedule]
    split
    · -- refused
      exact ⟨by simpa [issued_snoc, left_snoc, issuedOf, leftOf, ids] using i.perm, by simpa [issued_snoc, issuedOf] using i.nodup,
             by simpa [issued_snoc, issuedOf] using i.fresh, i.pos,
             by rw [lastDeadline_snoc]; simpa [deadlineUpd] using i.dl, i.curLen, i.lvl, i.acc⟩
    · -- accepted with id = nextId
      have hpos := i.pos
      have hne : w.nextId ≠ 0 := by omega
      obtain ⟨l, b, he, hl⟩ := insertEntry_spec c { w with nextId := w.nextId + 1 } w.nextId (deadlineAfter now d) d
      simp only [he]
      refine ⟨?_, ?_, ?_, ?_, ?_, i.curLen, ?_, i.acc⟩
      · have hp := i.perm
        rw [List.perm_iff_count] at hp ⊢
        intro a
        have := hp a
        simp only [ids, issued_snoc, left_snoc, issuedOf, leftOf, hne, if_false, List.map_append, List.map_cons, List.map_nil,
          List.count_append, List.count_cons, List.count_nil, List.append_nil] at this ⊢
        omega
      · simp only [issued_snoc, issuedOf, hne, if_false]
        rw [List.nodup_append]
        refine ⟨i.nodup, by simp, ?_⟩
        intro a ha b hb
        simp only [List.mem_singleton] at hb
        have := (i.fresh a ha).2
        omega
      · intro x hx
        simp only [issued_snoc, issuedOf, hne, if_false, List.mem_append, List.mem_singleton] at hx
        rcases hx with hx | hx
        · have := i.fresh x hx
          exact ⟨this.1, by simp only; omega⟩
        · subst hx; exact ⟨hpos, by simp only; omega⟩
      · simp only; omega
      · intro e hm
        rw [lastDeadline_snoc]
        simp only [List.mem_append, List.mem_singleton] at hm
        simp only [deadlineUpd]
        rcases hm with hm | hm
        · have hlt := i.ids_lt e.id (List.mem_map_of_mem hm)
          have : ¬ (w.nextId ≠ 0 ∧ e.id = w.nextId) := by omega
          simp only [this, if_false]
          exact i.dl e hm
        · subst hm
          simp [hne]
      · intro hlv e hm
        simp only [List.mem_append, List.mem_singleton] at hm
        rcases hm with hm | hm
        · exact i.lvl hlv e hm
        · subst hm; exact hl hlv
  | cancel id =>
    simp only [step, cancel]
    split
    · -- not found
      exact ⟨by simpa [issued_snoc, left_snoc, issuedOf, leftOf, ids] using i.perm, by simpa [issued_snoc, issuedOf] using i.nodup,
             by simpa [issued_snoc, issuedOf] using i.fresh, i.pos,
             by rw [lastDeadline_snoc]; simpa [deadlineUpd] using i.dl, i.curLen, i.lvl, i.acc⟩
    · rename_i x rest hu
      obtain ⟨hx, hxm, hp, hsub⟩ := unlink_some hu
      refine ⟨?_, by simpa [issued_snoc, issuedOf] using i.nodup, by simpa [issued_snoc, issuedOf] using i.fresh, i.pos, ?_, i.curLen, ?_, i.acc⟩
      · have hp1 := i.perm
        have hp2 := hp.map (·.id)
        rw [List.perm_iff_count] at hp1 hp2 ⊢
        intro a
        have h1 := hp1 a
        have h2 := hp2 a
        simp only [ids, issued_snoc, left_snoc, issuedOf, leftOf, List.map_cons, List.count_append, List.count_cons, List.count_nil,
          List.append_nil, hx] at h1 h2 ⊢
        omega
      · intro e hm
        rw [lastDeadline_snoc]
        simp only [deadlineUpd]
        exact i.dl e (hsub.subset hm)
      · exact fun hlv e hm => i.lvl hlv e (hsub.subset hm)
  | resched now id d =>
    simp only [step, reschedule]
    split
    · exact ⟨by simpa [issued_snoc, left_snoc, issuedOf, leftOf, ids] using i.perm, by simpa [issued_snoc, issuedOf] using i.nodup,
             by simpa [issued_snoc, issuedOf] using i.fresh, i.pos,
             by rw [lastDeadline_snoc]; simpa [deadlineUpd] using i.dl, i.curLen, i.lvl, i.acc⟩
    · rename_i x rest hu
      obtain ⟨hx, hxm, hp, hsub⟩ := unlink_some hu
      obtain ⟨l, b, he, hl⟩ := insertEntry_spec c { w with entries := rest } id (deadlineAfter now d) d
      simp only [he]
      have hnd : (ids w).Nodup := (List.nodup_append.mp i.ids_nodup).1
      have hp2 := hp.map (·.id)
      have hnotin : id ∉ rest.map (·.id) := by
        have : ((x :: rest).map (·.id)).Nodup := hp2.nodup_iff.mp hnd
        simp only [List.map_cons, List.nodup_cons, hx] at this
        exact this.1
      refine ⟨?_, by simpa [issued_snoc, issuedOf] using i.nodup, by simpa [issued_snoc, issuedOf] using i.fresh, i.pos, ?_, i.curLen, ?_, i.acc⟩
      · have hp1 := i.perm
        rw [List.perm_iff_count] at hp1 hp2 ⊢
        intro a
        have h1 := hp1 a
        have h2 := hp2 a
        simp only [ids, issued_snoc, left_snoc, issuedOf, leftOf, List.map_cons, List.map_append, List.map_nil, List.count_append,
          List.count_cons, List.count_nil, List.append_nil, hx] at h1 h2 ⊢
        omega
      · intro e hm
        rw [lastDeadline_snoc]
        simp only [List.mem_append, List.mem_singleton] at hm
        simp only [deadlineUpd]
        rcases hm with hm | hm
        · have : e.id ≠ id := fun heq => hnotin (heq ▸ List.mem_map_of_mem hm)
          simp only [this, if_false]
          exact i.dl e (hsub.subset hm)
        · subst hm; simp
      · intro hlv e hm
        simp only [List.mem_append, List.mem_singleton] at hm
        rcases hm with hm | hm
        · exact i.lvl hlv e (hsub.subset hm)
        · subst hm; exact hl hlv
  | adv now =>
    simp only [step]
    obtain ⟨hk, _, hctl, hlv, _⟩ := advance_spec c w now
    have hidp := ids_perm_of_keys (A := (advance c w now).1.entries ++ (advance c w now).2) (B := w.entries) hk
    refine ⟨?_, by simpa [issued_snoc, issuedOf] using i.nodup, ?_, by rw [hctl.nextId]; exact i.pos, ?_, by rw [hctl.curLen]; exact i.curLen,
            fun hl => hlv hl (i.lvl hl), ?_⟩
    · have hp1 := i.perm
      rw [List.perm_iff_count] at hp1 hidp ⊢
      intro a
      have h1 := hp1 a
      have h2 := hidp a
      simp only [ids, issued_snoc, left_snoc, issuedOf, leftOf, List.map_append, List.count_append, List.append_nil] at h1 h2 ⊢
      omega
    · intro x hx
      rw [hctl.nextId]
      exact i.fresh x (by simpa [issued_snoc, issuedOf] using hx)
    · intro e hm
      rw [lastDeadline_snoc, deadlineUpd_other _ _ (by simp) (by simp)]
      obtain ⟨e0, h0, hid, hd⟩ := mem_of_keys hk (List.mem_append_left _ hm)
      rw [← hid, ← hd]
      exact i.dl e0 h0
    · rw [hctl.accepting, hctl.state]; exact i.acc
  | drain now b =>
    simp only [step]
    have hp := (drain_perm w now b).map (·.id)
    refine ⟨?_, by simpa [issued_snoc, issuedOf] using i.nodup, by simpa [issued_snoc, issuedOf, drain] using i.fresh, by simpa [drain] using i.pos,
            by simp [drain], by simpa [drain] using i.curLen, by simp [drain], by simp [drain]⟩
    have hp1 := i.perm
    rw [List.perm_iff_count] at hp1 hp ⊢
    intro a
    have h1 := hp1 a
    have h2 := hp a
    have h3 : ids (drain w now b).1 = [] := by simp [drain, ids]
    rw [h3]
    simp only [issued_snoc, left_snoc, issuedOf, leftOf, List.count_append, List.append_nil, List.count_nil, ids, List.map_append] at h1 h2 ⊢
    omega
  | stop =>
    simp only [step, stop]
    refine ⟨?_, by simpa [issued_snoc, issuedOf] using i.nodup, by simpa [issued_snoc, issuedOf] using i.fresh, i.pos,
            by simp, i.curLen, by simp, by simp⟩
    have hp1 := i.perm
    rw [List.perm_iff_count] at hp1 ⊢
    intro a
    have h1 := hp1 a
    simp only [issued_snoc, left_snoc, issuedOf, leftOf, List.count_append, List.append_nil, List.count_nil, ids, List.map_nil] at h1 ⊢
    omega

theorem inv_runFrom (c : Cfg) : ∀ (ops : List Op) (w : Wheel) (h : Hist), Inv c w h → Inv c (runFrom c w h ops).1 (runFrom c w h ops).2
  | [], _, _, i => i
  | op :: ops, w, h, i => inv_runFrom c ops _ _ (inv_step c w h op i)

theorem inv_run (c : Cfg) (ops : List Op) : Inv c (run c ops).1 (run c ops).2 := inv_runFrom c ops _ _ (Inv.init c)

theorem runFrom_trace (c : Cfg) : ∀ (ops : List Op) (w : Wheel) (h : Hist), (runFrom c w h ops).2 = h ++ trace c w ops
  | [], _, _ => by simp [runFrom, trace]
  | op :: ops, w, h => by
    simp only [runFrom, trace]
    rw [runFrom_trace c ops]
    simp

theorem runFrom_append (c : Cfg) : ∀ (a b : List Op) (w : Wheel) (h : Hist),
    runFrom c w h (a ++ b) = runFrom c (runFrom c w h a).1 (runFrom c w h a).2 b
  | [], _, _, _ => rfl
  | op :: a, b, w, h => by
    simp only [List.cons_append, runFrom]
    exact runFrom_append c a b _ _

theorem run_append (c : Cfg) (a b : List Op) : run c (a ++ b) = runFrom c (run c a).1 (run c a).2 b := runFrom_append c a b _ _

theorem firedOf_sub (x : Op × Out) : ∀ a ∈ firedOf x, a ∈ leftOf x := by
  obtain ⟨op, out⟩ := x
  intro a ha
  cases out with
  | fired es => cases op <;> exact ha
  | drained d =>
    cases op <;> (simp only [firedOf, leftOf, List.map_append, List.mem_append] at ha ⊢; exact Or.inl (Or.inl ha))
  | ok => cases op <;> simp [firedOf] at ha
  | id n => cases op <;> simp [firedOf] at ha
  | bool b => cases op <;> simp [firedOf] at ha
  | cleared es => cases op <;> simp [firedOf] at ha

theorem firedOf_count (x : Op × Out) (a : Nat) : (firedOf x).count a ≤ (leftOf x).count a := by
  obtain ⟨op, out⟩ := x
  cases out with
  | fired es => cases op <;> exact Nat.le_refl _
  | drained d =>
    cases op <;> (simp only [firedOf, leftOf, List.map_append, List.count_append]; omega)
  | ok => cases op <;> simp [firedOf]
  | id n => cases op <;> simp [firedOf]
  | bool b => cases op <;> simp [firedOf]
  | cleared es => cases op <;> simp [firedOf]

theorem fired_count_le (a : Nat) : ∀ h : Hist, (fired h).count a ≤ (left h).count a
  | [] => by simp [fired, left]
  | x :: h => by
    have ih := fired_count_le a h
    have hx := firedOf_count x a
    simp only [fired, left, List.flatMap_cons, List.count_append] at ih ⊢
    omega

theorem fired_sub_left (h : Hist) : ∀ a ∈ fired h, a ∈ left h := by
  intro a ha
  simp only [fired, left, List.mem_flatMap] at ha ⊢
  obtain ⟨x, hx, hax⟩ := ha
  exact ⟨x, hx, firedOf_sub x a hax⟩

/-! ### lifecycle -/

theorem schedule_refused (c : Cfg) (w : Wheel) (now d : Int) (h : w.accepting = false) : schedule c w now d = (w, 0) := by
  simp [schedule, h]

theorem stopped_step (c : Cfg) (w : Wheel) (op : Op) (h : w.state = .stopped) : (step c w op).1.state = .stopped := by
  cases op with
  | start now => simp [step, start, h]
  | sched now d =>
    simp only [step, schedule]
    split
    · exact h
    · rw [(insertEntry_ctl c _ _ _ _).state]; exact h
  | cancel id =>
    simp only [step, cancel]
    split <;> exact h
  | resched now id d =>
    simp only [step, reschedule]
    split
    · exact h
    · rw [(insertEntry_ctl c _ _ _ _).state]; exact h
  | adv now => simp only [step]; rw [(advance_spec c w now).2.2.1.state]; exact h
  | drain now b => simp [step, drain]
  | stop => simp [step, stop]

theorem stopped_runFrom (c : Cfg) : ∀ (ops : List Op) (w : Wheel) (h : Hist), w.state = .stopped → (runFrom c w h ops).1.state = .stopped
  | [], _, _, hs => hs
  | op :: ops, w, h, hs => stopped_runFrom c ops _ _ (stopped_step c w op hs)

theorem Inv.not_accepting_of_stopped {c : Cfg} {w : Wheel} {h : Hist} (i : Inv c w h) (hs : w.state = .stopped) : w.accepting = false := by
  cases ha : w.accepting
  · rfl
  · have := i.acc ha; rw [hs] at this; cases this

/-- a stopped, empty, non-accepting wheel stays empty whatever is called on it -/
theorem dead_step (c : Cfg) (w : Wheel) (op : Op) (hs : w.state = .stopped) (ha : w.accepting = false) (he : w.entries = []) :
    (step c w op).1.entries = [] ∧ (step c w op).1.accepting = false := by
  cases op with
  | start now => simp [step, start, hs, he, ha]
  | sched now d => simp [step, schedule, ha, he]
  | cancel id => simp [step, cancel, he, unlink, ha]
  | resched now id d => simp [step, reschedule, he, unlink, ha]
  | adv now =>
    obtain ⟨hk, _, hctl, _, _⟩ := advance_spec c w now
    rw [he] at hk
    have := hk.length_eq
    simp only [List.map_nil, List.length_nil, List.length_map, List.length_append] at this
    simp only [step]
    exact ⟨List.eq_nil_of_length_eq_zero (by omega), hctl.accepting.trans ha⟩
  | drain now b => simp [step, drain]
  | stop => simp [step, stop]

theorem dead_runFrom (c : Cfg) : ∀ (ops : List Op) (w : Wheel) (h : Hist), w.state = .stopped → w.accepting = false → w.entries = [] →
    (runFrom c w h ops).1.entries = [] ∧ (runFrom c w h ops).1.accepting = false
  | [], _, _, _, ha, he => ⟨he, ha⟩
  | op :: ops, w, h, hs, ha, he =>
    dead_runFrom c ops _ _ (stopped_step c w op hs) (dead_step c w op hs ha he).2 (dead_step c w op hs ha he).1

/-! ### fuel -/

/-- more fuel never changes `cascadeDown` once `fuel + level ≥ levels`: the fuel-0 exit is the `level >= _numWheels` exit -/
theorem cascadeDown_fuel (c : Cfg) (now : Int) : ∀ (fuel lvl : Nat) (s : Wheel × List Entry), c.levels ≤ fuel + lvl →
    cascadeDown c now (fuel + 1) lvl s = cascadeDown c now fuel lvl s
  | 0, lvl, s, h => by
    have : c.levels ≤ lvl := by omega
    simp [cascadeDown, this]
  | fuel + 1, lvl, s, h => by
    conv => lhs; rw [cascadeDown]
    conv => rhs; rw [cascadeDown]
    split
    · rfl
    · simp only
      split
      · exact cascadeDown_fuel c now fuel (lvl + 1) _ (by omega)
      · rfl

theorem climb_fuel (c : Cfg) : ∀ (f lvl t : Nat), c.levels ≤ f + lvl + 1 → climb c (f + 1) lvl t = climb c f lvl t
  | 0, lvl, t, h => by
    have : ¬ (lvl + 1 < c.levels ∧ c.slots ≤ t) := by omega
    simp [climb, this]
  | f + 1, lvl, t, h => by
    conv => lhs; rw [climb]
    conv => rhs; rw [climb]
    split
    · exact climb_fuel c f (lvl + 1) _ (by omega)
    · rfl

/-! ### `schedule()` racing `stop()` -/

namespace Race

/-- invariant of the two-thread program when the flag is re-tested under the lock -/
def Good (x : St) : Bool :=
  (decide (x.owner = some false) == (x.s == .retest || x.s == .insert)) &&
  (decide (x.owner = some true) == (x.t == .clear)) &&
  (x.t == .flag || !x.accepting) &&
  (!(x.s == .insert) || x.t == .flag || x.t == .lock) &&
  (!x.stored || !(x.t == .done))

theorem good_init : Good {} = true := by decide

theorem good_stepS : ∀ x : St, Good x = true → Good (stepS true x) = true := by
  intro ⟨s, t, a, o, st⟩
  cases s <;> cases t <;> cases a <;> cases st <;> rcases o with _ | _ | _ <;> decide

theorem good_stepT : ∀ x : St, Good x = true → Good (stepT x) = true := by
  intro ⟨s, t, a, o, st⟩
  cases s <;> cases t <;> cases a <;> cases st <;> rcases o with _ | _ | _ <;> decide

theorem good_run : ∀ (sched : List Bool) (x : St), Good x = true → Good (runSched true x sched) = true
  | [], _, h => h
  | b :: bs, x, h => by
    simp only [runSched]
    cases b
    · exact good_run bs _ (good_stepS x h)
    · exact good_run bs _ (good_stepT x h)

theorem good_safe : ∀ x : St, Good x = true → x.t = .done → x.stored = false := by
  intro ⟨s, t, a, o, st⟩
  cases s <;> cases t <;> cases a <;> cases st <;> rcases o with _ | _ | _ <;> decide

end Race

/-! ### the unrepaired cascade walk (F22) -/

def legacyCfg : Cfg := ⟨20, 8, 2⟩
def legacyE1 : Entry := ⟨1, 1500000000, 1, 0⟩
def legacyE2 : Entry := ⟨2, 1500000000, 1, 0⟩
/-- 20 ms x 8 x 2 wheel after 8 ticks, two timers due 1.5 s after start (beyond the 1.28 s span) in the level-1 bucket being walked -/
def legacyA : Wheel := { entries := [legacyE1, legacyE2], cur := [8, 0], accepting := true, state := .running }
def legacyB : Wheel := { entries := [legacyE2, legacyE1], cur := [8, 0], accepting := true, state := .running }

theorem legacy_stepA (f : Nat) : legacyWalk legacyCfg 160000000 1 0 (f + 1) legacyA (some 1) [] = legacyWalk legacyCfg 160000000 1 0 f legacyB (some 2) [] := rfl
theorem legacy_stepB (f : Nat) : legacyWalk legacyCfg 160000000 1 0 (f + 1) legacyB (some 2) [] = legacyWalk legacyCfg 160000000 1 0 f legacyA (some 1) [] := rfl

theorem legacy_livelock : ∀ f : Nat, legacyWalk legacyCfg 160000000 1 0 f legacyA (some 1) [] = none ∧
                                     legacyWalk legacyCfg 160000000 1 0 f legacyB (some 2) [] = none
  | 0 => ⟨rfl, rfl⟩
  | f + 1 => by
    rw [legacy_stepA, legacy_stepB]
    exact ⟨(legacy_livelock f).2, (legacy_livelock f).1⟩

end Iora.Wheel
