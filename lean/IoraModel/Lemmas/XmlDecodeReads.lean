import IoraModel.Lemmas.XmlEntities
set_option linter.unusedSimpArgs false
set_option linter.unusedVariables false
/-! The read-by-read versions of `decodeEntities` / `appendCharRef` (indexed partial reads under the C++ guards) equal the
data-directed ones: no read is out of range, no loop budget is exhausted. -/
namespace Iora.Xml
open Iora

theorem drop_cons_of_lt {xs : Bytes} {i : Nat} (h : i < xs.length) : xs.drop i = xs[i] :: xs.drop (i + 1) := by
  exact List.drop_eq_getElem_cons h

theorem hexLoopI_eq (ent : Bytes) : ∀ (fuel j : Nat) (code : UInt32), ent.length - j < fuel →
    hexLoopI ent fuel j code = .ok (hexAcc (ent.drop j) code) := by
  intro fuel
  induction fuel with
  | zero => intro j code h; omega
  | succ f ih =>
    intro j code h
    unfold hexLoopI
    by_cases hj : j < ent.length
    · simp only [hj, ↓reduceIte, List.getElem?_eq_getElem hj, drop_cons_of_lt hj, hexAcc]
      cases hexDigitVal ent[j] with
      | none => rfl
      | some v => exact ih (j + 1) _ (by omega)
    · simp only [hj, ↓reduceIte]
      rw [List.drop_eq_nil_of_le (by omega)]
      rfl

theorem decLoopI_eq (ent : Bytes) : ∀ (fuel j : Nat) (code : UInt32), ent.length - j < fuel →
    decLoopI ent fuel j code = .ok (decAcc (ent.drop j) code) := by
  intro fuel
  induction fuel with
  | zero => intro j code h; omega
  | succ f ih =>
    intro j code h
    unfold decLoopI
    by_cases hj : j < ent.length
    · simp only [hj, ↓reduceIte, List.getElem?_eq_getElem hj, drop_cons_of_lt hj, decAcc]
      split
      · rfl
      · exact ih (j + 1) _ (by omega)
    · simp only [hj, ↓reduceIte]
      rw [List.drop_eq_nil_of_le (by omega)]
      rfl

/-- `appendCharRef` read by read = `appendCharRef`: `entBody[1]` is in range because of the size test, the loops stop at the size -/
theorem appendCharRefI_eq (ent : Bytes) : appendCharRefI ent = .ok (appendCharRef ent) := by
  unfold appendCharRefI appendCharRef charRefCode
  match ent with
  | [] => simp
  | [_] => simp
  | a :: x :: r =>
    have h2 : ¬ ((a :: x :: r).length < 2) := by simp
    simp only [h2, ↓reduceIte, List.getElem?_cons_succ, List.getElem?_cons_zero]
    by_cases hx : (x = 0x78 || x = 0x58) = true
    · simp only [hx, ↓reduceIte]
      rw [hexLoopI_eq (a :: x :: r) _ 2 0 (by simp; omega)]
      simp only [List.drop_succ_cons, List.drop_zero]
      cases hexAcc r 0 <;> rfl
    · simp only [hx, Bool.false_eq_true, ↓reduceIte]
      rw [decLoopI_eq (a :: x :: r) _ 1 0 (by simp)]
      simp only [List.drop_succ_cons, List.drop_zero]
      cases decAcc (x :: r) 0 <;> rfl

/-- lift a `DecRes` of the data-directed loop: its `fuel` is the explicit loop's `fuel` -/
def DecRes.lift : DecRes → RdRes DecRes
  | .fuel => .fuel
  | r => .ok r

theorem decodeLoopI_eq (inp : Bytes) : ∀ (fuel i : Nat) (out : Bytes),
    decodeLoopI inp fuel i out = (decodeLoop fuel (inp.drop i) i out).lift := by
  intro fuel
  induction fuel with
  | zero => intro i out; rfl
  | succ f ih =>
    intro i out
    unfold decodeLoopI
    by_cases hi : i < inp.length
    · simp only [hi, ↓reduceIte, List.getElem?_eq_getElem hi, drop_cons_of_lt hi, decodeLoop]
      by_cases hch : inp[i] ≠ 0x26
      · simp only [hch, ne_eq, not_false_eq_true, ↓reduceIte]
        exact ih (i + 1) _
      · simp only [hch, ↓reduceIte]
        cases hf : findByte 0x3B (inp.drop (i + 1)) with
        | none => rfl
        | some k =>
          simp only
          have hdrop : (inp.drop (i + 1)).drop (k + 1) = inp.drop (i + k + 2) := by
            rw [List.drop_drop]; congr 1; omega
          cases hp : predefined ((inp.drop (i + 1)).take k) with
          | some b => simp only [hdrop]; exact ih _ _
          | none =>
            simp only
            cases hent : (inp.drop (i + 1)).take k with
            | nil => rfl
            | cons h t =>
              simp only [List.isEmpty_cons, Bool.not_false, ↓reduceIte, List.getElem?_cons_zero]
              by_cases hh : h = 0x23
              · subst hh
                simp only [↓reduceIte, appendCharRefI_eq]
                cases appendCharRef (0x23 :: t) with
                | none => rfl
                | some u => simp only [hdrop]; exact ih _ _
              · simp only [hh, ↓reduceIte]
                split
                · rename_i heq; simp only [List.cons.injEq] at heq; exact (hh heq.1).elim
                · rfl
    · simp only [hi, ↓reduceIte]
      rw [List.drop_eq_nil_of_le (by omega)]
      rfl

/-- **no out-of-range read in `decodeEntities` / `appendCharRef`**: the read-by-read decoder equals the data-directed one -/
theorem decodeEntitiesI_eq (inp : Bytes) : decodeEntitiesI inp = .ok (decodeEntities inp) := by
  unfold decodeEntitiesI decodeEntities
  rw [decodeLoopI_eq inp (inp.length + 1) 0 []]
  simp only [List.drop_zero]
  have := decodeLoop_ne_fuel (inp.length + 1) inp 0 []
  cases h : decodeLoop (inp.length + 1) inp 0 [] with
  | ok out => rfl
  | err e off => rfl
  | fuel => exact (this (by simp) h).elim

end Iora.Xml
