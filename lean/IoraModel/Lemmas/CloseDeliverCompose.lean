import IoraModel.Lemmas.CloseDeliver
import IoraModel.Lemmas.LifecycleCore
/-! Composition (C02): the engine model's "nothing after the close" (T3a, `AllFrom okClosed`) is the `EngineContract` the
Transport-level delivery theorem assumes, for every Transport history whose engine-originated ops are - in order, with any
payloads and any application calls in between - the callbacks of an engine trace. -/
namespace Iora.Deliver
open Iora.Lifecycle

/-- the shape of an engine-originated op: (is it the close?, id); application calls have none.  The engine's close callback is ONE
event and the handler is two ops: the engine's event is the moment the I/O thread ENTERS the handler, i.e. the half the source
variant `markFirst` runs first; the other half maps to nothing -/
def opShape (markFirst : Bool) : Op → Option (Bool × Sid)
  | .engAccept s => some (false, s)
  | .engConnect s => some (false, s)
  | .engData s _ => some (false, s)
  | .closeMark s => if markFirst then some (true, s) else none
  | .closeCbs s => if markFirst then none else some (true, s)
  | _ => none

/-- the shape of an engine callback in a trace of `Model/EngineLifecycle.lean` (`ret` is connect() returning, not a callback) -/
def outShape : Lifecycle.Out → Option (Bool × Sid)
  | .announce s _ => some (false, s)
  | .data s => some (false, s)
  | .close s _ => some (true, s)
  | .ret _ _ => none

/-- no accept / connect / data shape for an id in `cl` (closed so far) or after its close shape -/
def shapesOk : List Sid → List (Bool × Sid) → Prop
  | _, [] => True
  | cl, (c, s) :: r => (c = false → s ∉ cl) ∧ shapesOk (if c then s :: cl else cl) r

theorem contract_of_shapes (ops : List Op) : ∀ cl, shapesOk cl (ops.filterMap (opShape true)) →
    ∀ pre o post, ops = pre ++ o :: post → ∀ s, engSid o = some s → s ∉ cl ∧ Op.closeMark s ∉ pre := by
  induction ops with
  | nil => intro cl _ pre o post h; cases pre <;> cases h
  | cons op r ih =>
    intro cl hk pre o post h s hs
    cases pre with
    | nil =>
      simp only [List.nil_append, List.cons.injEq] at h
      obtain ⟨rfl, _⟩ := h
      cases op <;> simp [engSid] at hs <;> subst hs <;>
        (simp only [List.filterMap_cons, opShape, shapesOk] at hk; exact ⟨by simpa using hk.1, by simp⟩)
    | cons p pre' =>
      simp only [List.cons_append, List.cons.injEq] at h
      obtain ⟨rfl, h2⟩ := h
      cases op with
      | engAccept x =>
        simp only [List.filterMap_cons, opShape, shapesOk] at hk
        have h3 := ih _ hk.2 pre' o post h2 s hs
        exact ⟨by simpa using h3.1, by simpa using h3.2⟩
      | engConnect x =>
        simp only [List.filterMap_cons, opShape, shapesOk] at hk
        have h3 := ih _ hk.2 pre' o post h2 s hs
        exact ⟨by simpa using h3.1, by simpa using h3.2⟩
      | engData x b =>
        simp only [List.filterMap_cons, opShape, shapesOk] at hk
        have h3 := ih _ hk.2 pre' o post h2 s hs
        exact ⟨by simpa using h3.1, by simpa using h3.2⟩
      | closeMark x =>
        simp only [List.filterMap_cons, opShape, if_true, shapesOk] at hk
        have h3 := ih _ hk.2 pre' o post h2 s hs
        simp only [List.mem_cons, not_or] at h3
        refine ⟨h3.1.2, ?_⟩
        simp only [List.mem_cons, Op.closeMark.injEq, not_or]
        exact ⟨fun e => h3.1.1 e, h3.2⟩
      | closeCbs x =>
        simp only [List.filterMap_cons, opShape] at hk
        have h3 := ih _ hk pre' o post h2 s hs
        exact ⟨h3.1, by simpa using h3.2⟩
      | setMode x m =>
        simp only [List.filterMap_cons, opShape] at hk
        have h3 := ih _ hk pre' o post h2 s hs
        exact ⟨h3.1, by simpa using h3.2⟩
      | recv x n =>
        simp only [List.filterMap_cons, opShape] at hk
        have h3 := ih _ hk pre' o post h2 s hs
        exact ⟨h3.1, by simpa using h3.2⟩

theorem closesOf_snoc (pre : List Lifecycle.Out) (o : Lifecycle.Out) :
    closesOf (pre ++ [o]) = closesOf pre ++ (match closeSid o with | some s => [s] | none => []) := by
  simp only [closesOf, List.filterMap_append, List.filterMap_cons, List.filterMap_nil]
  cases closeSid o <;> rfl

theorem shapes_of_allFrom (tr : List Lifecycle.Out) : ∀ (pre : List Lifecycle.Out) (cl : List Sid),
    (∀ s ∈ cl, s ∈ closesOf pre) → AllFrom okClosed pre tr → shapesOk cl (tr.filterMap outShape) := by
  induction tr with
  | nil => intro _ _ _ _; trivial
  | cons o r ih =>
    intro pre cl hcl h
    obtain ⟨h1, h2⟩ := h
    cases o with
    | ret sid ok =>
      simp only [List.filterMap_cons, outShape]
      exact ih _ cl (fun s hs => by rw [closesOf_snoc]; simp [closeSid, hcl s hs]) h2
    | announce sid k =>
      simp only [List.filterMap_cons, outShape, shapesOk]
      refine ⟨fun _ hm => h1 sid rfl (hcl sid hm), ?_⟩
      exact ih _ cl (fun s hs => by rw [closesOf_snoc]; simp [closeSid, hcl s hs]) h2
    | data sid =>
      simp only [List.filterMap_cons, outShape, shapesOk]
      refine ⟨fun _ hm => h1 sid rfl (hcl sid hm), ?_⟩
      exact ih _ cl (fun s hs => by rw [closesOf_snoc]; simp [closeSid, hcl s hs]) h2
    | close sid site =>
      simp only [List.filterMap_cons, outShape, shapesOk]
      refine ⟨fun e => (by cases e), ?_⟩
      refine ih _ (sid :: cl) (fun s hs => ?_) h2
      rw [closesOf_snoc]
      simp only [closeSid, List.mem_append, List.mem_singleton]
      rcases List.mem_cons.mp hs with e | e
      · exact Or.inr e
      · exact Or.inl (hcl s e)

/-- every Transport history whose engine-originated ops are, in order, the callbacks of a trace with "nothing after the close"
honours the engine contract - whatever the payloads and whatever application calls are interleaved (also between the two halves
of a handler run).  Mark-first order: the engine's close event is the `closeMark` op. -/
theorem contract_of_engine_trace (tr : List Lifecycle.Out) (h : AllFrom okClosed [] tr) (ops : List Op)
    (hord : MarkBeforeCbs ops) (hproj : ops.filterMap (opShape true) = tr.filterMap outShape) : EngineContract ops := by
  have hs : shapesOk [] (ops.filterMap (opShape true)) := by
    rw [hproj]; exact shapes_of_allFrom tr [] [] (fun s hs => by cases hs) h
  intro pre o post hsplit s hso
  have hm := (contract_of_shapes ops [] hs pre o post hsplit s hso).2
  refine ⟨hm, fun hc => hm ?_⟩
  -- the callbacks of s have started before `o`: then (mark-first order) so has its mark
  obtain ⟨p1, p2, hp⟩ := List.append_of_mem hc
  have := hord p1 (Op.closeCbs s) (p2 ++ o :: post) (by rw [hsplit, hp]; simp) s rfl
  rw [hp]; exact List.mem_append_left _ this

end Iora.Deliver
