import IoraModel.Model.KvJfsStore
import IoraModel.Lemmas.JsonFileStore
import IoraModel.Lemmas.JsonSer
/-! # Lemmas for `Model/KvJfsStore.lean` -/
namespace Iora.Jfs
open Iora Iora.Kv

/-! ## a document that fits below `N` bytes is within limits that are all `N` -/

def limAll (N : Nat) : Json.Limits := { depthMax := N, arrayItemsMax := N, membersMax := N, stringLengthMax := N }

theorem length_le_weightList : ∀ xs : List Json.Json, xs.length ≤ weightList xs
  | [] => by simp [weightList]
  | x :: xs => by
    have := length_le_weightList xs
    have h1 : 1 ≤ weight x := by cases x <;> simp [weight] <;> omega
    simp only [List.length_cons, weightList]; omega

theorem length_le_weightMembers : ∀ ms : List (Bytes × Json.Json), ms.length ≤ weightMembers ms
  | [] => by simp [weightMembers]
  | (k, v) :: ms => by
    have := length_le_weightMembers ms
    simp only [List.length_cons, weightMembers]; omega

mutual
theorem within_of_weight (N : Nat) : ∀ (v : Json.Json) (d : Nat), d + weight v ≤ N + 1 → v.within (limAll N) 0 d
  | .null, d, h => by simp only [weight] at h; simp only [Json.Json.within, limAll]; omega
  | .bool _, d, h => by simp only [weight] at h; simp only [Json.Json.within, limAll]; omega
  | .int _, d, h => by simp only [weight] at h; simp only [Json.Json.within, limAll]; omega
  | .dbl _, d, h => by simp only [weight] at h; simp only [Json.Json.within, limAll]; omega
  | .str s, d, h => by simp only [weight] at h; simp only [Json.Json.within, limAll]; omega
  | .arr xs, d, h => by
    simp only [weight] at h
    have hl := length_le_weightList xs
    simp only [Json.Json.within]
    exact ⟨by simp only [limAll]; omega, by simp only [limAll]; omega, withinList_of_weight N xs (d + 1) (by omega)⟩
  | .obj ms, d, h => by
    simp only [weight] at h
    have hl := length_le_weightMembers ms
    simp only [Json.Json.within]
    exact ⟨by simp only [limAll]; omega, by simp only [limAll]; omega, withinMembers_of_weight N ms (d + 1) (by omega)⟩
theorem withinList_of_weight (N : Nat) : ∀ (xs : List Json.Json) (d : Nat), d + weightList xs ≤ N + 1 → Json.Json.withinList (limAll N) 0 d xs
  | [], _, _ => by simp [Json.Json.withinList]
  | x :: xs, d, h => by
    simp only [weightList] at h
    simp only [Json.Json.withinList]
    exact ⟨within_of_weight N x d (by omega), withinList_of_weight N xs d (by omega)⟩
theorem withinMembers_of_weight (N : Nat) : ∀ (ms : List (Bytes × Json.Json)) (d : Nat), d + weightMembers ms ≤ N + 1 →
    Json.Json.withinMembers (limAll N) 0 d ms
  | [], _, _ => by simp [Json.Json.withinMembers]
  | (k, v) :: ms, d, h => by
    simp only [weightMembers] at h
    simp only [Json.Json.withinMembers]
    exact ⟨by simp only [limAll]; omega, within_of_weight N v d (by omega), withinMembers_of_weight N ms d (by omega)⟩
end

end Iora.Jfs

namespace Iora.Jfs.Race

/-- invariant of the locked shape: at most one role is inside a flush, its snapshot is the current document, and the file is
never older than the last completed `flush()` -/
def Inv (s : St) : Prop :=
  s.acked ≤ s.file ∧ s.file ≤ s.mem ∧
  (s.fg = .idle → s.bg = .idle → s.dirty = false → s.file = s.mem) ∧
  (∀ g, s.fg = .save g → g = s.mem ∧ s.bg = .idle) ∧
  (∀ g, s.fg = .ren g → g = s.mem ∧ s.bg = .idle ∧ s.tmp = some g) ∧
  (∀ g, s.bg = .save g → g = s.mem ∧ s.fg = .idle) ∧
  (∀ g, s.bg = .ren g → g = s.mem ∧ s.fg = .idle ∧ s.tmp = some g)

theorem Inv.init : Inv {} := by simp [Inv]

theorem Inv.step_set {s : St} (h : Inv s) : Inv (step true s .set) := by
  obtain ⟨mem, dirty, file, tmp, acked, fg, bg⟩ := s
  obtain ⟨h1, h2, h3, h4, h5, h6, h7⟩ := h
  simp only at h1 h2 h3 h4 h5 h6 h7
  cases fg <;> cases bg <;> simp_all [Race.step, St.lockFree, Inv] <;> omega

theorem Inv.step_start {s : St} (h : Inv s) (f : Bool) : Inv (step true s (.start f)) := by
  by_cases hq : s.fg = .idle ∧ s.bg = .idle
  · obtain ⟨mem, dirty, file, tmp, acked, fg, bg⟩ := s
    obtain ⟨h1, h2, h3, h4, h5, h6, h7⟩ := h
    obtain ⟨rfl, rfl⟩ := hq
    simp only at h1 h2 h3
    cases f <;> cases dirty <;> simp_all [Race.step, St.lockFree, St.pc, St.setPc, Inv] <;> omega
  · have : step true s (.start f) = s := by
      obtain ⟨mem, dirty, file, tmp, acked, fg, bg⟩ := s
      cases f <;> cases fg <;> cases bg <;> simp_all [Race.step, St.lockFree, St.pc]
    rw [this]; exact h

theorem Inv.step_write {s : St} (h : Inv s) (f : Bool) : Inv (step true s (.write f)) := by
  cases hp : s.pc f with
  | save g =>
    obtain ⟨mem, dirty, file, tmp, acked, fg, bg⟩ := s
    obtain ⟨h1, h2, h3, h4, h5, h6, h7⟩ := h
    simp only at h1 h2 h3 h4 h5 h6 h7
    cases f
    · simp only [St.pc, Bool.false_eq_true, ↓reduceIte] at hp
      subst hp
      obtain ⟨rfl, rfl⟩ := h6 g rfl
      simp [Race.step, St.pc, St.setPc, Inv]; omega
    · simp only [St.pc, ↓reduceIte] at hp
      subst hp
      obtain ⟨rfl, rfl⟩ := h4 g rfl
      simp [Race.step, St.pc, St.setPc, Inv]; omega
  | idle => have : step true s (.write f) = s := by simp [Race.step, hp]
            rw [this]; exact h
  | ren g => have : step true s (.write f) = s := by simp [Race.step, hp]
             rw [this]; exact h

theorem Inv.step_rename {s : St} (h : Inv s) (f : Bool) : Inv (step true s (.rename f)) := by
  cases hp : s.pc f with
  | ren g =>
    obtain ⟨mem, dirty, file, tmp, acked, fg, bg⟩ := s
    obtain ⟨h1, h2, h3, h4, h5, h6, h7⟩ := h
    simp only at h1 h2 h3 h4 h5 h6 h7
    cases f
    · simp only [St.pc, Bool.false_eq_true, ↓reduceIte] at hp
      subst hp
      obtain ⟨rfl, rfl, rfl⟩ := h7 g rfl
      simp [Race.step, St.pc, St.setPc, Inv]; omega
    · simp only [St.pc, ↓reduceIte] at hp
      subst hp
      obtain ⟨rfl, rfl, rfl⟩ := h5 g rfl
      simp [Race.step, St.pc, St.setPc, Inv]; omega
  | idle => have : step true s (.rename f) = s := by simp [Race.step, hp]
            rw [this]; exact h
  | save g => have : step true s (.rename f) = s := by simp [Race.step, hp]
              rw [this]; exact h

theorem Inv.step {s : St} (h : Inv s) (e : Ev) : Inv (step true s e) := by
  cases e with
  | set => exact h.step_set
  | start f => exact h.step_start f
  | write f => exact h.step_write f
  | rename f => exact h.step_rename f

theorem Inv.run {s : St} (h : Inv s) (evs : List Ev) : Inv (run true s evs) := by
  induction evs generalizing s with
  | nil => exact h
  | cons e es ih => exact ih (h.step e)

/-- the schedule of seed C11-d: the flusher takes its dump (generation 1) and leaves the lock; the application sets generation 2
and completes `flush()`; then the flusher's `<file>.tmp` + rename land -/
def witness : List Ev := [.set, .start false, .set, .start true, .write true, .rename true, .write false, .rename false]

theorem witness_unlocked : (run false {} witness).file = 1 ∧ (run false {} witness).acked = 2 ∧
    (run false {} witness).dirty = false ∧ (run false {} witness).fg = .idle ∧ (run false {} witness).bg = .idle := by decide

end Iora.Jfs.Race

namespace Iora.Jfs
open Iora Iora.Kv

/-! ## the constructor reads back what `saveToFile` wrote -/

/-- the constructor's limits are "no limit" (fails to build when `ownFileLimits()` sets anything smaller, e.g. the defaults) -/
theorem ctorLimits_eq : ctorLimits = limAll (2 ^ 64 - 1) := by rfl

/-- a document "made of finite numbers" that fits into a 64-bit address space -/
def DocOK (v : Json.Json) : Prop := v.Good ∧ weight v < 2 ^ 64

/-- `saveToFile` pretty-prints (`dump(n)` with `n ≥ 0`: the indentation is `n` spaces — JSON white space — whatever `n` is) -/
theorem dumpIndent_nonneg : 0 ≤ Gen.Kv.jsonSaveDumpIndent := by decide

theorem text_eq (ops : Json.FloatOps) (v : Json.Json) :
    text ops v = Json.serialize ops (Json.dumpOpts Gen.Kv.jsonSaveDumpIndent 0x20 false) 0 v := rfl

theorem dumpOpts_indent (n : Int) (h : 0 ≤ n) :
    Json.Spec.Ws.render (List.replicate n.toNat Json.Spec.WsChar.sp) = (Json.dumpOpts n 0x20 false).indent ∧
    (Json.dumpOpts n 0x20 false).sortKeys = false := by
  have h' : n ≥ 0 := h
  simp [Json.dumpOpts, h', Json.Spec.Ws.render, Json.Spec.WsChar.byte]

theorem ctor_reads_own (ops : Json.FloatOps) (hl : Json.Spec.LibcOk ops) (v : Json.Json) (h : DocOK v) :
    Json.parseOrThrow ops ctorLimits (text ops v) = .ok v := by
  have hw : v.within ctorLimits 0 0 := by
    rw [ctorLimits_eq]
    exact within_of_weight _ v 0 (by have := h.2; omega)
  have hi := dumpOpts_indent Gen.Kv.jsonSaveDumpIndent dumpIndent_nonneg
  have hp : Json.parse ops ctorLimits (text ops v) = .ok v := by
    rw [text_eq]
    exact Json.Spec.parse_serialize ops hl ctorLimits (Json.dumpOpts Gen.Kv.jsonSaveDumpIndent 0x20 false)
      (List.replicate Gen.Kv.jsonSaveDumpIndent.toNat Json.Spec.WsChar.sp) hi.1 hi.2 v h.1 hw
  simp [Json.parseOrThrow, hp]

theorem openStore_of_loaded (ops : Json.FloatOps) (hl : Json.Spec.LibcOk ops) (v : Json.Json) (h : DocOK v) (fs : Fs)
    (hf : loaded fs = some (text ops v)) : openStore ops fs = ⟨v, false⟩ := by
  simp [openStore, hf, ctor_reads_own ops hl v h]

theorem openStore_congr (ops : Json.FloatOps) (fs fs' : Fs) (h : loaded fs' = loaded fs) : openStore ops fs' = openStore ops fs := by
  simp [openStore, h]

/-- the file and the in-memory document agree whenever the store is clean -/
def Coherent (ops : Json.FloatOps) (s : Store) (fs : Fs) : Prop := s.dirty = false → openStore ops fs = ⟨s.doc, false⟩

/-- every document the store holds along the history is `DocOK` -/
def HistOK (ops : Json.FloatOps) : Store → Fs → List Op → Prop
  | s, _, [] => DocOK s.doc
  | s, fs, o :: os => DocOK s.doc ∧ HistOK ops (s.step ops fs o).1 (s.step ops fs o).2 os

theorem Coherent.open (ops : Json.FloatOps) (fs : Fs) : Coherent ops (openStore ops fs) fs := by
  intro _
  unfold openStore
  split
  · rfl
  · split <;> rfl

theorem Coherent.step (ops : Json.FloatOps) (hl : Json.Spec.LibcOk ops) (s : Store) (fs : Fs) (h : Coherent ops s fs) (hd : DocOK s.doc)
    (o : Op) : Coherent ops (s.step ops fs o).1 (s.step ops fs o).2 := by
  cases o with
  | set k v => intro hc; simp [Store.step] at hc
  | remove k =>
    simp only [Store.step, Store.remove]
    split
    · split
      · intro hc; simp at hc
      · exact h
    · exact h
  | flush =>
    simp only [Store.step]
    split
    · intro _
      refine openStore_of_loaded ops hl s.doc hd _ ?_
      rw [saveToFile_eq]; exact saveOps_snap fs _
    · exact h

theorem Coherent.run (ops : Json.FloatOps) (hl : Json.Spec.LibcOk ops) : ∀ (os : List Op) (s : Store) (fs : Fs), Coherent ops s fs →
    HistOK ops s fs os → Coherent ops (runOps ops s fs os).1 (runOps ops s fs os).2 ∧ DocOK (runOps ops s fs os).1.doc
  | [], s, fs, h, hk => ⟨h, hk⟩
  | o :: os, s, fs, h, hk => by
    simp only [runOps]
    exact Coherent.run ops hl os _ _ (h.step ops hl s fs hk.1 o) hk.2

/-- clean close + new instance gives the document back, dirty or not -/
theorem reopen_doc (ops : Json.FloatOps) (hl : Json.Spec.LibcOk ops) (s : Store) (fs : Fs) (h : Coherent ops s fs) (hd : DocOK s.doc) :
    (reopen ops s fs).1 = ⟨s.doc, false⟩ := by
  have := h.step ops hl s fs hd .flush
  simp only [reopen]
  by_cases hdirty : s.dirty = true
  · have h2 : (s.step ops fs .flush) = (⟨s.doc, false⟩, applyAll fs (saveToFile (text ops s.doc))) := by simp [Store.step, hdirty]
    rw [h2] at this ⊢
    exact this rfl
  · have h2 : (s.step ops fs .flush) = (s, fs) := by simp [Store.step, hdirty]
    rw [h2]
    exact h (by simpa using hdirty)

end Iora.Jfs
