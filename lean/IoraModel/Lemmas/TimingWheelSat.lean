import IoraModel.Lemmas.TimingWheel
/-!
The saturating deadline of `TimingWheel::schedule` / `reschedule` (repair FC08c): `deadlineAfter now delay`.
All statements are for every clock value `0 ≤ now ≤ tpMax` (what a `steady_clock::time_point` can hold; the epoch of
`steady_clock` is not later than the first read) and EVERY delay, including `milliseconds::max()` and `milliseconds::min()`.
-/
namespace Iora.Wheel

/-- `ahead = duration_cast<milliseconds>(TimePoint::max() - now)` -/
def aheadMs (now : Int) : Int := Int.tdiv (tpMax - now) nsPerMs
/-- `behind = duration_cast<milliseconds>(now.time_since_epoch())` -/
def behindMs (now : Int) : Int := Int.tdiv now nsPerMs

theorem aheadMs_spec (now : Int) (h1 : now ≤ tpMax) :
    0 ≤ aheadMs now ∧ aheadMs now * 1000000 ≤ tpMax - now ∧ tpMax - now < (aheadMs now + 1) * 1000000 := by
  have h : aheadMs now = (tpMax - now) / 1000000 := by
    unfold aheadMs nsPerMs
    exact Int.tdiv_eq_ediv_of_nonneg (by omega)
  rw [h]
  omega

theorem behindMs_spec (now : Int) (h0 : 0 ≤ now) :
    0 ≤ behindMs now ∧ behindMs now * 1000000 ≤ now ∧ now < (behindMs now + 1) * 1000000 := by
  have h : behindMs now = now / 1000000 := by
    unfold behindMs nsPerMs
    exact Int.tdiv_eq_ediv_of_nonneg h0
  rw [h]
  omega

theorem deadlineAfter_eq (now d : Int) :
    deadlineAfter now d = now + (if d < -behindMs now then -behindMs now else if aheadMs now < d then aheadMs now else d) * 1000000 := rfl

/-- the stored deadline is a time point between the epoch and `TimePoint::max()`; so are the clamped delay's conversion to ns and the
sum, and for every LATER clock value `now'` in the clock's range `deadline - now'` (what `collectFromBucket`/`cascadeDown` compute) is
representable too -/
theorem deadlineAfter_bounds (now d : Int) (h0 : 0 ≤ now) (h1 : now ≤ tpMax) :
    0 ≤ deadlineAfter now d ∧ deadlineAfter now d ≤ tpMax ∧
    (∀ now', 0 ≤ now' → now' ≤ tpMax → -tpMax ≤ deadlineAfter now d - now' ∧ deadlineAfter now d - now' ≤ tpMax) := by
  obtain ⟨r0, r1, r2⟩ := aheadMs_spec now h1
  obtain ⟨b0, b1, b2⟩ := behindMs_spec now h0
  rw [deadlineAfter_eq]
  generalize aheadMs now = r at *
  generalize behindMs now = b at *
  split
  · exact ⟨by omega, by omega, fun n' _ _ => by omega⟩
  · split
    · exact ⟨by omega, by omega, fun n' _ _ => by omega⟩
    · exact ⟨by omega, by omega, fun n' _ _ => by omega⟩

/-- whenever `now + delay` is a representable time point at or after the epoch, the stored deadline IS `now + delay` -/
theorem deadlineAfter_exact (now d : Int) (h0 : 0 ≤ now) (h1 : now ≤ tpMax)
    (hlo : 0 ≤ now + d * nsPerMs) (hhi : now + d * nsPerMs ≤ tpMax) : deadlineAfter now d = now + d * nsPerMs := by
  obtain ⟨r0, r1, r2⟩ := aheadMs_spec now h1
  obtain ⟨b0, b1, b2⟩ := behindMs_spec now h0
  rw [deadlineAfter_eq]
  unfold nsPerMs at *
  generalize aheadMs now = r at *
  generalize behindMs now = b at *
  split
  · omega
  · split <;> omega

/-- when `now + delay` is beyond `TimePoint::max()` the stored deadline is the last whole millisecond step below
`TimePoint::max()`: later than every clock value that is more than a millisecond before the end of the clock's range -/
theorem deadlineAfter_saturates (now d : Int) (h0 : 0 ≤ now) (h1 : now ≤ tpMax) (hhi : tpMax < now + d * nsPerMs) :
    tpMax - nsPerMs < deadlineAfter now d ∧ deadlineAfter now d ≤ tpMax := by
  obtain ⟨r0, r1, r2⟩ := aheadMs_spec now h1
  obtain ⟨b0, b1, b2⟩ := behindMs_spec now h0
  rw [deadlineAfter_eq]
  unfold nsPerMs at *
  generalize aheadMs now = r at *
  generalize behindMs now = b at *
  split
  · omega
  · split <;> omega

/-- `min(now + delay, TimePoint::max())` up to the millisecond granularity of the clamp, for every non-negative delay -/
theorem deadlineAfter_is_min (now d : Int) (h0 : 0 ≤ now) (h1 : now ≤ tpMax) (hd : 0 ≤ d) :
    deadlineAfter now d ≤ min (now + d * nsPerMs) tpMax ∧ min (now + d * nsPerMs) tpMax - nsPerMs < deadlineAfter now d := by
  by_cases h : now + d * nsPerMs ≤ tpMax
  · have hlo : 0 ≤ now + d * nsPerMs := by unfold nsPerMs at *; omega
    rw [deadlineAfter_exact now d h0 h1 hlo h]
    unfold nsPerMs at *
    omega
  · have := deadlineAfter_saturates now d h0 h1 (by omega)
    unfold nsPerMs at *
    omega

example : deadlineAfter 2592000000000000 9223372036854775807 = 9223372036854000000 := by decide
example : deadlineAfter 2592000000000000 (-9223372036854775807) = 0 := by decide
example : deadlineAfter 2592000000000000 50 = 2592000050000000 := by decide
example : deadlineAfter 2592000000000000 (-30) = 2591999970000000 := by decide

end Iora.Wheel
