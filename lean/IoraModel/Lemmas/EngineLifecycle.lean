import IoraModel.Model.EngineLifecycle
import IoraModel.Lemmas.LifecycleInv
/-!
# The handlers of both engines preserve every predicate that is closed under the primitives (C02)
-/
namespace Iora.Lifecycle

theorem connectNow_pres {P : G → Prop} [Closed0 P] (k : Option Key) (o : Lid) (c : Bool) (g : G) (h : P g) : P (connectNow k o c g) := by
  unfold connectNow
  split
  · exact Closed0.stale _ h
  · exact Closed0.announceConnect _ _ _ (Closed0.insertCur _ _ _ _ h)

/-- peel primitive operations off the goal `P (prim .. (prim .. g))`; induction hypotheses `P g' → P (f g')` are used too -/
macro "prim" : tactic => `(tactic| (try dsimp only) <;> repeat (first
  | assumption
  | refine (by assumption : _ → _) ?_
  | apply Closed0.closeNow | apply Closed0.failConnect | apply Closed0.insertCur | apply Closed0.acceptFresh | apply Closed0.burnId
  | apply Closed0.announceConnect | apply Closed0.dataCb | apply Closed0.setWq | apply Closed0.viaIndex | apply connectNow_pres))

variable {P : G → Prop} [Closed0 P]

theorem closeCmd_pres (sid : Sid) (o : Origin) (g : G) (h : P g) : P (closeCmd sid o g) := by
  unfold closeCmd
  split
  · exact h
  · split <;> (try split) <;> prim

theorem bumpBp_pres (g : G) (h : P g) : P (bumpBp g) := Closed0.bp _ _ h

theorem runGc_pres (picks : List Sid) (g : G) (h : P g) : P (runGc picks g) := by
  induction picks generalizing g with
  | nil => exact h
  | cons sid r ih => exact ih _ (Closed0.closeNow _ _ _ h)

namespace Tcp

theorem readAvail_pres (sid : Sid) (t : Bool) (as : List A) (g : G) (h : P g) : P (readAvail sid t as g).1 := by
  fun_induction readAvail sid t as g <;> prim

theorem writePending_pres (sid : Sid) (t : Bool) (as : List A) (g : G) (h : P g) : P (writePending sid t as g).1 := by
  fun_induction writePending sid t as g <;> prim
  all_goals exact Closed0.stale _ h

theorem queueWrite_pres (sid : Sid) (wq : Nat) (g : G) (h : P g) : P (queueWrite sid wq g) := by
  unfold queueWrite
  dsimp only
  split
  · split
    · exact Closed0.closeNow _ _ _ (Closed0.setWq _ _ _ (bumpBp_pres _ h))
    · exact Closed0.setWq _ _ _ (bumpBp_pres _ h)
  · exact Closed0.setWq _ _ _ h

theorem doSend_pres (sid : Sid) (as : List A) (g : G) (h : P g) : P (doSend sid as g).1 := by
  fun_cases doSend sid as g <;> prim
  all_goals exact queueWrite_pres _ _ _ h

theorem handshakeStep_pres (sid : Sid) (as : List A) (g : G) (h : P g) : P (handshakeStep sid as g).2.1 := by
  fun_cases handshakeStep sid as g <;> prim
  exact readAvail_pres _ _ _ _ (Closed0.announceConnect _ true _ h)

theorem driveHandshake_pres (sid : Sid) (as : List A) (g : G) (h : P g) : P (driveHandshake sid as g).2.1 := by
  fun_cases driveHandshake sid as g <;> prim
  all_goals exact handshakeStep_pres _ _ _ h

theorem connectCheck_pres (sid : Sid) (a b c : Site) (as : List A) (g : G) (h : P g) : P (connectCheck sid a b c as g).2.1 := by
  fun_cases connectCheck sid a b c as g <;> prim

theorem sessEarly_pres (sid : Sid) (o : Bool) (as : List A) (g : G) (h : P g) : P (sessEarly sid o as g).2.1 := by
  fun_cases sessEarly sid o as g <;> prim

theorem sessConnect_pres (sid : Sid) (s : Sess) (o : Bool) (as : List A) (g : G) (h : P g) : P (sessConnect sid s o as g).2.1 := by
  fun_cases sessConnect sid s o as g <;> prim
  all_goals first | exact driveHandshake_pres _ _ _ h | exact connectCheck_pres _ _ _ _ _ _ h

theorem sessRead_pres (sid : Sid) (i : Bool) (as : List A) (g : G) (h : P g) : P (sessRead sid i as g).2.1 := by
  fun_cases sessRead sid i as g <;> prim
  all_goals exact readAvail_pres _ _ _ _ h

theorem onSession_pres (sid : Sid) (i o hup : Bool) (as : List A) (g : G) (h : P g) : P (onSession sid i o hup as g).1 := by
  have h1 := sessEarly_pres (P := P) sid o as g h
  fun_cases onSession sid i o hup as g <;> prim
  all_goals
    have h2 := sessConnect_pres (P := P) sid ‹Sess› o (sessEarly sid o as g).2.2 (sessEarly sid o as g).2.1 h1
    first
    | exact h2
    | exact Closed0.closeNow _ _ _ h2
    | (have h3 := sessRead_pres (P := P) sid i (sessConnect sid ‹Sess› o (sessEarly sid o as g).2.2 (sessEarly sid o as g).2.1).2.2 _ h2
       first | exact h3 | exact writePending_pres _ _ _ _ h3)

theorem resolveStep_pres (named : Bool) (as : List A) (g : G) (h : P g) : P (resolveStep named as g).2.2.1 := by
  fun_cases resolveStep named as g <;> prim

theorem tlsSetup_pres (u named : Bool) (as : List A) (g : G) (h : P g) : P (tlsSetup u named as g).2.1 := by
  fun_cases tlsSetup u named as g <;> prim

theorem doConnect_pres (tls : TlsReq) (named : Bool) (as : List A) (g : G) (h : P g) : P (doConnect tls named as g).1 := by
  have h1 := resolveStep_pres (P := P) named as g h
  fun_cases doConnect tls named as g <;> prim
  all_goals
    have h2 := tlsSetup_pres (P := P) (decide (tls = .client) && g.cfg.cliCtx) named
      (connLoop (resolveStep named as g).2.1 (resolveStep named as g).2.2.2).2 _ h1
    first
    | exact h2
    | exact Closed0.stale _ h2
    | exact Closed0.insertCur _ _ _ _ h2
    | exact connectCheck_pres _ _ _ _ _ _ (Closed0.insertCur _ _ _ _ h2)

theorem onListener_pres (t : Bool) (as : List A) (g : G) (h : P g) : P (onListener t as g).1 := by
  fun_induction onListener t as g <;> prim

theorem dispatch_pres {P : G → Prop} [Closed P] (as : List A) (g : G) (h : P g) (hc : g.cur = none) : P (dispatch as g).1 := by
  have hp := Closed.pop g h hc
  fun_cases dispatch as g <;> prim
  all_goals
    rename_i heq
    rw [heq] at hp
    dsimp only at hp
    first
    | exact hp
    | exact Closed0.running _ _ hp
    | (split <;> first | exact hp | exact Closed0.listeners _ _ hp)
    | exact doConnect_pres _ _ _ _ hp
    | exact Closed0.failConnect _ _ hp
    | exact doSend_pres _ _ _ hp
    | exact closeCmd_pres _ _ _ hp

end Tcp

namespace Udp

/-- `prim` for the UDP primitive set -/
macro "primU" : tactic => `(tactic| (try dsimp only) <;> repeat (first
  | assumption
  | refine (by assumption : _ → _) ?_
  | apply ClosedU0.closeNow | apply ClosedU0.failConnect | apply ClosedU0.connectNow | apply ClosedU0.acceptFresh
  | apply ClosedU0.dataCb | apply ClosedU0.setWq | apply ClosedU0.viaIndex))

variable {P : G → Prop} [ClosedU0 P]

theorem closeCmdU_pres (sid : Sid) (o : Origin) (g : G) (h : P g) : P (closeCmd sid o g) := by
  unfold closeCmd
  split
  · exact h
  · split <;> (try split) <;> primU

theorem runGcU_pres (picks : List Sid) (g : G) (h : P g) : P (runGc picks g) := by
  induction picks generalizing g with
  | nil => exact h
  | cons sid r ih => exact ih _ (ClosedU0.closeNow _ _ _ h)

theorem bumpBpU_pres (g : G) (h : P g) : P (bumpBp g) := ClosedU0.bp _ _ h

theorem readFromListener_pres (lid : Lid) (as : List A) (g : G) (h : P g) : P (readFromListener lid as g).1 := by
  fun_induction readFromListener lid as g <;> primU

theorem flushListener_pres (lid : Lid) (as : List A) (g : G) (h : P g) : P (flushListener lid as g).1 := by
  fun_induction flushListener lid as g <;> primU
  all_goals exact ClosedU0.listeners _ _ h

theorem writeClient_pres (sid : Sid) (as : List A) (g : G) (h : P g) : P (writeClient sid as g).1 := by
  fun_induction writeClient sid as g <;> primU
  all_goals exact ClosedU0.stale _ h

theorem clientRead_pres (sid : Sid) (as : List A) (g : G) (h : P g) : P (clientRead sid as g).2.1 := by
  fun_induction clientRead sid as g <;> primU

theorem onClient_pres (sid : Sid) (i o : Bool) (as : List A) (g : G) (h : P g) : P (onClient sid i o as g).1 := by
  have hr : P (if i = true then clientRead sid as g else (true, g, as)).2.1 := by
    split
    · exact clientRead_pres _ _ _ h
    · exact h
  fun_cases onClient sid i o as g <;> primU
  all_goals first | exact hr | exact writeClient_pres _ _ _ hr

theorem queueClient_pres (sid : Sid) (wq : Nat) (g : G) (h : P g) : P (queueClient sid wq g) := by
  unfold queueClient
  dsimp only
  split
  · split
    · exact ClosedU0.closeNow _ _ _ (ClosedU0.setWq _ _ _ (bumpBpU_pres _ h))
    · exact ClosedU0.setWq _ _ _ (bumpBpU_pres _ h)
  · exact ClosedU0.setWq _ _ _ h

theorem queueListener_pres (sid : Sid) (o : Lid) (n : Nat) (g : G) (h : P g) : P (queueListener sid o n g) := by
  unfold queueListener
  dsimp only
  split
  · split
    · exact ClosedU0.closeNow _ _ _ (ClosedU0.listeners _ _ (bumpBpU_pres _ h))
    · exact ClosedU0.listeners _ _ (bumpBpU_pres _ h)
  · exact ClosedU0.listeners _ _ h

theorem sendDo_pres (sid : Sid) (as : List A) (g : G) (h : P g) : P (sendDo sid as g).1 := by
  fun_cases sendDo sid as g <;> primU
  all_goals first | exact queueClient_pres _ _ _ h | exact queueListener_pres _ _ _ _ h

theorem connectDo_pres (as : List A) (g : G) (h : P g) : P (connectDo as g).1 := by
  fun_cases connectDo as g <;> primU
  all_goals exact ClosedU0.stale _ h

theorem viaDo_pres (lid : Lid) (k : Key) (as : List A) (g : G) (h : P g) : P (viaDo lid k as g).1 := by
  fun_cases viaDo lid k as g <;> primU
  all_goals exact ClosedU0.stale _ h

theorem dispatch_pres {P : G → Prop} [ClosedU P] (as : List A) (g : G) (h : P g) (hc : g.cur = none) : P (dispatch as g).1 := by
  have hp := ClosedU.pop g h hc
  fun_cases dispatch as g <;> primU
  all_goals
    rename_i heq
    rw [heq] at hp
    dsimp only at hp
    first
    | exact hp
    | exact ClosedU0.running _ _ hp
    | (split <;> first | exact hp | exact ClosedU0.listeners _ _ hp)
    | exact connectDo_pres _ _ hp
    | exact viaDo_pres _ _ _ _ hp
    | exact sendDo_pres _ _ _ hp
    | exact closeCmdU_pres _ _ _ hp

end Udp
end Iora.Lifecycle
