import IoraModel.Model.HttpRetry
/-!
`responseRequestsClose` (C17, R4): the index loop of the C++ (`find(',')`, `find_first_not_of`, `find_last_not_of`, `substr`)
computes exactly the RFC 7230 §6.1 reading of the `Connection` field: split at commas, trim optional white space, fold ASCII
case, compare whole tokens.
-/
namespace Iora.HttpRetry
open Iora

/-! ### the specification -/

def isComma (b : UInt8) : Bool := decide (b = 44)
def notOws (b : UInt8) : Bool := !isOws b

/-- remove leading and trailing SP / HTAB -/
def trimOws (l : Bytes) : Bytes := ((l.dropWhile isOws).reverse.dropWhile isOws).reverse

/-- the token carried by one list element: trimmed and ASCII-lower-cased; `none` for an empty element -/
def segTok (seg : Bytes) : Option Bytes :=
  if trimOws seg = [] then none else some ((trimOws seg).map asciiLower)

/-- the specification: go through the comma-separated elements in order; `(sawClose, sawKeepAlive)` -/
def specLoop : Nat → Bytes → Bool → Bool × Bool
  | 0, _, saw => (false, saw)
  | fuel + 1, l, saw =>
    let tok := segTok (l.takeWhile fun b => !isComma b)
    if tok = some tokClose then (true, saw) else
    let saw' := saw || tok = some tokKeepAlive
    match l.dropWhile fun b => !isComma b with
    | [] => (false, saw')
    | _ :: rest => specLoop fuel rest saw'

/-! ### `find` -/

theorem findFrom_drop (p : UInt8 → Bool) : ∀ (l : Bytes) (pos : Nat),
    findFrom p l pos = (findFrom p (l.drop pos) 0).map (· + pos) := by
  intro l
  induction l with
  | nil => intro pos; simp [findFrom]
  | cons x xs ih =>
    intro pos
    cases pos with
    | zero => simp
    | succ n =>
      simp only [findFrom, List.drop_succ_cons]
      rw [ih n]
      cases findFrom p (xs.drop n) 0 <;> simp [Nat.add_assoc]

/-- `find` from the start = length of the longest prefix without a hit -/
theorem findFrom_zero (p : UInt8 → Bool) : ∀ (l : Bytes),
    findFrom p l 0 = if l.dropWhile (fun b => !p b) = [] then none else some (l.takeWhile fun b => !p b).length := by
  intro l
  induction l with
  | nil => simp [findFrom]
  | cons x xs ih =>
    by_cases hx : p x = true
    · simp [findFrom, hx, List.dropWhile, List.takeWhile]
    · have hx' : p x = false := by simpa using hx
      simp only [findFrom, hx', Bool.false_eq_true, if_false, ih, List.dropWhile, Bool.not_false, List.takeWhile]
      split <;> simp

/-! ### `find_last_not_of` -/

theorem go_append (p : UInt8 → Bool) : ∀ (l1 l2 : Bytes) (i : Nat) (acc : Option Nat),
    findLastUpTo.go p (l1 ++ l2) i acc = findLastUpTo.go p l2 (i + l1.length) (findLastUpTo.go p l1 i acc) := by
  intro l1
  induction l1 with
  | nil => intro l2 i acc; simp [findLastUpTo.go]
  | cons x xs ih =>
    intro l2 i acc
    simp only [List.cons_append, findLastUpTo.go, List.length_cons]
    rw [ih]
    congr 1
    omega

theorem go_none (p : UInt8 → Bool) : ∀ (l : Bytes) (i : Nat) (acc : Option Nat), (∀ x ∈ l, p x = false) →
    findLastUpTo.go p l i acc = acc := by
  intro l
  induction l with
  | nil => intro i acc _; rfl
  | cons x xs ih =>
    intro i acc h
    simp only [findLastUpTo.go, h x (by simp), Bool.false_eq_true, if_false]
    exact ih _ _ fun y hy => h y (by simp [hy])

/-- last hit in `pre ++ [c] ++ ws` when `c` is a hit and `ws` has none -/
theorem go_last (p : UInt8 → Bool) (pre ws : Bytes) (c : UInt8) (hc : p c = true) (hws : ∀ x ∈ ws, p x = false) :
    findLastUpTo.go p (pre ++ c :: ws) 0 none = some pre.length := by
  rw [go_append]
  simp only [findLastUpTo.go, hc, if_true, Nat.zero_add]
  exact go_none p ws _ _ hws


theorem findFrom_skip (p : UInt8 → Bool) : ∀ (ws y : Bytes), (∀ x ∈ ws, p x = false) →
    findFrom p (ws ++ y) 0 = (findFrom p y 0).map (· + ws.length) := by
  intro ws
  induction ws with
  | nil => intro y _; simp
  | cons w ws ih =>
    intro y h
    have hw : p w = false := h w (by simp)
    simp only [List.cons_append, findFrom, hw, Bool.false_eq_true, if_false, List.length_cons]
    rw [ih y fun x hx => h x (by simp [hx])]
    cases findFrom p y 0 <;> simp [Nat.add_assoc]

theorem findFrom_at (p : UInt8 → Bool) (pre y : Bytes) :
    findFrom p (pre ++ y) pre.length = (findFrom p y 0).map (· + pre.length) := by
  rw [findFrom_drop]
  simp

theorem findFrom_hit (p : UInt8 → Bool) (c : UInt8) (y : Bytes) (hc : p c = true) : findFrom p (c :: y) 0 = some 0 := by
  simp [findFrom, hc]

/-! ### splitting one list element into white space, core, white space -/

theorem comma_notOws (c : UInt8) (h : isComma c = true) : notOws c = true := by
  have : c = 44 := by simpa [isComma] using h
  subst this
  decide

theorem mem_takeWhile_true (p : UInt8 → Bool) : ∀ (l : Bytes) (x : UInt8), x ∈ l.takeWhile p → p x = true := by
  intro l
  induction l with
  | nil => intro x h; simp at h
  | cons a t ih =>
    intro x h
    by_cases ha : p a = true
    · simp only [List.takeWhile, ha, List.mem_cons] at h
      rcases h with h | h
      · rw [h]; exact ha
      · exact ih x h
    · have ha' : p a = false := by simpa using ha
      simp [List.takeWhile, ha'] at h

theorem rev_split (p : UInt8 → Bool) (r : Bytes) :
    r = (r.reverse.dropWhile p).reverse ++ (r.reverse.takeWhile p).reverse := by
  calc r = r.reverse.reverse := by simp
    _ = (r.reverse.takeWhile p ++ r.reverse.dropWhile p).reverse := by rw [List.takeWhile_append_dropWhile]
    _ = (r.reverse.dropWhile p).reverse ++ (r.reverse.takeWhile p).reverse := List.reverse_append

theorem drop_eq_trim (seg : Bytes) :
    seg.dropWhile isOws = trimOws seg ++ ((seg.dropWhile isOws).reverse.takeWhile isOws).reverse :=
  rev_split isOws (seg.dropWhile isOws)

/-- `seg = ws1 ++ trimOws seg ++ ws2` with `ws1`, `ws2` all white space -/
theorem trim_decomp (seg : Bytes) :
    ∃ ws1 ws2 : Bytes, seg = ws1 ++ trimOws seg ++ ws2 ∧ (∀ x ∈ ws1, isOws x = true) ∧ (∀ x ∈ ws2, isOws x = true) := by
  refine ⟨seg.takeWhile isOws, ((seg.dropWhile isOws).reverse.takeWhile isOws).reverse, ?_, ?_, ?_⟩
  · have h1 : seg = seg.takeWhile isOws ++ seg.dropWhile isOws := (List.takeWhile_append_dropWhile).symm
    rw [List.append_assoc, ← drop_eq_trim]
    exact h1
  · intro x hx; exact mem_takeWhile_true isOws _ x hx
  · intro x hx
    rw [List.mem_reverse] at hx
    exact mem_takeWhile_true isOws _ x hx

theorem head_dropWhile_false (p : UInt8 → Bool) : ∀ (l : Bytes) (c : UInt8) (r : Bytes), l.dropWhile p = c :: r → p c = false := by
  intro l
  induction l with
  | nil => intro c r h; simp at h
  | cons x xs ih =>
    intro c r h
    by_cases hx : p x = true
    · simp only [List.dropWhile, hx] at h; exact ih c r h
    · have hx' : p x = false := by simpa using hx
      simp only [List.dropWhile, hx'] at h
      cases h
      exact hx'

/-- a non-empty core starts and ends with a byte that is not white space -/
theorem trim_ends (seg : Bytes) (h : trimOws seg ≠ []) :
    (∃ c r, trimOws seg = c :: r ∧ isOws c = false) ∧ (∃ i c, trimOws seg = i ++ [c] ∧ isOws c = false) := by
  constructor
  · -- the head of the core is the head of `dropWhile isOws seg`
    cases hd : seg.dropWhile isOws with
    | nil => simp [trimOws, hd] at h
    | cons c r =>
      have hc := head_dropWhile_false isOws seg c r hd
      have h3 := drop_eq_trim seg
      cases ht : trimOws seg with
      | nil => exact absurd ht h
      | cons c' r' =>
        rw [hd, ht] at h3
        simp only [List.cons_append, List.cons.injEq] at h3
        exact ⟨c', r', rfl, by rw [← h3.1]; exact hc⟩
  · cases hr : (seg.dropWhile isOws).reverse.dropWhile isOws with
    | nil => simp [trimOws, hr] at h
    | cons c r =>
      have hc := head_dropWhile_false isOws _ c r hr
      exact ⟨r.reverse, c, by simp [trimOws, hr], hc⟩


/-! ### the token the C++ extracts for one list element = the specification's token -/

theorem notOws_false_of_ows {x : UInt8} (h : isOws x = true) : (fun b => !isOws b) x = false := by simp [h]

theorem tokenAt_spec (pre seg post : Bytes)
    (hpost : post = [] ∨ ∃ c r, post = c :: r ∧ isComma c = true) :
    tokenAt (pre ++ seg ++ post) pre.length (pre.length + seg.length) = segTok seg := by
  obtain ⟨ws1, ws2, hdec, hws1, hws2⟩ := trim_decomp seg
  by_cases hcore : trimOws seg = []
  · -- the element is empty or all white space
    have hsegows : ∀ x ∈ seg, (fun b => !isOws b) x = false := by
      intro x hx
      rw [hdec, hcore] at hx
      simp only [List.append_nil, List.mem_append] at hx
      rcases hx with hx | hx
      · exact notOws_false_of_ows (hws1 x hx)
      · exact notOws_false_of_ows (hws2 x hx)
    have ha : findFrom (fun b => !isOws b) (pre ++ seg ++ post) pre.length =
        (findFrom (fun b => !isOws b) post 0).map (· + seg.length + pre.length) := by
      rw [List.append_assoc, findFrom_at, findFrom_skip _ seg post hsegows]
      cases findFrom (fun b => !isOws b) post 0 <;> simp
    unfold tokenAt segTok
    simp only [hcore, if_true]
    rw [ha]
    rcases hpost with rfl | ⟨c, r, rfl, hc⟩
    · simp [findFrom]
    · have : findFrom (fun b => !isOws b) (c :: r) 0 = some 0 :=
        findFrom_hit _ c r (by simpa [notOws] using comma_notOws c hc)
      rw [this]
      simp only [Option.map_some, Nat.zero_add]
      cases findLastUpTo (fun b => !isOws b) (pre ++ seg ++ c :: r) (if pre.length + seg.length = 0 then 0 else pre.length + seg.length - 1) with
      | none => rfl
      | some b =>
        simp only
        have : ¬ (seg.length + pre.length < pre.length + seg.length) := by omega
        simp [this]
  · -- a core that starts with `c1` and ends with `c2`, neither white space
    obtain ⟨⟨c1, r1, hc1, hc1o⟩, ⟨ini, c2, hc2, hc2o⟩⟩ := trim_ends seg hcore
    have hseglen : seg.length = ws1.length + (trimOws seg).length + ws2.length := by
      have := congrArg List.length hdec
      simp only [List.length_append] at this
      omega
    have hcorelen : (trimOws seg).length = ini.length + 1 := by rw [hc2]; simp
    -- a
    have ha : findFrom (fun b => !isOws b) (pre ++ seg ++ post) pre.length = some (ws1.length + pre.length) := by
      have hshape : pre ++ seg ++ post = pre ++ (ws1 ++ (c1 :: (r1 ++ ws2 ++ post))) := by
        rw [hdec, hc1]; simp [List.append_assoc]
      rw [hshape, findFrom_at, findFrom_skip _ ws1 _ (fun x hx => notOws_false_of_ows (hws1 x hx)),
        findFrom_hit _ c1 _ (by simp [hc1o])]
      simp
    -- b
    have hb : findLastUpTo (fun b => !isOws b) (pre ++ seg ++ post)
        (if pre.length + seg.length = 0 then 0 else pre.length + seg.length - 1) = some (pre.length + ws1.length + ini.length) := by
      have hne : ¬ (pre.length + seg.length = 0) := by omega
      simp only [hne, if_false]
      unfold findLastUpTo
      have htake : (pre ++ seg ++ post).take (pre.length + seg.length - 1 + 1) = (pre ++ ws1 ++ ini) ++ c2 :: ws2 := by
        have e1 : pre.length + seg.length - 1 + 1 = (pre ++ seg).length := by simp [List.length_append]; omega
        rw [e1, List.take_left']
        · rw [hdec, hc2]; simp [List.append_assoc]
        · rfl
      rw [htake, go_last _ _ ws2 c2 (by simp [hc2o]) (fun x hx => notOws_false_of_ows (hws2 x hx))]
      simp [List.length_append, Nat.add_assoc]
    unfold tokenAt segTok
    simp only [hcore, if_false]
    rw [ha, hb]
    simp only
    have hcond : ws1.length + pre.length < pre.length + seg.length ∧ pre.length + ws1.length + ini.length ≥ ws1.length + pre.length := by
      omega
    simp only [hcond, and_self, if_true]
    congr 1
    congr 1
    -- the substring
    have hdrop : (pre ++ seg ++ post).drop (ws1.length + pre.length) = trimOws seg ++ (ws2 ++ post) := by
      have hshape : pre ++ seg ++ post = (pre ++ ws1) ++ (trimOws seg ++ (ws2 ++ post)) := by
        conv => lhs; rw [hdec]
        simp [List.append_assoc]
      rw [hshape]
      have : ws1.length + pre.length = (pre ++ ws1).length := by simp [List.length_append]; omega
      rw [this, List.drop_left']
      rfl
    rw [hdrop]
    have hn : pre.length + ws1.length + ini.length - (ws1.length + pre.length) + 1 = (trimOws seg).length := by omega
    rw [hn, List.take_left']
    rfl


/-! ### the loop -/

theorem tokenLoop_eq_spec (value : Bytes) : ∀ (fuel pos : Nat) (saw : Bool), pos ≤ value.length →
    tokenLoop value fuel pos saw = specLoop fuel (value.drop pos) saw := by
  intro fuel
  induction fuel with
  | zero => intro pos saw _; rfl
  | succ fuel ih =>
    intro pos saw hpos
    -- value = pre ++ seg ++ post
    have hval : value = value.take pos ++ (value.drop pos).takeWhile (fun b => !isComma b) ++
        (value.drop pos).dropWhile (fun b => !isComma b) := by
      rw [List.append_assoc, List.takeWhile_append_dropWhile, List.take_append_drop]
    have hprelen : (value.take pos).length = pos := by simp [List.length_take]; omega
    generalize hpre : value.take pos = pre at hval hprelen
    generalize hseg : (value.drop pos).takeWhile (fun b => !isComma b) = seg at hval
    generalize hpostd : (value.drop pos).dropWhile (fun b => !isComma b) = post at hval
    have hpost : post = [] ∨ ∃ c r, post = c :: r ∧ isComma c = true := by
      cases hp : post with
      | nil => exact .inl rfl
      | cons c r =>
        refine .inr ⟨c, r, rfl, ?_⟩
        have := head_dropWhile_false (fun b => !isComma b) (value.drop pos) c r (by rw [hpostd, hp])
        simpa using this
    -- the comma search
    have hcomma : findFrom (fun b => decide (b = 44)) value pos = if post = [] then none else some (pos + seg.length) := by
      have h1 := findFrom_drop (fun b => decide (b = 44)) value pos
      have h2 := findFrom_zero (fun b => decide (b = 44)) (value.drop pos)
      have e1 : (value.drop pos).dropWhile (fun b => !decide (b = 44)) = post := hpostd
      have e2 : (value.drop pos).takeWhile (fun b => !decide (b = 44)) = seg := hseg
      rw [e1, e2] at h2
      rw [h1, h2]
      split <;> simp [Nat.add_comm]
    have hlen : value.length = pos + seg.length + post.length := by
      have := congrArg List.length hval
      simp only [List.length_append, hprelen] at this
      exact this
    have htok : ∀ e, e = pos + seg.length → tokenAt value pos e = segTok seg := by
      intro e he
      have := tokenAt_spec pre seg post hpost
      rw [hprelen, ← hval] at this
      rw [he]; exact this
    unfold tokenLoop specLoop
    have hnot : ¬ pos > value.length := by omega
    simp only [hnot, if_false, hcomma, hseg, hpostd]
    cases hp : post with
    | nil =>
      simp only [if_true]
      have hend : value.length = pos + seg.length := by rw [hlen, hp]; simp
      rw [htok _ hend]
    | cons c rest =>
      have hne : ¬ (c :: rest = []) := by simp
      simp only [hne, if_false]
      rw [htok _ rfl]
      split
      · rfl
      · have hdrop : value.drop (pos + seg.length + 1) = rest := by
          have e : value = (pre ++ seg ++ [c]) ++ rest := by rw [hval, hp]; simp [List.append_assoc]
          have l : pos + seg.length + 1 = (pre ++ seg ++ [c]).length := by simp [List.length_append, hprelen, Nat.add_assoc]
          rw [l]
          conv => lhs; rw [e]
          exact List.drop_left' rfl
        have hle : pos + seg.length + 1 ≤ value.length := by rw [hlen, hp]; simp
        rw [ih (pos + seg.length + 1) _ hle, hdrop]

/-- number of list elements never exceeds `length + 1` -/
theorem specLoop_fuel_irrelevant : ∀ (l : Bytes) (f1 f2 : Nat) (saw : Bool), l.length < f1 → l.length < f2 →
    specLoop f1 l saw = specLoop f2 l saw := by
  intro l
  induction h : l.length using Nat.strongRecOn generalizing l with
  | _ n ih =>
    intro f1 f2 saw h1 h2
    cases f1 with
    | zero => omega
    | succ f1 =>
      cases f2 with
      | zero => omega
      | succ f2 =>
        unfold specLoop
        simp only
        split
        · rfl
        · cases hd : l.dropWhile (fun b => !isComma b) with
          | nil => rfl
          | cons c rest =>
            simp only
            have hlen : rest.length < l.length := by
              have := congrArg List.length (List.takeWhile_append_dropWhile (p := fun b => !isComma b) (l := l))
              rw [hd] at this
              simp only [List.length_append, List.length_cons] at this
              omega
            exact ih rest.length (by omega) rest rfl f1 f2 _ (by omega) (by omega)


/-! ### from the loop to "is there such a token in the list" -/

/-- split at commas (RFC 7230 `#rule`): `"a,b,,c"` ↦ `["a","b","","c"]`; the empty string has one (empty) element -/
def splitComma : Bytes → List Bytes
  | [] => [[]]
  | x :: xs =>
    if isComma x then [] :: splitComma xs
    else match splitComma xs with
      | [] => [[x]]
      | s :: ss => (x :: s) :: ss

/-- the tokens of a `Connection` field value -/
def connTokens (v : Bytes) : List Bytes := (splitComma v).filterMap segTok

theorem splitComma_ne_nil : ∀ l : Bytes, splitComma l ≠ [] := by
  intro l
  induction l with
  | nil => simp [splitComma]
  | cons x xs ih =>
    unfold splitComma
    split
    · simp
    · split <;> simp

theorem splitComma_unfold : ∀ l : Bytes,
    splitComma l = l.takeWhile (fun b => !isComma b) ::
      (match l.dropWhile (fun b => !isComma b) with
       | [] => []
       | _ :: rest => splitComma rest) := by
  intro l
  induction l with
  | nil => simp [splitComma]
  | cons x xs ih =>
    by_cases hx : isComma x = true
    · simp [splitComma, hx, List.takeWhile, List.dropWhile]
    · have hx' : isComma x = false := by simpa using hx
      simp only [splitComma, hx', Bool.false_eq_true, if_false, List.takeWhile, Bool.not_false, List.dropWhile]
      rw [ih]

def specList : List Bytes → Bool → Bool × Bool
  | [], saw => (false, saw)
  | seg :: rest, saw =>
    if segTok seg = some tokClose then (true, saw)
    else specList rest (saw || segTok seg = some tokKeepAlive)

theorem specLoop_eq_specList : ∀ (n : Nat) (l : Bytes) (f : Nat) (saw : Bool), l.length = n → l.length < f →
    specLoop f l saw = specList (splitComma l) saw := by
  intro n
  induction n using Nat.strongRecOn with
  | _ n ih =>
    intro l f saw hn hf
    cases f with
    | zero => omega
    | succ f =>
      rw [splitComma_unfold]
      unfold specLoop specList
      simp only
      split
      · rfl
      · cases hd : l.dropWhile (fun b => !isComma b) with
        | nil => simp [specList]
        | cons c rest =>
          simp only
          have hlen : rest.length < l.length := by
            have := congrArg List.length (List.takeWhile_append_dropWhile (p := fun b => !isComma b) (l := l))
            rw [hd] at this
            simp only [List.length_append, List.length_cons] at this
            omega
          exact ih rest.length (by omega) rest f _ rfl (by omega)

theorem specList_close : ∀ (segs : List Bytes) (saw : Bool),
    (specList segs saw).1 = decide (some tokClose ∈ segs.map segTok) := by
  intro segs
  induction segs with
  | nil => intro saw; simp [specList]
  | cons s ss ih =>
    intro saw
    unfold specList
    by_cases h : segTok s = some tokClose
    · simp [h]
    · simp only [h, if_false, ih, List.map_cons, List.mem_cons]
      have : ¬ (some tokClose = segTok s) := fun e => h e.symm
      simp [this]

theorem specList_keep : ∀ (segs : List Bytes) (saw : Bool), (specList segs saw).1 = false →
    (specList segs saw).2 = (saw || decide (some tokKeepAlive ∈ segs.map segTok)) := by
  intro segs
  induction segs with
  | nil => intro saw _; simp [specList]
  | cons s ss ih =>
    intro saw h
    unfold specList at h ⊢
    by_cases hc : segTok s = some tokClose
    · simp [hc] at h
    · simp only [hc, if_false] at h ⊢
      rw [ih _ h]
      by_cases hk : segTok s = some tokKeepAlive
      · simp [hk]
      · have : ¬ (some tokKeepAlive = segTok s) := fun e => hk e.symm
        simp [hk, this]

theorem mem_map_segTok (t : Bytes) (segs : List Bytes) : some t ∈ segs.map segTok ↔ t ∈ segs.filterMap segTok := by
  simp [List.mem_filterMap, List.mem_map, eq_comm]

/-- **`responseRequestsClose` is the RFC reading**: true iff some list element of the `Connection` value — white space
trimmed, ASCII case folded — is exactly `close`; otherwise false iff some element is exactly `keep-alive`; otherwise the
HTTP/1.0 default. -/
theorem responseRequestsClose_spec (v ver : Bytes) :
    responseRequestsClose (some v) ver =
      (decide (tokClose ∈ connTokens v) || (!decide (tokKeepAlive ∈ connTokens v) && decide (ver = [49, 46, 48]))) := by
  unfold responseRequestsClose
  simp only
  rw [tokenLoop_eq_spec v (v.length + 1) 0 false (Nat.zero_le _)]
  simp only [List.drop_zero]
  rw [specLoop_eq_specList v.length v (v.length + 1) false rfl (Nat.lt_succ_self _)]
  have h1 := specList_close (splitComma v) false
  have h2 := specList_keep (splitComma v) false
  generalize specList (splitComma v) false = r at h1 h2
  obtain ⟨cl, kp⟩ := r
  simp only at h1 h2
  have e1 : decide (tokClose ∈ connTokens v) = cl := by
    rw [h1]; exact decide_eq_decide.2 (mem_map_segTok _ _).symm
  rw [e1]
  cases cl with
  | true => simp
  | false =>
    have hk : kp = decide (some tokKeepAlive ∈ (splitComma v).map segTok) := by simpa using h2 rfl
    have e2 : decide (tokKeepAlive ∈ connTokens v) = kp := by
      rw [hk]; exact decide_eq_decide.2 (mem_map_segTok _ _).symm
    rw [e2]
    cases kp <;> simp

theorem responseRequestsClose_absent (ver : Bytes) : responseRequestsClose none ver = decide (ver = [49, 46, 48]) := by
  simp [responseRequestsClose]

end Iora.HttpRetry
