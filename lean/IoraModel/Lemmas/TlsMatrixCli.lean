import IoraModel.Lemmas.TlsPlan
/-! C07: the whole client-side matrix (3600 cells), decided by kernel evaluation. -/
namespace Iora.Tls
set_option maxRecDepth 100000 in
theorem cli_matrix_eval : CliCell.allShared = true := by decide +kernel
theorem cli_matrix : ∀ c : CliCell, cliCellOk c = true := CliCell.allShared_iff.mp cli_matrix_eval
end Iora.Tls
