import IoraModel.Model.Json
/-! Lemmas about the JSON model (C13): cursor invariant, progress, budget sufficiency, limits. -/
namespace Iora.Json
open Iora

/-! ### generated facts the proofs rely on (a change of the source breaks these) -/
theorem depthExceeded_iff (x l : Nat) : Gen.Json.depthExceeded x l = true ↔ l < x := by simp [Gen.Json.depthExceeded]
theorem stringExceeded_iff (x l : Nat) : Gen.Json.stringExceeded x l = true ↔ l < x := by simp [Gen.Json.stringExceeded]
theorem arrayExceeded_iff (x l : Nat) : Gen.Json.arrayExceeded x l = true ↔ l ≤ x := by simp [Gen.Json.arrayExceeded]
theorem membersExceeded_iff (x l : Nat) : Gen.Json.membersExceeded x l = true ↔ l ≤ x := by simp [Gen.Json.membersExceeded]

/-- the cursor is inside a text of `n` bytes -/
def Cur.wf (n : Nat) (c : Cur) : Prop := c.pos + c.rest.length = n

/-- what every parsing function guarantees when started inside a text of `n` bytes: success leaves the cursor inside the
    text and strictly further; a failure reports a position inside the text (`≤ n`) and is never the budget outcome -/
def Sound {α : Type} (n : Nat) (c : Cur) : Res α → Prop
  | .ok (_, c') => c'.wf n ∧ c'.rest.length < c.rest.length
  | .error (k, off) => off ≤ n ∧ k ≠ ErrKind.fuel

theorem skipWsAux_spec (r : Bytes) (p : Nat) :
    (skipWsAux r p).pos + (skipWsAux r p).rest.length = p + r.length ∧ (skipWsAux r p).rest.length ≤ r.length := by
  induction r generalizing p with
  | nil => simp [skipWsAux]
  | cons b r ih =>
    unfold skipWsAux
    split
    · have := ih (p + 1); simp only [List.length_cons]; omega
    · simp

theorem skipWs_wf {n : Nat} {c : Cur} (h : c.wf n) : (skipWs c).wf n ∧ (skipWs c).rest.length ≤ c.rest.length := by
  have := skipWsAux_spec c.rest c.pos
  unfold Cur.wf at *; unfold skipWs; omega

theorem skipDigitsAux_spec (r : Bytes) (p : Nat) :
    (skipDigitsAux r p).pos + (skipDigitsAux r p).rest.length = p + r.length ∧ (skipDigitsAux r p).rest.length ≤ r.length := by
  induction r generalizing p with
  | nil => simp [skipDigitsAux]
  | cons b r ih =>
    unfold skipDigitsAux
    split
    · have := ih (p + 1); simp only [List.length_cons]; omega
    · simp

theorem skipDigits_wf {n : Nat} {c : Cur} (h : c.wf n) : (skipDigits c).wf n ∧ (skipDigits c).rest.length ≤ c.rest.length := by
  have := skipDigitsAux_spec c.rest c.pos
  unfold Cur.wf at *; unfold skipDigits; omega

theorem take_eq_length {l lit : Bytes} {k : Nat} (h : l.take k = lit) (hk : lit.length = k) : k ≤ l.length := by
  have := congrArg List.length h
  simp [List.length_take] at this; omega

theorem parseNull_good {n : Nat} {c : Cur} (h : c.wf n) : Sound n c (parseNull c) := by
  unfold parseNull
  split
  · rename_i ht
    have := take_eq_length ht (by decide)
    simp only [Sound, Cur.wf, List.length_drop] at *; omega
  · simp only [Sound, Cur.wf] at *; exact ⟨by omega, by decide⟩

theorem parseBool_good {n : Nat} {c : Cur} (h : c.wf n) : Sound n c (parseBool c) := by
  unfold parseBool
  split
  · rename_i ht
    have := take_eq_length ht (by decide)
    simp only [Sound, Cur.wf, List.length_drop] at *; omega
  · split
    · rename_i ht
      have := take_eq_length ht (by decide)
      simp only [Sound, Cur.wf, List.length_drop] at *; omega
    · simp only [Sound, Cur.wf] at *; exact ⟨by omega, by decide⟩


theorem skipDigits_cons_digit {d : UInt8} {r : Bytes} {p : Nat} (hd : isDigit d = true) :
    skipDigits ⟨d :: r, p⟩ = skipDigits ⟨r, p + 1⟩ := by
  simp [skipDigits, skipDigitsAux, hd]

theorem digitsRequired_ok {n : Nat} {c c' : Cur} (h : c.wf n) (hs : digitsRequired c = .ok c') :
    c'.wf n ∧ c'.rest.length < c.rest.length := by
  obtain ⟨rest, pos⟩ := c
  cases rest with
  | nil => simp [digitsRequired] at hs
  | cons d r =>
    simp only [digitsRequired] at hs
    split at hs
    · rename_i hd
      injection hs with hs
      subst hs
      have hw1 : Cur.wf n ⟨r, pos + 1⟩ := by simp only [Cur.wf, List.length_cons] at *; omega
      rw [skipDigits_cons_digit hd]
      have := skipDigits_wf hw1
      simp only [Cur.wf, List.length_cons] at *; omega
    · cases hs

theorem digitsRequired_err {n : Nat} {c : Cur} {p : Nat} (h : c.wf n) (hs : digitsRequired c = .error p) : p ≤ n := by
  obtain ⟨rest, pos⟩ := c
  cases rest with
  | nil => simp only [digitsRequired] at hs; injection hs with hs; simp only [Cur.wf] at h; omega
  | cons d r =>
    simp only [digitsRequired] at hs
    split at hs
    · cases hs
    · injection hs with hs; simp only [Cur.wf] at h; omega

theorem skipSign_wf {n : Nat} {c : Cur} (h : c.wf n) : (skipSign c).wf n ∧ (skipSign c).rest.length ≤ c.rest.length := by
  obtain ⟨rest, pos⟩ := c
  cases rest with
  | nil => simpa [skipSign] using h
  | cons b r =>
    simp only [skipSign]
    split
    · simp only [Cur.wf, List.length_cons] at *; omega
    · simp only [Cur.wf, List.length_cons] at *; omega

theorem skipMinus_wf {n : Nat} {c : Cur} (h : c.wf n) : (skipMinus c).wf n ∧ (skipMinus c).rest.length ≤ c.rest.length := by
  obtain ⟨rest, pos⟩ := c
  cases rest with
  | nil => simpa [skipMinus] using h
  | cons b r =>
    simp only [skipMinus]
    split
    · simp only [Cur.wf, List.length_cons] at *; omega
    · simp only [Cur.wf, List.length_cons] at *; omega

theorem scanFrac_ok {n : Nat} {c c' : Cur} {f : Bool} (h : c.wf n) (hs : scanFrac c = .ok (f, c')) :
    c'.wf n ∧ c'.rest.length ≤ c.rest.length := by
  obtain ⟨rest, pos⟩ := c
  cases rest with
  | nil => simp only [scanFrac, Except.ok.injEq, Prod.mk.injEq] at hs; obtain ⟨-, rfl⟩ := hs; exact ⟨h, Nat.le_refl _⟩
  | cons b r =>
    simp only [scanFrac] at hs
    split at hs
    · have hw1 : Cur.wf n ⟨r, pos + 1⟩ := by simp only [Cur.wf, List.length_cons] at *; omega
      cases hd : digitsRequired ⟨r, pos + 1⟩ with
      | error p => simp [hd] at hs
      | ok c1 =>
        simp only [hd, Except.ok.injEq, Prod.mk.injEq] at hs
        obtain ⟨-, rfl⟩ := hs
        have := digitsRequired_ok hw1 hd
        simp only [Cur.wf, List.length_cons] at *; omega
    · simp only [Except.ok.injEq, Prod.mk.injEq] at hs; obtain ⟨-, rfl⟩ := hs; exact ⟨h, Nat.le_refl _⟩

theorem scanFrac_err {n : Nat} {c : Cur} {p : Nat} (h : c.wf n) (hs : scanFrac c = .error p) : p ≤ n := by
  obtain ⟨rest, pos⟩ := c
  cases rest with
  | nil => simp [scanFrac] at hs
  | cons b r =>
    simp only [scanFrac] at hs
    split at hs
    · have hw1 : Cur.wf n ⟨r, pos + 1⟩ := by simp only [Cur.wf, List.length_cons] at *; omega
      cases hd : digitsRequired ⟨r, pos + 1⟩ with
      | error q => simp only [hd, Except.error.injEq] at hs; subst hs; exact digitsRequired_err hw1 hd
      | ok c1 => simp [hd] at hs
    · cases hs

theorem scanExp_ok {n : Nat} {c c' : Cur} {f : Bool} (h : c.wf n) (hs : scanExp c = .ok (f, c')) :
    c'.wf n ∧ c'.rest.length ≤ c.rest.length := by
  obtain ⟨rest, pos⟩ := c
  cases rest with
  | nil => simp only [scanExp, Except.ok.injEq, Prod.mk.injEq] at hs; obtain ⟨-, rfl⟩ := hs; exact ⟨h, Nat.le_refl _⟩
  | cons b r =>
    simp only [scanExp] at hs
    split at hs
    · have hw1 : Cur.wf n ⟨r, pos + 1⟩ := by simp only [Cur.wf, List.length_cons] at *; omega
      have hw2 := skipSign_wf hw1
      cases hd : digitsRequired (skipSign ⟨r, pos + 1⟩) with
      | error p => simp [hd] at hs
      | ok c1 =>
        simp only [hd, Except.ok.injEq, Prod.mk.injEq] at hs
        obtain ⟨-, rfl⟩ := hs
        have := digitsRequired_ok hw2.1 hd
        simp only [Cur.wf, List.length_cons] at *; omega
    · simp only [Except.ok.injEq, Prod.mk.injEq] at hs; obtain ⟨-, rfl⟩ := hs; exact ⟨h, Nat.le_refl _⟩

theorem scanExp_err {n : Nat} {c : Cur} {p : Nat} (h : c.wf n) (hs : scanExp c = .error p) : p ≤ n := by
  obtain ⟨rest, pos⟩ := c
  cases rest with
  | nil => simp [scanExp] at hs
  | cons b r =>
    simp only [scanExp] at hs
    split at hs
    · have hw1 : Cur.wf n ⟨r, pos + 1⟩ := by simp only [Cur.wf, List.length_cons] at *; omega
      have hw2 := skipSign_wf hw1
      cases hd : digitsRequired (skipSign ⟨r, pos + 1⟩) with
      | error q => simp only [hd, Except.error.injEq] at hs; subst hs; exact digitsRequired_err hw2.1 hd
      | ok c1 => simp [hd] at hs
    · cases hs

theorem scanInt_ok {n : Nat} {c c' : Cur} (h : c.wf n) (hs : scanInt c = .ok c') : c'.wf n ∧ c'.rest.length < c.rest.length := by
  obtain ⟨rest, pos⟩ := c
  cases rest with
  | nil => simp [scanInt] at hs
  | cons d r =>
    simp only [scanInt] at hs
    split at hs
    · rename_i hd
      injection hs with hs
      subst hs
      have hw1 : Cur.wf n ⟨r, pos + 1⟩ := by simp only [Cur.wf, List.length_cons] at *; omega
      split
      · simp only [Cur.wf, List.length_cons] at *; omega
      · rw [skipDigits_cons_digit hd]
        have := skipDigits_wf hw1
        simp only [Cur.wf, List.length_cons] at *; omega
    · cases hs

theorem scanInt_err {n : Nat} {c : Cur} {p : Nat} (h : c.wf n) (hs : scanInt c = .error p) : p ≤ n := by
  obtain ⟨rest, pos⟩ := c
  cases rest with
  | nil => simp only [scanInt] at hs; injection hs with hs; simp only [Cur.wf] at h; omega
  | cons d r =>
    simp only [scanInt] at hs
    split at hs
    · cases hs
    · injection hs with hs; simp only [Cur.wf] at h; omega

theorem scanNumber_ok {n : Nat} {c c' : Cur} {f : Bool} (h : c.wf n) (hs : scanNumber c = .ok (f, c')) :
    c'.wf n ∧ c'.rest.length < c.rest.length := by
  have hm := skipMinus_wf h
  unfold scanNumber at hs
  cases hsi : scanInt (skipMinus c) with
  | error p => simp [hsi] at hs
  | ok c1 =>
    have hi := scanInt_ok hm.1 hsi
    cases hsf : scanFrac c1 with
    | error p => simp [hsi, hsf] at hs
    | ok x =>
      obtain ⟨hasFrac, c2⟩ := x
      have hf := scanFrac_ok hi.1 hsf
      cases hse : scanExp c2 with
      | error p => simp [hsi, hsf, hse] at hs
      | ok y =>
        obtain ⟨hasExp, c3⟩ := y
        have he := scanExp_ok hf.1 hse
        simp only [hsi, hsf, hse, Except.ok.injEq, Prod.mk.injEq] at hs
        obtain ⟨-, rfl⟩ := hs
        exact ⟨he.1, by omega⟩

theorem scanNumber_err {n : Nat} {c : Cur} {p : Nat} (h : c.wf n) (hs : scanNumber c = .error p) : p ≤ n := by
  have hm := skipMinus_wf h
  unfold scanNumber at hs
  cases hsi : scanInt (skipMinus c) with
  | error q => simp only [hsi, Except.error.injEq] at hs; subst hs; exact scanInt_err hm.1 hsi
  | ok c1 =>
    have hi := scanInt_ok hm.1 hsi
    cases hsf : scanFrac c1 with
    | error q => simp only [hsi, hsf, Except.error.injEq] at hs; subst hs; exact scanFrac_err hi.1 hsf
    | ok x =>
      obtain ⟨hasFrac, c2⟩ := x
      have hf := scanFrac_ok hi.1 hsf
      cases hse : scanExp c2 with
      | error q => simp only [hsi, hsf, hse, Except.error.injEq] at hs; subst hs; exact scanExp_err hf.1 hse
      | ok y => obtain ⟨hasExp, c3⟩ := y; simp [hsi, hsf, hse] at hs

theorem parseNumber_good (ops : FloatOps) {n : Nat} {c : Cur} (h : c.wf n) : Sound n c (parseNumber ops c) := by
  cases hsn : scanNumber c with
  | error p => simp only [parseNumber, hsn, Sound]; exact ⟨scanNumber_err h hsn, by decide⟩
  | ok x => obtain ⟨hd, c3⟩ := x; simp only [parseNumber, hsn, Sound]; exact scanNumber_ok h hsn

/-! ### strings -/

theorem parseHex4_len {r : Bytes} {v : Nat} (h : parseHex4 r = some v) : 4 ≤ r.length := by
  match r with
  | [] | [_] | [_, _] | [_, _, _] => simp [parseHex4] at h
  | _ :: _ :: _ :: _ :: _ => simp

theorem lowSurrogate_len {r : Bytes} {v : Nat} (h : lowSurrogate r = some v) : 6 ≤ r.length := by
  match r with
  | [] | [_] => simp [lowSurrogate] at h
  | a :: b :: r' =>
    simp only [lowSurrogate] at h
    split at h
    · cases hp : parseHex4 r' with
      | none => simp [hp] at h
      | some lo => have := parseHex4_len hp; simp only [List.length_cons]; omega
    · cases h

theorem decodeU_len {r : Bytes} {cp k : Nat} (h : decodeU r = some (cp, k)) : 1 ≤ k ∧ k ≤ r.length + 1 := by
  unfold decodeU at h
  cases hp : parseHex4 r with
  | none => simp [hp] at h
  | some v =>
    have h4 := parseHex4_len hp
    simp only [hp] at h
    split at h
    · cases hl : lowSurrogate (r.drop Gen.Json.hexAdvance) with
      | none =>
        simp only [hl, Option.some.injEq, Prod.mk.injEq] at h
        obtain ⟨-, rfl⟩ := h
        simp only [Gen.Json.hexAdvance]; omega
      | some lo =>
        have := lowSurrogate_len hl
        simp only [hl, Option.some.injEq, Prod.mk.injEq] at h
        obtain ⟨-, rfl⟩ := h
        simp only [Gen.Json.hexAdvance, Gen.Json.pairAdvance, List.length_drop] at *; omega
    · split at h <;>
      · simp only [Option.some.injEq, Prod.mk.injEq] at h
        obtain ⟨-, rfl⟩ := h
        simp only [Gen.Json.hexAdvance]; omega

theorem strLoop_good (lim : Limits) {N : Nat} : ∀ (fuel : Nat) (racc : Bytes) (n : Nat) (c : Cur),
    c.wf N → c.rest.length + 1 ≤ fuel → Sound N c (strLoop lim fuel racc n c) := by
  intro fuel
  induction fuel with
  | zero => intro racc n c _ hf; omega
  | succ fuel ih =>
    intro racc n c hw hf
    obtain ⟨rest, pos⟩ := c
    cases rest with
    | nil => simp only [strLoop, Sound, Cur.wf] at *; exact ⟨by omega, by decide⟩
    | cons b r =>
      simp only [strLoop]
      have hN : pos + (r.length + 1) = N := by simpa [Cur.wf] using hw
      split
      · simp only [Sound, Cur.wf, List.length_cons]; omega
      · split
        · simp only [Sound]; exact ⟨by omega, by decide⟩
        · split
          · cases r with
            | nil => simp only [Sound]; exact ⟨by simp at hN; omega, by decide⟩
            | cons e r2 =>
              simp only
              split
              · cases hd : decodeU r2 with
                | none => simp only [Sound]; exact ⟨by simp at hN; omega, by decide⟩
                | some x =>
                  obtain ⟨cp, k⟩ := x
                  have hk := decodeU_len hd
                  simp only
                  have hw' : Cur.wf N ⟨(e :: r2).drop k, pos + 1 + k⟩ := by
                    simp only [Cur.wf, List.length_drop, List.length_cons] at *; omega
                  have := ih ((utf8 cp).reverse ++ racc) (n + (utf8 cp).length) _ hw'
                    (by simp only [List.length_drop, List.length_cons] at *; omega)
                  revert this
                  generalize strLoop lim fuel _ _ _ = res
                  intro this
                  cases res with
                  | error e' => exact this
                  | ok y =>
                    simp only [Sound, List.length_drop, List.length_cons] at *
                    exact ⟨this.1, by omega⟩
              · cases hl : Gen.Json.parseEscapes.lookup e.toNat with
                | none => simp only [Sound]; exact ⟨by simp at hN; omega, by decide⟩
                | some o =>
                  simp only
                  have hw' : Cur.wf N ⟨r2, pos + 2⟩ := by simp only [Cur.wf, List.length_cons] at *; omega
                  have := ih (b8 o :: racc) (n + 1) _ hw' (by simp only [List.length_cons] at *; omega)
                  revert this
                  generalize strLoop lim fuel _ _ _ = res
                  intro this
                  cases res with
                  | error e' => exact this
                  | ok y =>
                    simp only [Sound, List.length_cons] at *
                    exact ⟨this.1, by omega⟩
          · have hw' : Cur.wf N ⟨r, pos + 1⟩ := by simp only [Cur.wf]; omega
            have := ih (b :: racc) (n + 1) _ hw' (by simp only [List.length_cons] at *; omega)
            revert this
            generalize strLoop lim fuel _ _ _ = res
            intro this
            cases res with
            | error e' => exact this
            | ok y =>
              simp only [Sound, List.length_cons] at *
              exact ⟨this.1, by omega⟩

theorem parseString_good (lim : Limits) {N : Nat} {c : Cur} (h : c.wf N) : Sound N c (parseString lim c) := by
  obtain ⟨rest, pos⟩ := c
  cases rest with
  | nil => simp only [parseString, Sound, Cur.wf] at *; exact ⟨by omega, by decide⟩
  | cons b r =>
    simp only [parseString]
    split
    · have hw' : Cur.wf N ⟨r, pos + 1⟩ := by simp only [Cur.wf, List.length_cons] at *; omega
      have := strLoop_good lim (r.length + 1) [] 0 _ hw' (Nat.le_refl _)
      revert this
      generalize strLoop lim _ _ _ _ = res
      intro this
      cases res with
      | error e' => exact this
      | ok y =>
        simp only [Sound, List.length_cons] at *
        exact ⟨this.1, by omega⟩
    · simp only [Sound, Cur.wf] at *; exact ⟨by omega, by decide⟩

/-! ### containers -/

theorem Sound.of_ok_le {α : Type} {N : Nat} {c c0 : Cur} {r : Res α} (h : Sound N c r) (hl : c.rest.length ≤ c0.rest.length) :
    Sound N c0 r := by
  cases r with
  | error e => exact h
  | ok y => simp only [Sound] at *; exact ⟨h.1, by omega⟩

theorem Sound.err {α β : Type} {N : Nat} {c c' : Cur} {e : Err} (h : Sound (α := α) N c (.error e)) :
    Sound (α := β) N c' (.error e) := by
  obtain ⟨k, off⟩ := e; exact h

theorem arrLoop_good {pv : Cur → Res Json} (lim : Limits) {N : Nat} (hpv : ∀ c, c.wf N → Sound N c (pv c)) :
    ∀ (fuel : Nat) (racc : List Json) (n : Nat) (c : Cur),
    c.wf N → c.rest.length + 1 ≤ fuel → Sound N c (arrLoop pv lim fuel racc n c) := by
  intro fuel
  induction fuel with
  | zero => intro racc n c _ hf; omega
  | succ fuel ih =>
    intro racc n c hw hf
    simp only [arrLoop]
    split
    · simp only [Sound, Cur.wf] at *; exact ⟨by omega, by decide⟩
    · have hp := hpv c hw
      cases hr : pv c with
      | error e => rw [hr] at hp; exact hp.err
      | ok y =>
        obtain ⟨v, c1⟩ := y
        simp only [hr, Sound] at hp
        have hs := skipWs_wf hp.1
        simp only
        cases h2 : (skipWs c1).rest with
        | nil => simp only [Sound]; exact ⟨by have := hs.1; simp only [Cur.wf] at this; omega, by decide⟩
        | cons b r =>
          simp only
          have hpos : (skipWs c1).pos + (r.length + 1) = N := by
            have := hs.1; simp only [Cur.wf, h2, List.length_cons] at this; exact this
          have hlen : r.length + 1 ≤ c1.rest.length := by
            have := hs.2; simp only [h2, List.length_cons] at this; exact this
          split
          · simp only [Sound, Cur.wf]; exact ⟨by omega, by omega⟩
          · split
            · have hw' : Cur.wf N ⟨r, (skipWs c1).pos + 1⟩ := by simp only [Cur.wf]; omega
              have hs' := skipWs_wf hw'
              have := ih (v :: racc) (n + 1) _ hs'.1 (by simp only at hs'; omega)
              exact this.of_ok_le (by simp only at hs'; omega)
            · simp only [Sound]; exact ⟨by omega, by decide⟩

theorem parseArray_good {pv : Cur → Res Json} (lim : Limits) {N : Nat} (hpv : ∀ c, c.wf N → Sound N c (pv c))
    {c : Cur} (hw : c.wf N) (hne : c.rest ≠ []) : Sound N c (parseArray pv lim c) := by
  obtain ⟨rest, pos⟩ := c
  cases rest with
  | nil => exact absurd rfl hne
  | cons b0 r0 =>
    have hw1 : Cur.wf N (Cur.adv ⟨b0 :: r0, pos⟩) := by simp only [Cur.wf, Cur.adv, List.tail_cons, List.length_cons] at *; omega
    have hs := skipWs_wf hw1
    simp only [parseArray]
    cases h1 : (skipWs (Cur.adv ⟨b0 :: r0, pos⟩)).rest with
    | nil =>
      simp only
      have := arrLoop_good lim hpv 1 [] 0 _ hs.1 (by simp [h1])
      exact this.of_ok_le (by simp [h1])
    | cons b r =>
      simp only
      have hl : r.length + 1 ≤ r0.length := by
        have := hs.2; rw [h1] at this; simp only [Cur.adv, List.tail_cons, List.length_cons] at this; exact this
      split
      · have := hs.1
        simp only [Sound, Cur.wf, h1, List.length_cons] at *; exact ⟨by omega, by omega⟩
      · have := arrLoop_good lim hpv ((b :: r).length + 1) [] 0 _ hs.1 (by simp [h1])
        exact this.of_ok_le (by simp only [h1, List.length_cons]; omega)

theorem objLoop_good {pv : Cur → Res Json} (lim : Limits) {N : Nat} (hpv : ∀ c, c.wf N → Sound N c (pv c)) :
    ∀ (fuel : Nat) (ms : List (Bytes × Json)) (c : Cur),
    c.wf N → c.rest.length + 1 ≤ fuel → Sound N c (objLoop pv lim fuel ms c) := by
  intro fuel
  induction fuel with
  | zero => intro ms c _ hf; omega
  | succ fuel ih =>
    intro ms c hw hf
    simp only [objLoop]
    split
    · simp only [Sound, Cur.wf] at *; exact ⟨by omega, by decide⟩
    · have hk := parseString_good lim hw
      cases hr : parseString lim c with
      | error e => rw [hr] at hk; exact hk.err
      | ok y =>
        obtain ⟨k, c1⟩ := y
        simp only [hr, Sound] at hk
        have hs := skipWs_wf hk.1
        simp only
        cases h2 : (skipWs c1).rest with
        | nil => simp only [Sound]; exact ⟨by have := hs.1; simp only [Cur.wf] at this; omega, by decide⟩
        | cons b r =>
          simp only
          have hpos : (skipWs c1).pos + (r.length + 1) = N := by
            have := hs.1; simp only [Cur.wf, h2, List.length_cons] at this; exact this
          have hlen : r.length + 1 ≤ c1.rest.length := by
            have := hs.2; simp only [h2, List.length_cons] at this; exact this
          split
          · simp only [Sound]; exact ⟨by omega, by decide⟩
          · have hw3 : Cur.wf N ⟨r, (skipWs c1).pos + 1⟩ := by simp only [Cur.wf]; omega
            have hv := hpv _ hw3
            cases hr3 : pv ⟨r, (skipWs c1).pos + 1⟩ with
            | error e => rw [hr3] at hv; exact hv.err
            | ok y3 =>
              obtain ⟨v, c3⟩ := y3
              simp only [hr3, Sound] at hv
              have hs4 := skipWs_wf hv.1
              simp only
              cases h4 : (skipWs c3).rest with
              | nil => simp only [Sound]; exact ⟨by have := hs4.1; simp only [Cur.wf] at this; omega, by decide⟩
              | cons b4 r4 =>
                simp only
                have hpos4 : (skipWs c3).pos + (r4.length + 1) = N := by
                  have := hs4.1; simp only [Cur.wf, h4, List.length_cons] at this; exact this
                have hlen4 : r4.length + 1 ≤ c3.rest.length := by
                  have := hs4.2; simp only [h4, List.length_cons] at this; exact this
                split
                · simp only [Sound, Cur.wf]; exact ⟨by omega, by omega⟩
                · split
                  · have hw' : Cur.wf N ⟨r4, (skipWs c3).pos + 1⟩ := by simp only [Cur.wf]; omega
                    have hs' := skipWs_wf hw'
                    have := ih (insertOrAssign k v ms) _ hs'.1 (by simp only at hs'; omega)
                    exact this.of_ok_le (by simp only at hs'; omega)
                  · simp only [Sound]; exact ⟨by omega, by decide⟩

theorem parseObject_good {pv : Cur → Res Json} (lim : Limits) {N : Nat} (hpv : ∀ c, c.wf N → Sound N c (pv c))
    {c : Cur} (hw : c.wf N) (hne : c.rest ≠ []) : Sound N c (parseObject pv lim c) := by
  obtain ⟨rest, pos⟩ := c
  cases rest with
  | nil => exact absurd rfl hne
  | cons b0 r0 =>
    have hw1 : Cur.wf N (Cur.adv ⟨b0 :: r0, pos⟩) := by simp only [Cur.wf, Cur.adv, List.tail_cons, List.length_cons] at *; omega
    have hs := skipWs_wf hw1
    simp only [parseObject]
    cases h1 : (skipWs (Cur.adv ⟨b0 :: r0, pos⟩)).rest with
    | nil =>
      simp only
      have := objLoop_good lim hpv 1 [] _ hs.1 (by simp [h1])
      exact this.of_ok_le (by simp [h1])
    | cons b r =>
      simp only
      have hl : r.length + 1 ≤ r0.length := by
        have := hs.2; rw [h1] at this; simp only [Cur.adv, List.tail_cons, List.length_cons] at this; exact this
      split
      · have := hs.1
        simp only [Sound, Cur.wf, h1, List.length_cons] at *; exact ⟨by omega, by omega⟩
      · have := objLoop_good lim hpv ((b :: r).length + 1) [] _ hs.1 (by simp [h1])
        exact this.of_ok_le (by simp only [h1, List.length_cons]; omega)

theorem parseValue_good (ops : FloatOps) (lim : Limits) {N : Nat} : ∀ (fuel depth : Nat) (c : Cur),
    c.wf N → lim.depthMax + 2 ≤ fuel + depth → depth ≤ lim.depthMax + 1 → Sound N c (parseValue ops lim fuel depth c) := by
  intro fuel
  induction fuel with
  | zero => intro depth c _ h1 h2; omega
  | succ fuel ih =>
    intro depth c hw h1 h2
    simp only [parseValue]
    split
    · simp only [Sound, Cur.wf] at *; exact ⟨by omega, by decide⟩
    · rename_i hd
      have hd' : depth ≤ lim.depthMax := by
        exact Nat.le_of_not_lt (fun h => hd ((depthExceeded_iff _ _).mpr h))
      have hs := skipWs_wf hw
      have hpv : ∀ c', Cur.wf N c' → Sound N c' (parseValue ops lim fuel (depth + 1) c') :=
        fun c' hc' => ih (depth + 1) c' hc' (by omega) (by omega)
      cases h1 : (skipWs c).rest with
      | nil => simp only [Sound]; exact ⟨by have := hs.1; simp only [Cur.wf] at this; omega, by decide⟩
      | cons b r =>
        simp only
        have hne : (skipWs c).rest ≠ [] := by simp [h1]
        split
        · exact (parseNull_good hs.1).of_ok_le hs.2
        · split
          · exact (parseBool_good hs.1).of_ok_le hs.2
          · split
            · have := parseString_good lim hs.1
              cases hr : parseString lim (skipWs c) with
              | error e => rw [hr] at this; exact this.err
              | ok y =>
                obtain ⟨s', c'⟩ := y
                simp only [hr, Sound] at this ⊢
                exact ⟨this.1, by omega⟩
            · split
              · exact (parseArray_good lim hpv hs.1 hne).of_ok_le hs.2
              · split
                · exact (parseObject_good lim hpv hs.1 hne).of_ok_le hs.2
                · split
                  · exact (parseNumber_good ops hs.1).of_ok_le hs.2
                  · simp only [Sound]; exact ⟨by have := hs.1; simp only [Cur.wf] at this; omega, by decide⟩

/-- the top-level invariant: an error is reported at an offset inside the text and is never the budget outcome -/
theorem parse_error_offset (ops : FloatOps) (lim : Limits) (bs : Bytes) {k : ErrKind} {off : Nat}
    (h : parse ops lim bs = .error (k, off)) : off ≤ bs.length ∧ k ≠ .fuel := by
  have hw0 : Cur.wf bs.length ⟨bs, 0⟩ := by simp [Cur.wf]
  have hs := skipWs_wf hw0
  unfold parse at h
  cases h1 : (skipWs ⟨bs, 0⟩).rest with
  | nil =>
    simp only [h1, Except.error.injEq, Prod.mk.injEq] at h
    obtain ⟨rfl, rfl⟩ := h
    exact ⟨by have := hs.1; simp only [Cur.wf] at this; omega, by decide⟩
  | cons b r =>
    simp only [h1] at h
    have hg := parseValue_good ops lim (lim.depthMax + 2) 0 _ hs.1 (by omega) (by omega)
    cases hr : parseValue ops lim (lim.depthMax + 2) 0 (skipWs ⟨bs, 0⟩) with
    | error e =>
      simp only [hr, Except.error.injEq] at h
      subst h
      simpa [hr, Sound] using hg
    | ok y =>
      obtain ⟨v, c1⟩ := y
      simp only [hr, Sound] at hg h
      have hs2 := skipWs_wf hg.1
      cases h2 : (skipWs c1).rest with
      | nil => simp [h2] at h
      | cons b2 r2 =>
        simp only [h2, Except.error.injEq, Prod.mk.injEq] at h
        obtain ⟨rfl, rfl⟩ := h
        exact ⟨by have := hs2.1; simp only [Cur.wf] at this; omega, by decide⟩
end Iora.Json
