import IoraModel.Lemmas.XmlExplicit
import IoraModel.Lemmas.XmlDom
import IoraModel.Lemmas.XmlRender
import IoraModel.Lemmas.XmlContent
/-! The specifications proved about the closed forms, restated for the explicit tokenizer of `Model/Xml.lean`
(`next_eq`, `tokens_eq`). -/
namespace Iora.Xml
open Iora

theorem next_sat' (bs : Bytes) (o : Options) (s : St) (hat : s.cur.At bs) : Step.Sat bs o s (next o s) := by
  rw [next_eq]; exact next_sat bs o s hat

theorem next_budget' (o : Options) (s : St) (t : Token) (s' : St) (h : next o s = .tok t s') :
    o.maxTokens ≠ 0 → s.produced < o.maxTokens := by
  rw [next_eq] at h; exact next_budget o s t s' h

theorem tokens_ok' (o : Options) (bs : Bytes) : RunOk bs o (St.init bs) (tokens o bs).1 (tokens o bs).2 := by
  rw [tokens_eq]; exact tokens_ok o bs

theorem tokens_sm' (o : Options) (bs : Bytes) : ∃ fin, sm bs [] (tokens o bs).1 = some fin := by
  rw [tokens_eq]; exact tokens_sm o bs

theorem skeleton_faithful' (o : Options) (ps : List Piece) (trail : Bytes) (vs : List View)
    (hwf : ∀ p ∈ ps, p.WF o) (htrail : AllSpace trail) (hbud : o.maxTokens = 0 ∨ ps.length < o.maxTokens)
    (hspec : specRun o [] ps = some (vs, [])) :
    (tokens o (renderPieces ps ++ trail)).1.map (Token.view (renderPieces ps ++ trail)) = vs ∧
    ∃ t s, (tokens o (renderPieces ps ++ trail)).2 = .accepted t s := by
  rw [tokens_eq]; exact skeleton_faithful o ps trail vs hwf htrail hbud hspec

theorem forest_faithful' (o : Options) (es : List FElem) (trail : Bytes) (hwf : WFList o es) (htrail : AllSpace trail)
    (hh : heightList es ≤ o.maxDepth) (hbud : o.maxTokens = 0 ∨ (piecesList es).length < o.maxTokens) :
    (tokens o (renderForest es trail)).1.map (Token.view (renderForest es trail)) = eventsList 1 es ∧
    ∃ t s, (tokens o (renderForest es trail)).2 = .accepted t s := by
  rw [tokens_eq]; exact forest_faithful o es trail hwf htrail hh hbud

theorem next_text_keeps_leading_space' (o : Options) (s : St) (w r : Bytes) (x : UInt8) (hw : AllSpace w)
    (hx : isSpace x = false) (hlt : x ≠ 0x3C) (hrest : s.cur.rest = w ++ x :: r)
    (hbud : o.maxTokens = 0 ∨ s.produced < o.maxTokens) (hlen : spanLen notLt (w ++ x :: r) ≤ o.maxText) :
    ∃ t s', next o s = .tok t s' ∧ t.kind = .text ∧ t.text = ⟨s.cur.pos, spanLen notLt (w ++ x :: r)⟩ ∧
      t.offset = s.cur.pos ∧ s'.cur.pos = s.cur.pos + spanLen notLt (w ++ x :: r) := by
  rw [next_eq]; exact next_text_keeps_leading_space o s w r x hw hx hlt hrest hbud hlen

/-! ### SAX dispatch -/

/-- is the member a token of this kind goes to registered -/
def Registered.wants (reg : Registered) (k : Kind) : Bool :=
  match slotOf k with
  | some sl => reg sl
  | none => false

theorem saxDispatch_eq (reg : Registered) (t : Token) :
    saxDispatch reg t = if reg.wants t.kind then (slotOf t.kind).map (fun sl => (sl, t)) else none := by
  unfold saxDispatch Registered.wants
  cases slotOf t.kind with
  | none => simp
  | some sl => by_cases h : reg sl = true <;> simp [h]

theorem saxDispatch_some {reg : Registered} {t : Token} {e : Slot × Token} (h : saxDispatch reg t = some e) :
    e.2 = t ∧ slotOf t.kind = some e.1 ∧ reg e.1 = true ∧ reg.wants t.kind = true := by
  unfold saxDispatch at h
  unfold Registered.wants
  cases hs : slotOf t.kind with
  | none => rw [hs] at h; cases h
  | some sl =>
    rw [hs] at h
    simp only at h
    split at h
    · rename_i hr; cases h; exact ⟨rfl, rfl, hr, hr⟩
    · cases h

theorem saxDispatch_none {reg : Registered} {t : Token} (h : saxDispatch reg t = none) : reg.wants t.kind = false := by
  unfold saxDispatch at h
  unfold Registered.wants
  cases hs : slotOf t.kind with
  | none => rfl
  | some sl =>
    rw [hs] at h
    simp only at h
    split at h
    · cases h
    · rename_i hr; simpa using hr

/-- the tokens handed to callbacks are the token list filtered by "its member is registered", in order -/
theorem filterMap_saxDispatch (reg : Registered) : ∀ ts : List Token,
    (ts.filterMap (saxDispatch reg)).map (·.2) = ts.filter (fun t => reg.wants t.kind) ∧
    ∀ e ∈ ts.filterMap (saxDispatch reg), slotOf e.2.kind = some e.1 ∧ reg e.1 = true := by
  intro ts
  induction ts with
  | nil => simp
  | cons t ts ih =>
    simp only [List.filterMap_cons, List.filter_cons]
    cases hd : saxDispatch reg t with
    | none =>
      simp only [saxDispatch_none hd, Bool.false_eq_true, ↓reduceIte]
      exact ih
    | some e =>
      obtain ⟨h1, h2, h3, h4⟩ := saxDispatch_some hd
      simp only [h4, ↓reduceIte, List.map_cons, List.mem_cons]
      refine ⟨by rw [ih.1, h1], ?_⟩
      intro e' he
      rcases he with rfl | he
      · rw [h1]; exact ⟨h2, h3⟩
      · exact ih.2 e' he

/-- every token the tokenizer produces has a member to go to -/
theorem tokens_have_slot (o : Options) (bs : Bytes) : ∀ t ∈ (tokens o bs).1, (slotOf t.kind).isSome = true := by
  intro t ht
  have := (tokens_ok' o bs).kinds t ht
  cases hk : t.kind <;> simp_all [slotOf]

/-! ### `splitQName` -/

theorem splitQName_some (name : Bytes) (k l : Nat) (h : splitQName name = some (k, l)) :
    ∃ pre loc, name = pre ++ 0x3A :: loc ∧ pre.length = k ∧ loc.length = l ∧ 0x3A ∉ pre := by
  unfold splitQName at h
  split at h
  · cases h
  · rename_i k' hk
    simp only [Option.some.injEq, Prod.mk.injEq] at h
    obtain ⟨rfl, rfl⟩ := h
    obtain ⟨h1, h2, h3⟩ := findByte_split _ _ _ hk
    refine ⟨name.take k', name.drop (k' + 1), h1, ?_, ?_, h2⟩
    · simp; omega
    · simp

theorem splitQName_none (name : Bytes) (h : splitQName name = none) : 0x3A ∉ name := by
  unfold splitQName at h
  split at h
  · rename_i hk
    intro hmem
    obtain ⟨pre, post, hsplit⟩ := List.append_of_mem hmem
    -- take the first colon
    suffices ∀ (n : Bytes), 0x3A ∈ n → findByte 0x3A n ≠ none from this name hmem hk
    intro n
    induction n with
    | nil => intro h; simp at h
    | cons x xs ih =>
      intro hm
      simp only [findByte]
      split
      · simp
      · rename_i hx
        have : 0x3A ∈ xs := by
          simp only [List.mem_cons] at hm
          rcases hm with h | h
          · exact (hx h.symm).elim
          · exact h
        have := ih this
        cases hf : findByte 0x3A xs with
        | none => exact (this hf).elim
        | some _ => simp
  · cases h

theorem splitQName_roundtrip (pre loc : Bytes) (h : 0x3A ∉ pre) :
    splitQName (pre ++ 0x3A :: loc) = some (pre.length, loc.length) := by
  unfold splitQName
  rw [findByte_append _ pre loc h]
  simp; omega

/-! ### the DOM of a rendered forest -/

/-- decode every value of a list of (name, raw value) pairs; `none` when one does not decode -/
def decodePairs : List (Bytes × Bytes) → Option (List (Bytes × Bytes))
  | [] => some []
  | (n, v) :: r =>
    match decodeEntities v, decodePairs r with
    | .ok d, some ds => some ((n, d) :: ds)
    | _, _ => none

/-- the document-order events of one element-tag view, attribute values decoded -/
def viewEvs (v : View) : Option (List Ev) :=
  match v.kind with
  | .startElement => (decodePairs v.attrs).map fun as => [.open_ v.name as]
  | .emptyElement => (decodePairs v.attrs).map fun as => [.open_ v.name as, .close]
  | .endElement => some [.close]
  | _ => some []

def viewsEvs : List View → Option (List Ev)
  | [] => some []
  | v :: vs =>
    match viewEvs v, viewsEvs vs with
    | some a, some b => some (a ++ b)
    | _, _ => none

def Kind.isTag (k : Kind) : Bool := k = .startElement || k = .emptyElement || k = .endElement

theorem decodeAttrs_pairs (bs : Bytes) : ∀ as : List Attr,
    (match decodeAttrs bs as with | .ok r => some r | .error _ => none) = decodePairs (as.map (Attr.view bs)) := by
  intro as
  induction as with
  | nil => simp [decodeAttrs, decodePairs]
  | cons a r ih =>
    simp only [decodeAttrs, List.map_cons, Attr.view, decodePairs]
    cases hd : decodeEntities (a.value.bytes bs) with
    | ok v =>
      simp only
      rw [← ih]
      cases decodeAttrs bs r with
      | ok vs => simp
      | error e => simp
    | err e off => simp
    | fuel => exact (decodeEntities_ne_fuel _ hd).elim

theorem tokEvs_view (bs : Bytes) (t : Token) (h : t.kind.isTag = true) : tokEvs bs t = viewEvs (t.view bs) := by
  unfold tokEvs viewEvs
  simp only [Token.view]
  have := decodeAttrs_pairs bs t.attrs
  cases hk : t.kind <;> simp [hk, Kind.isTag] at h ⊢
  · rw [← this]; cases decodeAttrs bs t.attrs <;> simp
  · rw [← this]; cases decodeAttrs bs t.attrs <;> simp

theorem evsOf_views (bs : Bytes) : ∀ ts : List Token, (∀ t ∈ ts, t.kind.isTag = true) →
    evsOf bs ts = viewsEvs (ts.map (Token.view bs)) := by
  intro ts
  induction ts with
  | nil => intro _; rfl
  | cons t ts ih =>
    intro h
    simp only [evsOf, List.map_cons, viewsEvs]
    rw [tokEvs_view bs t (h t (by simp)), ih (fun t' ht' => h t' (by simp [ht']))]
    rfl

mutual
  theorem events_tags (d : Nat) : ∀ (e : FElem), ∀ v ∈ e.events d, v.kind.isTag = true
    | .node _ n as _ ch _ _, v, hv => by
      simp only [FElem.events, List.mem_cons, List.mem_append, List.mem_nil_iff, or_false] at hv
      rcases hv with rfl | hv | rfl
      · rfl
      · exact eventsList_tags (d + 1) ch v hv
      · rfl
    | .leaf _ n as _, v, hv => by
      simp only [FElem.events, List.mem_cons, List.mem_nil_iff, or_false] at hv
      subst hv; rfl
  theorem eventsList_tags (d : Nat) : ∀ (es : List FElem), ∀ v ∈ eventsList d es, v.kind.isTag = true
    | [], v, hv => by simp [eventsList] at hv
    | e :: r, v, hv => by
      simp only [eventsList, List.mem_append] at hv
      rcases hv with hv | hv
      · exact events_tags d e v hv
      · exact eventsList_tags d r v hv
end

/-! ### content tokens and documents with every node kind, for the explicit tokenizer -/

theorem content_faithful' (o : Options) (ps : List CPiece) (trail : Bytes) (vs : List CView)
    (hwf : ∀ p ∈ ps, p.WF o) (htext : TextOk ps trail) (htrail : AllSpace trail)
    (hbud : o.maxTokens = 0 ∨ ps.length < o.maxTokens) (hspec : specRunC o [] ps = some (vs, [])) :
    (tokens o (renderC ps ++ trail)).1.map (Token.cview (renderC ps ++ trail)) = vs ∧
    ∃ t s, (tokens o (renderC ps ++ trail)).2 = .accepted t s := by
  rw [tokens_eq]; exact content_faithful o ps trail vs hwf htext htrail hbud hspec

theorem doc_faithful' (o : Options) (es : List CElem) (trail : Bytes) (hwf : CWFList o es)
    (htext : TextOk (cpiecesList es) trail) (htrail : AllSpace trail)
    (hh : cheightList es ≤ o.maxDepth) (hbud : o.maxTokens = 0 ∨ (cpiecesList es).length < o.maxTokens) :
    (tokens o (renderDoc es trail)).1.map (Token.cview (renderDoc es trail)) = ceventsList 1 es ∧
    ∃ t s, (tokens o (renderDoc es trail)).2 = .accepted t s := by
  rw [tokens_eq]; exact doc_faithful o es trail hwf htext htrail hh hbud

/-- the document-order events of one token view, attribute values and text decoded (DOCTYPE: none; a text whose decoded value
is empty: none) -/
def cviewEvs (v : CView) : Option (List Ev) :=
  match v.kind with
  | .startElement => (decodePairs v.attrs).map fun as => [.open_ v.name as]
  | .emptyElement => (decodePairs v.attrs).map fun as => [.open_ v.name as, .close]
  | .endElement => some [.close]
  | .text =>
    match decodeEntities v.text with
    | .ok d => some (if d.isEmpty then [] else [.text d])
    | _ => none
  | .cdata => some [.cdata v.text]
  | .comment => some [.comment v.text]
  | .pi => some [.pi v.name v.text]
  | _ => some []

def cviewsEvs : List CView → Option (List Ev)
  | [] => some []
  | v :: vs =>
    match cviewEvs v, cviewsEvs vs with
    | some a, some b => some (a ++ b)
    | _, _ => none

theorem tokEvs_cview (bs : Bytes) (t : Token) : tokEvs bs t = cviewEvs (t.cview bs) := by
  unfold tokEvs cviewEvs
  simp only [Token.cview]
  have := decodeAttrs_pairs bs t.attrs
  cases hk : t.kind <;> simp only [hk, Kind.hasName, Kind.hasText, ↓reduceIte]
  · rw [← this]; cases decodeAttrs bs t.attrs <;> simp
  · rw [← this]; cases decodeAttrs bs t.attrs <;> simp
  · cases decodeEntities (Slice.bytes bs t.text) <;> rfl

theorem evsOf_cviews (bs : Bytes) : ∀ ts : List Token, evsOf bs ts = cviewsEvs (ts.map (Token.cview bs)) := by
  intro ts
  induction ts with
  | nil => rfl
  | cons t ts ih =>
    simp only [evsOf, List.map_cons, cviewsEvs]
    rw [tokEvs_cview bs t, ih]
    cases cviewEvs (Token.cview bs t) <;> cases cviewsEvs (List.map (Token.cview bs) ts) <;> rfl

/-- not a failure of `decodeEntities` -/
def DomRes.notDecodeErr : DomRes → Prop
  | .null e _ _ _ => e.isDecode = false
  | _ => True

/-- a builder step on a token whose values decode stops early only for an unbalanced end tag -/
theorem domStep_inr_decodes (bs : Bytes) (d : DomSt) (t : Token) (r : DomRes) (es : List Ev) (hev : tokEvs bs t = some es)
    (h : domStep bs d t = .inr r) : r.notDecodeErr := by
  unfold domStep at h
  unfold tokEvs at hev
  cases hk : t.kind <;> simp only [hk] at h hev
  all_goals first
    | (cases h; done)
    | skip
  · -- startElement
    cases hd : decodeAttrs bs t.attrs with
    | ok as => rw [hd] at h; cases h
    | error e => rw [hd] at hev; cases hev
  · -- endElement
    cases ho : d.open_ with
    | nil => rw [ho] at h; cases h; rfl
    | cons f fs => rw [ho] at h; cases h
  · -- emptyElement
    cases hd : decodeAttrs bs t.attrs with
    | ok as => rw [hd] at h; cases h
    | error e => rw [hd] at hev; cases hev
  · -- text
    cases hd : decodeEntities (t.text.bytes bs) with
    | ok v => rw [hd] at h; simp only at h; split at h <;> cases h
    | err e off => rw [hd] at hev; cases hev
    | fuel => rw [hd] at hev; cases hev

theorem domFold_inr_decodes (bs : Bytes) : ∀ (ts : List Token) (d : DomSt) (r : DomRes) (es : List Ev), evsOf bs ts = some es →
    domFold bs d ts = .inr r → r.notDecodeErr := by
  intro ts
  induction ts with
  | nil => intro d r es _ h; simp [domFold] at h
  | cons t ts ih =>
    intro d r es hev h
    simp only [evsOf] at hev
    cases hte : tokEvs bs t with
    | none => rw [hte] at hev; simp at hev
    | some a =>
      cases hes : evsOf bs ts with
      | none => rw [hte, hes] at hev; simp at hev
      | some b =>
        simp only [domFold] at h
        cases hst : domStep bs d t with
        | inl d' => rw [hst] at h; exact ih d' r b hes h
        | inr r' =>
          rw [hst] at h
          simp only [Sum.inr.injEq] at h
          subst h
          exact domStep_inr_decodes bs d t _ a hte hst

/-- **the DOM is built whenever every value decodes**: for an accepted document whose attribute values and text runs all decode
(`evsOf … = some es`), `DomBuilder::build` returns a document, and walking it in document order gives exactly `es` -/
theorem dom_built (o : Options) (bs : Bytes) (t : Token) (s : St) (es : List Ev) (hacc : (tokens o bs).2 = .accepted t s)
    (hdec : evsOf bs (tokens o bs).1 = some es) : ∃ ch, domBuild o bs = .doc ch ∧ flattenList ch = es := by
  have hok := tokens_ok' o bs
  have hst := hok.stack
  rw [hacc] at hst
  have hbal := domFold_balanced bs (tokens o bs).1 [] [] {} hst rfl
  unfold domBuild domOf
  cases hf : domFold bs {} (tokens o bs).1 with
  | inr r =>
    rw [hf] at hbal
    have hnd := domFold_inr_decodes bs _ _ r es hdec hf
    cases r with
    | doc _ => exact hbal.elim
    | null e _ _ _ => simp only [DomRes.notDecodeErr] at hbal hnd; rw [hbal] at hnd; cases hnd
    | bad _ => exact hbal.elim
  | inl d =>
    rw [hf] at hbal
    simp only at hbal ⊢
    rw [hacc]
    simp only
    obtain ⟨es', hes', hflat⟩ := domFold_flat bs _ _ _ hf
    rw [hdec] at hes'
    cases hes'
    cases hop : d.open_ with
    | nil =>
      simp only
      refine ⟨d.top, rfl, ?_⟩
      simp [DomSt.flat, hop, flatOpen, flattenList] at hflat
      exact hflat
    | cons _ _ => rw [hop] at hbal; simp at hbal

/-! ### the public `next()` with its latches -/

/-- once `_hasError` or `_emittedEof` is set, every further call returns false and changes nothing -/
theorem pnext_latched (o : Options) (p : PSt) (h : p.error.isSome = true ∨ p.emittedEof = true) : pnext o p = (none, p) := by
  unfold pnext
  rcases h with h | h
  · simp [h]
  · by_cases he : p.error.isSome = true
    · simp [he]
    · simp [he, h]

theorem pcalls_latched (o : Options) : ∀ (k : Nat) (p : PSt), (p.error.isSome = true ∨ p.emittedEof = true) →
    pcalls o k p = ([], p) := by
  intro k
  induction k with
  | zero => intro p _; rfl
  | succ k ih =>
    intro p h
    simp only [pcalls, pnext_latched o p h]
    exact ih p h

/-- calling the public `next()` at least as often as the run needs — and any number of times more — yields exactly the run:
the same tokens, the error recorded (state untouched by the failing call) or Eof latched -/
theorem pcalls_run (o : Options) : ∀ (fuel : Nat) (s : St) (extra : Nat),
    match (run o fuel s).2 with
    | .accepted _ s' => pcalls o (fuel + extra) ⟨s, none, false⟩ = ((run o fuel s).1, ⟨s', none, true⟩)
    | .error e c s' => pcalls o (fuel + extra) ⟨s, none, false⟩ = ((run o fuel s).1, ⟨s', some (e, c), false⟩)
    | .bad _ => True := by
  intro fuel
  induction fuel with
  | zero => intro s extra; simp [run]
  | succ fuel ih =>
    intro s extra
    have hfe : fuel + 1 + extra = (fuel + extra) + 1 := by omega
    rw [hfe]
    simp only [run, pcalls, pnext, Option.isSome_none, Bool.false_eq_true, ↓reduceIte]
    cases hn : next o s with
    | tok t s' =>
      simp only
      have := ih s' extra
      cases hout : (run o fuel s').2 with
      | accepted t' s'' => rw [hout] at this; simp only [this]
      | error e c s'' => rw [hout] at this; simp only [this]
      | bad b => trivial
    | eof t s' =>
      simp only
      exact pcalls_latched o _ _ (Or.inr rfl)
    | err e c =>
      simp only
      exact pcalls_latched o _ _ (Or.inl rfl)
    | bad b => trivial

end Iora.Xml
