import IoraModel.Lemmas.ConnectSyncBase
namespace Iora.ConnectSync
set_option linter.unusedSimpArgs false
set_option linter.unusedVariables false

/-- `engine->connect` refused: the call returns the engine's error, the lock is released, nothing was registered -/
theorem doRefuse_core {s : State} (h : Inv s) (c : Nat) (hpc : (s.callers c).pc = .haveLock) :
    Inv (ret { s with lock := none } c none (.err .refused)) := by
  have hlk : s.lock = some c := (h.K c).mp (by simp [hpc, holds])
  unfold ret
  constructor
  case F_log => first | exact h.F_log | (pick h [F_log]; ret_grind [evSid]) | (pick h [F_log, K]; ret_grind [evSid])
  case F_att => first | exact h.F_att | (pick h [F_att]; ret_grind ) | (pick h [F_att, K]; ret_grind )
  case F_pend => first | exact h.F_pend | (pick h [F_pend]; ret_grind ) | (pick h [F_pend, K]; ret_grind )
  case F_fifo => first | exact h.F_fifo | (pick h [F_fifo]; ret_grind [cmdSid]) | (pick h [F_fifo, K]; ret_grind [cmdSid])
  case F_eng => first | exact h.F_eng | (pick h [F_eng]; ret_grind ) | (pick h [F_eng, K]; ret_grind )
  case F_io => first | exact h.F_io | (pick h [F_io]; ret_grind [ioSid]) | (pick h [F_io, K]; ret_grind [ioSid])
  case U_att => first | exact h.U_att | (pick h [U_att]; ret_grind ) | (pick h [U_att, K]; ret_grind )
  case A_cr => first | exact h.A_cr | (pick h [A_cr]; ret_grind ) | (pick h [A_cr, K]; ret_grind )
  case U_cr => first | exact h.U_cr | (pick h [U_cr]; ret_grind ) | (pick h [U_cr, K]; ret_grind )
  case RC => first | exact h.RC | (pick h [RC]; ret_grind ) | (pick h [RC, K]; ret_grind )
  case E2 => first | exact h.E2 | (pick h [E2]; ret_grind ) | (pick h [E2, K]; ret_grind )
  case K => (pick h [K]; ret_grind)
  case S1 => first | exact h.S1 | (pick h [S1]; ret_grind ) | (pick h [S1, K]; ret_grind )
  case REG => first | exact h.REG | (pick h [REG]; ret_grind ) | (pick h [REG, K]; ret_grind )
  case ACC => first | exact h.ACC | (pick h [ACC]; ret_grind ) | (pick h [ACC, K]; ret_grind )
  case P1 => first | exact h.P1 | (pick h [P1]; ret_grind ) | (pick h [P1, K]; ret_grind )
  case P2 => first | exact h.P2 | (pick h [P2]; ret_grind ) | (pick h [P2, K]; ret_grind )
  case P3 => first | exact h.P3 | (pick h [P3]; ret_grind ) | (pick h [P3, K]; ret_grind )
  case P4 => first | exact h.P4 | (pick h [P4]; ret_grind ) | (pick h [P4, K]; ret_grind )
  case P5 => first | exact h.P5 | (pick h [P5]; ret_grind ) | (pick h [P5, K]; ret_grind )
  case P8 => first | exact h.P8 | (pick h [P8]; ret_grind ) | (pick h [P8, K]; ret_grind )
  case D1 => first | exact h.D1 | (pick h [D1]; ret_grind ) | (pick h [D1, K]; ret_grind )
  case E3 => first | exact h.E3 | (pick h [E3]; ret_grind ) | (pick h [E3, K]; ret_grind )
  case E5 => first | exact h.E5 | (pick h [E5]; ret_grind ) | (pick h [E5, K]; ret_grind )
  case H1 => first | exact h.H1 | (pick h [H1]; ret_grind ) | (pick h [H1, K]; ret_grind )
  case H2 => first | exact h.H2 | (pick h [H2]; ret_grind ) | (pick h [H2, K]; ret_grind )
  case E1 => first | exact h.E1 | (pick h [E1]; ret_grind ) | (pick h [E1, K]; ret_grind )
  case E6 => first | exact h.E6 | (pick h [E6]; ret_grind ) | (pick h [E6, K]; ret_grind )
  case R1 => first | exact h.R1 | (pick h [R1]; ret_grind ) | (pick h [R1, K]; ret_grind )
  case T1 => first | exact h.T1 | (pick h [T1]; ret_grind ) | (pick h [T1, K]; ret_grind )
  case FIX => first | exact h.FIX | (pick h [FIX]; ret_grind ) | (pick h [FIX, K]; ret_grind )
  case T3a => first | exact h.T3a | (pick h [T3a]; ret_grind ) | (pick h [T3a, K]; ret_grind )
  case T6a => first | exact h.T6a | (pick h [T6a]; ret_grind ) | (pick h [T6a, K]; ret_grind )
  case T6b => first | exact h.T6b | (pick h [T6b]; ret_grind ) | (pick h [T6b, K]; ret_grind )
  case G1 => first | exact h.G1 | (pick h [G1]; ret_grind ) | (pick h [G1, K]; ret_grind )
  case G2 => first | exact h.G2 | (pick h [G2]; ret_grind ) | (pick h [G2, K]; ret_grind )
  case T4 => first | exact h.T4 | (pick h [T4]; ret_grind ) | (pick h [T4, K]; ret_grind )
  case Q1 => first | exact h.Q1 | (pick h [Q1]; ret_grind ) | (pick h [Q1, K]; ret_grind )
  case Q3 => first | exact h.Q3 | (pick h [Q3]; ret_grind ) | (pick h [Q3, K]; ret_grind )
  case ORD => first | exact h.ORD | (pick h [ORD]; ret_grind ) | (pick h [ORD, K]; ret_grind )
  case W => first | exact h.W | (pick h [W]; ret_grind ) | (pick h [W, K]; ret_grind )

theorem doRefuse_inv {s : State} (h : Inv s) (c : Nat) : Inv (doRefuse s c) := by
  unfold doRefuse
  split
  · rename_i hpc; exact doRefuse_core h c hpc
  · exact h

end Iora.ConnectSync
