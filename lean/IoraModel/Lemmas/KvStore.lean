import IoraModel.Model.KvSpec
import IoraModel.Lemmas.KvMap
/-! Refinement of the running store (`Model/KvStore.lean`) to the reference map (`Model/KvSpec.lean`): memory part. -/
namespace Iora.Kv
open Iora

/-- what memory holds for one key -/
def Mem.look (m : Mem) (k : Key) : Option Ent :=
  match m.kv.get? k with
  | some v => some (v, m.expOf k)
  | none => none

/-- the abstraction function: memory as the readers see it at the current time -/
def W.abs (w : W) : SpecSt := { m := fun k => live w.now (w.mem.look k), now := w.now }

/-! ## invariants of memory -/

structure MemInv (m : Mem) : Prop where
  /-- cache coherence: every cached `(value, expiry)` is what `_kv` / `_expiry` hold for that key -/
  cache : ∀ x ∈ m.cache, m.look x.1 = some (x.2.value, x.2.expiry)
  /-- `_expiry` only has keys of `_kv` -/
  sub : ∀ k, (m.expiry.get? k).isSome = true → (m.kv.get? k).isSome = true
  nodupKv : (Map.keys m.kv).Nodup
  nodupExp : (Map.keys m.expiry).Nodup
  /-- the empty key is never stored -/
  noEmpty : m.kv.get? [] = none

/-! ## `live` -/

theorem live_none (now : Int) : live now none = none := rfl
@[simp] theorem live_some_none (now : Int) (v : Val) : live now (some (v, none)) = some (v, none) := rfl

theorem live_isSome_of (now : Int) (x : Option Ent) (h : (live now x).isSome = true) : x.isSome = true := by
  cases x with
  | none => simp [live] at h
  | some y => simp

theorem live_idem (now : Int) (x : Option Ent) : live now (live now x) = live now x := by
  match x with
  | none => rfl
  | some (v, none) => rfl
  | some (v, some e) =>
    by_cases h : now < e <;> simp [live, h]

theorem live_mono (t now : Int) (h : now ≤ t) (x : Option Ent) : live t (live now x) = live t x := by
  match x with
  | none => rfl
  | some (v, none) => rfl
  | some (v, some e) =>
    by_cases h1 : now < e
    · simp [live, h1]
    · have : ¬ t < e := by omega
      simp [live, h1, this]

/-! ## `look` under the primitive memory updates -/

theorem expOf_def (m : Mem) (k : Key) : m.expOf k = (m.expiry.get? k).map (·.at_) := rfl

theorem expired_iff (m : Mem) (now : Int) (k : Key) :
    m.expired now k = true ↔ ∃ e, m.expOf k = some e ∧ e ≤ now := by
  unfold Mem.expired Mem.expOf
  cases h : m.expiry.get? k with
  | none => simp
  | some e => simp

theorem expired_false_iff (m : Mem) (now : Int) (k : Key) :
    m.expired now k = false ↔ ∀ e, m.expOf k = some e → now < e := by
  unfold Mem.expired Mem.expOf
  cases h : m.expiry.get? k with
  | none => simp
  | some e => simp

/-- visibility in terms of the model's two tests -/
theorem live_look_isSome (m : Mem) (now : Int) (k : Key) :
    (live now (m.look k)).isSome = (m.kv.has k && !m.expired now k) := by
  unfold Mem.look Map.has
  cases hk : m.kv.get? k with
  | none => simp [live]
  | some v =>
    cases he : m.expOf k with
    | none =>
      have : m.expired now k = false := by rw [expired_false_iff]; simp [he]
      simp [live, this]
    | some e =>
      by_cases h : now < e
      · have : m.expired now k = false := by
          rw [expired_false_iff]; intro e' h'; rw [he] at h'; cases h'; exact h
        simp [live, h, this]
      · have : m.expired now k = true := by
          rw [expired_iff]; exact ⟨e, he, by omega⟩
        simp [live, h, this]

theorem live_look_eq (m : Mem) (now : Int) (k : Key) :
    live now (m.look k) = if m.kv.has k && !m.expired now k then m.look k else none := by
  have h := live_look_isSome m now k
  cases hb : (m.kv.has k && !m.expired now k)
  · rw [hb] at h
    cases hl : live now (m.look k) with
    | none => simp
    | some x => rw [hl] at h; simp at h
  · rw [hb] at h
    simp only [↓reduceIte]
    -- visible: `live` is the identity
    match hl : m.look k with
    | none => simp [live]
    | some (v, none) => simp [live]
    | some (v, some e) =>
      rw [hl] at h
      by_cases h1 : now < e
      · simp [live, h1]
      · simp [live, h1] at h

end Iora.Kv

namespace Iora.Kv
open Iora

/-! ## the read paths agree with the reference map -/

theorem isEmpty_eq_nil {k : Key} (h : k.isEmpty = true) : k = [] := List.isEmpty_iff.mp h

theorem rdExists_spec (w : W) (hi : MemInv w.mem) (k : Key) :
    rdExists w.mem w.now k = specExists w.abs k := by
  unfold rdExists specExists W.abs
  simp only
  rw [live_look_isSome]
  by_cases hk : k.isEmpty = true
  · have := isEmpty_eq_nil hk; subst this
    simp [Map.has, hi.noEmpty]
  · simp [hk]

theorem rdTtl_spec (w : W) (hi : MemInv w.mem) (k : Key) :
    rdTtl w.mem w.now k = specTtl w.abs k := by
  unfold rdTtl specTtl W.abs
  simp only
  by_cases hk : k.isEmpty = true
  · have := isEmpty_eq_nil hk; subst this
    simp [Mem.look, hi.noEmpty, live]
  · simp only [hk, Bool.false_eq_true, ↓reduceIte]
    unfold Mem.look Map.has
    cases hkv : w.mem.kv.get? k with
    | none => simp [live]
    | some v =>
      simp only [Option.isSome_some, Bool.not_true, Bool.false_eq_true, ↓reduceIte, Mem.expOf]
      cases he : w.mem.expiry.get? k with
      | none => simp [live]
      | some e =>
        by_cases h : e.at_ ≤ w.now
        · have : ¬ w.now < e.at_ := by omega
          simp [live, h, this]
        · have : w.now < e.at_ := by omega
          simp [live, h, this]

theorem rdGetBatch_spec (w : W) (hi : MemInv w.mem) (ks : List Key) :
    rdGetBatch w.mem w.now ks = specGetBatch w.abs ks := by
  unfold rdGetBatch specGetBatch
  congr 1
  funext k
  show _ = (live w.now (w.mem.look k)).map _
  by_cases hk : k.isEmpty = true
  · have := isEmpty_eq_nil hk; subst this
    simp [Mem.look, hi.noEmpty, live]
  · simp only [hk, Bool.false_eq_true, ↓reduceIte]
    rw [live_look_eq]
    unfold Mem.look Map.has
    cases hkv : w.mem.kv.get? k with
    | none => simp
    | some v =>
      cases hx : w.mem.expired w.now k <;> simp

theorem keysWithPrefix_spec (w : W) (hi : MemInv w.mem) (p : Bytes) :
    SpecKeys w.abs p (keysWithPrefix w.mem w.now p) := by
  unfold SpecKeys keysWithPrefix
  constructor
  · exact Map.nodup_filter _ _ hi.nodupKv
  · intro k
    show _ ↔ (_ ∧ (live w.now (w.mem.look k)).isSome = true)
    rw [live_look_isSome]
    have := Map.mem_keys_iff (w.mem.kv.filter (fun x => p.isPrefixOf x.1 && !w.mem.expired w.now x.1)) k
    unfold Map.keys at this
    rw [this, Map.get?_filter_key w.mem.kv (fun a => p.isPrefixOf a && !w.mem.expired w.now a)]
    unfold Map.has
    cases hkv : w.mem.kv.get? k with
    | none => simp
    | some v =>
      cases hp : p.isPrefixOf k <;> cases hx : w.mem.expired w.now k <;> simp

theorem rdKeys_spec (w : W) (hi : MemInv w.mem) : SpecKeys w.abs [] (rdKeys w.mem w.now) :=
  keysWithPrefix_spec w hi []

end Iora.Kv

namespace Iora.Kv
open Iora

/-! ## `size()` -/

theorem length_filter_split {α : Type} (p : α → Bool) (l : List α) :
    l.length = (l.filter p).length + (l.filter (fun a => !p a)).length := by
  induction l with
  | nil => rfl
  | cons a r ih =>
    cases h : p a <;> simp [h] <;> omega

theorem length_eq_of_keys_equiv {α β : Type} (a : Map α) (b : Map β) (ha : (Map.keys a).Nodup) (hb : (Map.keys b).Nodup)
    (h : ∀ k, k ∈ Map.keys a ↔ k ∈ Map.keys b) : a.length = b.length := by
  have h1 := List.Nodup.length_le_of_subset ha (fun k hk => (h k).mp hk)
  have h2 := List.Nodup.length_le_of_subset hb (fun k hk => (h k).mpr hk)
  simp only [Map.keys, List.length_map] at h1 h2
  omega

theorem mem_keys_filter_val {β : Type} (m : Map β) (hn : (Map.keys m).Nodup) (q : β → Bool) (k : Key) :
    k ∈ Map.keys (m.filter (fun x => q x.2)) ↔ ∃ v, Map.get? m k = some v ∧ q v = true := by
  constructor
  · intro hk
    obtain ⟨x, hx, rfl⟩ := List.mem_map.mp hk
    obtain ⟨hx1, hx2⟩ := List.mem_filter.mp hx
    exact ⟨x.2, Map.get?_of_mem_nodup m hn x.1 x.2 hx1, hx2⟩
  · rintro ⟨v, hv, hq⟩
    exact List.mem_map.mpr ⟨(k, v), List.mem_filter.mpr ⟨Map.mem_of_get? m k v hv, hq⟩, rfl⟩

/-- `size()` (`_kv.size()` minus the expired entries of `_expiry`) is the number of keys `keys()` returns -/
theorem rdSize_spec (w : W) (hi : MemInv w.mem) : rdSize w.mem w.now = (rdKeys w.mem w.now).length := by
  unfold rdSize rdKeys keysWithPrefix
  simp only [List.length_map]
  have hsplit : w.mem.kv.length = (w.mem.kv.filter (fun x => w.mem.expired w.now x.1)).length
      + (w.mem.kv.filter (fun x => !w.mem.expired w.now x.1)).length :=
    length_filter_split (fun x : Key × Val => w.mem.expired w.now x.1) w.mem.kv
  have hpre : (w.mem.kv.filter (fun x => ([] : Bytes).isPrefixOf x.1 && !w.mem.expired w.now x.1))
      = w.mem.kv.filter (fun x => !w.mem.expired w.now x.1) := by
    congr 1
  rw [hpre]
  have heq : (w.mem.expiry.filter (fun x => decide (x.2.at_ ≤ w.now))).length
      = (w.mem.kv.filter (fun x => w.mem.expired w.now x.1)).length := by
    apply length_eq_of_keys_equiv
    · exact Map.nodup_filter _ _ hi.nodupExp
    · exact Map.nodup_filter _ _ hi.nodupKv
    · intro k
      rw [mem_keys_filter_val w.mem.expiry hi.nodupExp (fun e => decide (e.at_ ≤ w.now)) k]
      have := Map.mem_keys_iff (w.mem.kv.filter (fun x => w.mem.expired w.now x.1)) k
      rw [this, Map.get?_filter_key w.mem.kv (fun a => w.mem.expired w.now a)]
      constructor
      · rintro ⟨e, he, hq⟩
        have hx : w.mem.expired w.now k = true := by
          unfold Mem.expired; rw [he]; exact hq
        have hs := hi.sub k (by rw [he]; rfl)
        obtain ⟨v, hv⟩ := Option.isSome_iff_exists.mp hs
        exact ⟨v, by simp [hx, hv]⟩
      · rintro ⟨v, hv⟩
        by_cases hx : w.mem.expired w.now k = true
        · unfold Mem.expired at hx
          cases he : w.mem.expiry.get? k with
          | none => rw [he] at hx; simp at hx
          | some e => rw [he] at hx; exact ⟨e, rfl, hx⟩
        · simp [hx] at hv
  omega

end Iora.Kv

namespace Iora.Kv
open Iora

/-! ## primitive memory updates -/

theorem look_congr {m1 m2 : Mem} (h1 : m1.kv = m2.kv) (h2 : m1.expiry = m2.expiry) : m1.look = m2.look := by
  funext k; simp [Mem.look, Mem.expOf, h1, h2]

theorem look_set (m : Mem) (k : Key) (v : Val) (c : Map CacheEnt) (n : Nat) (ch : List Nat) (k' : Key) :
    Mem.look { kv := m.kv.put k v, expiry := m.expiry.erase k, cache := c, nextTimer := n, choices := ch } k'
      = if k = k' then some (v, none) else m.look k' := by
  simp only [Mem.look, Mem.expOf, Map.get?_put, Map.get?_erase]
  by_cases h : k = k' <;> simp [h]

theorem look_setE (m : Mem) (k : Key) (v : Val) (e : ExpEnt) (c : Map CacheEnt) (n : Nat) (ch : List Nat) (k' : Key) :
    Mem.look { kv := m.kv.put k v, expiry := m.expiry.put k e, cache := c, nextTimer := n, choices := ch } k'
      = if k = k' then some (v, some e.at_) else m.look k' := by
  simp only [Mem.look, Mem.expOf, Map.get?_put]
  by_cases h : k = k' <;> simp [h]

theorem look_del (m : Mem) (k : Key) (c : Map CacheEnt) (n : Nat) (ch : List Nat) (k' : Key) :
    Mem.look { kv := m.kv.erase k, expiry := m.expiry.erase k, cache := c, nextTimer := n, choices := ch } k'
      = if k = k' then none else m.look k' := by
  simp only [Mem.look, Mem.expOf, Map.get?_erase]
  by_cases h : k = k' <;> simp [h]

theorem look_expPut (m : Mem) (k : Key) (e : ExpEnt) (c : Map CacheEnt) (n : Nat) (ch : List Nat) (k' : Key) :
    Mem.look { kv := m.kv, expiry := m.expiry.put k e, cache := c, nextTimer := n, choices := ch } k'
      = if k = k' then (m.look k).map (fun x => (x.1, some e.at_)) else m.look k' := by
  simp only [Mem.look, Mem.expOf, Map.get?_put]
  by_cases h : k = k'
  · subst h; cases m.kv.get? k <;> simp
  · simp [h]

theorem look_expErase (m : Mem) (k : Key) (c : Map CacheEnt) (n : Nat) (ch : List Nat) (k' : Key) :
    Mem.look { kv := m.kv, expiry := m.expiry.erase k, cache := c, nextTimer := n, choices := ch } k'
      = if k = k' then (m.look k).map (fun x => (x.1, none)) else m.look k' := by
  simp only [Mem.look, Mem.expOf, Map.get?_erase]
  by_cases h : k = k'
  · subst h; cases m.kv.get? k <;> simp
  · simp [h]

/-! ## cache -/

theorem mem_erase {β : Type} (c : Map β) (k : Key) (x : Key × β) (h : x ∈ Map.erase c k) : x ∈ c ∧ x.1 ≠ k := by
  induction c with
  | nil => simp [Map.erase] at h
  | cons y r ih =>
    obtain ⟨a, b⟩ := y
    simp only [Map.erase] at h
    by_cases e : a = k
    · simp only [e, ↓reduceIte] at h
      exact ⟨List.mem_cons_of_mem _ (ih h).1, (ih h).2⟩
    · simp only [e, ↓reduceIte] at h
      rcases List.mem_cons.mp h with h | h
      · subst h; exact ⟨List.mem_cons_self, e⟩
      · exact ⟨List.mem_cons_of_mem _ (ih h).1, (ih h).2⟩

/-- the cache after `updateCache k v e`: the new entry, or an old entry for another key -/
theorem mem_updateCache (cfg : Cfg) (m : Mem) (k : Key) (v : Val) (e : Option Int) (x : Key × CacheEnt)
    (h : x ∈ (updateCache cfg m k v e).cache) : x = (k, ⟨v, e⟩) ∨ (x ∈ m.cache ∧ x.1 ≠ k) ∨ (cfg.maxCache = 0 ∧ x ∈ m.cache) := by
  unfold updateCache at h
  by_cases h0 : cfg.maxCache = 0
  · simp only [h0, ↓reduceIte] at h
    exact .inr (.inr ⟨h0, h⟩)
  · simp only [h0, ↓reduceIte, Map.put] at h
    rcases List.mem_cons.mp h with h | h
    · exact .inl h
    · right; left
      have h2 := mem_erase _ k x h
      refine ⟨?_, h2.2⟩
      split at h2
      · split at h2
        · exact List.mem_of_mem_eraseIdx h2.1
        · exact List.mem_of_mem_eraseIdx h2.1
      · exact h2.1

@[simp] theorem updateCache_kv (cfg : Cfg) (m : Mem) (k : Key) (v : Val) (e : Option Int) :
    (updateCache cfg m k v e).kv = m.kv := rfl
@[simp] theorem updateCache_expiry (cfg : Cfg) (m : Mem) (k : Key) (v : Val) (e : Option Int) :
    (updateCache cfg m k v e).expiry = m.expiry := rfl
@[simp] theorem updateCache_nextTimer (cfg : Cfg) (m : Mem) (k : Key) (v : Val) (e : Option Int) :
    (updateCache cfg m k v e).nextTimer = m.nextTimer := rfl

theorem look_updateCache (cfg : Cfg) (m : Mem) (k : Key) (v : Val) (e : Option Int) :
    (updateCache cfg m k v e).look = m.look := look_congr rfl rfl

/-- `updateCache` with the pair memory holds keeps every invariant -/
theorem MemInv.updateCache (cfg : Cfg) (m : Mem) (hi : MemInv m) (k : Key) (v : Val) (e : Option Int)
    (hl : m.look k = some (v, e)) : MemInv (updateCache cfg m k v e) where
  cache := by
    intro x hx
    rw [look_updateCache]
    rcases mem_updateCache cfg m k v e x hx with h | h | h
    · subst h; exact hl
    · exact hi.cache x h.1
    · exact hi.cache x h.2
  sub := by simp only [updateCache_kv, updateCache_expiry]; exact hi.sub
  nodupKv := by rw [updateCache_kv]; exact hi.nodupKv
  nodupExp := by rw [updateCache_expiry]; exact hi.nodupExp
  noEmpty := by rw [updateCache_kv]; exact hi.noEmpty

end Iora.Kv

namespace Iora.Kv
open Iora

/-! ## compaction and log writes do not change what the readers see -/

@[simp] theorem emit_mem (w : W) (o : FsOp) : (w.emit o).mem = w.mem := rfl
@[simp] theorem emit_now (w : W) (o : FsOp) : (w.emit o).now = w.now := rfl
@[simp] theorem writeLog_mem (cfg : Cfg) (w : W) (r : Rec) : (writeLog cfg w r).mem = w.mem := rfl
@[simp] theorem writeLog_now (cfg : Cfg) (w : W) (r : Rec) : (writeLog cfg w r).now = w.now := rfl

theorem abs_congr {w1 w2 : W} (hm : w1.mem.look = w2.mem.look) (hn : w1.now = w2.now) : w1.abs = w2.abs := by
  unfold W.abs; rw [hm, hn]

@[simp] theorem compactLocked_now (cfg : Cfg) (w : W) : (compactLocked cfg w).now = w.now := rfl

theorem look_compact (cfg : Cfg) (w : W) (k : Key) :
    (compactLocked cfg w).mem.look k = if w.mem.expired w.now k then none else w.mem.look k := by
  simp only [compactLocked, Mem.look, Mem.expOf]
  rw [Map.get?_filter_key w.mem.kv (fun a => !w.mem.expired w.now a),
      Map.get?_filter_key w.mem.expiry (fun a => !w.mem.expired w.now a)]
  cases h : w.mem.expired w.now k <;> simp

theorem abs_compact (cfg : Cfg) (w : W) : (compactLocked cfg w).abs = w.abs := by
  unfold W.abs
  simp only [compactLocked_now, SpecSt.mk.injEq, and_true]
  funext k
  rw [look_compact]
  cases h : w.mem.expired w.now k
  · simp
  · simp only [↓reduceIte, live_none]
    have := live_look_isSome w.mem w.now k
    rw [h] at this
    simp only [Bool.not_true, Bool.and_false] at this
    cases hl : live w.now (w.mem.look k) with
    | none => rfl
    | some x => rw [hl] at this; simp at this

theorem MemInv.compact (cfg : Cfg) (w : W) (hi : MemInv w.mem) : MemInv (compactLocked cfg w).mem where
  cache := by
    intro x hx
    rw [look_compact]
    have hx' : x ∈ w.mem.cache.filter (fun x => !w.mem.expired w.now x.1) := hx
    obtain ⟨h1, h2⟩ := List.mem_filter.mp hx'
    have : w.mem.expired w.now x.1 = false := by simpa using h2
    simp only [this, Bool.false_eq_true, ↓reduceIte]
    exact hi.cache x h1
  sub := by
    intro k
    simp only [compactLocked]
    rw [Map.get?_filter_key w.mem.kv (fun a => !w.mem.expired w.now a),
        Map.get?_filter_key w.mem.expiry (fun a => !w.mem.expired w.now a)]
    cases h : w.mem.expired w.now k
    · simpa using hi.sub k
    · simp
  nodupKv := Map.nodup_filter _ _ hi.nodupKv
  nodupExp := Map.nodup_filter _ _ hi.nodupExp
  noEmpty := by
    simp only [compactLocked]
    rw [Map.get?_filter_key w.mem.kv (fun a => !w.mem.expired w.now a)]
    simp [hi.noEmpty]

@[simp] theorem maybeCompact_now (cfg : Cfg) (w : W) : (maybeCompact cfg w).now = w.now := by
  unfold maybeCompact; split <;> simp

theorem abs_maybeCompact (cfg : Cfg) (w : W) : (maybeCompact cfg w).abs = w.abs := by
  unfold maybeCompact; split
  · exact abs_compact cfg w
  · rfl

theorem MemInv.maybeCompact (cfg : Cfg) (w : W) (hi : MemInv w.mem) : MemInv (maybeCompact cfg w).mem := by
  unfold Iora.Kv.maybeCompact; split
  · exact MemInv.compact cfg w hi
  · exact hi

/-- abstraction after a single-key update followed by a log write and `maybeCompact` -/
theorem abs_after (cfg : Cfg) (w : W) (m' : Mem) (r : Rec) :
    (maybeCompact cfg (writeLog cfg { w with mem := m' } r)).abs
      = { m := fun k => live w.now (m'.look k), now := w.now } := by
  rw [abs_maybeCompact]; rfl

end Iora.Kv

namespace Iora.Kv
open Iora

/-! ## single-key updates -/

/-- `MemInv` except that cached entries of key `k` may be stale (the state between the update of `_kv`/`_expiry` and the
cache update/invalidation of the same critical section) -/
structure MemInvX (m : Mem) (k : Key) : Prop where
  cache : ∀ x ∈ m.cache, x.1 ≠ k → m.look x.1 = some (x.2.value, x.2.expiry)
  sub : ∀ k', (m.expiry.get? k').isSome = true → (m.kv.get? k').isSome = true
  nodupKv : (Map.keys m.kv).Nodup
  nodupExp : (Map.keys m.expiry).Nodup
  noEmpty : m.kv.get? [] = none

theorem MemInvX.of_single {m m0 : Mem} {k : Key} (hi : MemInv m) (hcache : m0.cache = m.cache)
    (hl : ∀ k', k ≠ k' → m0.look k' = m.look k')
    (hsub : ∀ k', (m0.expiry.get? k').isSome = true → (m0.kv.get? k').isSome = true)
    (hn1 : (Map.keys m0.kv).Nodup) (hn2 : (Map.keys m0.expiry).Nodup) (hne : m0.kv.get? [] = none) : MemInvX m0 k where
  cache := by
    intro x hx hne
    rw [hcache] at hx
    rw [hl x.1 (fun e => hne e.symm)]
    exact hi.cache x hx
  sub := hsub
  nodupKv := hn1
  nodupExp := hn2
  noEmpty := hne

/-- with `maxCacheSize == 0` the cache stays empty (so there is no stale entry `updateCache` could leave behind) -/
def CacheOff (cfg : Cfg) (m : Mem) : Prop := cfg.maxCache = 0 → m.cache = []

theorem CacheOff.updateCache (cfg : Cfg) (m : Mem) (hz : CacheOff cfg m) (k : Key) (v : Val) (e : Option Int) :
    CacheOff cfg (updateCache cfg m k v e) := by
  intro h0
  unfold Iora.Kv.updateCache
  simp only [h0, ↓reduceIte]
  exact hz h0

theorem MemInvX.updateCache (cfg : Cfg) {m : Mem} {k : Key} (hi : MemInvX m k) (hz : CacheOff cfg m) (v : Val) (e : Option Int)
    (hl : m.look k = some (v, e)) : MemInv (updateCache cfg m k v e) where
  cache := by
    intro x hx
    rw [look_updateCache]
    rcases mem_updateCache cfg m k v e x hx with h | h | h
    · subst h; exact hl
    · exact hi.cache x h.1 h.2
    · rw [hz h.1] at h; exact absurd h.2 List.not_mem_nil
  sub := by simp only [updateCache_kv, updateCache_expiry]; exact hi.sub
  nodupKv := by rw [updateCache_kv]; exact hi.nodupKv
  nodupExp := by rw [updateCache_expiry]; exact hi.nodupExp
  noEmpty := by rw [updateCache_kv]; exact hi.noEmpty

theorem MemInvX.invalidate {m : Mem} {k : Key} (hi : MemInvX m k) : MemInv (invalidateCache m k) where
  cache := by
    intro x hx
    have h := mem_erase m.cache k x hx
    have : (invalidateCache m k).look = m.look := look_congr rfl rfl
    rw [this]
    exact hi.cache x h.1 h.2
  sub := hi.sub
  nodupKv := hi.nodupKv
  nodupExp := hi.nodupExp
  noEmpty := hi.noEmpty

theorem validate_none {l : Lim} {k : Key} {v : Val} (h : validate l k v = none) :
    k ≠ [] ∧ k.length ≤ l.maxKey ∧ v.length ≤ l.maxVal := by
  unfold validate at h
  split at h
  · cases h
  · split at h
    · cases h
    · split at h
      · cases h
      · rename_i h1 h2 h3
        refine ⟨?_, by omega, by omega⟩
        intro e; subst e; simp at h1

theorem get?_put_nil {β : Type} (m : Map β) (k : Key) (v : β) (hk : k ≠ []) (h : Map.get? m [] = none) :
    Map.get? (Map.put m k v) [] = none := by
  rw [Map.get?_put]; simp [hk, h]

theorem get?_erase_nil {β : Type} (m : Map β) (k : Key) (h : Map.get? m [] = none) :
    Map.get? (Map.erase m k) [] = none := by
  rw [Map.get?_erase]; simp [h]

/-- `set(key, value)` -/
theorem set_ok (cfg : Cfg) (w : W) (hi : MemInv w.mem) (hz : CacheOff cfg w.mem) (k : Key) (v : Val) :
    MemInv (opSet cfg w k v).1.mem ∧ (opSet cfg w k v).1.abs = specStep cfg.lim w.abs (.set k v)
      ∧ OutOK cfg.lim w.abs (.set k v) (opSet cfg w k v).2 := by
  unfold opSet
  cases hv : validate cfg.lim k v with
  | some e => simp [specStep, OutOK, hv, hi]
  | none =>
    obtain ⟨hk, _, _⟩ := validate_none hv
    have hx : MemInvX { w.mem with expiry := w.mem.expiry.erase k, kv := w.mem.kv.put k v } k :=
      MemInvX.of_single hi rfl
        (fun k' hne => by rw [look_set]; simp [hne])
        (fun k' => by
          simp only [Map.get?_erase, Map.get?_put]
          by_cases e : k = k' <;> simp [e]
          exact hi.sub k')
        (Map.nodup_put _ _ _ hi.nodupKv) (Map.nodup_erase _ _ hi.nodupExp)
        (get?_put_nil _ _ _ hk hi.noEmpty)
    have hl : Mem.look { w.mem with expiry := w.mem.expiry.erase k, kv := w.mem.kv.put k v } k = some (v, none) := by
      rw [look_set]; simp
    refine ⟨MemInv.maybeCompact _ _ (hx.updateCache cfg hz v none hl), ?_, by simp [OutOK, hv]⟩
    rw [abs_after]
    simp only [specStep, hv, Option.isSome_none, Bool.false_eq_true, ↓reduceIte, W.abs, SpecSt.mk.injEq, and_true]
    funext k'
    rw [look_updateCache, look_set]
    unfold Spec.upd
    by_cases e : k = k' <;> simp [e]

end Iora.Kv

namespace Iora.Kv
open Iora

theorem sub_put_put (m : Mem) (hi : MemInv m) (k : Key) (v : Val) (e : ExpEnt) (k' : Key) :
    (Map.get? (m.expiry.put k e) k').isSome = true → (Map.get? (m.kv.put k v) k').isSome = true := by
  simp only [Map.get?_put]
  by_cases h : k = k' <;> simp [h]
  exact hi.sub k'

/-- `set(key, value, ttl)` -/
theorem setTtl_ok (cfg : Cfg) (w : W) (hi : MemInv w.mem) (hz : CacheOff cfg w.mem) (k : Key) (v : Val) (ttl : Int) :
    MemInv (opSetTtl cfg w k v ttl).1.mem ∧ (opSetTtl cfg w k v ttl).1.abs = specStep cfg.lim w.abs (.setTtl k v ttl)
      ∧ OutOK cfg.lim w.abs (.setTtl k v ttl) (opSetTtl cfg w k v ttl).2 := by
  unfold opSetTtl
  by_cases ht : ttl ≤ 0
  · simp [specStep, OutOK, ht, hi]
  · simp only [ht, ↓reduceIte]
    cases hv : validate cfg.lim k v with
    | some e => simp [specStep, OutOK, hv, hi, ht]
    | none =>
      obtain ⟨hk, _, _⟩ := validate_none hv
      simp only [armTimer]
      refine ⟨MemInv.maybeCompact _ _ (MemInvX.updateCache cfg (MemInvX.of_single
          (m0 := { w.mem with kv := w.mem.kv.put k v, expiry := w.mem.expiry.put k ⟨deadlineAfter cfg.lim w.now ttl, w.mem.nextTimer, false⟩, nextTimer := w.mem.nextTimer + 1 })
          (k := k) hi rfl
          (fun k' hne => by rw [look_setE]; simp [hne])
          (sub_put_put w.mem hi k v _)
          (Map.nodup_put _ _ _ hi.nodupKv) (Map.nodup_put _ _ _ hi.nodupExp)
          (get?_put_nil _ _ _ hk hi.noEmpty)) hz v (some (deadlineAfter cfg.lim w.now ttl)) (by rw [look_setE]; simp)), ?_,
        by simp [OutOK, hv, ht]⟩
      rw [abs_after]
      simp only [specStep, hv, ht, Option.isSome_none, Bool.false_eq_true, or_self, ↓reduceIte, W.abs, SpecSt.mk.injEq, and_true]
      funext k'
      rw [look_updateCache, look_setE]
      unfold Spec.upd
      by_cases e : k = k'
      · simp [e]
      · simp [e]

/-- a cache hit is what the authoritative path would return (cache coherence + the embedded expiry) -/
theorem cacheLookup_some (m : Mem) (hi : MemInv m) (now : Int) (k : Key) (v : Val)
    (h : cacheLookup m now k = some v) : (live now (m.look k)).map (·.1) = some v := by
  unfold cacheLookup at h
  cases hc : m.cache.get? k with
  | none => rw [hc] at h; simp at h
  | some c =>
    rw [hc] at h
    have hcoh := hi.cache (k, c) (Map.mem_of_get? _ _ _ hc)
    simp only at hcoh h
    rw [hcoh]
    cases hce : c.expiry with
    | none => rw [hce] at h; simp at h; simp [h]
    | some e =>
      rw [hce] at h
      by_cases hlt : e > now
      · simp only [hlt, ↓reduceIte, Option.some.injEq] at h
        have : now < e := hlt
        simp [live, this, h]
      · simp [hlt] at h

/-- the authoritative path of `get` -/
theorem look_map_fst (m : Mem) (now : Int) (k : Key) :
    (live now (m.look k)).map (·.1) = (match m.kv.get? k with
      | none => none
      | some v => if m.expired now k then none else some v) := by
  rw [live_look_eq]
  unfold Mem.look Map.has
  cases hkv : m.kv.get? k with
  | none => simp
  | some v => cases hx : m.expired now k <;> simp

/-- `get` -/
theorem get_ok (cfg : Cfg) (w : W) (hi : MemInv w.mem) (k : Key) :
    MemInv (opGet cfg w k).1.mem ∧ (opGet cfg w k).1.abs = specStep cfg.lim w.abs (.get k)
      ∧ OutOK cfg.lim w.abs (.get k) (opGet cfg w k).2 := by
  unfold opGet
  simp only [specStep, OutOK]
  by_cases hk : k.isEmpty = true
  · have := isEmpty_eq_nil hk; subst this
    simp [hi, W.abs, Mem.look, hi.noEmpty, live]
  · simp only [hk, Bool.false_eq_true, ↓reduceIte]
    cases hc : cacheLookup w.mem w.now k with
    | some v =>
      simp only [hi, true_and]
      show Out.value (some v) = Out.value ((live w.now (w.mem.look k)).map (·.1))
      rw [cacheLookup_some w.mem hi w.now k v hc]
    | none =>
      simp only
      have hm := look_map_fst w.mem w.now k
      cases hkv : w.mem.kv.get? k with
      | none =>
        rw [hkv] at hm
        simp only [hi, true_and]
        show Out.value none = Out.value ((live w.now (w.mem.look k)).map (·.1))
        rw [hm]
      | some v =>
        rw [hkv] at hm
        simp only
        cases hex : w.mem.expired w.now k with
        | true =>
          rw [hex] at hm
          simp only [↓reduceIte, hi, true_and]
          show Out.value none = Out.value ((live w.now (w.mem.look k)).map (·.1))
          rw [hm]; rfl
        | false =>
          rw [hex] at hm
          simp only [Bool.false_eq_true, ↓reduceIte]
          have hl : w.mem.look k = some (v, w.mem.expOf k) := by simp [Mem.look, hkv]
          refine ⟨MemInv.updateCache cfg w.mem hi k v _ hl, abs_congr (look_updateCache ..) rfl, ?_⟩
          show Out.value (some v) = Out.value ((live w.now (w.mem.look k)).map (·.1))
          rw [hm]; rfl

end Iora.Kv

namespace Iora.Kv
open Iora

theorem sub_erase_erase (m : Mem) (hi : MemInv m) (k k' : Key) :
    (Map.get? (m.expiry.erase k) k').isSome = true → (Map.get? (m.kv.erase k) k').isSome = true := by
  simp only [Map.get?_erase]
  by_cases h : k = k' <;> simp [h]
  exact hi.sub k'

theorem look_none_of_not_has (m : Mem) (k : Key) (h : m.kv.has k = false) : m.look k = none := by
  unfold Map.has at h; unfold Mem.look
  cases hk : m.kv.get? k with
  | none => rfl
  | some v => rw [hk] at h; simp at h

/-- the memory effect of `remove` / EVICT: erase from `_kv`, `_expiry` and `_cache` -/
theorem MemInv.erase3 (m : Mem) (hi : MemInv m) (k : Key) :
    MemInv { m with kv := m.kv.erase k, expiry := m.expiry.erase k, cache := m.cache.erase k } := by
  have hx : MemInvX { m with kv := m.kv.erase k, expiry := m.expiry.erase k } k :=
    MemInvX.of_single hi rfl (fun k' hne => by rw [look_del]; simp [hne]) (sub_erase_erase m hi k)
      (Map.nodup_erase _ _ hi.nodupKv) (Map.nodup_erase _ _ hi.nodupExp) (get?_erase_nil _ _ hi.noEmpty)
  exact hx.invalidate

/-- `remove` (as a function of the state only; it returns nothing) -/
theorem remove_ok (cfg : Cfg) (w : W) (hi : MemInv w.mem) (k : Key) :
    MemInv (opRemove cfg w k).mem ∧ (opRemove cfg w k).abs = specStep cfg.lim w.abs (.remove k) := by
  unfold opRemove
  simp only [specStep]
  by_cases hk : k.isEmpty = true
  · have := isEmpty_eq_nil hk; subst this
    simp only [List.isEmpty_nil, ↓reduceIte, hi, true_and]
    unfold W.abs Spec.upd
    simp only [SpecSt.mk.injEq, and_true]
    funext k'
    by_cases e : [] = k'
    · subst e; simp [Mem.look, hi.noEmpty, live]
    · simp [e]
  · simp only [hk, Bool.false_eq_true, ↓reduceIte]
    cases hh : w.mem.kv.has k with
    | false =>
      simp only [Bool.false_eq_true, ↓reduceIte, hi, true_and]
      unfold W.abs Spec.upd
      simp only [SpecSt.mk.injEq, and_true]
      funext k'
      by_cases e : k = k'
      · subst e; simp [look_none_of_not_has _ _ hh, live]
      · simp [e]
    | true =>
      simp only [↓reduceIte]
      refine ⟨MemInv.maybeCompact _ _ (MemInv.erase3 w.mem hi k), ?_⟩
      rw [abs_after]
      unfold W.abs Spec.upd
      simp only [SpecSt.mk.injEq, and_true]
      funext k'
      rw [look_del]
      by_cases e : k = k' <;> simp [e, live]

/-- `expireAt` -/
theorem expireAt_ok (cfg : Cfg) (w : W) (hi : MemInv w.mem) (k : Key) (t : Int) :
    MemInv (opExpireAt cfg w k t).mem ∧ (opExpireAt cfg w k t).abs = specStep cfg.lim w.abs (.expireAt k t) := by
  unfold opExpireAt
  simp only [specStep]
  by_cases hk : k.isEmpty = true
  · have := isEmpty_eq_nil hk; subst this
    simp [hi, W.abs, Mem.look, hi.noEmpty, live]
  · simp only [hk, Bool.false_eq_true, ↓reduceIte]
    have hvis := live_look_eq w.mem w.now k
    cases hb : (!w.mem.kv.has k || w.mem.expired w.now k) with
    | true =>
      -- absent, or expired-not-yet-evicted: a no-op on both sides
      have : (w.mem.kv.has k && !w.mem.expired w.now k) = false := by
        cases h1 : w.mem.kv.has k <;> cases h2 : w.mem.expired w.now k <;> simp [h1, h2] at hb ⊢
      rw [this] at hvis
      simp only [Bool.false_eq_true, ↓reduceIte] at hvis
      simp only [↓reduceIte, hi, true_and]
      have : (W.abs w).m k = none := hvis
      rw [this]
    | false =>
      have hb' : (w.mem.kv.has k && !w.mem.expired w.now k) = true := by
        cases h1 : w.mem.kv.has k <;> cases h2 : w.mem.expired w.now k <;> simp [h1, h2] at hb ⊢
      rw [hb'] at hvis
      simp only [↓reduceIte] at hvis
      simp only [Bool.false_eq_true, ↓reduceIte, armTimer]
      obtain ⟨v, hv⟩ := (Map.has_iff w.mem.kv k).mp (by
        cases h1 : w.mem.kv.has k
        · simp [h1] at hb'
        · rfl)
      have hl : w.mem.look k = some (v, w.mem.expOf k) := by simp [Mem.look, hv]
      have habs : (W.abs w).m k = some (v, w.mem.expOf k) := by
        show live w.now (w.mem.look k) = _
        rw [hvis, hl]
      rw [habs]
      constructor
      · refine (MemInvX.of_single
          (m0 := { w.mem with expiry := w.mem.expiry.put k ⟨t, w.mem.nextTimer, decide (t ≤ w.now)⟩, nextTimer := w.mem.nextTimer + 1 })
          (k := k) hi rfl (fun k' hne => by rw [look_expPut]; simp [hne]) ?_ hi.nodupKv
          (Map.nodup_put _ _ _ hi.nodupExp) hi.noEmpty).invalidate
        intro k'
        simp only [Map.get?_put]
        by_cases e : k = k'
        · subst e; simp [hv]
        · simp [e]; exact hi.sub k'
      · unfold W.abs Spec.upd
        simp only [writeLog_now, writeLog_mem, SpecSt.mk.injEq, and_true]
        funext k'
        have : (invalidateCache { w.mem with expiry := w.mem.expiry.put k ⟨t, w.mem.nextTimer, decide (t ≤ w.now)⟩, nextTimer := w.mem.nextTimer + 1 } k).look
            = Mem.look { w.mem with expiry := w.mem.expiry.put k ⟨t, w.mem.nextTimer, decide (t ≤ w.now)⟩, nextTimer := w.mem.nextTimer + 1 } :=
          look_congr rfl rfl
        show live w.now ((invalidateCache _ k).look k') = _
        rw [this, look_expPut]
        by_cases e : k = k'
        · subst e
          by_cases hlt : w.now < t <;> simp [hl, live, hlt]
        · simp [e]

end Iora.Kv

namespace Iora.Kv
open Iora

theorem expOf_none_of_not_has (m : Mem) (k : Key) (h : m.expiry.has k = false) : m.expOf k = none := by
  unfold Map.has at h; unfold Mem.expOf
  cases hk : m.expiry.get? k with
  | none => rfl
  | some v => rw [hk] at h; simp at h

/-- `persist` -/
theorem persist_ok (cfg : Cfg) (w : W) (hi : MemInv w.mem) (k : Key) :
    MemInv (opPersist cfg w k).mem ∧ (opPersist cfg w k).abs = specStep cfg.lim w.abs (.persist k) := by
  unfold opPersist
  simp only [specStep]
  by_cases hk : k.isEmpty = true
  · have := isEmpty_eq_nil hk; subst this
    simp [hi, W.abs, Mem.look, hi.noEmpty, live]
  · simp only [hk, Bool.false_eq_true, ↓reduceIte]
    have hvis := live_look_eq w.mem w.now k
    cases h1 : w.mem.kv.has k with
    | false =>
      simp only [h1, Bool.false_and, Bool.false_eq_true, ↓reduceIte] at hvis
      simp only [Bool.not_false, ↓reduceIte, hi, true_and]
      have : (W.abs w).m k = none := hvis
      rw [this]
    | true =>
      obtain ⟨v, hv⟩ := (Map.has_iff w.mem.kv k).mp h1
      have hl : w.mem.look k = some (v, w.mem.expOf k) := by simp [Mem.look, hv]
      simp only [Bool.not_true, Bool.false_eq_true, ↓reduceIte]
      cases h2 : w.mem.expiry.has k with
      | false =>
        -- already permanent
        have hx : w.mem.expired w.now k = false := by
          rw [expired_false_iff]; intro e he; rw [expOf_none_of_not_has _ _ h2] at he; cases he
        simp only [h1, hx, Bool.not_false, Bool.and_self, ↓reduceIte] at hvis
        simp only [Bool.not_false, ↓reduceIte, hi, true_and]
        have habs : (W.abs w).m k = some (v, none) := by
          show live w.now (w.mem.look k) = _
          rw [hvis, hl, expOf_none_of_not_has _ _ h2]
        rw [habs]
        unfold W.abs Spec.upd
        simp only [SpecSt.mk.injEq, and_true]
        funext k'
        by_cases e : k = k'
        · subst e
          have := habs
          unfold W.abs at this
          simpa using this
        · simp [e]
      | true =>
        simp only [Bool.not_true, Bool.false_eq_true, ↓reduceIte]
        cases h3 : w.mem.expired w.now k with
        | true =>
          simp only [h1, h3, Bool.not_true, Bool.and_false, Bool.false_eq_true, ↓reduceIte] at hvis
          simp only [↓reduceIte, hi, true_and]
          have : (W.abs w).m k = none := hvis
          rw [this]
        | false =>
          simp only [h1, h3, Bool.not_false, Bool.and_self, ↓reduceIte] at hvis
          simp only [Bool.false_eq_true, ↓reduceIte]
          have habs : (W.abs w).m k = some (v, w.mem.expOf k) := by
            show live w.now (w.mem.look k) = _
            rw [hvis, hl]
          rw [habs]
          constructor
          · refine (MemInvX.of_single (m0 := { w.mem with expiry := w.mem.expiry.erase k }) (k := k) hi rfl
              (fun k' hne => by rw [look_expErase]; simp [hne]) ?_ hi.nodupKv
              (Map.nodup_erase _ _ hi.nodupExp) hi.noEmpty).invalidate
            intro k'
            simp only [Map.get?_erase]
            by_cases e : k = k'
            · simp [e]
            · simp [e]; exact hi.sub k'
          · unfold W.abs Spec.upd
            simp only [writeLog_now, writeLog_mem, SpecSt.mk.injEq, and_true]
            funext k'
            have : (invalidateCache { w.mem with expiry := w.mem.expiry.erase k } k).look
                = Mem.look { w.mem with expiry := w.mem.expiry.erase k } := look_congr rfl rfl
            show live w.now ((invalidateCache _ k).look k') = _
            rw [this, look_expErase]
            by_cases e : k = k'
            · subst e; simp [hl]
            · simp [e]

/-- the eviction callback — STALE / RE-ARM / EVICT — never changes what the readers see: it removes only a key whose
expiry has passed (`M2`), whatever key and timer generation the wheel delivers, early or late -/
theorem evictFire_ok (cfg : Cfg) (w : W) (hi : MemInv w.mem) (k : Key) (gen : Nat) :
    MemInv (opEvictFire cfg w k gen).mem ∧ (opEvictFire cfg w k gen).abs = w.abs := by
  unfold opEvictFire
  simp only
  cases he : w.mem.expiry.get? k with
  | none => exact ⟨hi, rfl⟩
  | some e =>
    simp only
    by_cases hg : gen = 0 ∨ e.timer ≠ gen
    · rw [if_pos hg]; exact ⟨hi, rfl⟩
    · simp only [hg, ↓reduceIte, armTimer]
      by_cases hlt : e.at_ > w.now
      · -- RE-ARM: only the timer id changes
        simp only [hlt, ↓reduceIte]
        have hlook : Mem.look { w.mem with expiry := w.mem.expiry.put k { e with timer := w.mem.nextTimer, due0 := false }, nextTimer := w.mem.nextTimer + 1 }
            = w.mem.look := by
          funext k'
          rw [look_expPut]
          by_cases h : k = k'
          · subst h
            simp only [↓reduceIte, Mem.look, Mem.expOf, he]
            cases w.mem.kv.get? k <;> simp
          · simp [h]
        refine ⟨⟨?_, ?_, hi.nodupKv, Map.nodup_put _ _ _ hi.nodupExp, hi.noEmpty⟩, abs_congr hlook rfl⟩
        · intro x hx
          rw [hlook]; exact hi.cache x hx
        · intro k'
          simp only [Map.get?_put]
          by_cases h : k = k'
          · subst h; intro _; exact hi.sub k (by rw [he]; rfl)
          · simp [h]; exact hi.sub k'
      · -- EVICT: the key's expiry has passed, so it was invisible already
        simp only [hlt, ↓reduceIte]
        refine ⟨MemInv.erase3 w.mem hi k, ?_⟩
        unfold W.abs
        simp only [writeLog_now, writeLog_mem, SpecSt.mk.injEq, and_true]
        funext k'
        rw [look_del]
        by_cases h : k = k'
        · subst h
          have hx : w.mem.expired w.now k = true := by
            rw [expired_iff]; exact ⟨e.at_, by simp [Mem.expOf, he], by omega⟩
          have := live_look_eq w.mem w.now k
          simp only [hx, Bool.not_true, Bool.and_false, Bool.false_eq_true, ↓reduceIte] at this
          simp only [↓reduceIte, live_none]
          exact this.symm
        · simp [h]

/-- EVICT happens only for a key whose expiry has passed: the callback never removes a live key -/
theorem evictFire_live (cfg : Cfg) (w : W) (k : Key) (gen : Nat) (k' : Key) (v : Val)
    (hl : w.mem.kv.get? k' = some v) (hlive : w.mem.expired w.now k' = false) :
    (opEvictFire cfg w k gen).mem.kv.get? k' = some v := by
  unfold opEvictFire
  simp only
  cases he : w.mem.expiry.get? k with
  | none => exact hl
  | some e =>
    simp only
    by_cases hg : gen = 0 ∨ e.timer ≠ gen
    · simp only [hg, ↓reduceIte]; exact hl
    · simp only [hg, ↓reduceIte, armTimer]
      by_cases hlt : e.at_ > w.now
      · simp only [hlt, ↓reduceIte]; exact hl
      · simp only [hlt, ↓reduceIte, writeLog_mem, Map.get?_erase]
        have : k ≠ k' := by
          intro h; subst h
          have hx : w.mem.expired w.now k = true := by
            rw [expired_iff]; exact ⟨e.at_, by simp [Mem.expOf, he], by omega⟩
          rw [hx] at hlive; cases hlive
        simp [this, hl]

theorem MemInv.empty (n : Nat) (ch : List Nat) : MemInv { nextTimer := n, choices := ch } where
  cache := by intro x hx; exact absurd hx (List.not_mem_nil)
  sub := by intro k h; exact absurd h (by simp)
  nodupKv := List.nodup_nil
  nodupExp := List.nodup_nil
  noEmpty := rfl

/-- `clear` -/
theorem clear_ok (cfg : Cfg) (w : W) (_hi : MemInv w.mem) :
    MemInv (opClear cfg w).mem ∧ (opClear cfg w).abs = specStep cfg.lim w.abs .clear := by
  unfold opClear
  have hnow : ∀ (l : List (Key × Val)) (w0 : W), (l.foldl (fun w x => writeLog cfg w (.del x.1)) w0).now = w0.now := by
    intro l; induction l with
    | nil => intro w0; rfl
    | cons x r ih => intro w0; simp only [List.foldl_cons]; rw [ih]; rfl
  have hinv := MemInv.empty (w.mem.kv.foldl (fun w x => writeLog cfg w (.del x.1)) w).mem.nextTimer
    (w.mem.kv.foldl (fun w x => writeLog cfg w (.del x.1)) w).mem.choices
  refine ⟨MemInv.maybeCompact _ _ hinv, ?_⟩
  rw [abs_maybeCompact]
  unfold W.abs
  simp only [specStep, hnow, SpecSt.mk.injEq, and_true]
  funext k
  simp [Mem.look, live]

/-- a clock tick: exactly the pruning of the reference map -/
theorem advance_ok (w : W) (dt : Nat) :
    ({ w with now := w.now + dt } : W).abs = { m := fun k => live (w.now + dt) (w.abs.m k), now := w.now + dt } := by
  unfold W.abs
  simp only [SpecSt.mk.injEq, and_true]
  funext k
  rw [live_mono _ _ (by omega)]

end Iora.Kv

namespace Iora.Kv
open Iora

/-! ## batches -/

theorem batchBad_cons (l : Lim) (x : Key × Val) (r : List (Key × Val)) (h : batchBad l (x :: r) = false) :
    x.1 ≠ [] ∧ batchBad l r = false := by
  unfold batchBad at *
  simp only [List.any_cons, Bool.or_eq_false_iff] at h
  refine ⟨?_, h.2⟩
  intro e
  rw [e] at h
  simp at h

/-- the memory loop of `setBatch(batch)` -/
theorem setBatch_mem (cfg : Cfg) (kvs : List (Key × Val)) (hb : batchBad cfg.lim kvs = false) :
    ∀ (m : Mem), MemInv m → CacheOff cfg m →
      MemInv (kvs.foldl (fun (m : Mem) x =>
        updateCache cfg { m with expiry := m.expiry.erase x.1, kv := m.kv.put x.1 x.2 } x.1 x.2 none) m) ∧
      (kvs.foldl (fun (m : Mem) x =>
        updateCache cfg { m with expiry := m.expiry.erase x.1, kv := m.kv.put x.1 x.2 } x.1 x.2 none) m).look
        = kvs.foldl (fun (sp : Spec) x => sp.upd x.1 (some (x.2, none))) m.look := by
  induction kvs with
  | nil => intro m hi _; exact ⟨hi, rfl⟩
  | cons x r ih =>
    intro m hi hz
    obtain ⟨hk, hr⟩ := batchBad_cons _ _ _ hb
    simp only [List.foldl_cons]
    have hx : MemInvX { m with expiry := m.expiry.erase x.1, kv := m.kv.put x.1 x.2 } x.1 :=
      MemInvX.of_single hi rfl
        (fun k' hne => by rw [look_set]; simp [hne])
        (fun k' => by
          simp only [Map.get?_erase, Map.get?_put]
          by_cases e : x.1 = k' <;> simp [e]
          exact hi.sub k')
        (Map.nodup_put _ _ _ hi.nodupKv) (Map.nodup_erase _ _ hi.nodupExp)
        (get?_put_nil _ _ _ hk hi.noEmpty)
    have hz' : CacheOff cfg ({ m with expiry := m.expiry.erase x.1, kv := m.kv.put x.1 x.2 } : Mem) := fun h0 => hz h0
    have hi' := hx.updateCache cfg hz' x.2 none (by rw [look_set]; simp)
    obtain ⟨h1, h2⟩ := ih hr _ hi' (CacheOff.updateCache cfg _ hz' _ _ _)
    refine ⟨h1, ?_⟩
    rw [h2, look_updateCache]
    congr 1
    funext k'
    rw [look_set]; rfl

/-- the memory loop of `setBatch(batch, ttl)` -/
theorem setBatchTtl_mem (cfg : Cfg) (e : Int) (kvs : List (Key × Val)) (hb : batchBad cfg.lim kvs = false) :
    ∀ (m : Mem), MemInv m → CacheOff cfg m →
      MemInv (kvs.foldl (fun (m : Mem) x =>
        let (id, m) := armTimer m
        updateCache cfg { m with kv := m.kv.put x.1 x.2, expiry := m.expiry.put x.1 ⟨e, id, false⟩ } x.1 x.2 (some e)) m) ∧
      (kvs.foldl (fun (m : Mem) x =>
        let (id, m) := armTimer m
        updateCache cfg { m with kv := m.kv.put x.1 x.2, expiry := m.expiry.put x.1 ⟨e, id, false⟩ } x.1 x.2 (some e)) m).look
        = kvs.foldl (fun (sp : Spec) x => sp.upd x.1 (some (x.2, some e))) m.look := by
  induction kvs with
  | nil => intro m hi _; exact ⟨hi, rfl⟩
  | cons x r ih =>
    intro m hi hz
    obtain ⟨hk, hr⟩ := batchBad_cons _ _ _ hb
    simp only [List.foldl_cons, armTimer]
    have hx : MemInvX { m with kv := m.kv.put x.1 x.2, expiry := m.expiry.put x.1 ⟨e, m.nextTimer, false⟩, nextTimer := m.nextTimer + 1 } x.1 :=
      MemInvX.of_single hi rfl
        (fun k' hne => by rw [look_setE]; simp [hne])
        (sub_put_put m hi x.1 x.2 _)
        (Map.nodup_put _ _ _ hi.nodupKv) (Map.nodup_put _ _ _ hi.nodupExp)
        (get?_put_nil _ _ _ hk hi.noEmpty)
    have hz' : CacheOff cfg ({ m with kv := m.kv.put x.1 x.2, expiry := m.expiry.put x.1 ⟨e, m.nextTimer, false⟩, nextTimer := m.nextTimer + 1 } : Mem) := fun h0 => hz h0
    have hi' := hx.updateCache cfg hz' x.2 (some e) (by rw [look_setE]; simp)
    obtain ⟨h1, h2⟩ := ih hr _ hi' (CacheOff.updateCache cfg _ hz' _ _ _)
    refine ⟨h1, ?_⟩
    simp only [armTimer] at h2
    rw [h2, look_updateCache]
    congr 1
    funext k'
    rw [look_setE]; rfl

/-- `live` commutes with a batch of insertions -/
theorem live_foldl_upd (now : Int) (f : Val → Ent) (kvs : List (Key × Val)) :
    ∀ (sp : Spec), (fun k => live now ((kvs.foldl (fun (sp : Spec) x => sp.upd x.1 (some (f x.2))) sp) k))
      = kvs.foldl (fun (sp : Spec) x => sp.upd x.1 (live now (some (f x.2)))) (fun k => live now (sp k)) := by
  induction kvs with
  | nil => intro sp; rfl
  | cons x r ih =>
    intro sp
    simp only [List.foldl_cons]
    rw [ih]
    congr 1
    funext k
    unfold Spec.upd
    by_cases e : x.1 = k <;> simp [e]

theorem foldl_writeLog_mem (cfg : Cfg) {α : Type} (g : α → Rec) (l : List α) :
    ∀ (w0 : W), (l.foldl (fun w x => writeLog cfg w (g x)) w0).mem = w0.mem ∧
      (l.foldl (fun w x => writeLog cfg w (g x)) w0).now = w0.now := by
  induction l with
  | nil => intro w0; exact ⟨rfl, rfl⟩
  | cons x r ih => intro w0; simp only [List.foldl_cons]; rw [(ih _).1, (ih _).2]; exact ⟨rfl, rfl⟩

/-- `setBatch(batch)` -/
theorem setBatch_ok (cfg : Cfg) (w : W) (hi : MemInv w.mem) (hz : CacheOff cfg w.mem) (kvs : List (Key × Val)) :
    MemInv (opSetBatch cfg w kvs).1.mem ∧ (opSetBatch cfg w kvs).1.abs = specStep cfg.lim w.abs (.setBatch kvs)
      ∧ OutOK cfg.lim w.abs (.setBatch kvs) (opSetBatch cfg w kvs).2 := by
  unfold opSetBatch
  by_cases he : kvs.isEmpty = true
  · have : kvs = [] := List.isEmpty_iff.mp he
    subst this
    simp [specStep, OutOK, hi, batchBad]
  · simp only [he, Bool.false_eq_true, ↓reduceIte]
    cases hb : batchBad cfg.lim kvs with
    | true => simp [specStep, OutOK, hi, hb, he]
    | false =>
      simp only [Bool.false_eq_true, ↓reduceIte]
      obtain ⟨h1, h2⟩ := setBatch_mem cfg kvs hb w.mem hi hz
      obtain ⟨h3, h4⟩ := foldl_writeLog_mem cfg (fun x : Key × Val => Rec.set x.1 x.2) kvs
        { w with mem := kvs.foldl (fun (m : Mem) x =>
          updateCache cfg { m with expiry := m.expiry.erase x.1, kv := m.kv.put x.1 x.2 } x.1 x.2 none) w.mem }
      refine ⟨MemInv.maybeCompact _ _ (by rw [h3]; exact h1), ?_, by simp [OutOK, hb, he]⟩
      rw [abs_maybeCompact]
      unfold W.abs
      rw [h3, h4]
      simp only [specStep, hb, Bool.false_eq_true, ↓reduceIte, SpecSt.mk.injEq, and_true]
      rw [h2]
      exact live_foldl_upd w.now (fun v => (v, none)) kvs w.mem.look

/-- `setBatch(batch, ttl)` -/
theorem setBatchTtl_ok (cfg : Cfg) (w : W) (hi : MemInv w.mem) (hz : CacheOff cfg w.mem) (kvs : List (Key × Val)) (ttl : Int) :
    MemInv (opSetBatchTtl cfg w kvs ttl).1.mem
      ∧ (opSetBatchTtl cfg w kvs ttl).1.abs = specStep cfg.lim w.abs (.setBatchTtl kvs ttl)
      ∧ OutOK cfg.lim w.abs (.setBatchTtl kvs ttl) (opSetBatchTtl cfg w kvs ttl).2 := by
  unfold opSetBatchTtl
  by_cases ht : ttl ≤ 0
  · simp [specStep, OutOK, ht, hi]
  · simp only [ht, ↓reduceIte]
    by_cases he : kvs.isEmpty = true
    · have : kvs = [] := List.isEmpty_iff.mp he
      subst this
      simp [specStep, OutOK, hi, batchBad, ht]
    · simp only [he, Bool.false_eq_true, ↓reduceIte]
      cases hb : batchBad cfg.lim kvs with
      | true => simp [specStep, OutOK, hi, hb, he, ht]
      | false =>
        simp only [Bool.false_eq_true, ↓reduceIte]
        obtain ⟨h1, h2⟩ := setBatchTtl_mem cfg (deadlineAfter cfg.lim w.now ttl) kvs hb w.mem hi hz
        obtain ⟨h3, h4⟩ := foldl_writeLog_mem cfg (fun x : Key × Val => Rec.setE x.1 x.2 (deadlineAfter cfg.lim w.now ttl)) kvs
          { w with mem := kvs.foldl (fun (m : Mem) x =>
            let (id, m) := armTimer m
            updateCache cfg { m with kv := m.kv.put x.1 x.2, expiry := m.expiry.put x.1 ⟨deadlineAfter cfg.lim w.now ttl, id, false⟩ } x.1 x.2
              (some (deadlineAfter cfg.lim w.now ttl))) w.mem }
        refine ⟨MemInv.maybeCompact _ _ (by rw [h3]; exact h1), ?_, by simp [OutOK, hb, he, ht]⟩
        rw [abs_maybeCompact]
        unfold W.abs
        rw [h3, h4]
        simp only [specStep, hb, ht, Bool.false_eq_true, or_self, ↓reduceIte, SpecSt.mk.injEq, and_true]
        rw [h2]
        exact live_foldl_upd w.now (fun v => (v, some (deadlineAfter cfg.lim w.now ttl))) kvs w.mem.look

end Iora.Kv

namespace Iora.Kv
open Iora

/-! ## `removeWithPrefix` -/

theorem removeFold_ok (cfg : Cfg) (ks : List Key) :
    ∀ (w : W), MemInv w.mem →
      MemInv (ks.foldl (opRemove cfg) w).mem ∧
      (ks.foldl (opRemove cfg) w).abs = { w.abs with m := fun k => if k ∈ ks then none else w.abs.m k } := by
  induction ks with
  | nil => intro w hi; exact ⟨hi, by simp⟩
  | cons a r ih =>
    intro w hi
    simp only [List.foldl_cons]
    obtain ⟨h1, h2⟩ := remove_ok cfg w hi a
    obtain ⟨h3, h4⟩ := ih _ h1
    refine ⟨h3, ?_⟩
    rw [h4, h2]
    simp only [specStep, SpecSt.mk.injEq, and_true]
    funext k
    unfold Spec.upd
    by_cases e : a = k
    · subst e; simp
    · have : ¬ k = a := fun h => e h.symm
      simp [e, this]

/-- the order handed in is used only when it lists exactly the matching keys, each once -/
theorem prefixOrder_spec (m : Mem) (now : Int) (p : Bytes) (ord : List Key) :
    (prefixOrder m now p ord).Perm (keysWithPrefix m now p) := by
  unfold prefixOrder
  split
  · next h => exact List.isPerm_iff.mp h
  · exact List.Perm.refl _

theorem prefixOrder_mem (m : Mem) (now : Int) (p : Bytes) (ord : List Key) (k : Key) :
    k ∈ prefixOrder m now p ord ↔ k ∈ keysWithPrefix m now p := (prefixOrder_spec m now p ord).mem_iff

theorem removeWithPrefix_ok (cfg : Cfg) (w : W) (hi : MemInv w.mem) (p : Bytes) (ord : List Key) :
    MemInv (opRemoveWithPrefix cfg w p ord).1.mem
      ∧ (opRemoveWithPrefix cfg w p ord).1.abs = specStep cfg.lim w.abs (.removeWithPrefix p ord)
      ∧ OutOK cfg.lim w.abs (.removeWithPrefix p ord) (opRemoveWithPrefix cfg w p ord).2 := by
  unfold opRemoveWithPrefix
  obtain ⟨hn, hm⟩ := keysWithPrefix_spec w hi p
  have hperm := prefixOrder_spec w.mem w.now p ord
  have hn' : (prefixOrder w.mem w.now p ord).Nodup := hperm.nodup_iff.mpr hn
  have hm' : ∀ k, k ∈ prefixOrder w.mem w.now p ord ↔ (p.isPrefixOf k = true ∧ ((W.abs w).m k).isSome) := fun k =>
    (prefixOrder_mem w.mem w.now p ord k).trans (hm k)
  obtain ⟨h1, h2⟩ := removeFold_ok cfg (prefixOrder w.mem w.now p ord) w hi
  refine ⟨h1, ?_, ⟨_, hn', hm', rfl⟩⟩
  simp only
  rw [h2]
  simp only [specStep, SpecSt.mk.injEq, and_true]
  funext k
  by_cases hk : k ∈ prefixOrder w.mem w.now p ord
  · have := (hm' k).mp hk
    simp [hk, this.1]
  · simp only [hk, ↓reduceIte]
    cases hp : p.isPrefixOf k with
    | false => simp
    | true =>
      simp only [↓reduceIte]
      cases hs : (W.abs w).m k with
      | none => rfl
      | some x => exact absurd ((hm' k).mpr ⟨hp, by rw [hs]; rfl⟩) hk

/-! ## one step, every operation except `reopen` (which needs the files: `Lemmas/KvFiles.lean`) -/

/-- **simulation of one step** (memory part): every operation other than `reopen` keeps the invariants, acts on the
abstract state exactly as `specStep` says, and returns what `OutOK` allows -/
theorem step_mem_ok (cfg : Cfg) (w : W) (hi : MemInv w.mem) (hz : CacheOff cfg w.mem) (op : Op) (hop : op ≠ .reopen) :
    MemInv (step cfg w op).1.mem ∧ (step cfg w op).1.abs = specStep cfg.lim w.abs op
      ∧ OutOK cfg.lim w.abs op (step cfg w op).2 := by
  have hi0 : MemInv ({ w with tr := [] } : W).mem := hi
  have habs0 : ({ w with tr := [] } : W).abs = w.abs := rfl
  unfold step
  cases op with
  | set k v => simpa [habs0] using set_ok cfg { w with tr := [] } hi0 hz k v
  | setTtl k v ttl => simpa [habs0] using setTtl_ok cfg { w with tr := [] } hi0 hz k v ttl
  | setBatch kvs => simpa [habs0] using setBatch_ok cfg { w with tr := [] } hi0 hz kvs
  | setBatchTtl kvs ttl => simpa [habs0] using setBatchTtl_ok cfg { w with tr := [] } hi0 hz kvs ttl
  | get k => simpa [habs0] using get_ok cfg { w with tr := [] } hi0 k
  | remove k =>
    obtain ⟨h1, h2⟩ := remove_ok cfg { w with tr := [] } hi0 k
    exact ⟨h1, by rw [h2, habs0], rfl⟩
  | removeWithPrefix p ord => simpa [habs0] using removeWithPrefix_ok cfg { w with tr := [] } hi0 p ord
  | clear =>
    obtain ⟨h1, h2⟩ := clear_ok cfg { w with tr := [] } hi0
    exact ⟨h1, by rw [h2, habs0], rfl⟩
  | expireAt k t =>
    obtain ⟨h1, h2⟩ := expireAt_ok cfg { w with tr := [] } hi0 k t
    exact ⟨h1, by rw [h2, habs0], rfl⟩
  | persist k =>
    obtain ⟨h1, h2⟩ := persist_ok cfg { w with tr := [] } hi0 k
    exact ⟨h1, by rw [h2, habs0], rfl⟩
  | compact =>
    exact ⟨MemInv.compact cfg _ hi0, by rw [abs_compact, habs0]; rfl, rfl⟩
  | advance dt =>
    refine ⟨hi, ?_, rfl⟩
    exact advance_ok w dt
  | evictFire k g =>
    obtain ⟨h1, h2⟩ := evictFire_ok cfg { w with tr := [] } hi0 k g
    exact ⟨h1, by rw [h2, habs0]; rfl, rfl⟩
  | reopen => exact absurd rfl hop

end Iora.Kv

namespace Iora.Kv
open Iora

/-! ## `maxCacheSize == 0`: the cache stays empty -/

theorem updateCache_nil (cfg : Cfg) (h0 : cfg.maxCache = 0) (m : Mem) (hc : m.cache = []) (k : Key) (v : Val) (e : Option Int) :
    (updateCache cfg m k v e).cache = [] := by
  unfold updateCache; simp only [h0, ↓reduceIte]; exact hc

theorem compact_nil (cfg : Cfg) (w : W) (hc : w.mem.cache = []) : (compactLocked cfg w).mem.cache = [] := by
  simp [compactLocked, hc]

theorem maybeCompact_nil (cfg : Cfg) (w : W) (hc : w.mem.cache = []) : (maybeCompact cfg w).mem.cache = [] := by
  unfold maybeCompact; split
  · exact compact_nil cfg w hc
  · exact hc

theorem erase_nil {β : Type} (k : Key) : Map.erase ([] : Map β) k = [] := rfl

theorem opSet_nil (cfg : Cfg) (h0 : cfg.maxCache = 0) (w : W) (hc : w.mem.cache = []) (k : Key) (v : Val) :
    (opSet cfg w k v).1.mem.cache = [] := by
  unfold opSet
  split
  · exact hc
  · exact maybeCompact_nil cfg _ (updateCache_nil cfg h0 _ (by exact hc) _ _ _)

theorem opSetTtl_nil (cfg : Cfg) (h0 : cfg.maxCache = 0) (w : W) (hc : w.mem.cache = []) (k : Key) (v : Val) (ttl : Int) :
    (opSetTtl cfg w k v ttl).1.mem.cache = [] := by
  unfold opSetTtl
  split
  · exact hc
  · split
    · exact hc
    · exact maybeCompact_nil cfg _ (updateCache_nil cfg h0 _ (by exact hc) _ _ _)

theorem opGet_nil (cfg : Cfg) (h0 : cfg.maxCache = 0) (w : W) (hc : w.mem.cache = []) (k : Key) :
    (opGet cfg w k).1.mem.cache = [] := by
  unfold opGet
  split
  · exact hc
  · simp only
    split
    · exact hc
    · split
      · exact hc
      · split
        · exact hc
        · exact updateCache_nil cfg h0 _ (by exact hc) _ _ _

theorem opRemove_nil (cfg : Cfg) (w : W) (hc : w.mem.cache = []) (k : Key) : (opRemove cfg w k).mem.cache = [] := by
  unfold opRemove
  split
  · exact hc
  · simp only
    split
    · exact maybeCompact_nil cfg _ (by simp [hc, erase_nil])
    · exact hc

theorem setBatch_fold_nil (cfg : Cfg) (h0 : cfg.maxCache = 0) (kvs : List (Key × Val)) :
    ∀ m : Mem, m.cache = [] → (kvs.foldl (fun (m : Mem) x =>
      updateCache cfg { m with expiry := m.expiry.erase x.1, kv := m.kv.put x.1 x.2 } x.1 x.2 none) m).cache = [] := by
  induction kvs with
  | nil => intro m hc; exact hc
  | cons x r ih => intro m hc; exact ih _ (updateCache_nil cfg h0 _ (by exact hc) _ _ _)

theorem setBatchTtl_fold_nil (cfg : Cfg) (h0 : cfg.maxCache = 0) (e : Int) (kvs : List (Key × Val)) :
    ∀ m : Mem, m.cache = [] → (kvs.foldl (fun (m : Mem) x =>
      let (id, m) := armTimer m
      updateCache cfg { m with kv := m.kv.put x.1 x.2, expiry := m.expiry.put x.1 ⟨e, id, false⟩ } x.1 x.2 (some e)) m).cache = [] := by
  induction kvs with
  | nil => intro m hc; exact hc
  | cons x r ih => intro m hc; exact ih _ (updateCache_nil cfg h0 _ (by exact hc) _ _ _)

theorem opEvictFire_nil (cfg : Cfg) (w : W) (hc : w.mem.cache = []) (k : Key) (g : Nat) :
    (opEvictFire cfg w k g).mem.cache = [] := by
  unfold opEvictFire
  simp only
  split
  · exact hc
  · split
    · exact hc
    · split
      · simp [armTimer, hc]
      · simp [hc, erase_nil]

theorem opSetBatch_nil (cfg : Cfg) (h0 : cfg.maxCache = 0) (w : W) (hc : w.mem.cache = []) (kvs : List (Key × Val)) :
    (opSetBatch cfg w kvs).1.mem.cache = [] := by
  unfold opSetBatch
  split
  · exact hc
  · split
    · exact hc
    · refine maybeCompact_nil cfg _ ?_
      rw [(foldl_writeLog_mem cfg _ kvs _).1]
      exact setBatch_fold_nil cfg h0 kvs _ hc

theorem opSetBatchTtl_nil (cfg : Cfg) (h0 : cfg.maxCache = 0) (w : W) (hc : w.mem.cache = []) (kvs : List (Key × Val)) (ttl : Int) :
    (opSetBatchTtl cfg w kvs ttl).1.mem.cache = [] := by
  unfold opSetBatchTtl
  split
  · exact hc
  · split
    · exact hc
    · split
      · exact hc
      · refine maybeCompact_nil cfg _ ?_
        rw [(foldl_writeLog_mem cfg _ kvs _).1]
        exact setBatchTtl_fold_nil cfg h0 _ kvs _ hc

theorem removeFold_nil (cfg : Cfg) (ks : List Key) :
    ∀ (w0 : W), w0.mem.cache = [] → (ks.foldl (opRemove cfg) w0).mem.cache = [] := by
  induction ks with
  | nil => intro w0 h; exact h
  | cons a r ih => intro w0 h; exact ih _ (opRemove_nil cfg w0 h a)

theorem opExpireAt_nil (cfg : Cfg) (w : W) (hc : w.mem.cache = []) (k : Key) (t : Int) : (opExpireAt cfg w k t).mem.cache = [] := by
  unfold opExpireAt
  split
  · exact hc
  · simp only
    split
    · exact hc
    · simp [armTimer, invalidateCache, hc, erase_nil]

theorem opPersist_nil (cfg : Cfg) (w : W) (hc : w.mem.cache = []) (k : Key) : (opPersist cfg w k).mem.cache = [] := by
  unfold opPersist
  split
  · exact hc
  · simp only
    split
    · exact hc
    · split
      · exact hc
      · split
        · exact hc
        · simp [invalidateCache, hc, erase_nil]

theorem shutdownFold_nil (cfg : Cfg) (l : List (Key × Nat)) :
    ∀ (w0 : W), w0.mem.cache = [] → (l.foldl (fun w x => opEvictFire cfg w x.1 x.2) w0).mem.cache = [] := by
  induction l with
  | nil => intro w0 h; exact h
  | cons a r ih => intro w0 h; exact ih _ (opEvictFire_nil cfg w0 h a.1 a.2)

theorem opReopen_nil (cfg : Cfg) (w : W) (hc : w.mem.cache = []) : (opReopen cfg w).1.mem.cache = [] := by
  unfold opReopen opOpen
  split
  · exact shutdownFold_nil cfg _ _ hc
  · rfl

/-- `CacheOff` is an invariant of every step -/
theorem cacheOff_step (cfg : Cfg) (w : W) (hz : CacheOff cfg w.mem) (op : Op) : CacheOff cfg (step cfg w op).1.mem := by
  intro h0
  have hc : ({ w with tr := [] } : W).mem.cache = [] := hz h0
  unfold step
  cases op with
  | set k v => exact opSet_nil cfg h0 _ hc k v
  | setTtl k v ttl => exact opSetTtl_nil cfg h0 _ hc k v ttl
  | setBatch kvs => exact opSetBatch_nil cfg h0 _ hc kvs
  | setBatchTtl kvs ttl => exact opSetBatchTtl_nil cfg h0 _ hc kvs ttl
  | get k => exact opGet_nil cfg h0 _ hc k
  | remove k => exact opRemove_nil cfg _ hc k
  | removeWithPrefix p ord => exact removeFold_nil cfg _ _ hc
  | clear => exact maybeCompact_nil cfg _ rfl
  | expireAt k t => exact opExpireAt_nil cfg _ hc k t
  | persist k => exact opPersist_nil cfg _ hc k
  | compact => exact compact_nil cfg _ hc
  | advance dt => exact hc
  | evictFire k g => exact opEvictFire_nil cfg _ hc k g
  | reopen => exact opReopen_nil cfg _ hc

end Iora.Kv
