import IoraModel.Lemmas.DnsTyped
/-! N4 for C19 at message level: the work of `parse` is linear in the message size.  Every question / record round advances
the offset by at least 5 / 11 bytes or ends the parse, and every name decoded in a round costs a CONSTANT number of loop
iterations (the bound on compression pointers per name). -/
namespace Iora.Dns
open Iora

theorem bind_ok_inv' {α β : Type} {x : R α} {f : α → R β} {b : β} (h : (x >>= f) = .ok b) : ∃ a, x = .ok a ∧ f a = .ok b := by
  cases x with
  | error e => simp [Bind.bind, Except.bind] at h
  | ok a => exact ⟨a, rfl, h⟩

theorem decodeName_progress {m : Bytes} {off : Nat} {n : Bytes} {nx : Nat} (h : decodeName m off = .ok (n, nx)) : off < nx := by
  obtain ⟨ls, ⟨_, hh, _, _⟩, _⟩ := decodeName_complete m off n nx h
  exact hh.toDenotes.lt_next

/-- an accepted question occupies at least 5 bytes of the message -/
theorem parseQuestion_progress {m : Bytes} {off : Nat} {q : Question} {nx : Nat} (h : parseQuestion m off = .ok (q, nx)) :
    off + 5 ≤ nx ∧ nx ≤ m.length := by
  unfold parseQuestion at h
  obtain ⟨⟨n, o1⟩, hd, h⟩ := bind_ok_inv' h
  obtain ⟨_, hc1, h⟩ := bind_ok_inv' h
  obtain ⟨t, _, h⟩ := bind_ok_inv' h
  obtain ⟨_, hc2, h⟩ := bind_ok_inv' h
  obtain ⟨c, _, h⟩ := bind_ok_inv' h
  cases h
  have := decodeName_progress hd
  have := checkBounds_ok hc2
  omega

/-- an accepted resource record occupies at least 11 bytes of the message -/
theorem parseRR_progress {m : Bytes} {off : Nat} {rr : RR} {rdOff nx : Nat} (h : parseRR m off = .ok (rr, rdOff, nx)) :
    off + 11 ≤ nx ∧ nx ≤ m.length := by
  unfold parseRR at h
  obtain ⟨⟨n, o1⟩, hd, h⟩ := bind_ok_inv' h
  obtain ⟨_, _, h⟩ := bind_ok_inv' h
  obtain ⟨t, _, h⟩ := bind_ok_inv' h
  obtain ⟨_, _, h⟩ := bind_ok_inv' h
  obtain ⟨c, _, h⟩ := bind_ok_inv' h
  obtain ⟨_, _, h⟩ := bind_ok_inv' h
  obtain ⟨ttl, _, h⟩ := bind_ok_inv' h
  obtain ⟨_, _, h⟩ := bind_ok_inv' h
  obtain ⟨rdl, _, h⟩ := bind_ok_inv' h
  obtain ⟨_, hc5, h⟩ := bind_ok_inv' h
  obtain ⟨rdata, _, h⟩ := bind_ok_inv' h
  obtain ⟨_, _, h⟩ := bind_ok_inv' h
  cases h
  have := decodeName_progress hd
  have := checkBounds_ok hc5
  omega

/-- rounds of the question loop that `parse` executes (it stops at the first failure) -/
def questionRounds (m : Bytes) : Nat → Nat → Nat
  | 0, _ => 0
  | n + 1, off =>
    match parseQuestion m off with
    | .error _ => 1
    | .ok (_, off') => 1 + questionRounds m n off'

/-- rounds of one record-section loop that `parse` executes -/
def sectionRounds (m : Bytes) : Nat → Nat → Nat
  | 0, _ => 0
  | n + 1, off =>
    match parseRR m off with
    | .error _ => 1
    | .ok (rr, rdOff, off') =>
      match parseTypedRecord rr m rdOff with
      | .error _ => 1
      | .ok _ => 1 + sectionRounds m n off'

theorem questionRounds_le (m : Bytes) : ∀ (n off : Nat), 5 * questionRounds m n off ≤ (m.length - off) + 5 := by
  intro n
  induction n with
  | zero => intro off; simp [questionRounds]
  | succ n ih =>
    intro off
    simp only [questionRounds]
    split
    · omega
    · rename_i q off' hq
      have := parseQuestion_progress hq
      have := ih off'
      omega

theorem sectionRounds_le (m : Bytes) : ∀ (n off : Nat), 11 * sectionRounds m n off ≤ (m.length - off) + 11 := by
  intro n
  induction n with
  | zero => intro off; simp [sectionRounds]
  | succ n ih =>
    intro off
    simp only [sectionRounds]
    split
    · omega
    · rename_i rr rdOff off' hr
      have := parseRR_progress hr
      split
      · omega
      · have := ih off'
        omega

theorem parseQuestions_ok_rounds (m : Bytes) : ∀ (n off : Nat) (acc qs : List Question) (o1 : Nat),
    parseQuestions m n off acc = .ok (qs, o1) → questionRounds m n off = n ∧ off + 5 * n ≤ o1 ∧ (0 < n → o1 ≤ m.length) ∧ (n = 0 → o1 = off) := by
  intro n
  induction n with
  | zero => intro off acc qs o1 h; simp [parseQuestions] at h; simp [questionRounds, h.2]
  | succ n ih =>
    intro off acc qs o1 h
    simp only [parseQuestions] at h
    simp only [questionRounds]
    split at h
    · cases h
    · rename_i q off' hq
      rw [hq]
      have hp := parseQuestion_progress hq
      obtain ⟨h1, h2, h3, h4⟩ := ih off' _ qs o1 h
      refine ⟨by simp only [h1]; omega, by omega, fun _ => ?_, fun h0 => by omega⟩
      by_cases hn : n = 0
      · have := h4 hn; omega
      · exact h3 (by omega)

theorem parseSection_ok_rounds (m : Bytes) : ∀ (n off : Nat) (rs rs' : List RR) (ts ts' : List Typed) (o2 : Nat),
    parseSection m n off rs ts = .ok (rs', ts', o2) →
    sectionRounds m n off = n ∧ off + 11 * n ≤ o2 ∧ (0 < n → o2 ≤ m.length) ∧ (n = 0 → o2 = off) := by
  intro n
  induction n with
  | zero => intro off rs rs' ts ts' o2 h; simp [parseSection] at h; simp [sectionRounds, h.2.2]
  | succ n ih =>
    intro off rs rs' ts ts' o2 h
    simp only [parseSection] at h
    simp only [sectionRounds]
    split at h
    · cases h
    · rename_i rr rdOff off' hr
      rw [hr]
      dsimp only
      have hp := parseRR_progress hr
      split at h
      · cases h
      · rename_i t ht
        rw [ht]
        dsimp only
        obtain ⟨h1, h2, h3, h4⟩ := ih off' _ rs' _ ts' o2 h
        refine ⟨by simp only [h1]; omega, by omega, fun _ => ?_, fun h0 => by omega⟩
        by_cases hn : n = 0
        · have := h4 hn; omega
        · exact h3 (by omega)

/-- all loop rounds `parse` executes on `m` (header aside): questions, then the three record sections, stopping at the first
failure -/
def parseRounds (m : Bytes) : Nat :=
  if m.length < Gen.Dns.headerSize then 0
  else
    match parseHeader m 0 with
    | .error _ => 0
    | .ok (h, off) =>
      questionRounds m h.qd off +
      (match parseQuestions m h.qd off [] with
       | .error _ => 0
       | .ok (_, o1) =>
         sectionRounds m h.an o1 +
         (match parseSection m h.an o1 [] [] with
          | .error _ => 0
          | .ok (_, ts, o2) =>
            sectionRounds m h.ns o2 +
            (match parseSection m h.ns o2 [] ts with
             | .error _ => 0
             | .ok (_, _, o3) => sectionRounds m h.ar o3)))

theorem parseHeader_off {m : Bytes} {h : Header} {off : Nat} (hh : parseHeader m 0 = .ok (h, off)) : off = 12 := by
  unfold parseHeader at hh
  obtain ⟨_, _, hh⟩ := bind_ok_inv' hh
  obtain ⟨_, _, hh⟩ := bind_ok_inv' hh
  obtain ⟨_, _, hh⟩ := bind_ok_inv' hh
  obtain ⟨_, _, hh⟩ := bind_ok_inv' hh
  obtain ⟨_, _, hh⟩ := bind_ok_inv' hh
  obtain ⟨_, _, hh⟩ := bind_ok_inv' hh
  obtain ⟨_, _, hh⟩ := bind_ok_inv' hh
  cases hh
  rfl

/-- **the number of rounds is linear in the message size**, whatever the 16-bit counts in the header claim -/
theorem parseRounds_le (m : Bytes) : 5 * parseRounds m ≤ m.length + 11 := by
  unfold parseRounds
  split
  · omega
  · rename_i hlen
    have h12 : Gen.Dns.headerSize = 12 := rfl
    rw [h12] at hlen
    split
    · omega
    · rename_i h off hh
      have hoff := parseHeader_off hh
      subst hoff
      have hq := questionRounds_le m h.qd 12
      split
      · omega
      · rename_i qs o1 hqs
        obtain ⟨e1, e2, e3, e4⟩ := parseQuestions_ok_rounds m h.qd 12 [] qs o1 hqs
        have ho1 : o1 ≤ m.length := by
          by_cases hn : h.qd = 0
          · have := e4 hn; omega
          · exact e3 (by omega)
        have ha := sectionRounds_le m h.an o1
        split
        · simp only [Nat.add_zero]; omega
        · rename_i an ts o2 han
          obtain ⟨a1, a2, a3, a4⟩ := parseSection_ok_rounds m h.an o1 [] an [] ts o2 han
          have ho2 : o2 ≤ m.length := by
            by_cases hn : h.an = 0
            · have := a4 hn; omega
            · exact a3 (by omega)
          have hb := sectionRounds_le m h.ns o2
          split
          · show 5 * (questionRounds m h.qd 12 + (sectionRounds m h.an o1 + (sectionRounds m h.ns o2 + 0))) ≤ m.length + 11
            omega
          · rename_i ns ts2 o3 hns
            obtain ⟨b1, b2, b3, b4⟩ := parseSection_ok_rounds m h.ns o2 [] ns ts ts2 o3 hns
            have ho3 : o3 ≤ m.length := by
              by_cases hn : h.ns = 0
              · have := b4 hn; omega
              · exact b3 (by omega)
            have hc := sectionRounds_le m h.ar o3
            show 5 * (questionRounds m h.qd 12 + (sectionRounds m h.an o1 + (sectionRounds m h.ns o2 + sectionRounds m h.ar o3))) ≤ m.length + 11
            omega

/-- names decoded per round: the owner / question name plus at most two names inside RDATA (SOA: MNAME and RNAME; every other
typed parser calls `decodeNameFromRdata` at most once, which calls `decodeName` at most once) — read off `Model/Dns.lean` -/
def namesPerRound : Nat := 3

/-- loop iterations of `decodeNameWithLoopDetection` `parse` can perform on a message of `size` bytes -/
def workBound (size : Nat) : Nat := ((size + 11) / 5) * (namesPerRound * 257)

/-- **N4 (message level): rounds × names per round × iterations per name ≤ `workBound size`, linear in the size.** -/
theorem parse_work_linear (m : Bytes) : parseRounds m * (namesPerRound * nameFuel m) ≤ workBound m.length := by
  rw [nameFuel_const]
  unfold workBound
  have := parseRounds_le m
  have h : parseRounds m ≤ (m.length + 11) / 5 := by omega
  exact Nat.mul_le_mul_right _ h

end Iora.Dns
