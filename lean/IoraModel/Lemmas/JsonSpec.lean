import IoraModel.Model.JsonSpec
import IoraModel.Lemmas.Json
/-! Lemmas for J1 (C13): the parser run on `render t` yields `denote t`. Continuation form throughout:
`f ⟨render x ++ rest, pos⟩ = ok (denote x, ⟨rest, pos + |render x|⟩)`. -/
namespace Iora.Json.Spec
open Iora Iora.Json

/-! ### bytes -/
theorem isDigit_iff (b : UInt8) : isDigit b = true ↔ 48 ≤ b.toNat ∧ b.toNat ≤ 57 := by
  simp [isDigit, UInt8.le_iff_toNat_le]

theorem isSpace_iff (b : UInt8) : isSpace b = true ↔ b.toNat = 32 ∨ (9 ≤ b.toNat ∧ b.toNat ≤ 13) := by
  simp [isSpace, UInt8.le_iff_toNat_le, ← UInt8.toNat_inj]

theorem eq_iff_toNat (a b : UInt8) : a = b ↔ a.toNat = b.toNat := UInt8.toNat_inj.symm

theorem b8_toNat_small {n : Nat} (h : n < 256) : (b8 n).toNat = n := by simp [b8]; omega

/-- the head of `x`, if any, is not white space for `std::isspace` -/
def NoSpaceHead (x : Bytes) : Prop := ∀ b r, x = b :: r → isSpace b = false
/-- the head of `x`, if any, is not a digit -/
def NoDigitHead (x : Bytes) : Prop := ∀ b r, x = b :: r → isDigit b = false

theorem wsByte_isSpace (c : WsChar) : isSpace c.byte = true := by cases c <;> rfl

theorem skipWsAux_ws (w : Ws) (x : Bytes) (p : Nat) (hx : NoSpaceHead x) :
    skipWsAux (w.render ++ x) p = ⟨x, p + w.length⟩ := by
  induction w generalizing p with
  | nil =>
    cases x with
    | nil => simp [Ws.render, skipWsAux]
    | cons b r => simp [Ws.render, skipWsAux, hx b r rfl]
  | cons c w ih =>
    simp only [Ws.render, List.map_cons, List.cons_append, skipWsAux, wsByte_isSpace, ↓reduceIte, List.length_cons]
    have := ih (p + 1)
    simp only [Ws.render] at this
    rw [this]; congr 1; omega

theorem skipWs_ws (w : Ws) (x : Bytes) (p : Nat) (hx : NoSpaceHead x) :
    skipWs ⟨w.render ++ x, p⟩ = ⟨x, p + w.length⟩ := skipWsAux_ws w x p hx

theorem skipWs_noop (x : Bytes) (p : Nat) (hx : NoSpaceHead x) : skipWs ⟨x, p⟩ = ⟨x, p⟩ := by
  have := skipWs_ws [] x p hx; simpa [Ws.render] using this

theorem skipDigitsAux_digits (ds x : Bytes) (p : Nat) (hd : ∀ d ∈ ds, isDigit d = true) (hx : NoDigitHead x) :
    skipDigitsAux (ds ++ x) p = ⟨x, p + ds.length⟩ := by
  induction ds generalizing p with
  | nil =>
    cases x with
    | nil => simp [skipDigitsAux]
    | cons b r => simp [skipDigitsAux, hx b r rfl]
  | cons d ds ih =>
    have h1 : isDigit d = true := hd d (by simp)
    simp only [List.cons_append, skipDigitsAux, h1, ↓reduceIte, List.length_cons]
    rw [ih (p + 1) (fun d' hd' => hd d' (by simp [hd']))]; congr 1; omega

theorem skipDigits_digits (ds x : Bytes) (p : Nat) (hd : ∀ d ∈ ds, isDigit d = true) (hx : NoDigitHead x) :
    skipDigits ⟨ds ++ x, p⟩ = ⟨x, p + ds.length⟩ := skipDigitsAux_digits ds x p hd hx

/-! ### decimal numerals -/
theorem natToDec_digits (n : Nat) : ∀ d ∈ natToDec n, isDigit d = true := by
  induction n using natToDec.induct with
  | case1 n h =>
    intro d hd
    rw [natToDec] at hd; simp only [h, ↓reduceDIte, List.mem_singleton] at hd
    subst hd; rw [isDigit_iff, b8_toNat_small (by omega)]; omega
  | case2 n h ih =>
    intro d hd
    rw [natToDec] at hd; simp only [h, ↓reduceDIte, List.mem_append, List.mem_singleton] at hd
    rcases hd with hd | hd
    · exact ih d hd
    · subst hd; rw [isDigit_iff, b8_toNat_small (by omega)]; omega

theorem natToDec_digit {n : Nat} (h : n < 10) : natToDec n = [b8 (48 + n)] := by
  rw [natToDec]; simp [h]

theorem natToDec_ne_nil (n : Nat) : natToDec n ≠ [] := by
  rw [natToDec]; split <;> simp

theorem decVal_append_single (xs : Bytes) (d : UInt8) : decVal (xs ++ [d]) = decVal xs * 10 + (d.toNat - 48) := by
  simp [decVal, List.foldl_append]

theorem decVal_natToDec (n : Nat) : decVal (natToDec n) = n := by
  induction n using natToDec.induct with
  | case1 n h =>
    rw [natToDec]; simp only [h, ↓reduceDIte]
    simp [decVal, b8_toNat_small (show 48 + n < 256 by omega)]
  | case2 n h ih =>
    rw [natToDec]; simp only [h, ↓reduceDIte]
    rw [decVal_append_single, ih, b8_toNat_small (by omega)]; omega

/-- the numeral of a positive number does not start with `0` -/
theorem natToDec_head (n : Nat) : ∃ d r, natToDec n = d :: r ∧ isDigit d = true ∧ (n ≠ 0 → d ≠ 0x30) ∧ (n = 0 → d = 0x30 ∧ r = []) := by
  induction n using natToDec.induct with
  | case1 n h =>
    refine ⟨b8 (48 + n), [], ?_, ?_, ?_, ?_⟩
    · rw [natToDec]; simp [h]
    · rw [isDigit_iff, b8_toNat_small (by omega)]; omega
    · intro hn heq; rw [eq_iff_toNat, b8_toNat_small (by omega)] at heq; simp at heq; omega
    · intro hn; subst hn; exact ⟨rfl, rfl⟩
  | case2 n h ih =>
    obtain ⟨d, r, hr, hd, hnz, -⟩ := ih
    refine ⟨d, r ++ [b8 (48 + n % 10)], ?_, hd, ?_, ?_⟩
    · rw [natToDec]; simp [h, hr]
    · intro _; exact hnz (by omega)
    · intro hn; omega


/-! ### numbers -/

/-- what may follow a number token: not a digit, `.`, `e`, `E` -/
def NumStop (x : Bytes) : Prop := ∀ b r, x = b :: r → isDigit b = false ∧ b ≠ 0x2E ∧ b ≠ 0x65 ∧ b ≠ 0x45

theorem NumStop.noDigit {x : Bytes} (h : NumStop x) : NoDigitHead x := fun b r e => (h b r e).1

theorem digit_props {d : UInt8} (h : isDigit d = true) :
    d ≠ 0x2D ∧ d ≠ 0x2B ∧ d ≠ 0x2E ∧ d ≠ 0x65 ∧ d ≠ 0x45 := by
  rw [isDigit_iff] at h
  refine ⟨?_, ?_, ?_, ?_, ?_⟩ <;> (intro e; subst e; simp at h)

theorem digitsRequired_digits (ds x : Bytes) (p : Nat) (hd : Digits1 ds) (hx : NoDigitHead x) :
    digitsRequired ⟨ds ++ x, p⟩ = .ok ⟨x, p + ds.length⟩ := by
  obtain ⟨hne, hall⟩ := hd
  cases ds with
  | nil => exact absurd rfl hne
  | cons d ds' =>
    have h1 : isDigit d = true := hall d (by simp)
    have := skipDigits_digits (d :: ds') x p hall hx
    simp only [List.cons_append] at this
    simp only [digitsRequired, List.cons_append, h1, ↓reduceIte, this]

theorem scanExp_render (n : SNum) (hok : n.ok) (rest : Bytes) (p : Nat) (hs : NumStop rest) :
    scanExp ⟨n.renderExp ++ rest, p⟩ = .ok (n.exp.isSome, ⟨rest, p + n.renderExp.length⟩) := by
  unfold SNum.renderExp
  cases he : n.exp with
  | none =>
    cases rest with
    | nil => simp [scanExp]
    | cons b r =>
      have := hs b r rfl
      simp [scanExp, this.2.2.1, this.2.2.2]
  | some x =>
    obtain ⟨u, sg, ds⟩ := x
    have hd : Digits1 ds := hok.2 u sg ds he
    obtain ⟨d0, ds0, hds⟩ : ∃ d0 ds0, ds = d0 :: ds0 := by
      cases ds with
      | nil => exact absurd rfl hd.1
      | cons a b => exact ⟨a, b, rfl⟩
    have hd0 : isDigit d0 = true := hd.2 d0 (by simp [hds])
    have hdp := digit_props hd0
    have hE : ((if u then (0x45 : UInt8) else 0x65) = 0x65 ∨ (if u then (0x45 : UInt8) else 0x65) = 0x45) := by
      cases u <;> simp
    have key : ∀ q, digitsRequired ⟨ds ++ rest, q⟩ = .ok ⟨rest, q + ds.length⟩ :=
      fun q => digitsRequired_digits ds rest q hd hs.noDigit
    cases sg with
    | none =>
      have h1 : skipSign ⟨ds ++ rest, p + 1⟩ = ⟨ds ++ rest, p + 1⟩ := by
        simp [skipSign, hds, hdp.1, hdp.2.1]
      simp only [Option.isSome_some, List.cons_append, List.nil_append, scanExp, hE, ↓reduceIte, h1, key, List.length_cons]
      congr 3; omega
    | some b =>
      cases b with
      | false =>
        have h1 : skipSign ⟨0x2B :: (ds ++ rest), p + 1⟩ = ⟨ds ++ rest, p + 1 + 1⟩ := by simp [skipSign]
        simp only [Option.isSome_some, List.cons_append, List.nil_append, List.append_assoc, scanExp, hE, ↓reduceIte, h1, key,
          List.length_cons, List.length_append]
        congr 3; omega
      | true =>
        have h1 : skipSign ⟨0x2D :: (ds ++ rest), p + 1⟩ = ⟨ds ++ rest, p + 1 + 1⟩ := by simp [skipSign]
        simp only [Option.isSome_some, List.cons_append, List.nil_append, List.append_assoc, scanExp, hE, ↓reduceIte, h1, key,
          List.length_cons, List.length_append]
        congr 3; omega

theorem renderExp_head (n : SNum) (rest : Bytes) (hs : NumStop rest) :
    ∀ b r, n.renderExp ++ rest = b :: r → isDigit b = false ∧ b ≠ 0x2E := by
  intro b r h
  unfold SNum.renderExp at h
  cases he : n.exp with
  | none => simp only [he, List.nil_append] at h; exact ⟨(hs b r h).1, (hs b r h).2.1⟩
  | some x =>
    obtain ⟨u, sg, ds⟩ := x
    simp only [he, List.cons_append, List.cons.injEq] at h
    obtain ⟨rfl, -⟩ := h
    cases u <;> simp [isDigit]

theorem scanFrac_render (n : SNum) (hok : n.ok) (z : Bytes) (p : Nat)
    (hz : ∀ b r, z = b :: r → isDigit b = false ∧ b ≠ 0x2E) :
    scanFrac ⟨n.renderFrac ++ z, p⟩ = .ok (n.frac.isSome, ⟨z, p + n.renderFrac.length⟩) := by
  unfold SNum.renderFrac
  cases hf : n.frac with
  | none =>
    cases z with
    | nil => simp [scanFrac]
    | cons b r => simp [scanFrac, (hz b r rfl).2]
  | some ds =>
    have hd : Digits1 ds := hok.1 ds hf
    have := digitsRequired_digits ds z (p + 1) hd (fun b r e => (hz b r e).1)
    simp only [Option.isSome_some, List.cons_append, scanFrac, ↓reduceIte, this, List.length_cons]
    congr 3; omega

theorem scanInt_render (k : Nat) (y : Bytes) (p : Nat) (hy : NoDigitHead y) :
    scanInt ⟨natToDec k ++ y, p⟩ = .ok ⟨y, p + (natToDec k).length⟩ := by
  obtain ⟨d, r, hr, hd, hnz, hz⟩ := natToDec_head k
  have hall := natToDec_digits k
  by_cases hk : k = 0
  · obtain ⟨rfl, rfl⟩ := hz hk
    simp [hr, scanInt, isDigit]
  · have hne := hnz hk
    have := skipDigits_digits (natToDec k) y p hall hy
    rw [hr] at this ⊢
    simp only [List.cons_append] at this
    simp only [scanInt, List.cons_append, hd, ↓reduceIte, hne, this]

theorem skipMinus_render (neg : Bool) (k : Nat) (y : Bytes) (p : Nat) :
    skipMinus ⟨(if neg then [0x2D] else []) ++ natToDec k ++ y, p⟩ = ⟨natToDec k ++ y, p + (if neg then 1 else 0)⟩ := by
  cases neg with
  | true => simp [skipMinus]
  | false =>
    obtain ⟨d, r, hr, hd, -, -⟩ := natToDec_head k
    have := (digit_props hd).1
    simp [skipMinus, hr, this]

theorem SNum.render_length (n : SNum) :
    n.render.length = (if n.neg then 1 else 0) + (natToDec n.int).length + n.renderFrac.length + n.renderExp.length := by
  unfold SNum.render
  cases n.neg <;> simp [List.length_append] <;> omega

theorem scanNumber_render (n : SNum) (hok : n.ok) (rest : Bytes) (p : Nat) (hs : NumStop rest) :
    scanNumber ⟨n.render ++ rest, p⟩ = .ok (n.isFloat, ⟨rest, p + n.render.length⟩) := by
  have h1 := skipMinus_render n.neg n.int (n.renderFrac ++ n.renderExp ++ rest) p
  have hE := renderExp_head n rest hs
  have hY : NoDigitHead (n.renderFrac ++ n.renderExp ++ rest) := by
    intro b r h
    unfold SNum.renderFrac at h
    cases hf : n.frac with
    | none => simp only [hf, List.nil_append] at h; exact (hE b r h).1
    | some ds =>
      simp only [hf, List.cons_append, List.cons.injEq] at h
      obtain ⟨rfl, -⟩ := h; rfl
  have h2 := scanInt_render n.int (n.renderFrac ++ n.renderExp ++ rest) (p + (if n.neg then 1 else 0)) hY
  have h3 := scanFrac_render n hok (n.renderExp ++ rest) (p + (if n.neg then 1 else 0) + (natToDec n.int).length) hE
  have h4 := scanExp_render n hok rest (p + (if n.neg then 1 else 0) + (natToDec n.int).length + n.renderFrac.length) hs
  have e : n.render ++ rest = (if n.neg then [0x2D] else []) ++ natToDec n.int ++ (n.renderFrac ++ n.renderExp ++ rest) := by
    simp [SNum.render, List.append_assoc]
  simp only [List.append_assoc] at h2 h3 h4 h1
  rw [e]
  simp only [scanNumber, List.append_assoc, h1, h2, h3, h4, SNum.isFloat, SNum.render_length]
  congr 3; omega

theorem take_render (a rest : Bytes) (p : Nat) : (a ++ rest).take (p + a.length - p) = a := by
  have : p + a.length - p = a.length := by omega
  rw [this]; simp

theorem fromCharsInt64_render (neg : Bool) (k : Nat) :
    fromCharsInt64 ((if neg then [0x2D] else []) ++ natToDec k) =
      (if neg then (if k ≤ 2 ^ 63 then some (-(k : Int)) else none) else (if k < 2 ^ 63 then some (k : Int) else none)) := by
  cases neg with
  | true => simp [fromCharsInt64, decVal_natToDec]
  | false =>
    obtain ⟨d, r, hr, hd, -, -⟩ := natToDec_head k
    have hne := (digit_props hd).1
    have hv := decVal_natToDec k
    rw [hr] at hv
    simp only [Bool.false_eq_true, ↓reduceIte, List.nil_append, hr]
    unfold fromCharsInt64
    split
    · rename_i ds heq
      simp only [List.cons.injEq] at heq
      exact absurd heq.1 hne
    · simp [hv]

theorem parseNumber_render (ops : FloatOps) (n : SNum) (hok : n.ok) (rest : Bytes) (p : Nat) (hs : NumStop rest) :
    parseNumber ops ⟨n.render ++ rest, p⟩ = .ok (n.denote ops, ⟨rest, p + n.render.length⟩) := by
  simp only [parseNumber, scanNumber_render n hok rest p hs, take_render]
  congr 2
  unfold convertNumber SNum.denote
  cases hf : n.isFloat with
  | true => simp
  | false =>
    simp only [Bool.false_eq_true, ↓reduceIte]
    have hfe : n.renderFrac = [] ∧ n.renderExp = [] := by
      simp only [SNum.isFloat, Bool.or_eq_false_iff, Option.isSome_eq_false_iff, Option.isNone_iff_eq_none] at hf
      simp [SNum.renderFrac, SNum.renderExp, hf.1, hf.2]
    have hr : n.render = (if n.neg then [0x2D] else []) ++ natToDec n.int := by
      simp [SNum.render, hfe.1, hfe.2]
    rw [hr, fromCharsInt64_render]
    cases n.neg with
    | true =>
      simp only [↓reduceIte]
      by_cases hk : n.int ≤ 2 ^ 63
      · have : -(2 ^ 63 : Int) ≤ -(n.int : Int) ∧ -(n.int : Int) < 2 ^ 63 := by constructor <;> omega
        rw [if_pos hk, if_pos this]
      · have : ¬ (-(2 ^ 63 : Int) ≤ -(n.int : Int) ∧ -(n.int : Int) < 2 ^ 63) := by omega
        rw [if_neg hk, if_neg this]
    | false =>
      simp only [Bool.false_eq_true, ↓reduceIte]
      by_cases hk : n.int < 2 ^ 63
      · have : -(2 ^ 63 : Int) ≤ (n.int : Int) ∧ (n.int : Int) < 2 ^ 63 := by constructor <;> omega
        rw [if_pos hk, if_pos this]
      · have : ¬ (-(2 ^ 63 : Int) ≤ (n.int : Int) ∧ (n.int : Int) < 2 ^ 63) := by omega
        rw [if_neg hk, if_neg this]


/-! ### strings -/

theorem hexVal_byte (h : HexDigit) : hexVal h.byte = some h.val.val := by
  obtain ⟨⟨v, hv⟩, u⟩ := h
  have : v = 0 ∨ v = 1 ∨ v = 2 ∨ v = 3 ∨ v = 4 ∨ v = 5 ∨ v = 6 ∨ v = 7 ∨ v = 8 ∨ v = 9 ∨ v = 10 ∨ v = 11 ∨ v = 12 ∨ v = 13
      ∨ v = 14 ∨ v = 15 := by omega
  rcases this with h | h | h | h | h | h | h | h | h | h | h | h | h | h | h | h <;> subst h <;> cases u <;> rfl

theorem parseHex4_render (a1 a2 a3 a4 : HexDigit) (x : Bytes) :
    parseHex4 (a1.byte :: a2.byte :: a3.byte :: a4.byte :: x) = some (codeUnit a1 a2 a3 a4) := by
  simp [parseHex4, hexVal_byte, codeUnit]

theorem isHiSurr_eq (cu : Nat) : isHiSurr cu = isHigh cu := rfl
theorem isLoSurr_eq (cu : Nat) : isLoSurr cu = isLow cu := rfl

theorem esc_letter_ne_u (e : Esc) : e.letter ≠ 0x75 := by cases e <;> decide
theorem esc_lookup (e : Esc) : Gen.Json.parseEscapes.lookup e.letter.toNat = some e.char.toNat := by cases e <;> rfl

/-- what follows the four hex digits of a `\u` that is NOT the first half of a pair -/
def NoLowAfter (x : Bytes) : Prop := lowSurrogate x = none

theorem decodeU_single (a1 a2 a3 a4 : HexDigit) (x : Bytes)
    (h : isHigh (codeUnit a1 a2 a3 a4) = true → lowSurrogate x = none) :
    ∃ cp, decodeU (a1.byte :: a2.byte :: a3.byte :: a4.byte :: x) = some (cp, 5) ∧ utf8 cp = loneUnit (codeUnit a1 a2 a3 a4) := by
  unfold decodeU
  rw [parseHex4_render]
  simp only
  by_cases hh : isHiSurr (codeUnit a1 a2 a3 a4) = true
  · have hh' : isHigh (codeUnit a1 a2 a3 a4) = true := hh
    have : lowSurrogate (List.drop Gen.Json.hexAdvance (a1.byte :: a2.byte :: a3.byte :: a4.byte :: x)) = none := by
      simpa [Gen.Json.hexAdvance] using h hh'
    rw [if_pos hh, this]
    exact ⟨_, rfl, by simp [loneUnit, hh', Gen.Json.replacementCp]⟩
  · rw [if_neg hh]
    have hh' : isHigh (codeUnit a1 a2 a3 a4) = false := by
      have : isHiSurr (codeUnit a1 a2 a3 a4) = false := by simpa using hh
      exact this
    by_cases hl : isLoSurr (codeUnit a1 a2 a3 a4) = true
    · have hl' : isLow (codeUnit a1 a2 a3 a4) = true := hl
      rw [if_pos hl]; exact ⟨_, rfl, by simp [loneUnit, hl', Gen.Json.replacementCp]⟩
    · rw [if_neg hl]
      have hl' : isLow (codeUnit a1 a2 a3 a4) = false := by
        have : isLoSurr (codeUnit a1 a2 a3 a4) = false := by simpa using hl
        exact this
      exact ⟨_, rfl, by simp [loneUnit, hh', hl']⟩

theorem lowSurrogate_u (b1 b2 b3 b4 : HexDigit) (x : Bytes) :
    lowSurrogate (0x5C :: 0x75 :: b1.byte :: b2.byte :: b3.byte :: b4.byte :: x)
      = if isLow (codeUnit b1 b2 b3 b4) then some (codeUnit b1 b2 b3 b4) else none := by
  unfold lowSurrogate
  simp only [and_self, ↓reduceIte, parseHex4_render]
  rfl

theorem decodeU_pair (a1 a2 a3 a4 b1 b2 b3 b4 : HexDigit) (x : Bytes)
    (h : (isHigh (codeUnit a1 a2 a3 a4) && isLow (codeUnit b1 b2 b3 b4)) = true) :
    decodeU (a1.byte :: a2.byte :: a3.byte :: a4.byte :: 0x5C :: 0x75 :: b1.byte :: b2.byte :: b3.byte :: b4.byte :: x)
      = some (0x10000 + (codeUnit a1 a2 a3 a4 - 0xD800) * 1024 + (codeUnit b1 b2 b3 b4 - 0xDC00), 11) := by
  simp only [Bool.and_eq_true] at h
  unfold decodeU
  rw [parseHex4_render]
  simp only
  have hh : isHiSurr (codeUnit a1 a2 a3 a4) = true := h.1
  rw [if_pos hh]
  have : List.drop Gen.Json.hexAdvance (a1.byte :: a2.byte :: a3.byte :: a4.byte :: 0x5C :: 0x75 :: b1.byte :: b2.byte :: b3.byte :: b4.byte :: x)
      = 0x5C :: 0x75 :: b1.byte :: b2.byte :: b3.byte :: b4.byte :: x := by simp [Gen.Json.hexAdvance]
  rw [this, lowSurrogate_u, if_pos h.2]
  simp [Gen.Json.supplementaryBase, Gen.Json.hiSurrLo, Gen.Json.loSurrLo, Gen.Json.surrogateShift, Gen.Json.hexAdvance, Gen.Json.pairAdvance]

theorem renderItems_cons (i : StrItem) (tl : List StrItem) : renderItems (i :: tl) = i.render ++ renderItems tl := by
  simp [renderItems]

/-- after the hex digits of an unpaired `\u`: the next item is not a `\u`, or the string ends -/
theorem lowSurrogate_next_none (tl : List StrItem) (rest : Bytes) (hok : ∀ i ∈ tl, i.ok)
    (hnu : ∀ (b1 b2 b3 b4 : HexDigit) (tl' : List StrItem), tl = StrItem.u b1 b2 b3 b4 :: tl' → False) :
    lowSurrogate (renderItems tl ++ 0x22 :: rest) = none := by
  cases tl with
  | nil =>
    cases rest with
    | nil => simp [renderItems, lowSurrogate]
    | cons y ys => simp [renderItems, lowSurrogate]
  | cons i tl' =>
    cases i with
    | raw b =>
      have := hok (.raw b) (by simp)
      simp only [StrItem.ok] at this
      cases h : renderItems tl' ++ 0x22 :: rest with
      | nil => simp [renderItems_cons, StrItem.render, h, lowSurrogate]
      | cons y ys => simp [renderItems_cons, StrItem.render, h, lowSurrogate, this.2]
    | esc e => simp [renderItems_cons, StrItem.render, lowSurrogate, esc_letter_ne_u]
    | u b1 b2 b3 b4 => exact absurd rfl (fun h => hnu b1 b2 b3 b4 tl' h)

theorem utf8_length_pos (cp : Nat) : 1 ≤ (utf8 cp).length := by
  unfold utf8
  split
  · simp
  · split
    · simp
    · split <;> simp

theorem strLoop_render (lim : Limits) (items : List StrItem) :
    ∀ (fuel : Nat) (racc : Bytes) (n : Nat) (rest : Bytes) (p : Nat),
      (∀ i ∈ items, i.ok) → n + (denoteItems items).length ≤ lim.stringLengthMax →
      (renderItems items).length + 1 ≤ fuel →
      ∃ p', strLoop lim fuel racc n ⟨renderItems items ++ 0x22 :: rest, p⟩ = .ok (racc.reverse ++ denoteItems items, ⟨rest, p'⟩) := by
  induction items using denoteItems.induct with
  | case1 =>
    intro fuel racc n rest p _ _ hf
    cases fuel with
    | zero => omega
    | succ fuel => exact ⟨p + 1, by simp [renderItems, strLoop, denoteItems]⟩
  | case2 b tl ih =>
    intro fuel racc n rest p hok hlen hf
    cases fuel with
    | zero => omega
    | succ fuel =>
      have hb := hok (.raw b) (by simp)
      simp only [StrItem.ok] at hb
      simp only [denoteItems, List.length_cons] at hlen
      have hnx : Gen.Json.stringExceeded n lim.stringLengthMax = false := by
        simp [Gen.Json.stringExceeded]; omega
      obtain ⟨p', h⟩ := ih fuel (b :: racc) (n + 1) rest (p + 1) (fun i hi => hok i (by simp [hi])) (by omega)
        (by simp only [renderItems_cons, StrItem.render, List.length_append, List.length_cons, List.length_nil] at hf; omega)
      refine ⟨p', ?_⟩
      simp only [renderItems_cons, StrItem.render, List.cons_append, List.nil_append, strLoop, hb.1, hb.2, hnx, ↓reduceIte,
        Bool.false_eq_true, h, denoteItems, List.reverse_cons, List.append_assoc, List.singleton_append]
  | case3 e tl ih =>
    intro fuel racc n rest p hok hlen hf
    cases fuel with
    | zero => omega
    | succ fuel =>
      simp only [denoteItems, List.length_cons] at hlen
      have hnx : Gen.Json.stringExceeded n lim.stringLengthMax = false := by
        simp [Gen.Json.stringExceeded]; omega
      obtain ⟨p', h⟩ := ih fuel (e.char :: racc) (n + 1) rest (p + 2) (fun i hi => hok i (by simp [hi])) (by omega)
        (by simp only [renderItems_cons, StrItem.render, List.length_append, List.length_cons, List.length_nil] at hf; omega)
      refine ⟨p', ?_⟩
      simp only [renderItems_cons, StrItem.render, List.cons_append, List.nil_append, strLoop, hnx, ↓reduceIte,
        Bool.false_eq_true, esc_letter_ne_u, esc_lookup, b8_of_toNat, h, denoteItems, List.reverse_cons, List.append_assoc,
        List.singleton_append]
      simp
  | case4 a1 a2 a3 a4 b1 b2 b3 b4 tl hc ih =>
    intro fuel racc n rest p hok hlen hf
    cases fuel with
    | zero => omega
    | succ fuel =>
      simp only [denoteItems, hc, ↓reduceIte, List.length_append] at hlen
      have hnx : Gen.Json.stringExceeded n lim.stringLengthMax = false := by
        simp [Gen.Json.stringExceeded]; omega
      have hd := decodeU_pair a1 a2 a3 a4 b1 b2 b3 b4 (renderItems tl ++ 0x22 :: rest) hc
      obtain ⟨p', h⟩ := ih fuel ((utf8 (0x10000 + (codeUnit a1 a2 a3 a4 - 0xD800) * 1024 + (codeUnit b1 b2 b3 b4 - 0xDC00))).reverse ++ racc)
        (n + (utf8 (0x10000 + (codeUnit a1 a2 a3 a4 - 0xD800) * 1024 + (codeUnit b1 b2 b3 b4 - 0xDC00))).length) rest (p + 1 + 11)
        (fun i hi => hok i (by simp [hi])) (by omega)
        (by simp only [renderItems_cons, StrItem.render, List.length_append, List.length_cons, List.length_nil] at hf; omega)
      refine ⟨p', ?_⟩
      simp only [renderItems_cons, StrItem.render, List.cons_append, List.nil_append, strLoop, hnx, ↓reduceIte,
        Bool.false_eq_true, hd, List.drop_succ_cons, List.drop_zero, denoteItems, hc]
      rw [h]; simp
  | case5 a1 a2 a3 a4 b1 b2 b3 b4 tl hc ih =>
    intro fuel racc n rest p hok hlen hf
    cases fuel with
    | zero => omega
    | succ fuel =>
      have hden : denoteItems (StrItem.u a1 a2 a3 a4 :: StrItem.u b1 b2 b3 b4 :: tl)
          = loneUnit (codeUnit a1 a2 a3 a4) ++ denoteItems (StrItem.u b1 b2 b3 b4 :: tl) := by
        rw [denoteItems, if_neg hc]
      rw [hden] at hlen ⊢
      simp only [List.length_append] at hlen
      have hnx : Gen.Json.stringExceeded n lim.stringLengthMax = false := by
        simp [Gen.Json.stringExceeded]; omega
      obtain ⟨cp, hd, hcp⟩ := decodeU_single a1 a2 a3 a4 (renderItems (StrItem.u b1 b2 b3 b4 :: tl) ++ 0x22 :: rest) (by
        intro hh
        simp only [renderItems_cons, StrItem.render, List.cons_append, List.nil_append]
        rw [lowSurrogate_u]
        simp only [hh, Bool.true_and] at hc
        simp [hc])
      obtain ⟨p', h⟩ := ih fuel ((utf8 cp).reverse ++ racc) (n + (utf8 cp).length) rest (p + 1 + 5)
        (fun i hi => hok i (by simp [hi])) (by rw [hcp]; omega)
        (by simp only [renderItems_cons, StrItem.render, List.length_append, List.length_cons, List.length_nil] at hf ⊢; omega)
      refine ⟨p', ?_⟩
      have e : renderItems (StrItem.u a1 a2 a3 a4 :: StrItem.u b1 b2 b3 b4 :: tl) ++ 0x22 :: rest
          = 0x5C :: 0x75 :: a1.byte :: a2.byte :: a3.byte :: a4.byte :: (renderItems (StrItem.u b1 b2 b3 b4 :: tl) ++ 0x22 :: rest) := by
        simp [renderItems_cons, StrItem.render]
      rw [e]
      simp only [strLoop, hnx, ↓reduceIte, Bool.false_eq_true, hd, List.drop_succ_cons, List.drop_zero, denoteItems, hc]
      rw [h, hcp]; simp
  | case6 a1 a2 a3 a4 tl hnu ih =>
    intro fuel racc n rest p hok hlen hf
    cases fuel with
    | zero => omega
    | succ fuel =>
      have hden : denoteItems (StrItem.u a1 a2 a3 a4 :: tl) = loneUnit (codeUnit a1 a2 a3 a4) ++ denoteItems tl := by
        cases tl with
        | nil => simp [denoteItems]
        | cons i tl' =>
          cases i with
          | raw b => simp [denoteItems]
          | esc e => simp [denoteItems]
          | u b1 b2 b3 b4 => exact absurd rfl (fun h => hnu b1 b2 b3 b4 tl' h)
      rw [hden] at hlen ⊢
      simp only [List.length_append] at hlen
      have hnx : Gen.Json.stringExceeded n lim.stringLengthMax = false := by
        simp [Gen.Json.stringExceeded]; omega
      obtain ⟨cp, hd, hcp⟩ := decodeU_single a1 a2 a3 a4 (renderItems tl ++ 0x22 :: rest)
        (fun _ => lowSurrogate_next_none tl rest (fun i hi => hok i (by simp [hi])) hnu)
      obtain ⟨p', h⟩ := ih fuel ((utf8 cp).reverse ++ racc) (n + (utf8 cp).length) rest (p + 1 + 5)
        (fun i hi => hok i (by simp [hi])) (by rw [hcp]; omega)
        (by simp only [renderItems_cons, StrItem.render, List.length_append, List.length_cons, List.length_nil] at hf ⊢; omega)
      refine ⟨p', ?_⟩
      have e : renderItems (StrItem.u a1 a2 a3 a4 :: tl) ++ 0x22 :: rest
          = 0x5C :: 0x75 :: a1.byte :: a2.byte :: a3.byte :: a4.byte :: (renderItems tl ++ 0x22 :: rest) := by
        simp [renderItems_cons, StrItem.render]
      rw [e]
      simp only [strLoop, hnx, ↓reduceIte, Bool.false_eq_true, hd, List.drop_succ_cons, List.drop_zero]
      rw [h, hcp]; simp

theorem parseString_render (lim : Limits) (items : List StrItem) (rest : Bytes) (p : Nat)
    (hok : ∀ i ∈ items, i.ok) (hlen : (denoteItems items).length ≤ lim.stringLengthMax) :
    ∃ p', parseString lim ⟨renderString items ++ rest, p⟩ = .ok (denoteItems items, ⟨rest, p'⟩) := by
  obtain ⟨p', h⟩ := strLoop_render lim items ((renderItems items ++ 0x22 :: rest).length + 1) [] 0 rest (p + 1) hok (by omega)
    (by simp only [List.length_append, List.length_cons]; omega)
  refine ⟨p', ?_⟩
  simp only [renderString, List.cons_append, List.append_assoc, List.singleton_append, parseString, ↓reduceIte]
  simpa using h


/-! ### values -/

/-- what may follow a value inside a valid text: white space, `,`, `]`, `}` or the end -/
def StopHead (x : Bytes) : Prop :=
  ∀ b r, x = b :: r → b = 0x20 ∨ b = 0x09 ∨ b = 0x0A ∨ b = 0x0D ∨ b = 0x2C ∨ b = 0x5D ∨ b = 0x7D

theorem StopHead.numStop {x : Bytes} (h : StopHead x) : NumStop x := by
  intro b r e
  rcases h b r e with h | h | h | h | h | h | h <;> subst h <;> decide

theorem stopHead_ws (w : Ws) (x : Bytes) (hx : StopHead x) : StopHead (w.render ++ x) := by
  cases w with
  | nil => simpa [Ws.render] using hx
  | cons c w =>
    intro b r e
    simp only [Ws.render, List.map_cons, List.cons_append, List.cons.injEq] at e
    obtain ⟨rfl, -⟩ := e
    cases c <;> simp [WsChar.byte]

theorem stopHead_cons {b : UInt8} (r : Bytes) (h : b = 0x2C ∨ b = 0x5D ∨ b = 0x7D) : StopHead (b :: r) := by
  intro b' r' e
  simp only [List.cons.injEq] at e
  obtain ⟨rfl, -⟩ := e
  rcases h with h | h | h <;> simp [h]

theorem stopHead_nil : StopHead [] := by intro b r e; cases e

/-- the first byte of a rendered value -/
theorem render_head (v : SVal) : ∃ b r, v.render = b :: r ∧ isSpace b = false ∧ b ≠ 0x5D ∧ b ≠ 0x7D ∧ b ≠ 0x2C := by
  cases v with
  | null => exact ⟨0x6E, _, rfl, by decide, by decide, by decide, by decide⟩
  | true => exact ⟨0x74, _, rfl, by decide, by decide, by decide, by decide⟩
  | false => exact ⟨0x66, _, rfl, by decide, by decide, by decide, by decide⟩
  | str s => exact ⟨0x22, _, rfl, by decide, by decide, by decide, by decide⟩
  | arr w es => exact ⟨0x5B, _, rfl, by decide, by decide, by decide, by decide⟩
  | obj w ms => exact ⟨0x7B, _, rfl, by decide, by decide, by decide, by decide⟩
  | num n =>
    obtain ⟨d, r, hr, hd, -, -⟩ := natToDec_head n.int
    have hd' := (isDigit_iff d).mp hd
    cases hn : n.neg with
    | true =>
      refine ⟨0x2D, natToDec n.int ++ n.renderFrac ++ n.renderExp, ?_, by decide, by decide, by decide, by decide⟩
      simp [SVal.render, SNum.render, hn, List.append_assoc]
    | false =>
      refine ⟨d, r ++ n.renderFrac ++ n.renderExp, ?_, ?_, ?_, ?_, ?_⟩
      · simp [SVal.render, SNum.render, hn, hr, List.append_assoc]
      · cases h : isSpace d with
        | false => rfl
        | true => rw [isSpace_iff] at h; omega
      all_goals (intro e; subst e; simp at hd')

theorem noSpaceHead_render (v : SVal) (x : Bytes) : NoSpaceHead (v.render ++ x) := by
  obtain ⟨b, r, hr, hs, -⟩ := render_head v
  intro b' r' e
  rw [hr] at e
  simp only [List.cons_append, List.cons.injEq] at e
  obtain ⟨rfl, -⟩ := e
  exact hs

def SElems.renderNoLead : SElems → Bytes
  | .nil => []
  | .cons _ v w2 tl => v.render ++ w2.render ++ (match tl with | .nil => [] | tl => 0x2C :: tl.render)

def SMembers.renderNoLead : SMembers → Bytes
  | .nil => []
  | .cons _ k w2 w3 v w4 tl =>
    renderString k ++ w2.render ++ [0x3A] ++ w3.render ++ v.render ++ w4.render ++ (match tl with | .nil => [] | tl => 0x2C :: tl.render)

def PVStmt (ops : FloatOps) (lim : Limits) (v : SVal) : Prop :=
  ∀ (fuel depth : Nat) (w : Ws) (rest : Bytes) (p : Nat), v.ok → v.fits lim depth → StopHead rest →
    lim.depthMax + 2 ≤ fuel + depth →
    ∃ p', parseValue ops lim fuel depth ⟨w.render ++ v.render ++ rest, p⟩ = .ok (v.denote ops, ⟨rest, p'⟩)

def ALStmt (ops : FloatOps) (lim : Limits) (es : SElems) : Prop :=
  es ≠ .nil → ∀ (fuel depth lfuel : Nat) (racc : List Json) (n : Nat) (rest : Bytes) (p : Nat),
    es.ok → es.fits lim (depth + 1) → n + es.length ≤ lim.arrayItemsMax → lim.depthMax + 2 ≤ fuel + (depth + 1) →
    (es.renderNoLead ++ 0x5D :: rest).length + 1 ≤ lfuel →
    ∃ p', arrLoop (parseValue ops lim fuel (depth + 1)) lim lfuel racc n ⟨es.renderNoLead ++ 0x5D :: rest, p⟩
      = .ok (.arr (racc.reverse ++ es.denote ops), ⟨rest, p'⟩)

def OLStmt (ops : FloatOps) (lim : Limits) (ms : SMembers) : Prop :=
  ms ≠ .nil → ∀ (fuel depth lfuel : Nat) (acc : List (Bytes × Json)) (rest : Bytes) (p : Nat),
    ms.ok → ms.fits lim (depth + 1) → acc.length + ms.length ≤ lim.membersMax → lim.depthMax + 2 ≤ fuel + (depth + 1) →
    (ms.renderNoLead ++ 0x7D :: rest).length + 1 ≤ lfuel →
    ∃ p', objLoop (parseValue ops lim fuel (depth + 1)) lim lfuel acc ⟨ms.renderNoLead ++ 0x7D :: rest, p⟩
      = .ok (.obj (ms.denote ops acc), ⟨rest, p'⟩)

/-- entry of `parseValue`: budget, depth guard, leading white space -/
theorem parseValue_enter (ops : FloatOps) (lim : Limits) (v : SVal) (fuel depth : Nat) (w : Ws) (rest : Bytes) (p : Nat)
    (hd : depth ≤ lim.depthMax) (hf : lim.depthMax + 2 ≤ fuel + depth) :
    ∃ f, fuel = f + 1 ∧ lim.depthMax + 2 ≤ f + (depth + 1) ∧
      Gen.Json.depthExceeded depth lim.depthMax = false ∧
      skipWs ⟨w.render ++ v.render ++ rest, p⟩ = ⟨v.render ++ rest, p + w.length⟩ := by
  cases fuel with
  | zero => omega
  | succ f =>
    refine ⟨f, rfl, by omega, ?_, ?_⟩
    · simp [Gen.Json.depthExceeded]; omega
    · rw [List.append_assoc]; exact skipWs_ws w _ p (noSpaceHead_render v rest)

theorem pv_null (ops : FloatOps) (lim : Limits) : PVStmt ops lim .null := by
  intro fuel depth w rest p _ hfit _ hf
  obtain ⟨f, rfl, -, hde, hsk⟩ := parseValue_enter ops lim .null fuel depth w rest p hfit hf
  refine ⟨p + w.length + 4, ?_⟩
  simp only [parseValue, hde, Bool.false_eq_true, ↓reduceIte]
  rw [hsk]
  simp [SVal.render, litNull, parseNull, SVal.denote]

theorem pv_true (ops : FloatOps) (lim : Limits) : PVStmt ops lim .true := by
  intro fuel depth w rest p _ hfit _ hf
  obtain ⟨f, rfl, -, hde, hsk⟩ := parseValue_enter ops lim .true fuel depth w rest p hfit hf
  refine ⟨p + w.length + 4, ?_⟩
  simp only [parseValue, hde, Bool.false_eq_true, ↓reduceIte]
  rw [hsk]
  simp [SVal.render, litTrue, parseBool, SVal.denote]

theorem pv_false (ops : FloatOps) (lim : Limits) : PVStmt ops lim .false := by
  intro fuel depth w rest p _ hfit _ hf
  obtain ⟨f, rfl, -, hde, hsk⟩ := parseValue_enter ops lim .false fuel depth w rest p hfit hf
  refine ⟨p + w.length + 5, ?_⟩
  simp only [parseValue, hde, Bool.false_eq_true, ↓reduceIte]
  rw [hsk]
  simp [SVal.render, litFalse, litTrue, parseBool, SVal.denote]

theorem pv_str (ops : FloatOps) (lim : Limits) (s : List StrItem) : PVStmt ops lim (.str s) := by
  intro fuel depth w rest p hok hfit _ hf
  simp only [SVal.fits] at hfit
  simp only [SVal.ok] at hok
  obtain ⟨f, rfl, -, hde, hsk⟩ := parseValue_enter ops lim (.str s) fuel depth w rest p hfit.1 hf
  obtain ⟨p', hp⟩ := parseString_render lim s rest (p + w.length) hok hfit.2
  refine ⟨p', ?_⟩
  simp only [parseValue, hde, Bool.false_eq_true, ↓reduceIte]
  rw [hsk]
  simp only [SVal.render, SVal.denote] at hp ⊢
  have e : renderString s ++ rest = 0x22 :: (renderItems s ++ [0x22] ++ rest) := by simp [renderString]
  rw [e] at hp ⊢
  simp only [show ((0x22 : UInt8) = 0x6E) = False by decide, show ((0x22 : UInt8) = 0x74) = False by decide,
    show ((0x22 : UInt8) = 0x66) = False by decide, or_self, ↓reduceIte, hp]

theorem pv_num (ops : FloatOps) (lim : Limits) (n : SNum) : PVStmt ops lim (.num n) := by
  intro fuel depth w rest p hok hfit hstop hf
  simp only [SVal.fits] at hfit
  simp only [SVal.ok] at hok
  obtain ⟨f, rfl, -, hde, hsk⟩ := parseValue_enter ops lim (.num n) fuel depth w rest p hfit hf
  have hp := parseNumber_render ops n hok rest (p + w.length) hstop.numStop
  refine ⟨p + w.length + n.render.length, ?_⟩
  -- the first byte of the token is `-` or a digit
  obtain ⟨d, r, hr, hd, -, -⟩ := natToDec_head n.int
  have hdp := digit_props hd
  have hd' := (isDigit_iff d).mp hd
  have hne : ∀ c : UInt8, c.toNat < 48 ∨ 57 < c.toNat → d ≠ c := by
    intro c hc e; subst e; omega
  simp only [parseValue, hde, Bool.false_eq_true, ↓reduceIte]
  rw [hsk]
  simp only [SVal.render, SVal.denote] at hp ⊢
  cases hn : n.neg with
  | true =>
    have e : n.render ++ rest = 0x2D :: (natToDec n.int ++ n.renderFrac ++ n.renderExp ++ rest) := by
      simp [SNum.render, hn, List.append_assoc]
    rw [e] at hp ⊢
    simp only [show ((0x2D : UInt8) = 0x6E) = False by decide, show ((0x2D : UInt8) = 0x74) = False by decide,
      show ((0x2D : UInt8) = 0x66) = False by decide, show ((0x2D : UInt8) = 0x22) = False by decide,
      show ((0x2D : UInt8) = 0x5B) = False by decide, show ((0x2D : UInt8) = 0x7B) = False by decide, or_self, ↓reduceIte,
      true_or, hp]
  | false =>
    have e : n.render ++ rest = d :: (r ++ n.renderFrac ++ n.renderExp ++ rest) := by
      simp [SNum.render, hn, hr, List.append_assoc]
    rw [e] at hp ⊢
    simp only [hne 0x6E (by decide), hne 0x74 (by decide), hne 0x66 (by decide), hne 0x22 (by decide), hne 0x5B (by decide),
      hne 0x7B (by decide), or_self, ↓reduceIte, hd, or_true, hp]


/-! ### arrays -/

theorem ws_render_append (a b : Ws) : (a ++ b).render = a.render ++ b.render := by simp [Ws.render]

theorem noSpaceHead_cons {b : UInt8} (r : Bytes) (h : isSpace b = false) : NoSpaceHead (b :: r) := by
  intro b' r' e; simp only [List.cons.injEq] at e; obtain ⟨rfl, -⟩ := e; exact h

theorem SElems.render_cons_eq (w1 : Ws) (v : SVal) (w2 : Ws) (tl : SElems) :
    (SElems.cons w1 v w2 tl).render = w1.render ++ (SElems.cons w1 v w2 tl).renderNoLead := by
  cases tl <;> simp [SElems.render, SElems.renderNoLead, List.append_assoc]

theorem ws_render_nil : Ws.render [] = [] := rfl

theorem al_nil (ops : FloatOps) (lim : Limits) : ALStmt ops lim .nil := fun h => absurd rfl h

theorem al_cons (ops : FloatOps) (lim : Limits) (w1 : Ws) (v : SVal) (w2 : Ws) (tl : SElems)
    (hv : PVStmt ops lim v) (htl : ALStmt ops lim tl) : ALStmt ops lim (.cons w1 v w2 tl) := by
  intro _ fuel depth lfuel racc n rest p hok hfit hn hf hlf
  simp only [SElems.ok] at hok
  simp only [SElems.fits] at hfit
  simp only [SElems.length] at hn
  cases lfuel with
  | zero => omega
  | succ lfuel =>
    have hnx : Gen.Json.arrayExceeded n lim.arrayItemsMax = false := by
      simp [Gen.Json.arrayExceeded]; omega
    cases tl with
    | nil =>
      -- last element: `v w2 ]`
      have hstop : StopHead (w2.render ++ 0x5D :: rest) := stopHead_ws w2 _ (stopHead_cons rest (by simp))
      obtain ⟨p1, h1⟩ := hv fuel (depth + 1) [] (w2.render ++ 0x5D :: rest) p hok.1 hfit.1 hstop hf
      have hsk := skipWs_ws w2 (0x5D :: rest) p1 (noSpaceHead_cons rest (by decide))
      refine ⟨p1 + w2.length + 1, ?_⟩
      simp only [ws_render_nil, List.nil_append] at h1
      simp only [SElems.renderNoLead, List.append_nil, List.append_assoc, arrLoop, hnx, Bool.false_eq_true, ↓reduceIte, h1]
      rw [hsk]
      simp [SElems.denote]
    | cons w1' v' w2' tl' =>
      have hstop : StopHead (w2.render ++ 0x2C :: ((SElems.cons w1' v' w2' tl').render ++ 0x5D :: rest)) :=
        stopHead_ws w2 _ (stopHead_cons _ (by simp))
      obtain ⟨p1, h1⟩ := hv fuel (depth + 1) [] _ p hok.1 hfit.1 hstop hf
      have hsk := skipWs_ws w2 (0x2C :: ((SElems.cons w1' v' w2' tl').render ++ 0x5D :: rest)) p1 (noSpaceHead_cons _ (by decide))
      have hsk2 : skipWs ⟨(SElems.cons w1' v' w2' tl').render ++ 0x5D :: rest, p1 + w2.length + 1⟩
          = ⟨(SElems.cons w1' v' w2' tl').renderNoLead ++ 0x5D :: rest, p1 + w2.length + 1 + w1'.length⟩ := by
        rw [SElems.render_cons_eq, List.append_assoc]
        apply skipWs_ws
        simp only [SElems.renderNoLead, List.append_assoc]
        exact noSpaceHead_render v' _
      obtain ⟨p2, h2⟩ := htl (by simp) fuel depth lfuel (v.denote ops :: racc) (n + 1) rest (p1 + w2.length + 1 + w1'.length)
        hok.2 hfit.2 (by simp only [SElems.length] at hn ⊢; omega) hf (by
          have e : (SElems.cons w1 v w2 (SElems.cons w1' v' w2' tl')).renderNoLead
              = v.render ++ w2.render ++ 0x2C :: (SElems.cons w1' v' w2' tl').render := rfl
          rw [e, SElems.render_cons_eq] at hlf
          simp only [List.length_append, List.length_cons] at hlf ⊢
          omega)
      refine ⟨p2, ?_⟩
      simp only [ws_render_nil, List.nil_append] at h1
      have e : (SElems.cons w1 v w2 (SElems.cons w1' v' w2' tl')).renderNoLead ++ 0x5D :: rest
          = v.render ++ (w2.render ++ 0x2C :: ((SElems.cons w1' v' w2' tl').render ++ 0x5D :: rest)) := by
        simp [SElems.renderNoLead, List.append_assoc]
      rw [e]
      simp only [arrLoop, hnx, Bool.false_eq_true, ↓reduceIte, h1]
      rw [hsk]
      simp only [show ((0x2C : UInt8) = 0x5D) = False by decide, ↓reduceIte]
      rw [hsk2, h2]
      simp [SElems.denote]

theorem parseValue_arr {ops : FloatOps} {lim : Limits} {f depth : Nat} {c : Cur} {r : Bytes}
    (hde : Gen.Json.depthExceeded depth lim.depthMax = false) (h : (skipWs c).rest = 0x5B :: r) :
    parseValue ops lim (f + 1) depth c = parseArray (parseValue ops lim f (depth + 1)) lim (skipWs c) := by
  simp [parseValue, hde, h]

theorem parseValue_obj {ops : FloatOps} {lim : Limits} {f depth : Nat} {c : Cur} {r : Bytes}
    (hde : Gen.Json.depthExceeded depth lim.depthMax = false) (h : (skipWs c).rest = 0x7B :: r) :
    parseValue ops lim (f + 1) depth c = parseObject (parseValue ops lim f (depth + 1)) lim (skipWs c) := by
  simp [parseValue, hde, h]

theorem parseArray_empty {pv : Cur → Res Json} {lim : Limits} {c : Cur} {r : Bytes} (h : (skipWs c.adv).rest = 0x5D :: r) :
    parseArray pv lim c = .ok (.arr [], ⟨r, (skipWs c.adv).pos + 1⟩) := by
  simp [parseArray, h]

theorem parseArray_loop {pv : Cur → Res Json} {lim : Limits} {c : Cur} {b : UInt8} {r : Bytes}
    (h : (skipWs c.adv).rest = b :: r) (hb : b ≠ 0x5D) :
    parseArray pv lim c = arrLoop pv lim ((b :: r).length + 1) [] 0 (skipWs c.adv) := by
  simp [parseArray, h, hb]

theorem parseObject_empty {pv : Cur → Res Json} {lim : Limits} {c : Cur} {r : Bytes} (h : (skipWs c.adv).rest = 0x7D :: r) :
    parseObject pv lim c = .ok (.obj [], ⟨r, (skipWs c.adv).pos + 1⟩) := by
  simp [parseObject, h]

theorem parseObject_loop {pv : Cur → Res Json} {lim : Limits} {c : Cur} {b : UInt8} {r : Bytes}
    (h : (skipWs c.adv).rest = b :: r) (hb : b ≠ 0x7D) :
    parseObject pv lim c = objLoop pv lim ((b :: r).length + 1) [] (skipWs c.adv) := by
  simp [parseObject, h, hb]

theorem pv_arr (ops : FloatOps) (lim : Limits) (w : Ws) (es : SElems) (hal : ALStmt ops lim es) :
    PVStmt ops lim (.arr w es) := by
  intro fuel depth w0 rest p hok hfit hstop hf
  simp only [SVal.fits] at hfit
  simp only [SVal.ok] at hok
  obtain ⟨f, rfl, hf', hde, hsk⟩ := parseValue_enter ops lim (.arr w es) fuel depth w0 rest p hfit.1 hf
  have e0 : (SVal.arr w es).render ++ rest = 0x5B :: (w.render ++ es.render ++ 0x5D :: rest) := by
    simp [SVal.render, List.append_assoc]
  rw [e0] at hsk
  rw [parseValue_arr hde (by rw [hsk]), hsk]
  cases es with
  | nil =>
    have hs2 : skipWs (Cur.adv ⟨0x5B :: (w.render ++ SElems.nil.render ++ 0x5D :: rest), p + w0.length⟩)
        = ⟨0x5D :: rest, p + w0.length + 1 + w.length⟩ := by
      have := skipWs_ws w (0x5D :: rest) (p + w0.length + 1) (noSpaceHead_cons rest (by decide))
      simpa [Cur.adv, SElems.render] using this
    refine ⟨p + w0.length + 1 + w.length + 1, ?_⟩
    rw [parseArray_empty (by rw [hs2]), hs2]
    simp [SVal.denote, SElems.denote]
  | cons w1 v w2 tl =>
    have hs2 : skipWs (Cur.adv ⟨0x5B :: (w.render ++ (SElems.cons w1 v w2 tl).render ++ 0x5D :: rest), p + w0.length⟩)
        = ⟨(SElems.cons w1 v w2 tl).renderNoLead ++ 0x5D :: rest, p + w0.length + 1 + (w ++ w1).length⟩ := by
      have := skipWs_ws (w ++ w1) ((SElems.cons w1 v w2 tl).renderNoLead ++ 0x5D :: rest) (p + w0.length + 1) (by
        simp only [SElems.renderNoLead, List.append_assoc]
        exact noSpaceHead_render v _)
      rw [← this, ws_render_append, SElems.render_cons_eq]
      simp [Cur.adv, List.append_assoc]
    obtain ⟨b, r, hr, -, hb, -⟩ := render_head v
    obtain ⟨r', e2⟩ : ∃ r', (SElems.cons w1 v w2 tl).renderNoLead ++ 0x5D :: rest = b :: r' := by
      simp only [SElems.renderNoLead, hr, List.cons_append, List.append_assoc]; exact ⟨_, rfl⟩
    obtain ⟨p2, h2⟩ := hal (by simp) f depth (((SElems.cons w1 v w2 tl).renderNoLead ++ 0x5D :: rest).length + 1) [] 0 rest
      (p + w0.length + 1 + (w ++ w1).length) hok hfit.2.2 (by omega) hf' (Nat.le_refl _)
    refine ⟨p2, ?_⟩
    rw [parseArray_loop (by rw [hs2, e2]) hb, hs2, ← e2, h2]
    simp [SVal.denote]


/-! ### objects -/

theorem insertOrAssign_length_le (k : Bytes) (v : Json) (ms : List (Bytes × Json)) :
    (insertOrAssign k v ms).length ≤ ms.length + 1 := by
  induction ms with
  | nil => simp [insertOrAssign]
  | cons m ms ih =>
    obtain ⟨k', v'⟩ := m
    simp only [insertOrAssign]
    split
    · simp
    · simp only [List.length_cons]; omega

theorem SMembers.render_cons_eq (w1 : Ws) (k : List StrItem) (w2 w3 : Ws) (v : SVal) (w4 : Ws) (tl : SMembers) :
    (SMembers.cons w1 k w2 w3 v w4 tl).render = w1.render ++ (SMembers.cons w1 k w2 w3 v w4 tl).renderNoLead := by
  cases tl <;> simp [SMembers.render, SMembers.renderNoLead, List.append_assoc]

theorem noSpaceHead_renderString (k : List StrItem) (x : Bytes) : NoSpaceHead (renderString k ++ x) := by
  intro b r e
  simp only [renderString, List.cons_append, List.cons.injEq] at e
  obtain ⟨rfl, -⟩ := e
  decide

theorem ol_nil (ops : FloatOps) (lim : Limits) : OLStmt ops lim .nil := fun h => absurd rfl h

theorem ol_cons (ops : FloatOps) (lim : Limits) (w1 : Ws) (k : List StrItem) (w2 w3 : Ws) (v : SVal) (w4 : Ws) (tl : SMembers)
    (hv : PVStmt ops lim v) (htl : OLStmt ops lim tl) : OLStmt ops lim (.cons w1 k w2 w3 v w4 tl) := by
  intro _ fuel depth lfuel acc rest p hok hfit hn hf hlf
  simp only [SMembers.ok] at hok
  simp only [SMembers.fits] at hfit
  simp only [SMembers.length] at hn
  cases lfuel with
  | zero => omega
  | succ lfuel =>
    have hnx : Gen.Json.membersExceeded acc.length lim.membersMax = false := by
      simp [Gen.Json.membersExceeded]; omega
    cases tl with
    | nil =>
      -- last member: `k w2 : w3 v w4 }`
      obtain ⟨p1, h1⟩ := parseString_render lim k (w2.render ++ 0x3A :: (w3.render ++ v.render ++ (w4.render ++ 0x7D :: rest))) p
        hok.1 hfit.1
      have hsk1 := skipWs_ws w2 (0x3A :: (w3.render ++ v.render ++ (w4.render ++ 0x7D :: rest))) p1 (noSpaceHead_cons _ (by decide))
      have hstop : StopHead (w4.render ++ 0x7D :: rest) := stopHead_ws w4 _ (stopHead_cons rest (by simp))
      obtain ⟨p3, h3⟩ := hv fuel (depth + 1) w3 (w4.render ++ 0x7D :: rest) (p1 + w2.length + 1) hok.2.1 hfit.2.1 hstop hf
      have hsk4 := skipWs_ws w4 (0x7D :: rest) p3 (noSpaceHead_cons rest (by decide))
      refine ⟨p3 + w4.length + 1, ?_⟩
      have e : (SMembers.cons w1 k w2 w3 v w4 SMembers.nil).renderNoLead ++ 0x7D :: rest
          = renderString k ++ (w2.render ++ 0x3A :: (w3.render ++ v.render ++ (w4.render ++ 0x7D :: rest))) := by
        simp [SMembers.renderNoLead, List.append_assoc]
      rw [e]
      simp only [objLoop, hnx, Bool.false_eq_true, ↓reduceIte, h1]
      rw [hsk1]
      simp only [ne_eq, not_true_eq_false, ↓reduceIte, h3]
      rw [hsk4]
      simp [SMembers.denote]
    | cons w1' k' w2' w3' v' w4' tl' =>
      obtain ⟨p1, h1⟩ := parseString_render lim k (w2.render ++ 0x3A :: (w3.render ++ v.render ++ (w4.render ++ 0x2C ::
        ((SMembers.cons w1' k' w2' w3' v' w4' tl').render ++ 0x7D :: rest)))) p hok.1 hfit.1
      have hsk1 := skipWs_ws w2 (0x3A :: (w3.render ++ v.render ++ (w4.render ++ 0x2C ::
        ((SMembers.cons w1' k' w2' w3' v' w4' tl').render ++ 0x7D :: rest)))) p1 (noSpaceHead_cons _ (by decide))
      have hstop : StopHead (w4.render ++ 0x2C :: ((SMembers.cons w1' k' w2' w3' v' w4' tl').render ++ 0x7D :: rest)) :=
        stopHead_ws w4 _ (stopHead_cons _ (by simp))
      obtain ⟨p3, h3⟩ := hv fuel (depth + 1) w3 _ (p1 + w2.length + 1) hok.2.1 hfit.2.1 hstop hf
      have hsk4 := skipWs_ws w4 (0x2C :: ((SMembers.cons w1' k' w2' w3' v' w4' tl').render ++ 0x7D :: rest)) p3
        (noSpaceHead_cons _ (by decide))
      have hsk5 : skipWs ⟨(SMembers.cons w1' k' w2' w3' v' w4' tl').render ++ 0x7D :: rest, p3 + w4.length + 1⟩
          = ⟨(SMembers.cons w1' k' w2' w3' v' w4' tl').renderNoLead ++ 0x7D :: rest, p3 + w4.length + 1 + w1'.length⟩ := by
        rw [SMembers.render_cons_eq, List.append_assoc]
        apply skipWs_ws
        simp only [SMembers.renderNoLead, List.append_assoc]
        exact noSpaceHead_renderString k' _
      have hil := insertOrAssign_length_le (denoteItems k) (v.denote ops) acc
      obtain ⟨p6, h6⟩ := htl (by simp) fuel depth lfuel (insertOrAssign (denoteItems k) (v.denote ops) acc) rest
        (p3 + w4.length + 1 + w1'.length) hok.2.2 hfit.2.2 (by simp only [SMembers.length] at hn ⊢; omega) hf (by
          have e : (SMembers.cons w1 k w2 w3 v w4 (SMembers.cons w1' k' w2' w3' v' w4' tl')).renderNoLead
              = renderString k ++ w2.render ++ [0x3A] ++ w3.render ++ v.render ++ w4.render
                ++ 0x2C :: (SMembers.cons w1' k' w2' w3' v' w4' tl').render := rfl
          rw [e, SMembers.render_cons_eq] at hlf
          simp only [List.length_append, List.length_cons] at hlf ⊢
          omega)
      refine ⟨p6, ?_⟩
      have e : (SMembers.cons w1 k w2 w3 v w4 (SMembers.cons w1' k' w2' w3' v' w4' tl')).renderNoLead ++ 0x7D :: rest
          = renderString k ++ (w2.render ++ 0x3A :: (w3.render ++ v.render ++ (w4.render ++ 0x2C ::
              ((SMembers.cons w1' k' w2' w3' v' w4' tl').render ++ 0x7D :: rest)))) := by
        simp [SMembers.renderNoLead, List.append_assoc]
      rw [e]
      simp only [objLoop, hnx, Bool.false_eq_true, ↓reduceIte, h1]
      rw [hsk1]
      simp only [ne_eq, not_true_eq_false, ↓reduceIte, h3]
      rw [hsk4]
      simp only [show ((0x2C : UInt8) = 0x7D) = False by decide, ↓reduceIte]
      rw [hsk5, h6]
      simp [SMembers.denote]

theorem pv_obj (ops : FloatOps) (lim : Limits) (w : Ws) (ms : SMembers) (hol : OLStmt ops lim ms) :
    PVStmt ops lim (.obj w ms) := by
  intro fuel depth w0 rest p hok hfit hstop hf
  simp only [SVal.fits] at hfit
  simp only [SVal.ok] at hok
  obtain ⟨f, rfl, hf', hde, hsk⟩ := parseValue_enter ops lim (.obj w ms) fuel depth w0 rest p hfit.1 hf
  have e0 : (SVal.obj w ms).render ++ rest = 0x7B :: (w.render ++ ms.render ++ 0x7D :: rest) := by
    simp [SVal.render, List.append_assoc]
  rw [e0] at hsk
  rw [parseValue_obj hde (by rw [hsk]), hsk]
  cases ms with
  | nil =>
    have hs2 : skipWs (Cur.adv ⟨0x7B :: (w.render ++ SMembers.nil.render ++ 0x7D :: rest), p + w0.length⟩)
        = ⟨0x7D :: rest, p + w0.length + 1 + w.length⟩ := by
      have := skipWs_ws w (0x7D :: rest) (p + w0.length + 1) (noSpaceHead_cons rest (by decide))
      simpa [Cur.adv, SMembers.render] using this
    refine ⟨p + w0.length + 1 + w.length + 1, ?_⟩
    rw [parseObject_empty (by rw [hs2]), hs2]
    simp [SVal.denote, SMembers.denote]
  | cons w1 k w2 w3 v w4 tl =>
    have hs2 : skipWs (Cur.adv ⟨0x7B :: (w.render ++ (SMembers.cons w1 k w2 w3 v w4 tl).render ++ 0x7D :: rest), p + w0.length⟩)
        = ⟨(SMembers.cons w1 k w2 w3 v w4 tl).renderNoLead ++ 0x7D :: rest, p + w0.length + 1 + (w ++ w1).length⟩ := by
      have := skipWs_ws (w ++ w1) ((SMembers.cons w1 k w2 w3 v w4 tl).renderNoLead ++ 0x7D :: rest) (p + w0.length + 1) (by
        simp only [SMembers.renderNoLead, List.append_assoc]
        exact noSpaceHead_renderString k _)
      rw [← this, ws_render_append, SMembers.render_cons_eq]
      simp [Cur.adv, List.append_assoc]
    obtain ⟨r', e2⟩ : ∃ r', (SMembers.cons w1 k w2 w3 v w4 tl).renderNoLead ++ 0x7D :: rest = 0x22 :: r' := by
      simp only [SMembers.renderNoLead, renderString, List.cons_append, List.append_assoc]; exact ⟨_, rfl⟩
    obtain ⟨p2, h2⟩ := hol (by simp) f depth (((SMembers.cons w1 k w2 w3 v w4 tl).renderNoLead ++ 0x7D :: rest).length + 1) [] rest
      (p + w0.length + 1 + (w ++ w1).length) hok hfit.2.2 (by simp only [List.length_nil]; omega) hf' (Nat.le_refl _)
    refine ⟨p2, ?_⟩
    rw [parseObject_loop (by rw [hs2, e2]) (by decide), hs2, ← e2, h2]
    simp [SVal.denote]

/-! ### the induction -/

theorem pv_all (ops : FloatOps) (lim : Limits) (v : SVal) : PVStmt ops lim v :=
  SVal.rec (motive_1 := PVStmt ops lim) (motive_2 := ALStmt ops lim) (motive_3 := OLStmt ops lim)
    (pv_null ops lim) (pv_true ops lim) (pv_false ops lim) (pv_num ops lim) (pv_str ops lim)
    (fun w es ih => pv_arr ops lim w es ih) (fun w ms ih => pv_obj ops lim w ms ih)
    (al_nil ops lim) (fun w1 v w2 tl ihv ihtl => al_cons ops lim w1 v w2 tl ihv ihtl)
    (ol_nil ops lim) (fun w1 k w2 w3 v w4 tl ihv ihtl => ol_cons ops lim w1 k w2 w3 v w4 tl ihv ihtl) v

/-- **J1**: every RFC 8259 text within the limits is accepted and decoded to the reference value -/
theorem parse_render (ops : FloatOps) (lim : Limits) (t : SText) (hok : t.ok) (hfit : t.fits lim) :
    parse ops lim t.render = .ok (t.denote ops) := by
  obtain ⟨p', h⟩ := pv_all ops lim t.v (lim.depthMax + 2) 0 [] t.w2.render (0 + t.w1.length) hok hfit
    (by have := stopHead_ws t.w2 [] stopHead_nil; simpa using this) (by omega)
  have hsk := skipWs_ws t.w1 (t.v.render ++ t.w2.render) 0 (noSpaceHead_render t.v _)
  obtain ⟨b, r, hr, -⟩ := render_head t.v
  have hsk2 := skipWs_ws t.w2 [] p' (fun b r e => by cases e)
  simp only [ws_render_nil, List.nil_append, List.append_nil] at h hsk2
  unfold parse SText.render
  rw [List.append_assoc, hsk]
  simp only [hr, List.cons_append]
  rw [hr] at h
  simp only [List.cons_append] at h
  rw [h]
  simp only [hsk2]
  rfl

end Iora.Json.Spec
