import IoraModel.Lemmas.UdpEngine
/-!
Part 6 of the C06 lemmas.
* The epoll interest invariant: every listener socket and every client socket always has `EPOLLIN` in the mask last handed to
  epoll, and `EPOLLOUT` exactly when `wantWrite && !wq.empty()` — so an arriving datagram is never left unseen for lack of interest.
* A session stays in the table, with the same peer / role / owner, unless a step closes it (and says so).
* The per-datagram (trace) form of index stability inside one `recvfrom` loop.
-/
namespace Iora.Udp

/-! ### interest masks -/

/-- the translated facts the invariant needs: `addEpoll` arms `EPOLLIN`, the rebuilt masks keep it -/
def ArmFacts (cfg : Cfg) : Prop :=
  cfg.listenerAddIn = true ∧ cfg.listenerUpdIn = true ∧ cfg.clientAddIn = true ∧ cfg.clientUpdIn = true

def LstOk (l : Lst) : Prop := l.armIn = true ∧ l.armOut = (l.wantWrite && !l.wq.isEmpty)
def SessOk (s : Sess) : Prop := s.role = .client → s.armIn = true ∧ s.armOut = (s.wantWrite && !s.wq.isEmpty)

structure ArmC (ss : Nat → Option Sess) (ls : Nat → Option Lst) : Prop where
  lst : ∀ (lid : Nat) l, ls lid = some l → LstOk l
  cli : ∀ (sid : Nat) s, ss sid = some s → SessOk s

def ArmInv (st : State) : Prop := ArmC st.sessions st.listeners

theorem arm_init : ArmInv {} := ⟨fun _ _ h => by simp at h, fun _ _ h => by simp at h⟩

theorem ArmC.setSess {ss : Nat → Option Sess} {ls : Nat → Option Lst} (h : ArmC ss ls) (sid : Nat) (v : Option Sess)
    (hv : ∀ s, v = some s → SessOk s) : ArmC (upd ss sid v) ls := by
  refine ⟨h.lst, fun x s hx => ?_⟩
  by_cases e : x = sid
  · subst e; simp at hx; exact hv s hx
  · rw [upd_other _ _ _ _ e] at hx; exact h.cli x s hx

theorem ArmC.setLst {ss : Nat → Option Sess} {ls : Nat → Option Lst} (h : ArmC ss ls) (lid : Nat) (v : Option Lst)
    (hv : ∀ l, v = some l → LstOk l) : ArmC ss (upd ls lid v) := by
  refine ⟨fun x l hx => ?_, h.cli⟩
  by_cases e : x = lid
  · subst e; simp at hx; exact hv l hx
  · rw [upd_other _ _ _ _ e] at hx; exact h.lst x l hx

theorem updL_ok (cfg : Cfg) (hf : ArmFacts cfg) (l : Lst) : LstOk (updL cfg l) := ⟨hf.2.1, rfl⟩
theorem updC_ok (cfg : Cfg) (hf : ArmFacts cfg) (s : Sess) : SessOk (updC cfg s) := fun _ => ⟨hf.2.2.2, rfl⟩

/-- a session replaced by one with the same queue / flags / mask (timestamps only) stays ok -/
theorem SessOk.same {s s' : Sess} (h : SessOk s) (hr : s'.role = s.role) (h1 : s'.armIn = s.armIn) (h2 : s'.armOut = s.armOut)
    (h3 : s'.wantWrite = s.wantWrite) (h4 : s'.wq = s.wq) : SessOk s' := by
  intro hc
  rw [hr] at hc
  rw [h1, h2, h3, h4]
  exact h hc

theorem closeNow_arm (cfg : Cfg) (st : State) (sid : Nat) (w : Why) (h : ArmInv st) : ArmInv (closeNow cfg st sid w).1 := by
  unfold closeNow
  split
  · exact h
  · exact ArmC.setSess h sid none (fun _ hh => by cases hh)

theorem closeAll_arm (cfg : Cfg) (w : Why) : ∀ (l : List Nat) (st : State), ArmInv st → ArmInv (closeAll cfg w st l).1
  | [], _, h => h
  | x :: rest, st, h => by
    simp only [closeAll]
    exact closeAll_arm cfg w rest _ (closeNow_arm cfg st x w h)

theorem recvOne_arm (cfg : Cfg) (lid : Lid) (st : State) (d : Nat × Bytes) (h : ArmInv st) : ArmInv (recvOne cfg lid st d).1 := by
  unfold recvOne
  simp only
  split
  · exact h
  · split
    · split
      · exact h
      · exact ArmC.setSess h _ _ (fun s hs => by cases hs; intro hc; cases hc)
    · split
      · exact h
      · rename_i s hs
        exact ArmC.setSess h _ _ (fun s' hs' => by cases hs'; exact (h.cli _ s hs).same rfl rfl rfl rfl rfl)

theorem recvMany_arm (cfg : Cfg) (lid : Lid) : ∀ (ds : List (Nat × Bytes)) (st : State), ArmInv st → ArmInv (recvMany cfg lid st ds).1
  | [], _, h => h
  | d :: ds, st, h => by
    simp only [recvMany]
    exact recvMany_arm cfg lid ds _ (recvOne_arm cfg lid st d h)

theorem clientRecvMany_arm (cfg : Cfg) (sid : Nat) : ∀ (ds : List Bytes) (st : State), ArmInv st → ArmInv (clientRecvMany cfg sid st ds).1
  | [], _, h => h
  | d :: ds, st, h => by
    simp only [clientRecvMany]
    apply clientRecvMany_arm cfg sid ds
    split
    · exact h
    · unfold touchClient
      split
      · exact h
      · rename_i s hs
        exact ArmC.setSess h _ _ (fun s' hs' => by cases hs'; exact (h.cli _ s hs).same rfl rfl rfl rfl rfl)

theorem step_arm (cfg : Cfg) (hf : ArmFacts cfg) (tok : Nat) (st : State) (i : In) (h : ArmInv st) : ArmInv (step cfg tok st i).1 := by
  cases i with
  | listen v6 =>
    exact ArmC.setLst h _ _ (fun l hl => by cases hl; exact ⟨hf.1, rfl⟩)
  | recvFrom lid dgs =>
    simp only [step]; split
    · exact h
    · split
      · exact recvMany_arm cfg lid dgs st h
      · exact h
  | clientRecv sid dgs =>
    simp only [step]; split
    · exact h
    · split
      · exact h
      · split
        · exact clientRecvMany_arm cfg sid dgs st h
        · exact h
  | recvKeyFail lid n =>
    simp only [step]; split
    · exact h
    · split <;> exact h
  | viaKeyFail lid => exact h
  | connect a v6 =>
    exact ArmC.setSess h _ _ (fun s hs => by cases hs; intro _; exact ⟨hf.2.2.1, rfl⟩)
  | via lid a v6 =>
    simp only [step, viaDo]
    split
    · exact h
    · split
      · exact h
      · split
        · exact h
        · exact ArmC.setSess h _ _ (fun s hs => by cases hs; intro hc; cases hc)
  | cmdSend sid p ans =>
    simp only [step]; split
    · exact h
    · unfold sendDo
      cases hs : st.sessions sid with
      | none => exact h
      | some s =>
        dsimp only
        cases hr : s.role with
        | client =>
          dsimp only
          cases kernelAns _ p ans with
          | ok => exact ArmC.setSess h _ _ (fun s' hs' => by cases hs'; exact (h.cli _ s hs).same (by simp [hr]) rfl rfl rfl rfl)
          | eagain =>
            dsimp only
            split
            · split
              · exact closeNow_arm cfg st sid _ h
              · exact ArmC.setSess h _ _ (fun s' hs' => by cases hs'; exact updC_ok cfg hf _)
            · exact ArmC.setSess h _ _ (fun s' hs' => by cases hs'; exact updC_ok cfg hf _)
          | err => exact closeNow_arm cfg st sid _ h
        | serverPeer =>
          dsimp only
          cases st.listeners s.owner with
          | none => exact closeNow_arm cfg st sid _ h
          | some l =>
            dsimp only
            cases kernelAns _ p ans with
            | ok => exact ArmC.setSess h _ _ (fun s' hs' => by cases hs'; exact (h.cli _ s hs).same (by simp [hr]) rfl rfl rfl rfl)
            | eagain =>
              dsimp only
              split
              · split
                · exact closeNow_arm cfg _ sid _ (ArmC.setLst h _ _ (fun l' hl' => by cases hl'; exact updL_ok cfg hf _))
                · exact ArmC.setLst h _ _ (fun l' hl' => by cases hl'; exact updL_ok cfg hf _)
              · exact ArmC.setLst h _ _ (fun l' hl' => by cases hl'; exact updL_ok cfg hf _)
            | err => exact closeNow_arm cfg st sid _ h
  | writableL lid as =>
    simp only [step, flushListener]
    split
    · exact h
    · split
      · exact ArmC.setLst h _ _ (fun l' hl' => by cases hl'; exact updL_ok cfg hf _)
      · exact h
  | writableC sid as =>
    simp only [step, writeClient]
    cases st.sessions sid with
    | none => exact h
    | some s =>
      dsimp only
      cases s.role with
      | serverPeer => exact h
      | client =>
        dsimp only
        split
        · split
          · exact closeNow_arm cfg _ sid _ (ArmC.setSess h _ _ (fun s' hs' => by cases hs'; exact updC_ok cfg hf _))
          · exact ArmC.setSess h _ _ (fun s' hs' => by cases hs'; exact updC_ok cfg hf _)
        · exact h
  | close sid => exact closeNow_arm cfg st sid _ h
  | advance ms => exact h
  | gc => exact closeAll_arm cfg _ _ st h
  | restart => exact ⟨fun _ _ hh => by simp [step, shutdownDrain] at hh, fun _ _ hh => by simp [step, shutdownDrain] at hh⟩

theorem runFrom_arm (cfg : Cfg) (hf : ArmFacts cfg) : ∀ (is : List In) (n : Nat) (st : State), ArmInv st → ArmInv (runFrom cfg n st is).1
  | [], _, _, h => h
  | i :: is, n, st, h => by
    simp only [runFrom]
    exact runFrom_arm cfg hf is _ _ (step_arm cfg hf n st i h)

theorem run_arm (cfg : Cfg) (hf : ArmFacts cfg) (is : List In) : ArmInv (run cfg is).1 := runFrom_arm cfg hf is 0 {} arm_init

/-! ### sessions stay -/

/-- same peer, role and owner -/
def Same (s s' : Sess) : Prop := s'.peer = s.peer ∧ s'.role = s.role ∧ s'.owner = s.owner

theorem Same.rfl' (s : Sess) : Same s s := ⟨rfl, rfl, rfl⟩

/-- either the session is still there (same peer/role/owner) or the outputs report its close -/
def Stays (sid : Nat) (s : Sess) (r : State × List Out) : Prop :=
  (∃ s', r.1.sessions sid = some s' ∧ Same s s') ∨ ∃ w, Out.closed sid w ∈ r.2

theorem stays_upd_other (st : State) (sid x : Nat) (s : Sess) (v : Option Sess) (hs : st.sessions sid = some s) (hne : sid ≠ x)
    (ss' : Nat → Option Sess) (hss : ss' = upd st.sessions x v) : ∃ s', ss' sid = some s' ∧ Same s s' :=
  ⟨s, by rw [hss, upd_other _ _ _ _ hne]; exact hs, Same.rfl' s⟩

theorem closeNow_stays (cfg : Cfg) (st : State) (x : Nat) (w : Why) (sid : Nat) (s : Sess) (hs : st.sessions sid = some s) :
    Stays sid s (closeNow cfg st x w) := by
  unfold closeNow
  cases hx : st.sessions x with
  | none => exact Or.inl ⟨s, hs, Same.rfl' s⟩
  | some sx =>
    by_cases e : sid = x
    · subst e; exact Or.inr ⟨w, by simp⟩
    · exact Or.inl (stays_upd_other st sid x s none hs e _ rfl)

theorem closeAll_stays (cfg : Cfg) (w : Why) (sid : Nat) : ∀ (l : List Nat) (st : State) (s : Sess), st.sessions sid = some s →
    Stays sid s (closeAll cfg w st l)
  | [], st, s, hs => Or.inl ⟨s, hs, Same.rfl' s⟩
  | x :: rest, st, s, hs => by
    simp only [closeAll]
    rcases closeNow_stays cfg st x w sid s hs with ⟨s1, h1, hsame1⟩ | ⟨w', hw⟩
    · rcases closeAll_stays cfg w sid rest _ s1 h1 with ⟨s2, h2, hsame2⟩ | ⟨w', hw⟩
      · exact Or.inl ⟨s2, h2, hsame2.1.trans hsame1.1, hsame2.2.1.trans hsame1.2.1, hsame2.2.2.trans hsame1.2.2⟩
      · exact Or.inr ⟨w', List.mem_append_right _ hw⟩
    · exact Or.inr ⟨w', List.mem_append_left _ hw⟩

theorem recvOne_same (cfg : Cfg) (lid : Lid) (st : State) (d : Nat × Bytes) (h : Inv cfg st) (sid : Nat) (s : Sess)
    (hs : st.sessions sid = some s) : ∃ s', (recvOne cfg lid st d).1.sessions sid = some s' ∧ Same s s' := by
  unfold recvOne
  simp only
  split
  · exact ⟨s, hs, Same.rfl' s⟩
  · split
    · split
      · exact ⟨s, hs, Same.rfl' s⟩
      · have : sid ≠ st.nextSid := by have := h.fresh sid s hs; omega
        exact stays_upd_other st sid _ s _ hs this _ rfl
    · rename_i sid' _
      split
      · exact ⟨s, hs, Same.rfl' s⟩
      · rename_i s' hs'
        by_cases e : sid = sid'
        · subst e; rw [hs] at hs'; cases hs'
          exact ⟨{ s with lastActivity := st.now }, by simp, rfl, rfl, rfl⟩
        · exact stays_upd_other st sid _ s _ hs e _ rfl

theorem recvMany_same (cfg : Cfg) (lid : Lid) : ∀ (ds : List (Nat × Bytes)) (st : State), Inv cfg st → ∀ (sid : Nat) (s : Sess),
    st.sessions sid = some s → ∃ s', (recvMany cfg lid st ds).1.sessions sid = some s' ∧ Same s s'
  | [], st, _, sid, s, hs => ⟨s, hs, Same.rfl' s⟩
  | d :: ds, st, h, sid, s, hs => by
    obtain ⟨s1, h1, e1⟩ := recvOne_same cfg lid st d h sid s hs
    obtain ⟨s2, h2, e2⟩ := recvMany_same cfg lid ds _ (recvOne_inv cfg lid st d h) sid s1 h1
    exact ⟨s2, by simpa [recvMany] using h2, e2.1.trans e1.1, e2.2.1.trans e1.2.1, e2.2.2.trans e1.2.2⟩

theorem clientRecvMany_same (cfg : Cfg) (x : Nat) : ∀ (ds : List Bytes) (st : State) (sid : Nat) (s : Sess),
    st.sessions sid = some s → ∃ s', (clientRecvMany cfg x st ds).1.sessions sid = some s' ∧ Same s s'
  | [], st, sid, s, hs => ⟨s, hs, Same.rfl' s⟩
  | d :: ds, st, sid, s, hs => by
    simp only [clientRecvMany]
    split
    · exact clientRecvMany_same cfg x ds st sid s hs
    · unfold touchClient
      split
      · exact clientRecvMany_same cfg x ds st sid s hs
      · rename_i sx hx
        by_cases e : sid = x
        · subst e; rw [hs] at hx; cases hx
          obtain ⟨s2, h2, e2⟩ := clientRecvMany_same cfg sid ds
            { st with sessions := upd st.sessions sid (some { s with lastActivity := st.now }) } sid { s with lastActivity := st.now } (by simp)
          exact ⟨s2, h2, e2⟩
        · obtain ⟨s2, h2, e2⟩ := clientRecvMany_same cfg x ds
            { st with sessions := upd st.sessions x (some { sx with lastActivity := st.now }) } sid s
            (by simp only; rw [upd_other _ _ _ _ e]; exact hs)
          exact ⟨s2, h2, e2⟩

/-- **a session stays**: whatever the I/O thread does next, an open session is still in the table afterwards, with the same peer,
role and owner — unless that step closes it, and then the step reports `closed sid`. Holds for client-socket sessions and for
ServerPeer sessions alike; a datagram, a send, a flush or the close/expiry of ANOTHER session never removes or re-peers it. -/
theorem step_stays (cfg : Cfg) (tok : Nat) (st : State) (i : In) (h : Inv cfg st) (sid : Nat) (s : Sess) (hs : st.sessions sid = some s) :
    Stays sid s (step cfg tok st i) := by
  have keep : Stays sid s (st, []) := Or.inl ⟨s, hs, Same.rfl' s⟩
  have fresh : sid ≠ st.nextSid := by have := h.fresh sid s hs; omega
  have touch : ∀ (x : Nat) (sx sx' : Sess) (ls : Nat → Option Lst) (o : List Out), st.sessions x = some sx → Same sx sx' →
      Stays sid s ({ st with sessions := upd st.sessions x (some sx'), listeners := ls }, o) := by
    intro x sx sx' ls o hx hsame
    by_cases e : sid = x
    · subst e; rw [hs] at hx; cases hx
      exact Or.inl ⟨sx', by simp, hsame⟩
    · exact Or.inl (stays_upd_other st sid x s _ hs e _ rfl)
  cases i with
  | listen v6 => exact Or.inl ⟨s, hs, Same.rfl' s⟩
  | recvFrom lid dgs =>
    simp only [step]; split
    · exact keep
    · split
      · exact Or.inl (recvMany_same cfg lid dgs st h sid s hs)
      · exact keep
  | clientRecv x dgs =>
    simp only [step]; split
    · exact keep
    · split
      · exact keep
      · split
        · exact Or.inl (clientRecvMany_same cfg x dgs st sid s hs)
        · exact keep
  | recvKeyFail lid n =>
    simp only [step]; split
    · exact keep
    · split
      · exact Or.inl ⟨s, hs, Same.rfl' s⟩
      · exact keep
  | viaKeyFail lid => exact Or.inl ⟨s, hs, Same.rfl' s⟩
  | connect a v6 => exact Or.inl (stays_upd_other st sid _ s _ hs fresh _ rfl)
  | via lid a v6 =>
    simp only [step, viaDo]
    split
    · exact Or.inl ⟨s, hs, Same.rfl' s⟩
    · split
      · exact Or.inl ⟨s, hs, Same.rfl' s⟩
      · split
        · exact Or.inl ⟨s, hs, Same.rfl' s⟩
        · exact Or.inl (stays_upd_other st sid _ s _ hs fresh _ rfl)
  | cmdSend x p ans =>
    simp only [step]; split
    · exact keep
    · unfold sendDo
      cases hx : st.sessions x with
      | none => exact keep
      | some sx =>
        dsimp only
        cases hr : sx.role with
        | client =>
          dsimp only
          cases kernelAns _ p ans with
          | ok => exact touch x sx _ st.listeners _ hx ⟨rfl, by simp [hr], rfl⟩
          | eagain =>
            dsimp only
            split
            · split
              · exact closeNow_stays cfg st x _ sid s hs
              · exact touch x sx _ st.listeners _ hx ⟨rfl, by simp [hr], rfl⟩
            · exact touch x sx _ st.listeners _ hx ⟨rfl, by simp [hr], rfl⟩
          | err => exact closeNow_stays cfg st x _ sid s hs
        | serverPeer =>
          dsimp only
          cases st.listeners sx.owner with
          | none => exact closeNow_stays cfg st x _ sid s hs
          | some l =>
            dsimp only
            cases kernelAns _ p ans with
            | ok => exact touch x sx _ st.listeners _ hx ⟨rfl, by simp [hr], rfl⟩
            | eagain =>
              dsimp only
              split
              · split
                · exact closeNow_stays cfg _ x _ sid s hs
                · exact Or.inl ⟨s, hs, Same.rfl' s⟩
              · exact Or.inl ⟨s, hs, Same.rfl' s⟩
            | err => exact closeNow_stays cfg st x _ sid s hs
  | writableL lid as =>
    simp only [step, flushListener]
    split
    · exact keep
    · split
      · exact Or.inl ⟨s, hs, Same.rfl' s⟩
      · exact keep
  | writableC x as =>
    simp only [step, writeClient]
    cases hx : st.sessions x with
    | none => exact keep
    | some sx =>
      dsimp only
      cases hr : sx.role with
      | serverPeer => exact keep
      | client =>
        dsimp only
        split
        · split
          · by_cases e : sid = x
            · subst e
              refine Or.inr ⟨.socket, List.mem_append_right _ ?_⟩
              simp [closeNow]
            · refine Or.imp id (fun ⟨w, h1⟩ => ⟨w, List.mem_append_right _ h1⟩) (closeNow_stays cfg _ x .socket sid s ?_)
              simp only; rw [upd_other _ _ _ _ e]; exact hs
          · exact touch x sx _ st.listeners _ hx ⟨rfl, by simp [hr], rfl⟩
        · exact keep
  | close x => exact closeNow_stays cfg st x _ sid s hs
  | advance ms => exact Or.inl ⟨s, hs, Same.rfl' s⟩
  | gc => exact closeAll_stays cfg _ sid _ st s hs
  | restart => exact Or.inr ⟨.unknown, drainAll_closes cfg sid s _ st (List.mem_range.mpr (h.fresh sid s hs)) hs⟩

/-! ### per-datagram form of index stability inside one `recvfrom` loop -/

theorem recvMany_append (cfg : Cfg) (lid : Lid) : ∀ (a b : List (Nat × Bytes)) (st : State),
    recvMany cfg lid st (a ++ b) =
      ((recvMany cfg lid (recvMany cfg lid st a).1 b).1, (recvMany cfg lid st a).2 ++ (recvMany cfg lid (recvMany cfg lid st a).1 b).2)
  | [], _, _ => by simp [recvMany]
  | x :: a, b, st => by simp [recvMany, recvMany_append cfg lid a b]

/-- inside ONE `recvfrom` loop that returns `pre ++ d :: post`: if `a ↦ sid` when the loop starts, the datagram `d` from `a` — wherever
it sits in the batch, whatever other peers' datagrams (and accepts) come before it — is exactly one data event on `sid`. -/
theorem recvMany_trace (cfg : Cfg) (hK : KeyInjective cfg.key) (lid : Lid) (st : State) (h : Inv cfg st) (a sid : Nat) (hix : st.peerIndex (cfg.key a) = some sid)
    (pre post : List (Nat × Bytes)) (d : Nat × Bytes) (hd : d.1 = a) (hne : d.2 ≠ []) (hlen : d.2.length ≤ cfg.ioReadChunk) :
    (recvOne cfg lid (recvMany cfg lid st pre).1 d).2 = [.data sid d.2] ∧
    (recvMany cfg lid st (pre ++ d :: post)).2 =
      (recvMany cfg lid st pre).2 ++ [.data sid d.2] ++ (recvMany cfg lid (recvOne cfg lid (recvMany cfg lid st pre).1 d).1 post).2 := by
  have h1 := recvMany_inv cfg lid pre st h
  have h2 := recvMany_keeps_idx cfg lid (cfg.key a) sid pre st hix
  obtain ⟨sid', s, _, _, _, _, hout⟩ := recvOne_spec cfg hK lid _ d.1 d.2 h1 hne hlen (Or.inr (by rw [hd, h2]; rfl))
  have hone : (recvOne cfg lid (recvMany cfg lid st pre).1 d).2 = [.data sid d.2] := by
    rcases hout with ⟨e1, e2⟩ | ⟨e1, _, _⟩
    · rw [hd, h2] at e1; cases e1; exact e2
    · rw [hd, h2] at e1; cases e1
  refine ⟨hone, ?_⟩
  rw [recvMany_append]
  simp only [recvMany, hone, List.append_assoc]

end Iora.Udp
